(* C17: the q grammar, the range check and the per-item contribution (C17_ignored). *)
From Coq Require Import ZArith Lia.
From Wz Require Import lib.Bytes lib.BytesFacts C17.LibSort C17.Base C17.Gen C17.Model C17.Spec C17.ProofsOrder.
Open Scope N_scope.

(* ---------------------------------------------------------------- take_while / drop_while *)
Lemma take_drop (p : N -> bool) s : s = take_while p s ++ drop_while p s.
Proof.
  induction s as [|x r IH]; cbn [take_while drop_while app]; [reflexivity|].
  destruct (p x); cbn [app]; [now f_equal | reflexivity].
Qed.
Lemma take_while_all (p : N -> bool) s : forallb p (take_while p s) = true.
Proof.
  induction s as [|x r IH]; cbn [take_while forallb]; [reflexivity|].
  destruct (p x) eqn:E; cbn [forallb]; [now rewrite E | reflexivity].
Qed.
Lemma take_while_id (p : N -> bool) s : forallb p s = true -> take_while p s = s /\ drop_while p s = [].
Proof.
  induction s as [|x r IH]; cbn [take_while drop_while forallb]; [auto|].
  intro H. apply andb_prop in H as [Hx Hr]. rewrite Hx. destruct (IH Hr) as [-> ->]. auto.
Qed.

(* ---------------------------------------------------------------- parse_q against the grammar *)
Definition parse_q_body (neg : bool) (s1 : str) : option Qd :=
  let sg (z : Z) : Z := if neg then Z.opp z else z in
  match take_while is_digit s1, drop_while is_digit s1 with
  | [], _ => None
  | ip, [] => Some (sg (digits_val ip), 0)
  | ip, c :: fp => if (c =? DOT) && nonempty fp && forallb is_digit fp
                   then Some (sg (digits_val (ip ++ fp)), N.of_nat (length fp))
                   else None
  end.

Lemma parse_q_unfold s :
  parse_q s = match s with
              | c :: t => if c =? MINUS then parse_q_body true t else parse_q_body false s
              | [] => parse_q_body false []
              end.
Proof. destruct s as [|c t]; [reflexivity|]. unfold parse_q. destruct (c =? MINUS); reflexivity. Qed.

Lemma parse_q_body_sound neg s1 q :
  parse_q_body neg s1 = Some q ->
  q_literal ((if neg then [MINUS] else []) ++ s1) q.
Proof.
  unfold parse_q_body. pose proof (take_drop is_digit s1) as Hs. pose proof (take_while_all is_digit s1) as Hd.
  destruct (take_while is_digit s1) as [|d ip] eqn:Et; [discriminate|].
  destruct (drop_while is_digit s1) as [|c fp] eqn:Ed.
  - intros [= <-]. exists neg, (d :: ip), None. rewrite Hs. cbn [app length].
    repeat split; auto; try discriminate. rewrite !app_nil_r. reflexivity.
  - destruct (c =? DOT) eqn:Ec; [|discriminate]. apply N.eqb_eq in Ec. subst c.
    destruct fp as [|f0 fp]; [discriminate|]. cbn [nonempty is_nil negb andb].
    destruct (forallb is_digit (f0 :: fp)) eqn:Ef; [|discriminate].
    intros [= <-]. exists neg, (d :: ip), (Some (f0 :: fp)). rewrite Hs.
    repeat split; auto; discriminate.
Qed.

Lemma parse_q_sound s q : parse_q s = Some q -> q_literal s q.
Proof.
  rewrite parse_q_unfold. destruct s as [|c t].
  - intro H. apply (parse_q_body_sound false [] q H).
  - destruct (c =? MINUS) eqn:E.
    + apply N.eqb_eq in E. subst c. intro H. apply (parse_q_body_sound true t q H).
    + intro H. apply (parse_q_body_sound false (c :: t) q H).
Qed.

Lemma dot_not_digit : is_digit DOT = false.
Proof. reflexivity. Qed.
Lemma digit_not_minus d : is_digit d = true -> (d =? MINUS) = false.
Proof. unfold is_digit, MINUS. intro H. apply N.eqb_neq. lia. Qed.

Lemma parse_q_body_complete neg ip fp :
  all_digits ip -> match fp with Some f => all_digits f | None => True end ->
  parse_q_body neg (ip ++ match fp with Some f => DOT :: f | None => [] end)
  = let f := match fp with Some f => f | None => [] end in
    Some ((if neg then Z.opp (digits_val (ip ++ f)) else digits_val (ip ++ f)), N.of_nat (length f)).
Proof.
  intros [Hne Hip] Hfp. unfold parse_q_body. destruct fp as [f|].
  - destruct Hfp as [Hfne Hf].
    rewrite (take_while_app_stop _ _ _ _ Hip dot_not_digit), (drop_while_app_stop _ _ _ _ Hip dot_not_digit).
    destruct ip as [|d ip]; [congruence|]. rewrite N.eqb_refl, Hf.
    destruct f; [congruence|]. reflexivity.
  - rewrite app_nil_r. destruct (take_while_id _ _ Hip) as [-> ->].
    destruct ip as [|d ip]; [congruence|]. cbn [length]. reflexivity.
Qed.

Lemma parse_q_complete s q : q_literal s q -> parse_q s = Some q.
Proof.
  intros (neg & ip & fp & -> & Hip & Hfp & ->). rewrite parse_q_unfold.
  destruct neg; cbn [app].
  - rewrite N.eqb_refl. now apply parse_q_body_complete.
  - destruct Hip as [Hne Hd]. destruct ip as [|d ip]; [congruence|]. cbn [app].
    cbn [forallb] in Hd. apply andb_prop in Hd as [Hd0 Hd].
    rewrite (digit_not_minus _ Hd0).
    apply (parse_q_body_complete false (d :: ip) fp).
    + split; [discriminate|]. cbn [forallb]. now rewrite Hd0, Hd.
    + exact Hfp.
Qed.

(* a literal has one value *)
Lemma q_literal_functional s q q' : q_literal s q -> q_literal s q' -> q = q'.
Proof. intros H H'. apply parse_q_complete in H, H'. congruence. Qed.

(* ---------------------------------------------------------------- the range check (generated) *)
Lemma q_out_of_range_spec q : q_out_of_range q = false <-> q_in_range q.
Proof.
  unfold q_out_of_range, g_q_out_of_range, q_in_range. fold zero. fold one. rewrite orb_false_iff, !qltb_false. tauto.
Qed.

Lemma q_default_one : q_default = one.
Proof. reflexivity. Qed.

(* ---------------------------------------------------------------- contribution / collect *)
Lemma contribution_contributes raw c : contribution raw = Ok c -> contributes raw c.
Proof.
  unfold contribution, contributes.
  destruct (parse_options_header raw) as [[value options]|e]; [|discriminate].
  intro H. exists value, options. split; [reflexivity|]. unfold q_decide in H.
  destruct (assoc_get q_key options) as [qs|].
  - destruct (parse_q (strip uni_ws qs)) as [q|] eqn:Eq.
    + apply parse_q_sound in Eq. destruct (q_out_of_range q) eqn:Er.
      * injection H as <-. split.
        -- intros q' Hl Hr. rewrite (q_literal_functional _ _ _ Hl Eq) in Hr.
           apply q_out_of_range_spec in Hr. congruence.
        -- reflexivity.
      * injection H as <-. split.
        -- intros q' Hl _. rewrite (q_literal_functional _ _ _ Hl Eq). reflexivity.
        -- intro Hno. exfalso. apply (Hno q Eq). now apply q_out_of_range_spec.
    + injection H as <-. split; [|reflexivity].
      intros q Hl _. apply parse_q_complete in Hl. congruence.
  - rewrite q_default_one in H. injection H as <-. reflexivity.
Qed.

Lemma collect_contributes raws : forall items,
  collect raws = Ok items ->
  exists cs, Forall2 contributes raws cs /\ items = concat cs.
Proof.
  induction raws as [|r t IH]; cbn [collect]; intros items H.
  - injection H as <-. exists []. split; [constructor | reflexivity].
  - destruct (contribution r) as [c|e] eqn:Ec; [|discriminate].
    destruct (collect t) as [l|e]; [|discriminate]. injection H as <-.
    destruct (IH l eq_refl) as (cs & H1 & ->). exists (c :: cs). split; [|reflexivity].
    constructor; [now apply contribution_contributes | exact H1].
Qed.

(* C17_ignored *)
Lemma accept_items_contributions value items :
  accept_items value = Ok items ->
  (value = [] /\ items = []) \/
  exists cs, Forall2 contributes (parse_list_header value) cs /\ items = concat cs.
Proof.
  unfold accept_items. destruct value as [|c t]; cbn [is_nil].
  - intros [= <-]. now left.
  - intro H. right. now apply collect_contributes.
Qed.

(* ---------------------------------------------------------------- the options loop never runs out of fuel *)
Lemma drop_while_length (p : N -> bool) s : (length (drop_while p s) <= length s)%nat.
Proof. induction s as [|x r IH]; cbn [drop_while length]; [lia|]. destruct (p x); cbn [length]; lia. Qed.

Lemma partition1_length x s a b : partition1 x s = (a, Some b) -> (length b < length s)%nat.
Proof.
  revert a. induction s as [|y r IH]; cbn [partition1]; intros a; [discriminate|].
  destruct (x =? y).
  - intros [= <- <-]. cbn [length]. lia.
  - destruct (partition1 x r) as [a' b'] eqn:E. intros [= _ Hb]. subst b'. specialize (IH a' eq_refl). cbn [length]. lia.
Qed.

Lemma key_match_length s k r : key_match s = Some (k, r) -> (length r < length s)%nat.
Proof.
  unfold key_match. pose proof (take_drop is_param_key s) as Hs.
  destruct (take_while is_param_key s) as [|a k']; [discriminate|].
  destruct (drop_while is_param_key s) as [|c r']; [discriminate|].
  destruct (c =? EQS); [|discriminate]. intros [= <- <-].
  rewrite Hs, app_length. cbn [length]. lia.
Qed.

Lemma scan_quoted_length s : forall acc pv rest, scan_quoted s acc = Some (pv, rest) -> (length rest < length s)%nat.
Proof.
  induction s as [s IH] using (well_founded_induction (Wf_nat.well_founded_ltof _ (@length N))).
  unfold Wf_nat.ltof in IH. intros acc pv rest. destruct s as [|c t]; cbn [scan_quoted]; [discriminate|].
  destruct (c =? BS).
  - destruct t as [|d t']; [discriminate|].
    destruct ((d =? BS) || (d =? DQ)); intro H; apply IH in H; cbn [length] in *; lia.
  - destruct (c =? DQ).
    + intros [= <- <-]. cbn [length]. lia.
    + intro H. apply IH in H; cbn [length] in *; lia.
Qed.

Lemma opt_step_length rest parts rest1 parts1 :
  opt_step rest parts = (rest1, parts1) -> (length rest1 <= length rest)%nat.
Proof.
  unfold opt_step. destruct (key_match rest) as [[k r]|] eqn:Ek.
  - apply key_match_length in Ek. destruct (token_match r).
    + intros [= <- <-]. lia.
    + destruct r as [|c t]; [intros [= <- <-]; cbn [length]; lia|].
      destruct (c =? DQ).
      * destruct (scan_quoted t [c]) as [[pv rest2]|] eqn:Es.
        -- apply scan_quoted_length in Es. intros [= <- <-]. cbn [length] in *. lia.
        -- intros [= <- <-]. lia.
      * intros [= <- <-]. lia.
  - intros [= <- <-]. lia.
Qed.

Lemma opt_loop_fuel fuel : forall rest parts,
  (length rest < fuel)%nat -> exists parts', opt_loop fuel rest parts = Ok parts'.
Proof.
  induction fuel as [|f IH]; intros rest parts Hf; [lia|]. cbn [opt_loop].
  destruct (opt_step rest parts) as [rest1 parts1] eqn:Es. apply opt_step_length in Es.
  destruct (partition1 SEMI rest1) as [a [after|]] eqn:Ep.
  - apply partition1_length in Ep. apply IH. pose proof (drop_while_length uni_ws after). lia.
  - eauto.
Qed.

(* parse_options_header never answers OutOfFuel *)
Lemma parse_options_header_fuel value : parse_options_header value <> Err OutOfFuel.
Proof.
  unfold parse_options_header. destruct (partition1 SEMI value) as [v r].
  destruct (is_nil (strip uni_ws v) || is_nil (strip uni_ws match r with Some x => x | None => [] end)); [discriminate|].
  set (rest := strip uni_ws match r with Some x => x | None => [] end).
  destruct (opt_loop_fuel (S (length rest)) rest [] (Nat.lt_succ_diag_r _)) as (parts & ->).
  assert (H : forall ps o e c, process_parts ps o e c <> Err OutOfFuel).
  { induction ps as [|[pk pv] t IH]; intros o e c; cbn [process_parts]; [discriminate|].
    assert (Hs : forall pv e c, star_value pv e c <> Err OutOfFuel).
    { intros pv0 e0 c0. unfold star_value.
      destruct (charset_match pv0) as [[e1 v1]|]; cbv beta iota zeta;
        repeat first [ discriminate
                     | match goal with |- context [match ?x with _ => _ end] => destruct x end ]. }
    destruct (last_is STAR pk).
    - specialize (Hs pv e c). destruct (star_value pv e c) as [[[pv0 e' ] c']|er]; [|congruence].
      destruct (is_nil pv0); [discriminate|]. destruct (continuation_split (removelast pk)); apply IH.
    - destruct (is_nil pv); [discriminate|]. destruct (continuation_split pk); apply IH. }
  specialize (H parts [] None None). destruct (process_parts parts [] None None); [discriminate | congruence].
Qed.

Lemma accept_items_fuel value : accept_items value <> Err OutOfFuel.
Proof.
  unfold accept_items. destruct (is_nil value); [discriminate|].
  induction (parse_list_header value) as [|r t IH]; cbn [collect]; [discriminate|].
  unfold contribution. pose proof (parse_options_header_fuel r) as Hf.
  destruct (parse_options_header r) as [[item options]|e].
  - destruct (q_decide options) as [|q rest]; destruct (collect t); try discriminate; congruence.
  - congruence.
Qed.
