(* C17: order facts about decimal rationals, specificity tuples and the sort key; the parsed list
   as a stable sort (C17_order). *)
From Coq Require Import ZArith Lia Permutation Sorted.
From Wz Require Import lib.Bytes C17.LibSort C17.Base C17.Gen C17.Model.
Open Scope N_scope.

(* ---------------------------------------------------------------- decimal rationals *)
Lemma pow10_pos k : (0 < pow10 k)%Z.
Proof. unfold pow10. apply Z.pow_pos_nonneg; lia. Qed.

Lemma qleb_total a b : qleb a b = true \/ qleb b a = true.
Proof. unfold qleb. destruct (Z.leb_spec (fst a * pow10 (snd b)) (fst b * pow10 (snd a))); [now left|].
  right. apply Z.leb_le. lia. Qed.

Lemma qleb_refl a : qleb a a = true.
Proof. destruct (qleb_total a a); assumption. Qed.

Lemma qleb_trans a b c : qleb a b = true -> qleb b c = true -> qleb a c = true.
Proof.
  unfold qleb. rewrite !Z.leb_le. destruct a as [a j], b as [b k], c as [c l]. cbn [fst snd].
  pose proof (pow10_pos j) as Hj. pose proof (pow10_pos k) as Hk. pose proof (pow10_pos l) as Hl.
  set (P := pow10 j) in *. set (Q := pow10 k) in *. set (R := pow10 l) in *.
  intros H1 H2.
  apply (Zmult_le_reg_r _ _ Q); [lia|].
  assert (E1 : (a * Q * R <= b * P * R)%Z) by (apply Z.mul_le_mono_nonneg_r; lia).
  assert (E2 : (b * R * P <= c * Q * P)%Z) by (apply Z.mul_le_mono_nonneg_r; lia).
  replace (a * R * Q)%Z with (a * Q * R)%Z by ring.
  replace (c * P * Q)%Z with (c * Q * P)%Z by ring.
  replace (b * P * R)%Z with (b * R * P)%Z in E1 by ring.
  lia.
Qed.

Lemma qltb_negb a b : qltb a b = negb (qleb b a).
Proof. unfold qltb, qleb. destruct (Z.ltb_spec (fst a * pow10 (snd b)) (fst b * pow10 (snd a)));
  destruct (Z.leb_spec (fst b * pow10 (snd a)) (fst a * pow10 (snd b))); simpl; try reflexivity; lia. Qed.

Lemma qeqb_le a b : qeqb a b = qleb a b && qleb b a.
Proof. unfold qeqb, qleb. destruct (Z.eqb_spec (fst a * pow10 (snd b)) (fst b * pow10 (snd a)));
  destruct (Z.leb_spec (fst a * pow10 (snd b)) (fst b * pow10 (snd a)));
  destruct (Z.leb_spec (fst b * pow10 (snd a)) (fst a * pow10 (snd b))); simpl; try reflexivity; lia. Qed.

Lemma qltb_true a b : qltb a b = true <-> qleb b a = false.
Proof. rewrite qltb_negb. destruct (qleb b a); simpl; split; congruence. Qed.
Lemma qltb_false a b : qltb a b = false <-> qleb b a = true.
Proof. rewrite qltb_negb. destruct (qleb b a); simpl; split; congruence. Qed.

Lemma qlt_le a b : qltb a b = true -> qleb a b = true.
Proof. rewrite qltb_true. intro H. destruct (qleb_total a b); congruence. Qed.
Lemma qle_lt_trans a b c : qleb a b = true -> qltb b c = true -> qltb a c = true.
Proof. rewrite !qltb_true. intros H1 H2. destruct (qleb c a) eqn:E; [|reflexivity].
  rewrite (qleb_trans _ _ _ E H1) in H2. discriminate. Qed.
Lemma qlt_le_trans a b c : qltb a b = true -> qleb b c = true -> qltb a c = true.
Proof. rewrite !qltb_true. intros H1 H2. destruct (qleb c a) eqn:E; [|reflexivity].
  rewrite (qleb_trans _ _ _ H2 E) in H1. discriminate. Qed.
Lemma qlt_irrefl a : qltb a a = false.
Proof. apply qltb_false, qleb_refl. Qed.
Lemma qeqb_true a b : qeqb a b = true <-> qleb a b = true /\ qleb b a = true.
Proof. rewrite qeqb_le. apply andb_true_iff. Qed.
Lemma qle_cases a b : qleb a b = true -> qltb a b = true \/ qeqb a b = true.
Proof. intro H. destruct (qleb b a) eqn:E.
  - right. apply qeqb_true. auto.
  - left. now apply qltb_true. Qed.

(* ---------------------------------------------------------------- specificity tuples *)
Lemma spec_cmp_opp a : forall b, spec_cmp a b = CompOpp (spec_cmp b a).
Proof.
  induction a as [|x a IH]; destruct b as [|y b]; simpl; try reflexivity.
  rewrite (Z.compare_antisym y x). destruct (y ?= x)%Z; simpl; auto.
Qed.

Lemma spec_cmp_eq a : forall b, spec_cmp a b = Eq -> a = b.
Proof.
  induction a as [|x a IH]; destruct b as [|y b]; simpl; try discriminate; auto.
  destruct (x ?= y)%Z eqn:E; try discriminate. intro H. apply Z.compare_eq in E. subst. f_equal. auto.
Qed.

Lemma spec_cmp_refl a : spec_cmp a a = Eq.
Proof. induction a as [|x a IH]; simpl; [reflexivity|]. now rewrite Z.compare_refl. Qed.

Lemma spec_cmp_lt_trans a : forall b c, spec_cmp a b = Lt -> spec_cmp b c = Lt -> spec_cmp a c = Lt.
Proof.
  induction a as [|x a IH]; destruct b as [|y b], c as [|z c]; simpl; try discriminate; auto.
  destruct (Z.compare_spec x y), (Z.compare_spec y z); try discriminate; subst; intros H1 H2.
  - rewrite Z.compare_refl. eauto.
  - now rewrite (proj2 (Z.compare_lt_iff _ _) H0).
  - now rewrite (proj2 (Z.compare_lt_iff _ _) H).
  - assert (x < z)%Z as Hxz by lia. now rewrite (proj2 (Z.compare_lt_iff _ _) Hxz).
Qed.

Lemma spec_cmp_gt_lt a b : spec_cmp a b = Gt <-> spec_cmp b a = Lt.
Proof. rewrite (spec_cmp_opp a b). destruct (spec_cmp b a); simpl; split; congruence. Qed.

Lemma spec_ltb_true a b : spec_ltb a b = true <-> spec_cmp a b = Lt.
Proof. unfold spec_ltb. destruct (spec_cmp a b); split; congruence. Qed.
Lemma spec_leb_true a b : spec_leb a b = true <-> spec_cmp a b <> Gt.
Proof. unfold spec_leb. destruct (spec_cmp a b); split; congruence. Qed.
Lemma spec_leb_cases a b : spec_leb a b = true <-> spec_ltb a b = true \/ a = b.
Proof.
  unfold spec_leb, spec_ltb. destruct (spec_cmp a b) eqn:E; split; try tauto; try congruence.
  - intros _. right. now apply spec_cmp_eq.
  - intros [H|H]; [discriminate|]. subst. rewrite spec_cmp_refl in E. discriminate.
Qed.
Lemma spec_ltb_irrefl a : spec_ltb a a = false.
Proof. unfold spec_ltb. now rewrite spec_cmp_refl. Qed.
Lemma spec_ltb_trans a b c : spec_ltb a b = true -> spec_ltb b c = true -> spec_ltb a c = true.
Proof. rewrite !spec_ltb_true. apply spec_cmp_lt_trans. Qed.
Lemma spec_leb_ltb_trans a b c : spec_leb a b = true -> spec_ltb b c = true -> spec_ltb a c = true.
Proof. rewrite spec_leb_cases. intros [H| ->]; [apply spec_ltb_trans; exact H | auto]. Qed.
Lemma spec_not_ltb_leb a b : spec_ltb a b = false -> spec_leb b a = true.
Proof.
  unfold spec_ltb, spec_leb. rewrite (spec_cmp_opp b a). destruct (spec_cmp a b); simpl; congruence.
Qed.

(* ---------------------------------------------------------------- the sort key *)
Lemma key_geb_total a b : key_geb a b = true \/ key_geb b a = true.
Proof.
  unfold key_geb. rewrite (spec_cmp_opp (fst b) (fst a)).
  destruct (spec_cmp (fst a) (fst b)); simpl; auto. apply qleb_total.
Qed.

Lemma key_geb_trans a b c : key_geb a b = true -> key_geb b c = true -> key_geb a c = true.
Proof.
  unfold key_geb.
  destruct (spec_cmp (fst a) (fst b)) eqn:E1; try discriminate;
  destruct (spec_cmp (fst b) (fst c)) eqn:E2; try discriminate; intros H1 H2.
  - apply spec_cmp_eq in E1, E2. rewrite E1, E2, spec_cmp_refl. eapply qleb_trans; eauto.
  - apply spec_cmp_eq in E1. rewrite E1, E2. reflexivity.
  - apply spec_cmp_eq in E2. rewrite <- E2, E1. reflexivity.
  - apply spec_cmp_gt_lt in E1, E2. pose proof (spec_cmp_lt_trans _ _ _ E2 E1) as H.
    apply spec_cmp_gt_lt in H. now rewrite H.
Qed.

(* both ways: the same specificity and equal qualities *)
Lemma key_geb_antisym a b : key_geb a b = true -> key_geb b a = true ->
  fst a = fst b /\ qeqb (snd a) (snd b) = true.
Proof.
  unfold key_geb. rewrite (spec_cmp_opp (fst b) (fst a)).
  destruct (spec_cmp (fst a) (fst b)) eqn:E; simpl; try discriminate.
  intros H1 H2. split; [now apply spec_cmp_eq|]. apply qeqb_true. auto.
Qed.

Section Items.
  Variable specificity : str -> spec.
  Let geb := item_geb specificity.

  Lemma item_geb_total a b : geb a b = true \/ geb b a = true.
  Proof. apply key_geb_total. Qed.
  Lemma item_geb_trans a b c : geb a b = true -> geb b c = true -> geb a c = true.
  Proof. apply key_geb_trans. Qed.

  Lemma mk_accept_perm items : Permutation (mk_accept specificity items) items.
  Proof. apply sort_perm. Qed.
  Lemma mk_accept_in items x : In x (mk_accept specificity items) <-> In x items.
  Proof. apply sort_in. Qed.
  Lemma mk_accept_sorted items :
    StronglySorted (fun a b => item_geb specificity a b = true) (mk_accept specificity items).
  Proof. apply sort_sorted; [apply item_geb_total | apply item_geb_trans]. Qed.
  Lemma mk_accept_stable items z :
    filter (eqv (item_geb specificity) z) (mk_accept specificity items)
    = filter (eqv (item_geb specificity) z) items.
  Proof. apply sort_stable. apply item_geb_trans. Qed.
End Items.

(* the class of an item under eqv: the same specificity tuple and an equal quality *)
Lemma eqv_item_spec specificity a b :
  eqv (item_geb specificity) a b = true <->
  specificity (fst a) = specificity (fst b) /\ qeqb (snd a) (snd b) = true.
Proof.
  unfold eqv, item_geb. rewrite andb_true_iff. split.
  - intros [H1 H2]. apply (key_geb_antisym _ _ H1 H2).
  - intros [H1 H2]. unfold key_geb, key_of. cbn [fst snd]. rewrite H1, spec_cmp_refl.
    apply qeqb_true in H2. tauto.
Qed.

(* C17_order *)
Lemma parsed_list_is_stable_sort f value acc :
  parse_accept f value = Ok acc ->
  exists items, accept_items value = Ok items
    /\ Permutation acc items
    /\ StronglySorted (fun a b => key_geb (key_of (spec_of f) a) (key_of (spec_of f) b) = true) acc
    /\ forall z, filter (eqv (item_geb (spec_of f)) z) acc = filter (eqv (item_geb (spec_of f)) z) items.
Proof.
  unfold parse_accept. destruct (accept_items value) as [items|e]; [|discriminate].
  intros [= <-]. exists items. split; [reflexivity|]. split; [apply mk_accept_perm|].
  split; [apply mk_accept_sorted | intro z; apply mk_accept_stable].
Qed.
