(* C17 executable model: http.parse_accept_header and datastructures.accept.
   Definitions only (proofs: C17/Proofs*.v).  Decision expressions and tables come from C17/Gen.v
   (regenerated from the source on every run); primitives from C17/Base.v. *)
From Wz Require Import lib.Bytes lib.Utf8 C17.LibSort C17.Base C17.Gen.
Open Scope N_scope.

(* ================================================================ urllib.request.parse_http_list *)
(* `part` is kept reversed *)
Fixpoint phl (s part : str) (escape quote : bool) (res : list str) : list str :=
  match s with
  | [] => rev (if is_nil part then res else rev part :: res)
  | cur :: t =>
      if escape then phl t (cur :: part) false quote res
      else if quote then
        if cur =? BS then phl t part true quote res
        else if cur =? DQ then phl t (cur :: part) false false res
        else phl t (cur :: part) false quote res
      else if cur =? COMMA then phl t [] false false (rev part :: res)
      else if cur =? DQ then phl t (cur :: part) false true res
      else phl t (cur :: part) false quote res
  end.
Definition parse_http_list (s : str) : list str := map (strip uni_ws) (phl s [] false false []).

(* s[1:-1] *)
Definition inner (s : str) : str := removelast (tl s).

(* http.parse_list_header *)
Definition strip_outer_quotes (item : str) : str :=
  if (2 <=? length item)%nat && first_is DQ item && last_is DQ item then inner item else item.
Definition parse_list_header (s : str) : list str := map strip_outer_quotes (parse_http_list s).

(* ================================================================ str.replace (leftmost, non-overlapping) *)
Fixpoint replace_aux (pat rep : str) (skip : nat) (s : str) : str :=
  match s with
  | [] => []
  | c :: t =>
      match skip with
      | S k => replace_aux pat rep k t
      | O => if starts_with pat s then rep ++ replace_aux pat rep (length pat - 1) t
             else c :: replace_aux pat rep 0 t
      end
  end.
Definition replace (pat rep s : str) : str := replace_aux pat rep 0 s.   (* pat non-empty *)

(* ================================================================ http.parse_options_header *)
Definition is_param_key (c : N) : bool := in_ranges c param_key_class.
Definition is_param_token (c : N) : bool := in_ranges c param_token_class.

(* _parameter_key_re.match : (key, rest after the equals sign) *)
Definition key_match (s : str) : option (str * str) :=
  match take_while is_param_key s, drop_while is_param_key s with
  | (_ :: _) as k, c :: r => if c =? EQS then Some (k, r) else None
  | _, _ => None
  end.
(* _parameter_token_value_re.match *)
Definition token_match (s : str) : option str :=
  match take_while is_param_token s with [] => None | tok => Some tok end.

(* the quoted-string scan; s is the text after the opening quote, acc the consumed text reversed
   (opening quote included); returns (rest[:pos+1], rest[pos+1:]) *)
Fixpoint scan_quoted (s acc : str) : option (str * str) :=
  match s with
  | [] => None
  | c :: t =>
      if c =? BS then
        match t with
        | d :: t' => if (d =? BS) || (d =? DQ) then scan_quoted t' (d :: c :: acc) else scan_quoted t (c :: acc)
        | [] => None
        end
      else if c =? DQ then Some (rev (c :: acc), t)
      else scan_quoted t (c :: acc)
  end.

(* one iteration of the collecting loop up to (not including) the search for the next semicolon *)
Definition opt_step (rest : str) (parts : list (str * str)) : str * list (str * str) :=
  match key_match rest with
  | Some (k, rest1) =>
      let pk := lower k in
      match token_match rest1 with
      | Some tok => (rest1, parts ++ [(pk, tok)])
      | None =>
          match rest1 with
          | c :: t => if c =? DQ then
                        match scan_quoted t [c] with
                        | Some (pv, rest2) => (rest2, parts ++ [(pk, pv)])
                        | None => (rest1, parts)
                        end
                      else (rest1, parts)
          | [] => (rest1, parts)
          end
      end
  | None => (rest, parts)
  end.

Fixpoint opt_loop (fuel : nat) (rest : str) (parts : list (str * str)) : result (list (str * str)) :=
  match fuel with
  | O => Err OutOfFuel
  | S f =>
      let '(rest1, parts1) := opt_step rest parts in
      match partition1 SEMI rest1 with
      | (_, None) => Ok parts1
      | (_, Some after) => opt_loop f (drop_while uni_ws after) parts1
      end
  end.

(* _continuation_re.search(pk): the key text before the star when pk ends in star + digits *)
Fixpoint continuation_split (s : str) : option str :=
  match s with
  | [] => None
  | c :: t => if (c =? STAR) && nonempty t && forallb is_digit t then Some []
              else option_map (cons c) (continuation_split t)
  end.

Definition unquote_param (pv : str) : str :=
  if first_is DQ pv && last_is DQ pv
  then replace [PCT; 50; 50] [DQ] (replace [BS; DQ] [DQ] (replace [BS; BS] [BS] (inner pv)))
  else pv.

Definition get_default (k : str) (o : list (str * str)) : str :=
  match assoc_get k o with Some v => v | None => [] end.   (* options.get(pk, "") *)

(* ---- RFC 2231: key*=charset'lang'percent-encoded-value *)
Definition SQ : N := 39.
Definition is_cs1 (c : N) : bool := in_ranges c charset_c1_class.
Definition is_cslang (c : N) : bool := in_ranges c charset_lang_class.
Definition is_cs2 (c : N) : bool := in_ranges c charset_c2_class.

(* _charset_value_re.match(pv).groups() : neither class contains the apostrophe, so the greedy runs
   are maximal and a shorter run cannot rescue a match *)
Definition charset_match (v : str) : option (str * str) :=
  match drop_while is_cs1 v with
  | q1 :: r1 =>
      if q1 =? SQ then
        match drop_while is_cslang r1 with
        | q2 :: r2 =>
            if q2 =? SQ then
              match take_while is_cs2 r2 with
              | [] => None
              | val => Some (take_while is_cs1 v, val)
              end
            else None
        | [] => None
        end
      else None
  | [] => None
  end.

(* urllib.parse._unquote_impl on an ASCII run: percent + two hex digits is a byte, any other
   percent sign stays *)
Fixpoint unquote_bytes (s : bytes) : bytes :=
  match s with
  | [] => []
  | c :: r =>
      if c =? PCT then
        match r with
        | h1 :: h2 :: r2 =>
            if is_hex h1 && is_hex h2 then (16 * hex_val h1 + hex_val h2) :: unquote_bytes r2
            else c :: unquote_bytes r
        | _ => c :: unquote_bytes r
        end
      else c :: unquote_bytes r
  end.

Inductive codec := CsAscii | CsUtf8 | CsLatin1.
Definition codec_of (name : str) : option codec :=
  if list_eqb name [97; 115; 99; 105; 105] || list_eqb name [117; 115; 45; 97; 115; 99; 105; 105] then Some CsAscii
  else if list_eqb name [117; 116; 102; 45; 56] then Some CsUtf8
  else if list_eqb name [105; 115; 111; 45; 56; 56; 53; 57; 45; 49] then Some CsLatin1
  else None.
(* bytes.decode(encoding, errors=replace) *)
Definition decode_replace (cs : codec) (b : bytes) : str :=
  match cs with
  | CsAscii => map (fun c => if c <? 128 then c else REPL) b
  | CsUtf8 => utf8_decode_replace b
  | CsLatin1 => b
  end.
(* urllib.parse.unquote(s, encoding=cs): maximal ASCII runs are percent-decoded and then decoded
   with errors=replace; other characters are kept.  run = the pending ASCII run, reversed *)
Fixpoint unquote_runs (cs : codec) (s : str) (run : bytes) : str :=
  match s with
  | [] => decode_replace cs (unquote_bytes (rev run))
  | c :: r =>
      if c <? 128 then unquote_runs cs r (c :: run)
      else decode_replace cs (unquote_bytes (rev run)) ++ c :: unquote_runs cs r []
  end.
Definition url_unquote (cs : codec) (s : str) : str :=
  if mem PCT s then unquote_runs cs s [] else s.

Definition str_mem (s : str) (l : list str) : bool := existsb (list_eqb s) l.
Definition truthy (o : option str) : bool := match o with Some (_ :: _) => true | _ => false end.

(* the `if pk[-1] == star` block: (pv, encoding, continued_encoding) afterwards.  A name on the
   source's allow list for which the model has no codec is reported as Unsupported *)
Definition star_value (pv : str) (encoding continued : option str)
  : result (str * option str * option str) :=
  let '(enc1, pv1) := match charset_match pv with
                      | Some (e, v) => (Some (lower e), v)
                      | None => (encoding, pv)
                      end in
  let enc2 := if truthy enc1 then enc1 else continued in
  match enc2 with
  | Some e =>
      if str_mem e options_charsets then
        match codec_of e with
        | Some cs => Ok (url_unquote cs pv1, enc2, enc2)
        | None => Err Unsupported
        end
      else Ok (pv1, enc2, continued)
  | None => Ok (pv1, enc2, continued)
  end.

(* the loop `for pk, pv in parts`; encoding and continued_encoding live across iterations *)
Fixpoint process_parts (parts options : list (str * str)) (encoding continued : option str)
  : result (list (str * str)) :=
  match parts with
  | [] => Ok options
  | (pk, pv) :: t =>
      let star := last_is STAR pk in
      let pk1 := if star then removelast pk else pk in
      match (if star then star_value pv encoding continued else Ok (pv, encoding, continued)) with
      | Err e => Err e
      | Ok (pv0, enc', cont') =>
          if is_nil pv0 then Err IndexError       (* pv[0]; cannot happen, kept explicit *)
          else
            let pv1 := unquote_param pv0 in
            match continuation_split pk1 with
            | Some pk' => process_parts t (assoc_set pk' (get_default pk' options ++ pv1) options) enc' cont'
            | None => process_parts t (assoc_set pk1 pv1 options) enc' cont'
            end
      end
  end.

Definition parse_options_header (value : str) : result (str * list (str * str)) :=
  let '(v, r) := partition1 SEMI value in
  let v := strip uni_ws v in
  let rest := strip uni_ws (match r with Some x => x | None => [] end) in
  if is_nil v || is_nil rest then Ok (v, [])
  else match opt_loop (S (length rest)) rest [] with
       | Err e => Err e
       | Ok parts => match process_parts parts [] None None with
                     | Err e => Err e
                     | Ok o => Ok (v, o)
                     end
       end.

(* ================================================================ http.quote_header_value / dump_options_header *)
Definition is_token_char (c : N) : bool := in_ranges c token_chars.
Definition quote_header_value (v : str) : str :=
  if is_nil v then [DQ; DQ]
  else if forallb is_token_char v then v
  else DQ :: replace [DQ] [BS; DQ] (replace [BS] [BS; BS] v) ++ [DQ].

Fixpoint dump_segments (options : list (str * str)) : list str :=
  match options with
  | [] => []
  | (k, v) :: t =>
      (* key.endswith(star): false on the empty key *)
      (if last_is STAR k then k ++ [EQS] ++ v else k ++ [EQS] ++ quote_header_value v) :: dump_segments t
  end.
Fixpoint join (sep : str) (l : list str) : str :=
  match l with
  | [] => []
  | [x] => x
  | x :: t => x ++ sep ++ join sep t
  end.
Definition dump_options_header (header : str) (options : list (str * str)) : str :=
  join [SEMI; SP] (header :: dump_segments options).

(* ================================================================ the q grammar  -?\d+(\.\d+)?  (re.ASCII, fullmatch) *)
Definition digits_val (s : str) : Z := fold_left (fun a c => (a * 10 + Z.of_N (c - 48))%Z) s 0%Z.
Definition parse_q (s : str) : option Qd :=
  let '(neg, s1) := match s with
                    | c :: t => if c =? MINUS then (true, t) else (false, s)
                    | [] => (false, s)
                    end in
  let sg (z : Z) : Z := if neg then Z.opp z else z in
  match take_while is_digit s1, drop_while is_digit s1 with
  | [], _ => None
  | ip, [] => Some (sg (digits_val ip), 0)
  | ip, c :: fp => if (c =? DOT) && nonempty fp && forallb is_digit fp
                   then Some (sg (digits_val (ip ++ fp)), N.of_nat (length fp))
                   else None
  end.

(* ================================================================ http.parse_accept_header, before cls(result) *)
Definition q_key : str := [113].
Inductive qdecision := QSkip | QKeep (q : Qd) (rest : list (str * str)).
(* the `if "q" in options` block *)
Definition q_decide (options : list (str * str)) : qdecision :=
  match assoc_get q_key options with
  | Some qs =>
      match parse_q (strip uni_ws qs) with
      | None => QSkip
      | Some q => if q_out_of_range q then QSkip else QKeep q (assoc_remove q_key options)
      end
  | None => QKeep q_default options
  end.

(* what one list item contributes to `result`: nothing, or one (item, q) pair *)
Definition contribution (raw : str) : result (list (str * Qd)) :=
  match parse_options_header raw with
  | Err e => Err e
  | Ok (item, options) =>
      match q_decide options with
      | QSkip => Ok []
      | QKeep q rest =>
          (* `if options: item = dump_options_header(item, options)` *)
          Ok [(if is_nil rest then item else dump_options_header item rest, q)]
      end
  end.
Fixpoint collect (raws : list str) : result (list (str * Qd)) :=
  match raws with
  | [] => Ok []
  | r :: t => match contribution r with
              | Err e => Err e
              | Ok c => match collect t with Err e => Err e | Ok l => Ok (c ++ l) end
              end
  end.
(* `if not value: return cls(None)` gives the empty list *)
Definition accept_items (value : str) : result (list (str * Qd)) :=
  if is_nil value then Ok [] else collect (parse_list_header value).

(* ================================================================ Accept, generic in the family *)
Definition item := (str * Qd)%type.

Section Accept.
  Variable specificity : str -> spec.
  Variable value_matches : str -> str -> result bool.    (* value_matches value item *)

  Definition key_of (it : item) : key := (specificity (fst it), snd it).
  Definition item_geb (a b : item) : bool := key_geb (key_of a) (key_of b).
  (* Accept.__init__ *)
  Definition mk_accept (values : list item) : list item := sort_desc item_geb values.

  (* Accept._best_single_match *)
  Fixpoint best_single (acc : list item) (m : str) : result (option item) :=
    match acc with
    | [] => Ok None
    | (ci, q) :: t =>
        match value_matches m ci with
        | Err e => Err e
        | Ok true => Ok (Some (ci, q))
        | Ok false => best_single t m
        end
    end.
  (* Accept.quality, Accept.__contains__ : the same loop *)
  Definition quality (acc : list item) (k : str) : result Qd :=
    match best_single acc k with
    | Err e => Err e
    | Ok (Some (_, q)) => Ok q
    | Ok None => Ok quality_default
    end.
  Definition contains (acc : list item) (k : str) : result bool :=
    match best_single acc k with
    | Err e => Err e
    | Ok (Some _) => Ok true
    | Ok None => Ok false
    end.

  (* Accept.best_match : state = (result, best_quality, best_specificity) *)
  Definition bm_state := (option str * Qd * spec)%type.
  Definition bm_init : bm_state := (None, bm_init_quality, bm_init_specificity).
  Definition bm_step (st : bm_state) (server_item : str) (m : option item) : bm_state :=
    match m with
    | None => st
    | Some (client_item, q) =>
        let '(_, bq, bs) := st in
        let s := specificity client_item in
        if bm_skip q bq then st
        else if bm_take q bq s bs then (Some server_item, q, s)
        else st
    end.
  Fixpoint bm_loop (acc : list item) (offers : list str) (st : bm_state) : result bm_state :=
    match offers with
    | [] => Ok st
    | o :: t =>
        match best_single acc o with
        | Err e => Err e
        | Ok m => bm_loop acc t (bm_step st o m)
        end
    end.
  Definition best_match (acc : list item) (offers : list str) : result (option str) :=
    match bm_loop acc offers bm_init with
    | Err e => Err e
    | Ok (r, _, _) => Ok r
    end.

  (* Accept.index(key: str): the position of the first matching item, ValueError when there is none *)
  Fixpoint index_from (acc : list item) (k : str) (i : nat) : result nat :=
    match acc with
    | [] => Err ValueError
    | (ci, _) :: t =>
        match value_matches k ci with
        | Err e => Err e
        | Ok true => Ok i
        | Ok false => index_from t k (S i)
        end
    end.
  Definition index (acc : list item) (k : str) : result nat := index_from acc k 0.
  (* Accept.find: `try: return self.index(key) except ValueError: return -1`  (the ValueError that
     MIMEAccept._value_matches raises for an invalid offer is swallowed as well) *)
  Definition find (acc : list item) (k : str) : result Z :=
    match index acc k with
    | Ok i => Ok (Z.of_nat i)
    | Err ValueError => Ok (-1)%Z
    | Err e => Err e
    end.
  (* Accept.__getitem__: a str key is quality(key); an int key is list indexing (negative from the end) *)
  Definition getitem_str (acc : list item) (k : str) : result Qd := quality acc k.
  Definition getitem_int (acc : list item) (i : Z) : result item :=
    let n := Z.of_nat (length acc) in
    let j := if (i <? 0)%Z then (i + n)%Z else i in
    if (j <? 0)%Z || (n <=? j)%Z then Err IndexError
    else match nth_error acc (Z.to_nat j) with Some it => Ok it | None => Err IndexError end.

  (* best_match(matches, default): `result = default` is what is returned when nothing is taken *)
  Definition best_match_default (acc : list item) (offers : list str) (default : option str)
    : result (option str) :=
    match best_match acc offers with
    | Err e => Err e
    | Ok (Some o) => Ok (Some o)
    | Ok None => Ok default
    end.

  (* Accept.best *)
  Definition best (acc : list item) : option str :=
    match acc with [] => None | (v, _) :: _ => Some v end.
End Accept.

(* ================================================================ the four families *)
Definition mime_matches (value item : str) : result bool :=
  match mime_parts value, mime_parts item with
  | Some (vt, vs, vp), Some (it, is, ip) => mime_value_matches value item vt vs it is vp ip
  | _, _ =>
      (* one of the two has no slash: the generated chain answers before it looks at the parts *)
      if mem SLASH item && mem SLASH value then Err ValueError   (* unreachable: Proofs.mime_parts_some *)
      else mime_value_matches value item [] [] [] [] [] []
  end.

(* codecs.lookup(name).name, or None for LookupError: supplied from outside as a table *)
Definition codec_table := list (str * str).
Definition charset_normalize (tbl : codec_table) (name : str) : str :=
  match assoc_get name tbl with Some n => n | None => lower name end.

Inductive family := FBase | FMime | FLang | FCharset.
Definition spec_of (f : family) : str -> spec :=
  match f with FMime => mime_specificity | _ => base_specificity end.
Definition matches_of (tbl : codec_table) (f : family) : str -> str -> result bool :=
  match f with
  | FBase => base_value_matches
  | FMime => mime_matches
  | FLang => lang_value_matches
  | FCharset => charset_value_matches (charset_normalize tbl)
  end.

(* parse_accept_header(value, cls) *)
Definition parse_accept (f : family) (value : str) : result (list item) :=
  match accept_items value with
  | Err e => Err e
  | Ok items => Ok (mk_accept (spec_of f) items)
  end.

(* ================================================================ LanguageAccept.best_match *)
Definition lang_best_match (acc : list item) (offers : list str) : result (option str) :=
  match best_match base_specificity lang_value_matches acc offers with
  | Err e => Err e
  | Ok (Some r) => Ok (Some r)
  | Ok None =>
      let fallback := mk_accept base_specificity (map (fun it : item => (primary (fst it), snd it)) acc) in
      match best_match base_specificity base_value_matches fallback offers with
      | Err e => Err e
      | Ok (Some r) => Ok (Some r)
      | Ok None =>
          let fallback_matches := map primary offers in
          match best_match base_specificity lang_value_matches acc fallback_matches with
          | Err e => Err e
          | Ok None => Ok None
          | Ok (Some r) =>
              match first (fun o => list_eqb (primary o) r) offers with
              | Some o => Ok (Some o)
              | None => Err StopIteration
              end
          end
      end
  end.

Definition family_best_match (tbl : codec_table) (f : family) (acc : list item) (offers : list str)
  : result (option str) :=
  match f with
  | FLang => lang_best_match acc offers
  | _ => best_match (spec_of f) (matches_of tbl f) acc offers
  end.

(* ================================================================ Accept.values / to_header / __str__ *)
Definition values (acc : list item) : list str := map fst acc.

(* n as exactly w decimal digits (n < 10^w) *)
Fixpoint fixed_digits (w : nat) (n : Z) : str :=
  match w with
  | O => []
  | S w' => fixed_digits w' (n / 10) ++ [Z.to_N (48 + n mod 10)]
  end.
(* a quality 0 <= q < 1 with scale >= 1 written as 0.ddd *)
Definition render_q (q : Qd) : str := [48; DOT] ++ fixed_digits (N.to_nat (snd q)) (fst q).

(* repr(float): the shortest decimal, at least one fraction digit.  Faithful for 0 and for
   1e-4 <= q < 1 (smaller floats print with an exponent; the sign of a negative zero is lost):
   trailing zeros are dropped while more than one fraction digit remains; an integer gets .0 *)
Fixpoint strip_zeros (fuel : nat) (n : Z) (k : N) : Qd :=
  match fuel with
  | O => (n, k)
  | S f => if (1 <? k) && (n mod 10 =? 0)%Z then strip_zeros f (n / 10)%Z (k - 1) else (n, k)
  end.
Definition q_normalize (q : Qd) : Qd :=
  if snd q =? 0 then ((fst q * 10)%Z, 1) else strip_zeros (N.to_nat (snd q)) (fst q) (snd q).
Definition q_param : str := [SEMI; 113; EQS].   (* ;q= *)
(* Accept.to_header: `if quality != 1: value = f"{value};q={quality}"`, joined by commas *)
Definition to_header_item (it : item) : str :=
  if qeqb (snd it) (q_of_Z 1%Z) then fst it else fst it ++ q_param ++ render_q (q_normalize (snd it)).
Definition to_header (acc : list item) : str := join [COMMA] (map to_header_item acc).

(* the serialiser of the round-trip theorem: the quality written as it stands (no zero stripping) *)
Definition render_item (it : item) : str :=
  if qeqb (snd it) (q_of_Z 1%Z) then fst it else fst it ++ q_param ++ render_q (snd it).
Definition render_header (items : list item) : str := join [COMMA] (map render_item items).

(* LanguageAccept.best_match(matches, default): every stage calls best_match without a default and
   tests `is not None`; `return default` ends the method *)
Definition family_best_match_default (tbl : codec_table) (f : family) (acc : list item) (offers : list str)
  (default : option str) : result (option str) :=
  match family_best_match tbl f acc offers with
  | Err e => Err e
  | Ok (Some o) => Ok (Some o)
  | Ok None => Ok default
  end.

(* MIMEAccept.accept_html / accept_xhtml / accept_json *)
Definition s_text_html : str := [116; 101; 120; 116; 47; 104; 116; 109; 108].
Definition s_app_xhtml : str :=
  [97; 112; 112; 108; 105; 99; 97; 116; 105; 111; 110; 47; 120; 104; 116; 109; 108; 43; 120; 109; 108].
Definition s_app_xml : str := [97; 112; 112; 108; 105; 99; 97; 116; 105; 111; 110; 47; 120; 109; 108].
Definition s_app_json : str := [97; 112; 112; 108; 105; 99; 97; 116; 105; 111; 110; 47; 106; 115; 111; 110].
Definition mime_in (acc : list item) (v : str) : bool :=
  match contains mime_matches acc v with Ok b => b | Err _ => false end.   (* the four constants are valid offers *)
Definition accept_xhtml (acc : list item) : bool := accept_xhtml_gen (mime_in acc).
Definition accept_html (acc : list item) : bool := accept_html_gen (mime_in acc) (accept_xhtml acc).
Definition accept_json (acc : list item) : bool := accept_json_gen (mime_in acc).
