let rec bits_of_pos p = match p with XH -> "1" | XO q -> bits_of_pos q ^ "0" | XI q -> bits_of_pos q ^ "1"
let str_of_z z = match z with Z0 -> "0" | Zpos p -> bits_of_pos p | Zneg p -> "-" ^ bits_of_pos p
let pos_of_bits s = let p = ref XH in String.iteri (fun i c -> if i > 0 then p := (if c = '1' then XI !p else XO !p)) s; !p
let z_of_bits s = if s = "0" then Z0 else if s.[0] = '-' then Zneg (pos_of_bits (String.sub s 1 (String.length s - 1))) else Zpos (pos_of_bits s)
let split c s = if s = "~" then [] else String.split_on_char c s
let cat c f l = if l = [] then "~" else String.concat c (List.map f l)
let errs e = match e with ValueError -> "!ValueError" | IndexError -> "!IndexError" | StopIteration -> "!StopIteration"
  | OutOfFuel -> "!fuel" | Unsupported -> "!unsupported"
let qstr (q : qd) = let (n, s) = q in str_of_z n ^ ":" ^ string_of_int (int_of_n s)
let itemstr (v, q) = csv_of_nlist v ^ ":" ^ qstr q
let fam s = match s with "base" -> FBase | "mime" -> FMime | "lang" -> FLang | "charset" -> FCharset | _ -> failwith "family"
let table s = List.map (fun kv -> match String.split_on_char '=' kv with [k; v] -> (nlist_of_csv k, nlist_of_csv v) | _ -> failwith "tbl") (split '|' s)
let observe f tbl acc offers =
  let sp = spec_of f and mt = matches_of tbl f in
  let bm = match family_best_match tbl f acc offers with Ok None -> "~" | Ok (Some o) -> csv_of_nlist o | Err e -> errs e in
  let qs = cat "|" (fun o -> match quality mt acc o with Ok q -> qstr q | Err e -> errs e) offers in
  let ins = cat "|" (fun o -> match contains mt acc o with Ok true -> "1" | Ok false -> "0" | Err e -> errs e) offers in
  let b = match best acc with None -> "~" | Some v -> csv_of_nlist v in
  let fd = cat "|" (fun o -> match find mt acc o with Ok z -> string_of_int (int_of_z z) | Err e -> errs e) offers in
  let ix = cat "|" (fun o -> match index mt acc o with Ok n -> string_of_int (int_of_nat n) | Err e -> errs e) offers in
  let n = List.length acc in
  let gi = cat "|" (fun i -> match getitem_int acc (z_of_int i) with Ok it -> itemstr it | Err e -> errs e) [0; -1; n; -n - 1] in
  let bd = match family_best_match_default tbl f acc offers (Some (nlist_of_csv "122,122")) with
    | Ok None -> "~" | Ok (Some o) -> csv_of_nlist o | Err e -> errs e in
  let bit x = if x then "1" else "0" in
  let cv = match f with FMime -> bit (accept_html acc) ^ bit (accept_xhtml acc) ^ bit (accept_json acc) | _ -> "-" in
  ignore sp; String.concat " " ["ok"; cat "|" itemstr acc; b; bm; qs; ins; csv_of_nlist (to_header acc); cat "|" csv_of_nlist (values acc);
                                fd; ix; gi; bd; cv]
let () = iter_lines (fun line ->
  match fields line with
  | ["hdr"; f; h; offers; tbl] ->
      let f = fam f and tbl = table tbl in
      (match parse_accept f (nlist_of_csv h) with
       | Err e -> errs e
       | Ok acc -> observe f tbl acc (List.map nlist_of_csv (split '|' offers)))
  | ["acc"; f; items; offers; tbl] ->
      let f = fam f and tbl = table tbl in
      let items = List.map (fun it -> match String.split_on_char ':' it with
        | [v; n; s] -> (nlist_of_csv v, (z_of_bits n, n_of_int (int_of_string s))) | _ -> failwith "item") (split '|' items) in
      observe f tbl (mk_accept (spec_of f) items) (List.map nlist_of_csv (split '|' offers))
  | ["plist"; s] -> "ok " ^ cat "|" csv_of_nlist (parse_list_header (nlist_of_csv s))
  | ["popt"; s] ->
      (match parse_options_header (nlist_of_csv s) with
       | Err e -> errs e
       | Ok (v, o) -> "ok " ^ csv_of_nlist v ^ " " ^ cat "|" (fun (k, x) -> csv_of_nlist k ^ "=" ^ csv_of_nlist x) o)
  | ["pq"; s] -> (match parse_q (nlist_of_csv s) with None -> "none" | Some q -> "ok " ^ qstr q)
  | ["msplit"; s] -> "ok " ^ cat "|" csv_of_nlist (mime_split (nlist_of_csv s))
  | ["lsplit"; s] -> "ok " ^ cat "|" csv_of_nlist (locale_split (nlist_of_csv s))
  | _ -> "bad-command")
