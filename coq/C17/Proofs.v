(* C17 proofs, collected (ProofsOrder: order facts, stable sort; ProofsOptimal: the selection loop;
   ProofsParse: q grammar, range check, contributions, fuel; ProofsFamilies: the four families and
   the language fallbacks), plus the pattern pins and the worked examples. *)
From Coq Require Import ZArith Lia Permutation Sorted.
From Wz Require Export lib.Bytes C17.LibSort C17.Base C17.Gen C17.Model C17.Spec
  C17.ProofsOrder C17.ProofsOptimal C17.ProofsParse C17.ProofsFamilies C17.ProofsRoundtrip C17.ProofsAccess.
Open Scope N_scope.

(* the pattern texts the hand-written matchers stand for *)
Definition pinned_patterns : bool :=
  list_eqb q_value_re_text [45; 63; 92; 100; 43; 40; 92; 46; 92; 100; 43; 41; 63] && (q_value_re_flags =? 256)
  && list_eqb continuation_re_text [92; 42; 40; 92; 100; 43; 41; 36] && (continuation_re_flags =? 256)
  && list_eqb mime_split_re_text [47; 124; 40; 63; 58; 92; 115; 42; 59; 92; 115; 42; 41] && (mime_split_re_flags =? 0)
  && list_eqb locale_delim_re_text [91; 95; 45; 93] && (locale_delim_re_flags =? 0)
  && list_eqb parameter_key_re_text
       [40; 91; 92; 119; 33; 35; 36; 37; 38; 39; 42; 43; 92; 45; 46; 94; 96; 124; 126; 93; 43; 41; 61]
  && (parameter_key_re_flags =? 256)
  && list_eqb parameter_token_value_re_text
       [91; 92; 119; 33; 35; 36; 37; 38; 39; 42; 43; 92; 45; 46; 94; 96; 124; 126; 93; 43]
  && (parameter_token_value_re_flags =? 256)
  && list_eqb charset_value_re_text
       [40; 91; 92; 119; 33; 35; 36; 37; 38; 42; 43; 92; 45; 46; 94; 96; 124; 126; 93; 42; 41; 39; 91; 92; 119; 33; 35; 36; 37; 38; 42; 43; 92; 45; 46; 94; 96; 124; 126; 93; 42; 39; 40; 91; 92; 119; 33; 35; 36; 37; 38; 39; 42; 43; 92; 45; 46; 94; 96; 124; 126; 93; 43; 41]
  && (charset_value_re_flags =? 320)
  && sort_key_specificity_then_quality_descending
  (* http._token_chars (quote_header_value) and the RFC 2231 charset allow list *)
  && forallb (fun c => Bool.eqb (in_ranges c token_chars)
                         (in_ranges c [(33, 33); (35, 39); (42, 43); (45, 46); (48, 57); (65, 90); (94, 122); (124, 124); (126, 126)]))
             (nat_range 256)
  && forallb (fun r => snd r <? 256) token_chars
  && strs_eqb options_charsets
       [[97; 115; 99; 105; 105]; [105; 115; 111; 45; 56; 56; 53; 57; 45; 49]; [117; 115; 45; 97; 115; 99; 105; 105]; [117; 116; 102; 45; 56]].
Lemma patterns_pinned : pinned_patterns = true.
Proof. vm_compute. reflexivity. Qed.

(* the regenerated decision functions are the rules of C17/Spec.v *)
Ltac batoms :=
  repeat match goal with
         | |- context [list_eqb ?a ?b] => generalize (list_eqb a b); intro
         | |- context [strs_eqb ?a ?b] => generalize (strs_eqb a b); intro
         | |- context [mem ?a ?b] => generalize (mem a b); intro
         end;
  repeat match goal with b : bool |- _ => destruct b end; reflexivity.

Lemma matching_rules :
  (forall value item, base_value_matches value item = Ok (base_rule value item)) /\
  (forall value item, lang_value_matches value item = Ok (lang_rule value item)) /\
  (forall normalize value item,
     charset_value_matches normalize value item = Ok (charset_rule normalize value item)) /\
  (forall value item vt vs it is vp ip,
     mime_value_matches value item vt vs it is vp ip = mime_rule value item vt vs it is vp ip) /\
  (forall value, base_specificity value = base_specificity_rule value) /\
  (forall value, mime_specificity value = mime_specificity_rule value).
Proof.
  repeat split; intros;
    unfold base_value_matches, lang_value_matches, charset_value_matches, mime_value_matches,
           base_rule, lang_rule, charset_rule, mime_rule, base_specificity, mime_specificity,
           base_specificity_rule, mime_specificity_rule, str_eqb, str_neqb;
    try (apply map_ext; intro); clear; batoms.
Qed.

(* C17_optimal on header text: a header written from plain items *)
Lemma header_text_optimal tbl f items offers :
  Forall plain_item items -> offers_valid f offers ->
  exists acc res,
    parse_accept f (render_header items) = Ok acc /\
    best_match (spec_of f) (matches_of tbl f) acc offers = Ok res /\
    choice (spec_of f) (mb_of tbl f) items offers res.
Proof.
  intros Hp Hv. destruct (accept_roundtrip f items Hp) as [Ei Ea].
  destruct (negotiation_optimal tbl f _ _ offers Ea Hv) as (items' & res & Ei' & Hb & Hc).
  rewrite Ei in Ei'. injection Ei' as <-. eauto.
Qed.

(* ---------------------------------------------------------------- worked examples *)
Definition ex_header : str :=   (* text/html;q=0.5, text/*;q=0.3, */*;q=0.1, image/png;q=1.5, a/b;q=x *)
  [116; 101; 120; 116; 47; 104; 116; 109; 108; 59; 113; 61; 48; 46; 53; 44; 32; 116; 101; 120; 116; 47; 42; 59; 113;
   61; 48; 46; 51; 44; 32; 42; 47; 42; 59; 113; 61; 48; 46; 49; 44; 32; 105; 109; 97; 103; 101; 47; 112; 110; 103; 59;
   113; 61; 49; 46; 53; 44; 32; 97; 47; 98; 59; 113; 61; 120].
Definition ex_text_plain : str := [116; 101; 120; 116; 47; 112; 108; 97; 105; 110].
Definition ex_text_html : str := [116; 101; 120; 116; 47; 104; 116; 109; 108].
Definition ex_text_star : str := [116; 101; 120; 116; 47; 42].
Definition ex_star_star : str := [42; 47; 42].
Definition ex_image_png : str := [105; 109; 97; 103; 101; 47; 112; 110; 103].
Definition ex_offers : list str := [ex_image_png; ex_text_plain; ex_text_html].
Definition ex_acc : list item := [(ex_text_html, (5%Z, 1)); (ex_text_star, (3%Z, 1)); (ex_star_star, (1%Z, 1))].

(* the out-of-range item (q=1.5) and the malformed one (q=x) are gone, the rest is sorted, and
   text/html wins although image/png would have had the largest q and stands first *)
Lemma example_negotiation :
  parse_accept FMime ex_header = Ok ex_acc /\ offers_valid FMime ex_offers /\
  family_best_match [] FMime ex_acc ex_offers = Ok (Some ex_text_html) /\
  quality (matches_of [] FMime) ex_acc ex_text_plain = Ok (3%Z, 1).
Proof. repeat split; vm_compute; reflexivity. Qed.

Lemma example_q_literal : q_literal [48; 46; 53] (5%Z, 1) /\ q_in_range (5%Z, 1)
                          /\ q_literal [49; 46; 53] (15%Z, 1) /\ ~ q_in_range (15%Z, 1).
Proof.
  split; [exists false, [48], (Some [53]); repeat split; discriminate|].
  split; [split; reflexivity|].
  split; [exists false, [49], (Some [53]); repeat split; discriminate|].
  intros [_ H]. discriminate.
Qed.

(* en  against the offers eng, en-US: the last fallback answers en-US (before the repair: eng) *)
Lemma example_language_fallback :
  parse_accept FLang [101; 110] = Ok [([101; 110], (1%Z, 0))] /\
  family_best_match [] FLang [([101; 110], (1%Z, 0))] [[101; 110; 103]; [101; 110; 45; 85; 83]]
  = Ok (Some [101; 110; 45; 85; 83]).
Proof. split; vm_compute; reflexivity. Qed.

(* gzip;q=0.5, br, *;q=0.125 written by the serialiser and read back *)
Definition ex_items : list item := [([103; 122; 105; 112], (5%Z, 1)); ([98; 114], (1%Z, 0)); ([42], (125%Z, 3))].
Lemma example_roundtrip :
  Forall plain_item ex_items /\
  render_header ex_items = [103; 122; 105; 112; 59; 113; 61; 48; 46; 53; 44; 98; 114; 44; 42; 59; 113; 61; 48; 46; 49; 50; 53] /\
  parse_accept FBase (render_header ex_items)
  = Ok [([98; 114], (1%Z, 0)); ([103; 122; 105; 112], (5%Z, 1)); ([42], (125%Z, 3))] /\
  to_header [([98; 114], (1%Z, 0)); ([103; 122; 105; 112], (50%Z, 2)); ([42], (0%Z, 0))]
  = [98; 114; 44; 103; 122; 105; 112; 59; 113; 61; 48; 46; 53; 44; 42; 59; 113; 61; 48; 46; 48].
Proof.
  split.
  - apply Forall_cons; [split; [reflexivity|]; right; cbn [fst snd]; unfold pow10; cbn; lia|].
    apply Forall_cons; [split; [reflexivity|]; left; reflexivity|].
    apply Forall_cons; [split; [reflexivity|]; right; cbn [fst snd]; unfold pow10; cbn; lia|]. constructor.
  - repeat split; vm_compute; reflexivity.
Qed.

(* the float contract has a model: the decimal rationals themselves *)
Lemma example_float_contract :
  exists (F : Type) (fl : Qd -> F) (flt fle feq : F -> F -> bool),
    forall a b, sig15 a = true -> sig15 b = true ->
      flt (fl a) (fl b) = qltb a b /\ fle (fl a) (fl b) = qleb a b /\ feq (fl a) (fl b) = qeqb a b.
Proof. exists Qd, (fun q => q), qltb, qleb, qeqb. intros. repeat split. Qed.

(* Request.accept_mimetypes / accept_charsets / accept_encodings / accept_languages: header name and class
   (0 Accept, 1 MIMEAccept, 2 LanguageAccept, 3 CharsetAccept) as regenerated from sansio/request.py *)
Definition expected_request_glue : list (list N * list N * N) :=
  [([97; 99; 99; 101; 112; 116; 95; 109; 105; 109; 101; 116; 121; 112; 101; 115], [65; 99; 99; 101; 112; 116], 1);
   ([97; 99; 99; 101; 112; 116; 95; 99; 104; 97; 114; 115; 101; 116; 115], [65; 99; 99; 101; 112; 116; 45; 67; 104; 97; 114; 115; 101; 116], 3);
   ([97; 99; 99; 101; 112; 116; 95; 101; 110; 99; 111; 100; 105; 110; 103; 115], [65; 99; 99; 101; 112; 116; 45; 69; 110; 99; 111; 100; 105; 110; 103], 0);
   ([97; 99; 99; 101; 112; 116; 95; 108; 97; 110; 103; 117; 97; 103; 101; 115], [65; 99; 99; 101; 112; 116; 45; 76; 97; 110; 103; 117; 97; 103; 101], 2)].
Fixpoint glue_eqb (a b : list (list N * list N * N)) : bool :=
  match a, b with
  | [], [] => true
  | (x1, y1, z1) :: a', (x2, y2, z2) :: b' => list_eqb x1 x2 && list_eqb y1 y2 && (z1 =? z2) && glue_eqb a' b'
  | _, _ => false
  end.
Lemma request_glue_pinned : glue_eqb request_accept_glue expected_request_glue = true.
Proof. vm_compute. reflexivity. Qed.

(* how the q parameter may be spelled, on whole headers (parsed with the plain Accept class):
   accepted: q=1.000, Q=0.5, `; q=0.5`, quoted, more than three decimals, leading zero;
   the item is dropped: q=.5, q=1., q=1.001, q=-1;
   NOT recognised as a q parameter at all, so the item is kept with q = 1: `q =0.5`, `q= 0.5` *)
Definition hdr (s : str) : result (list item) := parse_accept FBase s.
Lemma example_q_spellings :
  hdr [97; 59; 113; 61; 49; 46; 48; 48; 48] = Ok [([97], (1000%Z, 3))] /\
  hdr [97; 59; 81; 61; 48; 46; 53] = Ok [([97], (5%Z, 1))] /\
  hdr [97; 32; 59; 32; 113; 61; 48; 46; 53] = Ok [([97], (5%Z, 1))] /\
  hdr [97; 59; 113; 61; 34; 48; 46; 53; 34] = Ok [([97], (5%Z, 1))] /\
  hdr [97; 59; 113; 61; 48; 46; 49; 50; 51; 52; 53] = Ok [([97], (12345%Z, 5))] /\
  hdr [97; 59; 113; 61; 48; 49] = Ok [([97], (1%Z, 0))] /\
  hdr [97; 59; 113; 61; 46; 53] = Ok [] /\
  hdr [97; 59; 113; 61; 49; 46] = Ok [] /\
  hdr [97; 59; 113; 61; 49; 46; 48; 48; 49] = Ok [] /\
  hdr [97; 59; 113; 61; 45; 49] = Ok [] /\
  hdr [97; 59; 113; 32; 61; 48; 46; 53] = Ok [([97], (1%Z, 0))] /\
  hdr [97; 59; 113; 61; 32; 48; 46; 53] = Ok [([97], (1%Z, 0))].
Proof. repeat split; vm_compute; reflexivity. Qed.
