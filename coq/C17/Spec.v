(* C17: the vocabulary of the property statement (definitions only; used by C17/Props.v).
   Nothing here refers to the sorted list or to the selection loop: qualities are defined on the
   client's items as they stand in the header. *)
From Coq Require Import ZArith.
From Wz Require Import lib.Bytes C17.LibSort C17.Base C17.Gen C17.Model.
Open Scope N_scope.

Definition zero : Qd := q_of_Z 0%Z.
Definition one : Qd := q_of_Z 1%Z.

Section Spec.
  Variable specificity : str -> spec.
  Variable mb : str -> str -> bool.     (* mb offer range : the client range matches the offer *)

  (* (s, q) is the quality of offer o w.r.t. the client's items: q belongs to a matching range of
     specificity s, and no matching range is more specific, nor equally specific with a larger q
     (key_geb compares specificity first, then q) *)
  Definition is_Q (items : list item) (o : str) (s : spec) (q : Qd) : Prop :=
    (exists r, In (r, q) items /\ mb o r = true /\ specificity r = s) /\
    (forall r' q', In (r', q') items -> mb o r' = true ->
       key_geb (s, q) (specificity r', q') = true).

  (* an offer of quality (s', q') loses against (s, q): smaller q, or equal q from a less specific
     range;  loses_or_ties also allows equal q from an equally specific range *)
  Definition loses (s' : spec) (q' : Qd) (s : spec) (q : Qd) : Prop :=
    qltb q' q = true \/ (qeqb q' q = true /\ spec_ltb s' s = true).
  Definition loses_or_ties (s' : spec) (q' : Qd) (s : spec) (q : Qd) : Prop :=
    qltb q' q = true \/ (qeqb q' q = true /\ spec_leb s' s = true).

  (* res is the negotiated choice among offers: an offer with a positive quality such that every
     earlier offer loses and every later offer loses or ties; None iff no offer has a positive
     quality (offers that no range matches have no quality at all) *)
  Definition choice (items : list item) (offers : list str) (res : option str) : Prop :=
    match res with
    | Some o =>
        exists pre post s q,
          offers = pre ++ o :: post /\ is_Q items o s q /\ qltb zero q = true
          /\ (forall o' s' q', In o' pre -> is_Q items o' s' q' -> loses s' q' s q)
          /\ (forall o' s' q', In o' post -> is_Q items o' s' q' -> loses_or_ties s' q' s q)
    | None => forall o s q, In o offers -> is_Q items o s q -> qleb q zero = true
    end.
End Spec.

(* the matching relation of a family as a boolean; only meaningful where matching cannot raise,
   i.e. for offers_valid offers (MIMEAccept raises ValueError for an offer without a slash or
   of the form star/x) *)
Definition mb_of (tbl : codec_table) (f : family) (o r : str) : bool :=
  match matches_of tbl f o r with Ok b => b | Err _ => false end.
Definition mime_valid_offer (v : str) : bool :=
  match mime_parts v with
  | Some (vt, vs, _) => mem SLASH v && negb (str_eqb vt star && str_neqb vs star)
  | None => false
  end.
Definition offers_valid (f : family) (offers : list str) : Prop :=
  match f with FMime => forallb mime_valid_offer offers = true | _ => True end.

(* ---------------------------------------------------------------- the matching rules, written out *)
(* what the regenerated decision functions of C17/Gen.v have to be equal to (C17_matching_rules) *)
Definition base_rule (value item : str) : bool :=
  list_eqb item star || list_eqb (lower item) (lower value).
Definition lang_rule (value item : str) : bool :=
  list_eqb item star || strs_eqb (normalize_lang value) (normalize_lang item).
Definition charset_rule (normalize : str -> str) (value item : str) : bool :=
  list_eqb item star || list_eqb (normalize value) (normalize item).
(* vt/vs/vp: type, subtype, sorted parameters of the offer; it/is/ip: of the client range *)
Definition mime_rule (value item vt vs it is : str) (vp ip : list str) : result bool :=
  if negb (mem SLASH item) then Ok false                                   (* invalid client item *)
  else if negb (mem SLASH value) then Err ValueError                       (* invalid offer *)
  else if list_eqb vt star && negb (list_eqb vs star) then Err ValueError   (* offer star/x *)
  else if list_eqb it star && negb (list_eqb is star) then Ok false         (* range star/x *)
  else Ok ((list_eqb it star && list_eqb is star) || (list_eqb vt star && list_eqb vs star)
           || (list_eqb it vt
               && (list_eqb is star || list_eqb vs star || (list_eqb is vs && strs_eqb ip vp)))).
Definition base_specificity_rule (value : str) : spec := [z_of_bool (negb (list_eqb value star))].
Definition mime_specificity_rule (value : str) : spec :=
  map (fun x => z_of_bool (negb (list_eqb x star))) (mime_split value).

(* ---------------------------------------------------------------- the q grammar, declaratively *)
Definition all_digits (s : str) : Prop := s <> [] /\ forallb is_digit s = true.
(* s is  [-] digits [ . digits ]  and q its value *)
Definition q_literal (s : str) (q : Qd) : Prop :=
  exists (neg : bool) (ip : str) (fp : option str),
    s = (if neg then [MINUS] else []) ++ ip ++ (match fp with Some f => DOT :: f | None => [] end)
    /\ all_digits ip
    /\ (match fp with Some f => all_digits f | None => True end)
    /\ let f := match fp with Some f => f | None => [] end in
       q = ((if neg then Z.opp (digits_val (ip ++ f)) else digits_val (ip ++ f)), N.of_nat (length f)).
Definition q_in_range (q : Qd) : Prop := qleb zero q = true /\ qleb q one = true.

(* what the list item `raw` contributes to the parsed list *)
Definition contributes (raw : str) (c : list item) : Prop :=
  exists value options,
    parse_options_header raw = Ok (value, options) /\
    match assoc_get q_key options with
    | None =>
        (* no q parameter: kept with q = 1, the other parameters re-attached *)
        c = [(if is_nil options then value else dump_options_header value options, one)]
    | Some qs =>
        (* a q parameter: kept iff it is a literal of the grammar with a value in [0, 1] *)
        (forall q, q_literal (strip uni_ws qs) q -> q_in_range q ->
           let rest := assoc_remove q_key options in
           c = [(if is_nil rest then value else dump_options_header value rest, q)])
        /\ ((forall q, q_literal (strip uni_ws qs) q -> ~ q_in_range q) -> c = [])
    end.

(* ---------------------------------------------------------------- headers built from items (C17_accept_roundtrip) *)
(* a range as it is normally written: letters, digits and  * / - _ . +  (no parameters) *)
Definition plain_char (c : N) : bool :=
  is_alpha c || is_digit c || (c =? STAR) || (c =? SLASH) || (c =? MINUS) || (c =? USCORE) || (c =? DOT) || (c =? 43).
Definition plain_value (v : str) : bool := nonempty v && forallb plain_char v.
(* q is 1, or n / 10^k with at least one fraction digit and 0 <= n < 10^k (any number of decimals) *)
Definition wf_q (q : Qd) : Prop := q = one \/ (1 <= snd q /\ (0 <= fst q < pow10 (snd q))%Z).
Definition plain_item (it : item) : Prop := plain_value (fst it) = true /\ wf_q (snd it).

(* ---------------------------------------------------------------- the float contract (C17_float_contract) *)
(* a q literal of at most 15 significant digits and at most 300 fraction digits *)
Definition sig15 (q : Qd) : bool := (Z.abs (fst q) <? 10 ^ 15)%Z && (snd q <=? 300).

(* ---------------------------------------------------------------- str(accept) (C17_to_header_roundtrip) *)
(* the quality as to_header writes it: 1 stays 1, anything else in the shortest form with at least
   one fraction digit *)
Definition norm_q (q : Qd) : Qd := if qeqb q (q_of_Z 1%Z) then one else q_normalize q.
Definition norm_item (it : item) : item := (fst it, norm_q (snd it)).
