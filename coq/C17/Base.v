(* C17 primitives used by the generated decision functions (C17/Gen.v) and by the model:
   result type, decimal rationals, specificity tuples, the two split regexes, str helpers.
   Definitions only. *)
From Coq Require Export List NArith ZArith Bool.
From Wz Require Export lib.Bytes.
From Wz Require Import C17.LibSort.
Export ListNotations.
Open Scope N_scope.

(* ---------------------------------------------------------------- results *)
Inductive err := ValueError | IndexError | StopIteration | OutOfFuel | Unsupported.
Inductive result (A : Type) := Ok (a : A) | Err (e : err).
Arguments Ok {A} a.
Arguments Err {A} e.

(* ---------------------------------------------------------------- code points *)
Definition DQ : N := 34.
Definition PCT : N := 37.
Definition STAR : N := 42.
Definition COMMA : N := 44.
Definition MINUS : N := 45.
Definition DOT : N := 46.
Definition SLASH : N := 47.
Definition SEMI : N := 59.
Definition EQS : N := 61.
Definition BS : N := 92.
Definition USCORE : N := 95.
Definition SP : N := 32.
Definition star : str := [STAR].

Definition is_nil {A} (l : list A) : bool := match l with [] => true | _ => false end.
Definition nonempty {A} (l : list A) : bool := negb (is_nil l).
Definition first_is (c : N) (s : str) : bool := match s with x :: _ => x =? c | [] => false end.
Definition last_is (c : N) (s : str) : bool := match rev s with x :: _ => x =? c | [] => false end.
Definition str_eqb (a b : str) : bool := list_eqb a b.
Definition str_neqb (a b : str) : bool := negb (list_eqb a b).

Fixpoint strs_eqb (a b : list str) : bool :=
  match a, b with
  | [], [] => true
  | x :: a', y :: b' => list_eqb x y && strs_eqb a' b'
  | _, _ => false
  end.

(* lexicographic order on code point lists (str.__le__) *)
Fixpoint str_leb (a b : str) : bool :=
  match a, b with
  | [], _ => true
  | _ :: _, [] => false
  | x :: a', y :: b' => if x <? y then true else if y <? x then false else str_leb a' b'
  end.

(* ---------------------------------------------------------------- decimal rationals *)
(* (num, scale) stands for num / 10^scale.  The implementation holds Python floats; a q literal of
   at most 15 significant digits is mapped injectively and monotonically to a float, so comparisons
   agree (trusted base). *)
Definition Qd := (Z * N)%type.
Definition pow10 (k : N) : Z := Z.pow 10 (Z.of_N k).
Definition qleb (a b : Qd) : bool := Z.leb (fst a * pow10 (snd b)) (fst b * pow10 (snd a)).
Definition qltb (a b : Qd) : bool := Z.ltb (fst a * pow10 (snd b)) (fst b * pow10 (snd a)).
Definition qeqb (a b : Qd) : bool := Z.eqb (fst a * pow10 (snd b)) (fst b * pow10 (snd a)).
Definition q_of_Z (z : Z) : Qd := (z, 0).

(* ---------------------------------------------------------------- specificity tuples *)
(* a tuple of bools (0 / 1); best_match starts from the tuple (-1,) *)
Definition spec := list Z.
Definition z_of_bool (b : bool) : Z := if b then 1%Z else 0%Z.
Fixpoint spec_cmp (a b : spec) : comparison :=
  match a, b with
  | [], [] => Eq
  | [], _ :: _ => Lt
  | _ :: _, [] => Gt
  | x :: a', y :: b' => match Z.compare x y with Eq => spec_cmp a' b' | c => c end
  end.
Definition spec_ltb (a b : spec) : bool := match spec_cmp a b with Lt => true | _ => false end.
Definition spec_leb (a b : spec) : bool := match spec_cmp a b with Gt => false | _ => true end.
Definition spec_eqb (a b : spec) : bool := match spec_cmp a b with Eq => true | _ => false end.

(* the sort key (specificity, quality), compared as Python compares tuples *)
Definition key := (spec * Qd)%type.
Definition key_geb (a b : key) : bool :=
  match spec_cmp (fst a) (fst b) with
  | Gt => true
  | Lt => false
  | Eq => qleb (snd b) (snd a)
  end.

(* ---------------------------------------------------------------- re.split helpers *)
(* generic piece collector: split s at every c with d c = true *)
Fixpoint split_on (d : N -> bool) (s : str) : list str :=
  match s with
  | [] => [[]]
  | c :: t =>
      match split_on d t with
      | p :: ps => if d c then [] :: p :: ps else (c :: p) :: ps
      | [] => [[]]   (* unreachable: split_on never returns [] *)
      end
  end.

(* _locale_delim_re = [_-] *)
Definition is_locale_delim (c : N) : bool := (c =? USCORE) || (c =? MINUS).
Definition locale_split (s : str) : list str := split_on is_locale_delim s.
(* _locale_delim_re.split(s, 1)[0] *)
Definition primary (s : str) : str := take_while (fun c => negb (is_locale_delim c)) s.

(* _mime_split_re: a slash, or a semicolon with optional Unicode white space on both sides (the
   pattern text is pinned in C17/Gen.v).  Leftmost match = one left-to-right pass: white space is
   held back in `pend` until the next character shows whether a semicolon follows (then it belongs
   to the delimiter) or not (then it belongs to the piece); after a semicolon white space is
   swallowed (`after`).  `piece` and `pend` are kept reversed. *)
Fixpoint msplit (s piece pend : str) (after : bool) : list str :=
  match s with
  | [] => [rev (pend ++ piece)]
  | c :: t =>
      if after && uni_ws c then msplit t piece pend true
      else if c =? SLASH then rev (pend ++ piece) :: msplit t [] [] false
      else if c =? SEMI then rev piece :: msplit t [] [] true
      else if uni_ws c then msplit t piece (c :: pend) false
      else msplit t (c :: pend ++ piece) [] false
  end.
Definition mime_split (s : str) : list str := msplit s [] [] false.


(* _normalize_mime(v) unpacked as in MIMEAccept._value_matches:
     normalized = _mime_split_re.split(v.lower()); type, subtype = normalized[:2];
     params = sorted(normalized[2:])
   None stands for the ValueError of the tuple unpacking when there are fewer than two pieces
   (impossible once v contains a slash: Proofs.mime_parts_some). *)
Definition sort_strs (l : list str) : list str := sort_desc str_leb l.
Definition mime_parts (v : str) : option (str * str * list str) :=
  match mime_split (lower v) with
  | a :: b :: ps => Some (a, b, sort_strs ps)
  | _ => None
  end.

(* _normalize_lang *)
Definition normalize_lang (v : str) : list str := locale_split (lower v).

(* ordered dict as association list *)
Fixpoint assoc_get (k : str) (l : list (str * str)) : option str :=
  match l with
  | [] => None
  | (k', v) :: t => if list_eqb k k' then Some v else assoc_get k t
  end.
Fixpoint assoc_set (k v : str) (l : list (str * str)) : list (str * str) :=
  match l with
  | [] => [(k, v)]
  | (k', v') :: t => if list_eqb k k' then (k', v) :: t else (k', v') :: assoc_set k v t
  end.
Fixpoint assoc_remove (k : str) (l : list (str * str)) : list (str * str) :=
  match l with
  | [] => []
  | (k', v) :: t => if list_eqb k k' then t else (k', v) :: assoc_remove k t
  end.
