(* C17 property theorems.  Nothing but statements, each closed by `exact <lemma>.`, with Print
   Assumptions beneath.  Model: C17/Model.v (decision expressions and tables: C17/Gen.v, regenerated
   from the source on every run).  Vocabulary of the statements: C17/Spec.v
     is_Q spec mb items o s q : (s, q) is the quality of offer o = specificity and q of the most
                                specific client range matching o (greatest q among equally specific)
     choice spec mb items offers res : res is an offer of positive quality such that every earlier
                                offer loses (smaller q, or equal q from a less specific range) and
                                every later offer loses or ties; None iff no offer has a positive quality
     offers_valid f offers    : for MIMEAccept, no offer makes the code raise ValueError
     q_literal s q            : s is  [-] digits [ . digits ]  and q its value;  q_in_range : 0 <= q <= 1
     contributes raw c        : what the list item raw adds to the parsed list (nothing, or one pair)
     lang_choice              : the three stages of LanguageAccept.best_match, each a `choice`
   Qualities are decimal rationals (num, scale) compared by cross-multiplication (qleb/qltb/qeqb). *)
From Coq Require Import ZArith Permutation Sorted.
From Wz Require Import lib.Bytes C17.LibSort C17.Base C17.Gen C17.Model C17.Spec C17.Proofs.
Open Scope N_scope.

(* ---- optimality of the negotiated choice, for a parsed header and each of the four classes *)
Theorem C17_optimal : forall tbl f value acc offers,
  parse_accept f value = Ok acc -> offers_valid f offers ->
  exists items res,
    accept_items value = Ok items /\
    best_match (spec_of f) (matches_of tbl f) acc offers = Ok res /\
    choice (spec_of f) (mb_of tbl f) items offers res.
Proof. exact negotiation_optimal. Qed.
Print Assumptions C17_optimal.

(* ... and for any Accept object, whatever (value, quality) list it was built from, any
   specificity function and any matching function that does not raise on the offers *)
Theorem C17_optimal_any_accept : forall specificity value_matches mb items offers,
  (forall o r, In o offers -> value_matches o r = Ok (mb o r)) ->
  exists res,
    best_match specificity value_matches (mk_accept specificity items) offers = Ok res /\
    choice specificity mb items offers res.
Proof. exact best_match_optimal. Qed.
Print Assumptions C17_optimal_any_accept.

(* what `choice` gives in the words of the property: the chosen offer is an offer, has a positive
   quality, no offer has a larger one, and among offers of equal quality none comes from a more
   specific range (offer order breaks the remaining ties: that part is in `choice` itself) *)
Theorem C17_optimal_reading : forall specificity mb items offers o,
  choice specificity mb items offers (Some o) ->
  In o offers /\
  exists s q, is_Q specificity mb items o s q /\ qltb zero q = true /\
    forall o' s' q', In o' offers -> is_Q specificity mb items o' s' q' ->
      qleb q' q = true /\ (qeqb q' q = true -> spec_leb s' s = true).
Proof. exact choice_consequences. Qed.
Print Assumptions C17_optimal_reading.

(* the quality of an offer is unique (so `choice` speaks about the quality) *)
Theorem C17_quality_unique : forall specificity mb items o s q s' q',
  is_Q specificity mb items o s q -> is_Q specificity mb items o s' q' -> s = s' /\ qeqb q q' = true.
Proof. exact is_Q_unique. Qed.
Print Assumptions C17_quality_unique.

(* Accept.quality(offer) and `offer in accept` *)
Theorem C17_quality : forall tbl f value acc o,
  parse_accept f value = Ok acc -> offers_valid f [o] ->
  exists items, accept_items value = Ok items /\
    ((exists s q, is_Q (spec_of f) (mb_of tbl f) items o s q
                  /\ quality (matches_of tbl f) acc o = Ok q /\ contains (matches_of tbl f) acc o = Ok true)
     \/ ((forall s q, ~ is_Q (spec_of f) (mb_of tbl f) items o s q)
         /\ quality (matches_of tbl f) acc o = Ok zero /\ contains (matches_of tbl f) acc o = Ok false)).
Proof. exact quality_contains_spec. Qed.
Print Assumptions C17_quality.

(* ---- items with a malformed or out-of-range q are ignored; the others are kept with their q *)
Theorem C17_ignored : forall value items,
  accept_items value = Ok items ->
  (value = [] /\ items = []) \/
  exists cs, Forall2 contributes (parse_list_header value) cs /\ items = concat cs.
Proof. exact accept_items_contributions. Qed.
Print Assumptions C17_ignored.

(* the q matcher is exactly the grammar; the generated range check is exactly 0 <= q <= 1 *)
Theorem C17_q_grammar : forall s q, parse_q s = Some q <-> q_literal s q.
Proof. exact (fun s q => conj (parse_q_sound s q) (parse_q_complete s q)). Qed.
Print Assumptions C17_q_grammar.

Theorem C17_q_range : forall q, q_out_of_range q = false <-> q_in_range q.
Proof. exact q_out_of_range_spec. Qed.
Print Assumptions C17_q_range.

(* ---- the parsed list is a stable rearrangement of the accepted items: a permutation, sorted by
   (specificity, q) descending, every class of equal (specificity, q) in the client's order *)
Theorem C17_order : forall f value acc,
  parse_accept f value = Ok acc ->
  exists items, accept_items value = Ok items
    /\ Permutation acc items
    /\ StronglySorted (fun a b => key_geb (key_of (spec_of f) a) (key_of (spec_of f) b) = true) acc
    /\ forall z, filter (eqv (item_geb (spec_of f)) z) acc = filter (eqv (item_geb (spec_of f)) z) items.
Proof. exact parsed_list_is_stable_sort. Qed.
Print Assumptions C17_order.

(* the classes of C17_order are what they should be *)
Theorem C17_order_classes : forall specificity a b,
  eqv (item_geb specificity) a b = true <->
  specificity (fst a) = specificity (fst b) /\ qeqb (snd a) (snd b) = true.
Proof. exact eqv_item_spec. Qed.
Print Assumptions C17_order_classes.

(* ---- header text, end to end: a header written by the serialiser from plain items (ranges without
   parameters; q = 1 or 0.d...d with any number of fraction digits) parses back to exactly those
   items, stably sorted; so C17_optimal speaks about the text of such a header *)
Theorem C17_accept_roundtrip : forall f items,
  Forall plain_item items ->
  accept_items (render_header items) = Ok items /\
  parse_accept f (render_header items) = Ok (mk_accept (spec_of f) items).
Proof. exact accept_roundtrip. Qed.
Print Assumptions C17_accept_roundtrip.

Theorem C17_optimal_header_text : forall tbl f items offers,
  Forall plain_item items -> offers_valid f offers ->
  exists acc res,
    parse_accept f (render_header items) = Ok acc /\
    best_match (spec_of f) (matches_of tbl f) acc offers = Ok res /\
    choice (spec_of f) (mb_of tbl f) items offers res.
Proof. exact header_text_optimal. Qed.
Print Assumptions C17_optimal_header_text.

(* str(accept) / to_header(): for an Accept object (a list sorted by (specificity, q)) of plain values
   with qualities in [0, 1], parsing its header text gives the same values in the same order, each
   quality rewritten in its shortest form (norm_item), which is equal to it as a rational *)
Theorem C17_to_header_roundtrip : forall f acc,
  Forall (fun it => plain_value (fst it) = true /\ q_in_range (snd it)) acc ->
  StronglySorted (fun a b => item_geb (spec_of f) a b = true) acc ->
  parse_accept f (to_header acc) = Ok (map norm_item acc) /\
  Forall (fun it => fst (norm_item it) = fst it /\ qeqb (snd (norm_item it)) (snd it) = true) acc.
Proof. exact to_header_roundtrip. Qed.
Print Assumptions C17_to_header_roundtrip.

(* ---- the float contract: for ANY type F of floats with conversion fl and comparisons flt, fle, feq
   that agree with the decimal comparisons on literals of at most 15 significant digits (sig15), the
   decision expressions of the code evaluated on floats (the g_ functions of C17/Gen.v, regenerated
   from the source, instantiated with F) and the float sort-key comparison give the model's answers.
   The hypothesis is the trusted contract of float(); it is listed in the evidence *)
Theorem C17_float_contract : forall (F : Type) (fl : Qd -> F) (flt fle feq : F -> F -> bool),
  (forall a b, sig15 a = true -> sig15 b = true ->
     flt (fl a) (fl b) = qltb a b /\ fle (fl a) (fl b) = qleb a b /\ feq (fl a) (fl b) = qeqb a b) ->
  forall q bq s bs, sig15 q = true -> sig15 bq = true ->
    g_q_out_of_range F flt fle feq (f_ofZ F fl) (fl q) = q_out_of_range q /\
    g_bm_skip F flt fle feq (f_ofZ F fl) (fl q) (fl bq) = bm_skip q bq /\
    g_bm_take F flt fle feq (f_ofZ F fl) (fl q) (fl bq) s bs = bm_take q bq s bs /\
    f_key_geb F fle (s, fl q) (bs, fl bq) = key_geb (s, q) (bs, bq).
Proof. exact float_decisions. Qed.
Print Assumptions C17_float_contract.

(* ---- LanguageAccept.best_match: exact stage, then the two primary-tag fallbacks *)
Theorem C17_language_fallback : forall tbl value acc offers,
  parse_accept FLang value = Ok acc ->
  exists items res, accept_items value = Ok items /\
    family_best_match tbl FLang acc offers = Ok res /\ lang_choice items offers res.
Proof. exact language_negotiation. Qed.
Print Assumptions C17_language_fallback.

(* whatever stage answers, the answer is an offer, and a client range of positive quality matches
   it exactly, or matches it after cutting the range to its primary tag, or matches its primary tag *)
Theorem C17_language_fallback_primary : forall items offers o,
  lang_choice items offers (Some o) ->
  In o offers /\
  (  (exists r q, In (r, q) items /\ qltb zero q = true /\ lang_mb o r = true)
  \/ (exists r q, In (r, q) items /\ qltb zero q = true /\ base_mb o (primary r) = true)
  \/ (exists r q, In (r, q) items /\ qltb zero q = true /\ lang_mb (primary o) r = true)).
Proof. exact lang_fallback_primary_matches. Qed.
Print Assumptions C17_language_fallback_primary.

(* ---- the model's explicit error values that the code cannot produce are unreachable; MIME
   matching cannot hit the unpacking error once the value has a slash *)
Theorem C17_no_out_of_fuel : forall value, accept_items value <> Err OutOfFuel.
Proof. exact accept_items_fuel. Qed.
Print Assumptions C17_no_out_of_fuel.

Theorem C17_mime_parts_total : forall v, mem SLASH v = true -> mime_parts v <> None.
Proof. exact mime_parts_some. Qed.
Print Assumptions C17_mime_parts_total.

(* ---- the matching and specificity rules regenerated from the source are the written-out rules
   of C17/Spec.v (Accept, LanguageAccept, CharsetAccept, MIMEAccept incl. its two ValueErrors) *)
Theorem C17_matching_rules :
  (forall value item, base_value_matches value item = Ok (base_rule value item)) /\
  (forall value item, lang_value_matches value item = Ok (lang_rule value item)) /\
  (forall normalize value item,
     charset_value_matches normalize value item = Ok (charset_rule normalize value item)) /\
  (forall value item vt vs it is vp ip,
     mime_value_matches value item vt vs it is vp ip = mime_rule value item vt vs it is vp ip) /\
  (forall value, base_specificity value = base_specificity_rule value) /\
  (forall value, mime_specificity value = mime_specificity_rule value).
Proof. exact matching_rules. Qed.
Print Assumptions C17_matching_rules.

(* ---- the regex texts the hand-written matchers stand for, and the sort key, are the source's *)
Theorem C17_patterns_pinned : pinned_patterns = true.
Proof. exact patterns_pinned. Qed.
Print Assumptions C17_patterns_pinned.

(* ---- satisfiability: a header with a q above 1 and a malformed q, three offers *)
Example C17_example_negotiation :
  parse_accept FMime ex_header = Ok ex_acc /\ offers_valid FMime ex_offers /\
  family_best_match [] FMime ex_acc ex_offers = Ok (Some ex_text_html) /\
  quality (matches_of [] FMime) ex_acc ex_text_plain = Ok (3%Z, 1).
Proof. exact example_negotiation. Qed.
Print Assumptions C17_example_negotiation.

Example C17_example_q_literal :
  q_literal [48; 46; 53] (5%Z, 1) /\ q_in_range (5%Z, 1) /\ q_literal [49; 46; 53] (15%Z, 1) /\ ~ q_in_range (15%Z, 1).
Proof. exact example_q_literal. Qed.
Print Assumptions C17_example_q_literal.

Example C17_example_language_fallback :
  parse_accept FLang [101; 110] = Ok [([101; 110], (1%Z, 0))] /\
  family_best_match [] FLang [([101; 110], (1%Z, 0))] [[101; 110; 103]; [101; 110; 45; 85; 83]]
  = Ok (Some [101; 110; 45; 85; 83]).
Proof. exact example_language_fallback. Qed.
Print Assumptions C17_example_language_fallback.

Example C17_example_roundtrip :
  Forall plain_item ex_items /\
  render_header ex_items = [103; 122; 105; 112; 59; 113; 61; 48; 46; 53; 44; 98; 114; 44; 42; 59; 113; 61; 48; 46; 49; 50; 53] /\
  parse_accept FBase (render_header ex_items)
  = Ok [([98; 114], (1%Z, 0)); ([103; 122; 105; 112], (5%Z, 1)); ([42], (125%Z, 3))] /\
  to_header [([98; 114], (1%Z, 0)); ([103; 122; 105; 112], (50%Z, 2)); ([42], (0%Z, 0))]
  = [98; 114; 44; 103; 122; 105; 112; 59; 113; 61; 48; 46; 53; 44; 42; 59; 113; 61; 48; 46; 48].
Proof. exact example_roundtrip. Qed.
Print Assumptions C17_example_roundtrip.

Example C17_example_float_contract :
  exists (F : Type) (fl : Qd -> F) (flt fle feq : F -> F -> bool),
    forall a b, sig15 a = true -> sig15 b = true ->
      flt (fl a) (fl b) = qltb a b /\ fle (fl a) (fl b) = qleb a b /\ feq (fl a) (fl b) = qeqb a b.
Proof. exact example_float_contract. Qed.
Print Assumptions C17_example_float_contract.

(* ================================================================ round 3 *)
(* ---- index / find / `in` / accept[key] / accept[i] / quality: all read off the first matching item
   of the sorted list (j is its position; nothing before it matches) *)
Theorem C17_accessors : forall value_matches mb k,
  (forall r, value_matches k r = Ok (mb k r)) -> forall acc,
  match first (matching mb k) acc with
  | Some it =>
      exists j, nth_error acc j = Some it /\ mb k (fst it) = true
        /\ (forall j' it', (j' < j)%nat -> nth_error acc j' = Some it' -> mb k (fst it') = false)
        /\ index value_matches acc k = Ok j
        /\ find value_matches acc k = Ok (Z.of_nat j)
        /\ contains value_matches acc k = Ok true
        /\ quality value_matches acc k = Ok (snd it)
        /\ getitem_str value_matches acc k = Ok (snd it)
        /\ getitem_int acc (Z.of_nat j) = Ok it
  | None =>
      index value_matches acc k = Err ValueError
      /\ find value_matches acc k = Ok (-1)%Z
      /\ contains value_matches acc k = Ok false
      /\ quality value_matches acc k = Ok quality_default
      /\ getitem_str value_matches acc k = Ok quality_default
  end.
Proof. exact accessors_agree. Qed.
Print Assumptions C17_accessors.

(* x in accept <-> index(x) does not raise <-> find(x) >= 0;  quality(x) > 0 implies them;
   accept[index(x)] carries quality(x) *)
Theorem C17_access_consistency : forall value_matches mb k acc,
  (forall r, value_matches k r = Ok (mb k r)) ->
  (contains value_matches acc k = Ok true <-> exists j, index value_matches acc k = Ok j) /\
  (contains value_matches acc k = Ok true <-> exists j, find value_matches acc k = Ok (Z.of_nat j)) /\
  (contains value_matches acc k = Ok false <-> index value_matches acc k = Err ValueError) /\
  (contains value_matches acc k = Ok false <-> find value_matches acc k = Ok (-1)%Z) /\
  (forall q, quality value_matches acc k = Ok q -> qltb zero q = true -> contains value_matches acc k = Ok true) /\
  (forall j, index value_matches acc k = Ok j ->
     exists it, getitem_int acc (Z.of_nat j) = Ok it /\ quality value_matches acc k = Ok (snd it)
                /\ getitem_str value_matches acc k = Ok (snd it)).
Proof. exact access_consistency. Qed.
Print Assumptions C17_access_consistency.

(* the converse of the quality clause is false: a;q=0 is `in` the object with quality 0 *)
Theorem C17_contains_implies_positive_refuted :
  exists value acc k,
    parse_accept FBase value = Ok acc /\ contains base_value_matches acc k = Ok true
    /\ find base_value_matches acc k = Ok 0%Z /\ quality base_value_matches acc k = Ok (0%Z, 0).
Proof. exact contains_not_positive. Qed.
Print Assumptions C17_contains_implies_positive_refuted.

(* ---- best_match(matches, default): the default comes back exactly when the negotiation (C17_optimal,
   C17_language_fallback) answers None, i.e. when no offer has a positive quality *)
Theorem C17_default : forall tbl f value acc offers d,
  parse_accept f value = Ok acc -> offers_valid f offers ->
  exists res, family_best_match tbl f acc offers = Ok res /\
    family_best_match_default tbl f acc offers d = Ok (match res with Some o => Some o | None => d end).
Proof. exact best_match_default_spec. Qed.
Print Assumptions C17_default.

(* ---- the choice is unique; ties go to the first offer of the SERVER's list; the CLIENT's order among
   the header items plays no role *)
Theorem C17_choice_unique : forall specificity mb items offers r r',
  choice specificity mb items offers r -> choice specificity mb items offers r' -> r = r'.
Proof. exact choice_unique. Qed.
Print Assumptions C17_choice_unique.

Theorem C17_tie_first_offer : forall specificity mb items offers o,
  choice specificity mb items offers (Some o) ->
  exists pre post s q, offers = pre ++ o :: post /\ is_Q specificity mb items o s q /\
    forall o' s' q', In o' pre -> is_Q specificity mb items o' s' q' ->
      ~ (qleb q q' = true /\ (qeqb q' q = true -> spec_leb s s' = true)).
Proof. exact tie_first_offer. Qed.
Print Assumptions C17_tie_first_offer.

Theorem C17_client_order_irrelevant : forall specificity value_matches mb items items' offers,
  (forall o r, In o offers -> value_matches o r = Ok (mb o r)) ->
  Permutation items items' ->
  best_match specificity value_matches (mk_accept specificity items) offers
  = best_match specificity value_matches (mk_accept specificity items') offers.
Proof. exact client_order_irrelevant. Qed.
Print Assumptions C17_client_order_irrelevant.

(* ---- MIMEAccept.accept_json / accept_xhtml / accept_html (bodies regenerated from the source):
   true iff some client range matches the type(s) - in terms of is_Q *)
Theorem C17_accept_convenience : forall value acc,
  parse_accept FMime value = Ok acc ->
  exists items, accept_items value = Ok items /\
    (accept_json acc = true <-> matched items s_app_json) /\
    (accept_xhtml acc = true <-> matched items s_app_xhtml \/ matched items s_app_xml) /\
    (accept_html acc = true <-> matched items s_text_html \/ matched items s_app_xhtml \/ matched items s_app_xml).
Proof. exact convenience_spec. Qed.
Print Assumptions C17_accept_convenience.

(* ... which is weaker than acceptable: application/json;q=0 gives accept_json = True *)
Theorem C17_accept_json_positive_refuted :
  exists value acc, parse_accept FMime value = Ok acc /\ accept_json acc = true /\ accept_html acc = false
                    /\ quality mime_matches acc s_app_json = Ok (0%Z, 0).
Proof. exact accept_json_not_positive. Qed.
Print Assumptions C17_accept_json_positive_refuted.

(* ---- Request.accept_mimetypes / accept_charsets / accept_encodings / accept_languages read the header and
   use the class they should (table regenerated from sansio/request.py) *)
Theorem C17_request_glue_pinned : glue_eqb request_accept_glue expected_request_glue = true.
Proof. exact request_glue_pinned. Qed.
Print Assumptions C17_request_glue_pinned.

(* ---- RFC 9110 q-values: all 1117 spellings ( 0 [ . 0*3DIGIT ] ) / ( 1 [ . 0*3(0) ] ) are accepted with a value
   in [0, 1], except the two that end in a bare dot (0. and 1.), which the code's grammar rejects *)
Theorem C17_rfc_qvalues : (length rfc_qvalues = 1117)%nat /\ forallb rfc_qvalue_ok rfc_qvalues = true.
Proof. exact rfc_qvalues_sweep. Qed.
Print Assumptions C17_rfc_qvalues.

(* the converse is false: 0.12345, 01 and -0 are accepted as well *)
Theorem C17_q_only_rfc_refuted :
  exists s1 s2 s3 q1 q2 q3,
    parse_q s1 = Some q1 /\ parse_q s2 = Some q2 /\ parse_q s3 = Some q3 /\
    q_out_of_range q1 = false /\ q_out_of_range q2 = false /\ q_out_of_range q3 = false /\
    existsb (list_eqb s1) rfc_qvalues = false /\ existsb (list_eqb s2) rfc_qvalues = false
    /\ existsb (list_eqb s3) rfc_qvalues = false.
Proof. exact q_grammar_wider. Qed.
Print Assumptions C17_q_only_rfc_refuted.

(* ---- codecs.lookup as a contract (Section CodecContract): for ANY lookup that ignores ASCII letter case and
   whose canonical names are lower-case fixpoints, charset matching does not depend on the spelling of the
   offer (case, alias vs canonical name), and offers resolving to the same codec are matched alike *)
Theorem C17_charset_contract : forall lookup : str -> option str,
  (forall n, lookup (lower n) = lookup n) ->
  (forall n c, lookup n = Some c -> lookup c = Some c /\ lower c = c) ->
  (forall o r, charset_rule (normalize lookup) (lower o) r = charset_rule (normalize lookup) o r /\
               charset_rule (normalize lookup) (normalize lookup o) r = charset_rule (normalize lookup) o r) /\
  (forall o o' c r, lookup o = Some c -> lookup o' = Some c ->
     charset_rule (normalize lookup) o r = charset_rule (normalize lookup) o' r).
Proof. exact (fun l h1 h2 => conj (charset_offer_spelling l h1 h2) (charset_alias l)). Qed.
Print Assumptions C17_charset_contract.

Example C17_example_q_spellings :
  hdr [97; 59; 113; 61; 49; 46; 48; 48; 48] = Ok [([97], (1000%Z, 3))] /\
  hdr [97; 59; 81; 61; 48; 46; 53] = Ok [([97], (5%Z, 1))] /\
  hdr [97; 32; 59; 32; 113; 61; 48; 46; 53] = Ok [([97], (5%Z, 1))] /\
  hdr [97; 59; 113; 61; 34; 48; 46; 53; 34] = Ok [([97], (5%Z, 1))] /\
  hdr [97; 59; 113; 61; 48; 46; 49; 50; 51; 52; 53] = Ok [([97], (12345%Z, 5))] /\
  hdr [97; 59; 113; 61; 48; 49] = Ok [([97], (1%Z, 0))] /\
  hdr [97; 59; 113; 61; 46; 53] = Ok [] /\
  hdr [97; 59; 113; 61; 49; 46] = Ok [] /\
  hdr [97; 59; 113; 61; 49; 46; 48; 48; 49] = Ok [] /\
  hdr [97; 59; 113; 61; 45; 49] = Ok [] /\
  hdr [97; 59; 113; 32; 61; 48; 46; 53] = Ok [([97], (1%Z, 0))] /\
  hdr [97; 59; 113; 61; 32; 48; 46; 53] = Ok [([97], (1%Z, 0))].
Proof. exact example_q_spellings. Qed.
Print Assumptions C17_example_q_spellings.
