From Coq Require Extraction ExtrOcamlBasic.
From Wz Require Import lib.Bytes lib.ExtractBase C17.LibSort C17.Base C17.Gen C17.Model.
Extraction Language OCaml.
Extraction "C17/model_extracted.ml" force_types parse_list_header parse_options_header parse_q accept_items
  parse_accept mk_accept spec_of matches_of quality contains best family_best_match mime_split locale_split to_header values render_header index find getitem_int family_best_match_default accept_html accept_xhtml accept_json.
