(* C17: a header written by the serialiser from plain items parses back to those items, stably
   sorted (C17_accept_roundtrip); to_header; the float contract. *)
From Coq Require Import ZArith Lia ZifyBool ZifyN Permutation.
From Wz Require Import lib.Bytes lib.BytesFacts C17.LibSort C17.Base C17.Gen C17.Model C17.Spec
  C17.ProofsOrder C17.ProofsParse.
Open Scope N_scope.

(* ---------------------------------------------------------------- digits *)
Lemma fixed_digits_length w : forall n, length (fixed_digits w n) = w.
Proof. induction w as [|w IH]; intro n; cbn [fixed_digits]; [reflexivity|]. rewrite app_length, IH. cbn. lia. Qed.

Lemma digit_of_mod n : is_digit (Z.to_N (48 + n mod 10)) = true.
Proof. unfold is_digit. pose proof (Z.mod_pos_bound n 10 ltac:(lia)). lia. Qed.

Lemma fixed_digits_all w : forall n, forallb is_digit (fixed_digits w n) = true.
Proof.
  induction w as [|w IH]; intro n; cbn [fixed_digits]; [reflexivity|].
  rewrite forallb_app, IH. cbn [forallb]. now rewrite digit_of_mod.
Qed.

Definition dstep (a : Z) (c : N) : Z := (a * 10 + Z.of_N (c - 48))%Z.

Lemma fold_fixed w : forall n a, (0 <= n < 10 ^ Z.of_nat w)%Z ->
  fold_left dstep (fixed_digits w n) a = (a * 10 ^ Z.of_nat w + n)%Z.
Proof.
  induction w as [|w IH]; intros n a Hn; cbn [fixed_digits].
  - cbn [fold_left]. change (Z.of_nat 0) with 0%Z in *. rewrite Z.pow_0_r in *. lia.
  - rewrite fold_left_app. cbn [fold_left]. rewrite Nat2Z.inj_succ, Z.pow_succ_r in * by lia.
    rewrite IH.
    + unfold dstep. pose proof (Z.mod_pos_bound n 10 ltac:(lia)).
      replace (Z.of_N (Z.to_N (48 + n mod 10) - 48)) with (n mod 10)%Z by lia.
      pose proof (Z.div_mod n 10 ltac:(lia)). nia.
    + split; [apply Z.div_pos; lia|]. apply Z.div_lt_upper_bound; lia.
Qed.

Lemma digits_val_render w n : (0 <= n < 10 ^ Z.of_nat w)%Z -> digits_val ([48] ++ fixed_digits w n) = n.
Proof.
  intro Hn. unfold digits_val. cbn [app fold_left].
  change (fun (a : Z) (c : N) => (a * 10 + Z.of_N (c - 48))%Z) with dstep.
  rewrite fold_fixed by exact Hn. reflexivity.
Qed.

(* the rendered quality is a literal of the grammar with the value it was rendered from *)
Lemma render_q_literal n k : 1 <= k -> (0 <= n < pow10 k)%Z -> q_literal (render_q (n, k)) (n, k).
Proof.
  intros Hk Hn. unfold render_q. cbn [fst snd]. set (w := N.to_nat k).
  assert (Hw : Z.of_nat w = Z.of_N k) by (unfold w; lia).
  exists false, [48], (Some (fixed_digits w n)). split; [reflexivity|].
  split; [split; [discriminate | reflexivity]|].
  split.
  - split; [|apply fixed_digits_all]. intro E. pose proof (fixed_digits_length w n) as L. rewrite E in L.
    cbn [length] in L. lia.
  - cbv zeta. rewrite digits_val_render by (rewrite Hw; exact Hn).
    rewrite fixed_digits_length. f_equal. unfold w. lia.
Qed.

(* ---------------------------------------------------------------- characters *)
Definition okc (c : N) : bool := negb (c =? COMMA) && negb (c =? DQ) && negb (uni_ws c).

Lemma plain_char_ok c : plain_char c = true -> okc c = true /\ (SEMI =? c) = false.
Proof.
  unfold plain_char, okc, is_alpha, is_upper, is_lower, is_digit, uni_ws,
         STAR, SLASH, MINUS, USCORE, DOT, COMMA, DQ, SEMI.
  lia.
Qed.

Lemma digit_ok c : is_digit c = true ->
  okc c = true /\ (SEMI =? c) = false /\ is_param_token c = true.
Proof.
  unfold okc, is_digit, uni_ws, is_param_token, in_ranges, COMMA, DQ, SEMI.
  cbn [param_token_class existsb fst snd]. lia.
Qed.

Lemma okc_app a b : forallb okc (a ++ b) = forallb okc a && forallb okc b.
Proof. apply forallb_app. Qed.

Lemma forallb_and3 (P : N -> bool) s :
  (forall c, P c = true -> okc c = true /\ (SEMI =? c) = false /\ is_param_token c = true) ->
  forallb P s = true ->
  forallb okc s = true /\ forallb (fun c => negb (SEMI =? c)) s = true /\ forallb is_param_token s = true.
Proof.
  intros H Hs. repeat split; eapply forallb_impl; try exact Hs; intros c Hc; destruct (H c Hc) as (A & B & C); auto.
  now rewrite B.
Qed.

Lemma okc_no_ws s : forallb okc s = true -> forallb (fun c => negb (uni_ws c)) s = true.
Proof.
  apply forallb_impl. intros c H. unfold okc in H. apply andb_prop in H as [_ H]. exact H.
Qed.

(* ---------------------------------------------------------------- parse_http_list on comma-joined pieces *)
Definition ok_piece (x : str) : Prop := x <> [] /\ forallb okc x = true.

Lemma phl_piece s : forall rest part res, forallb okc s = true ->
  phl (s ++ rest) part false false res = phl rest (rev s ++ part) false false res.
Proof.
  induction s as [|c s IH]; intros rest part res H; [reflexivity|].
  cbn [forallb] in H. apply andb_prop in H as [Hc Hs]. cbn [app phl].
  unfold okc in Hc. apply andb_prop in Hc as [Hc _]. apply andb_prop in Hc as [H1 H2].
  apply negb_true_iff in H1, H2. rewrite H1, H2. rewrite IH by exact Hs.
  cbn [rev]. now rewrite <- app_assoc.
Qed.

Lemma phl_pieces t : forall part res, part <> [] -> Forall ok_piece t ->
  phl (flat_map (cons COMMA) t) part false false res = rev res ++ rev part :: t.
Proof.
  induction t as [|x t IH]; intros part res Hp Ht.
  - cbn [flat_map phl]. destruct part; [congruence|]. cbn [is_nil]. reflexivity.
  - inversion Ht as [|? ? [Hne Hx] Ht']; subst. cbn [flat_map app phl]. rewrite N.eqb_refl.
    rewrite phl_piece by exact Hx. rewrite app_nil_r. rewrite IH; auto.
    + cbn [rev]. rewrite rev_involutive, <- app_assoc. reflexivity.
    + intro E. apply (f_equal (@rev N)) in E. rewrite rev_involutive in E. cbn in E. congruence.
Qed.

Lemma join_comma x t : join [COMMA] (x :: t) = x ++ flat_map (cons COMMA) t.
Proof.
  revert x. induction t as [|y t IH]; intro x.
  - cbn [join flat_map]. now rewrite app_nil_r.
  - change (join [COMMA] (x :: y :: t)) with (x ++ [COMMA] ++ join [COMMA] (y :: t)). rewrite IH. reflexivity.
Qed.

Lemma parse_list_header_join ss : Forall ok_piece ss -> ss <> [] ->
  parse_list_header (join [COMMA] ss) = ss.
Proof.
  intros Hs Hne. destruct ss as [|x t]; [congruence|]. inversion Hs as [|? ? [Hx Hok] Ht]; subst.
  unfold parse_list_header, parse_http_list. rewrite join_comma, phl_piece by exact Hok.
  rewrite app_nil_r, phl_pieces; auto.
  2:{ intro E. apply (f_equal (@rev N)) in E. rewrite rev_involutive in E. cbn in E. congruence. }
  cbn [rev app]. rewrite rev_involutive, !map_map.
  transitivity (map (fun s : str => s) (x :: t)); [|apply map_id]. apply map_ext_in. intros s Hin.
  assert (Hsok : ok_piece s) by (rewrite Forall_forall in Hs; now apply Hs).
  destruct Hsok as [Hsne Hsc]. rewrite strip_none by now apply okc_no_ws.
  unfold strip_outer_quotes. destruct s as [|c s]; [congruence|]. cbn [first_is].
  cbn [forallb] in Hsc. apply andb_prop in Hsc as [Hc _]. unfold okc in Hc.
  apply andb_prop in Hc as [Hc _]. apply andb_prop in Hc as [_ Hc]. apply negb_true_iff in Hc.
  rewrite Hc, andb_false_r. reflexivity.
Qed.

(* ---------------------------------------------------------------- one rendered item *)
Lemma partition1_none x s : forallb (fun c => negb (x =? c)) s = true -> partition1 x s = (s, None).
Proof.
  induction s as [|a s IH]; cbn [partition1 forallb]; intro H; [reflexivity|].
  apply andb_prop in H as [Ha Hs]. apply negb_true_iff in Ha. rewrite Ha, IH by exact Hs. reflexivity.
Qed.

Lemma plain_value_facts v : plain_value v = true ->
  v <> [] /\ forallb okc v = true /\ forallb (fun c => negb (SEMI =? c)) v = true.
Proof.
  unfold plain_value. intro H. apply andb_prop in H as [Hne Hv].
  split; [destruct v; [discriminate|congruence]|].
  split; eapply forallb_impl; try exact Hv; intros c Hc; destruct (plain_char_ok c Hc) as (A & B); auto.
  now rewrite B.
Qed.

Lemma key_q : is_param_key 113 = true /\ is_param_key EQS = false /\ lower [113] = [113]
              /\ last_is STAR [113] = false /\ continuation_split [113] = None.
Proof. repeat split; reflexivity. Qed.

Lemma in_range_of_bounds n k : (0 <= n < pow10 k)%Z -> q_in_range (n, k).
Proof.
  intro Hn. unfold q_in_range, zero, one, q_of_Z, qleb. cbn [fst snd]. change (pow10 0) with 1%Z.
  split; apply Z.leb_le; lia.
Qed.

(* `value` alone *)
Lemma contribution_plain v : plain_value v = true -> contribution v = Ok [(v, one)].
Proof.
  intro Hv. destruct (plain_value_facts v Hv) as (Hne & Hok & Hsemi).
  unfold contribution, parse_options_header. rewrite partition1_none by exact Hsemi.
  rewrite strip_none by now apply okc_no_ws.
  destruct v as [|c v]; [congruence|]. cbn [is_nil orb strip]. reflexivity.
Qed.

(* `value;q=0.ddd` *)
Lemma contribution_q v n k : plain_value v = true -> 1 <= k -> (0 <= n < pow10 k)%Z ->
  contribution (v ++ q_param ++ render_q (n, k)) = Ok [(v, (n, k))].
Proof.
  intros Hv Hk Hn. destruct (plain_value_facts v Hv) as (Hne & Hok & Hsemi).
  pose proof (render_q_literal n k Hk Hn) as Hlit.
  set (pv := render_q (n, k)) in *.
  assert (Hpv : forallb okc pv = true /\ forallb (fun c => negb (SEMI =? c)) pv = true
                /\ forallb is_param_token pv = true).
  { unfold pv, render_q. cbn [fst snd app forallb].
    destruct (forallb_and3 is_digit _ digit_ok (fixed_digits_all (N.to_nat k) n)) as (A & B & C).
    rewrite A, B, C. repeat split; reflexivity. }
  destruct Hpv as (Pok & Psemi & Ptok).
  assert (Hpvne : exists c r, pv = c :: r /\ (c =? DQ) = false) by (exists 48, (DOT :: fixed_digits (N.to_nat k) n); split; reflexivity).
  destruct Hpvne as (c0 & r0 & Epv & Hc0).
  unfold contribution, parse_options_header, q_param. cbn [app].
  rewrite partition1_app_stop by exact Hsemi.
  rewrite strip_none by now apply okc_no_ws.
  assert (Hrest : strip uni_ws (113 :: EQS :: pv) = 113 :: EQS :: pv).
  { apply strip_none. cbn [forallb]. rewrite (okc_no_ws _ Pok). reflexivity. }
  rewrite Hrest. destruct v as [|cv v]; [congruence|]. cbn [is_nil orb].
  destruct key_q as (K1 & K2 & K3 & K4 & K5).
  (* the collecting loop finds q=<token> and stops *)
  assert (Hloop : opt_loop (S (length (113 :: EQS :: pv))) (113 :: EQS :: pv) [] = Ok [([113], pv)]).
  { cbn [opt_loop]. unfold opt_step, key_match. cbn [take_while drop_while]. rewrite K1, K2. cbn [take_while drop_while].
    rewrite N.eqb_refl, K3. unfold token_match. destruct (take_while_id _ _ Ptok) as [-> _].
    rewrite Epv. cbn [app]. rewrite <- Epv. rewrite partition1_none by exact Psemi. reflexivity. }
  rewrite Hloop. cbn [process_parts]. rewrite K4.
  assert (Hn1 : is_nil pv = false) by (rewrite Epv; reflexivity).
  assert (Hf : first_is DQ pv = false) by (rewrite Epv; cbn [first_is]; exact Hc0).
  rewrite Hn1, K5. unfold unquote_param. rewrite Hf. cbn [andb assoc_set].
  unfold q_decide. cbn [assoc_get q_key list_eqb]. rewrite N.eqb_refl. cbn [andb].
  rewrite strip_none by now apply okc_no_ws.
  rewrite (parse_q_complete _ _ Hlit).
  assert (Hr : q_out_of_range (n, k) = false) by (apply q_out_of_range_spec, in_range_of_bounds; exact Hn).
  rewrite Hr. reflexivity.
Qed.

Lemma wf_q_eq_one q : wf_q q -> qeqb q (q_of_Z 1%Z) = true <-> q = one.
Proof.
  intros [->|[Hk Hn]]; [split; reflexivity|]. split; [|intros ->; reflexivity].
  unfold qeqb, q_of_Z, pow10. cbn [fst snd]. change (Z.of_N 0) with 0%Z. rewrite Z.pow_0_r.
  unfold pow10 in Hn. intro H. apply Z.eqb_eq in H. lia.
Qed.

Lemma contribution_render it : plain_item it -> contribution (render_item it) = Ok [it].
Proof.
  destruct it as [v q]. intros [Hv Hq]. cbn [fst snd] in *. unfold render_item. cbn [fst snd].
  destruct (qeqb q (q_of_Z 1%Z)) eqn:E.
  - apply (wf_q_eq_one q Hq) in E. subst q. now apply contribution_plain.
  - destruct Hq as [->|[Hk Hn]]; [discriminate|]. destruct q as [n k]. cbn [fst snd] in *.
    now apply contribution_q.
Qed.

Lemma render_item_ok it : plain_item it -> ok_piece (render_item it).
Proof.
  destruct it as [v q]. intros [Hv Hq]. cbn [fst snd] in *.
  destruct (plain_value_facts v Hv) as (Hne & Hok & _). unfold render_item. cbn [fst snd].
  destruct (qeqb q (q_of_Z 1%Z)); [split; assumption|]. split.
  - destruct v; [congruence|discriminate].
  - rewrite !okc_app, Hok. unfold render_q. cbn [app forallb andb].
    destruct (forallb_and3 is_digit _ digit_ok (fixed_digits_all (N.to_nat (snd q)) (fst q))) as (A & _ & _).
    rewrite A. reflexivity.
Qed.

Lemma collect_render items : Forall plain_item items -> collect (map render_item items) = Ok items.
Proof.
  induction 1 as [|it t Hit Ht IH]; cbn [map collect]; [reflexivity|].
  rewrite contribution_render by exact Hit. rewrite IH. reflexivity.
Qed.

(* C17_accept_roundtrip *)
Lemma accept_roundtrip f items : Forall plain_item items ->
  accept_items (render_header items) = Ok items /\
  parse_accept f (render_header items) = Ok (mk_accept (spec_of f) items).
Proof.
  intro H. assert (E : accept_items (render_header items) = Ok items).
  { destruct items as [|it t]; [reflexivity|]. unfold accept_items, render_header.
    assert (Hok : Forall ok_piece (map render_item (it :: t))).
    { apply Forall_forall. intros x Hx. apply in_map_iff in Hx as (y & <- & Hy).
      apply render_item_ok. rewrite Forall_forall in H. now apply H. }
    assert (Hne : is_nil (join [COMMA] (map render_item (it :: t))) = false).
    { cbn [map]. rewrite join_comma. inversion Hok as [|? ? [Hx _] _]; subst.
      destruct (render_item it); [congruence|reflexivity]. }
    rewrite Hne, parse_list_header_join; [|exact Hok|discriminate]. now apply collect_render. }
  split; [exact E|]. unfold parse_accept. now rewrite E.
Qed.

(* ---------------------------------------------------------------- the float contract *)
Section FloatContract.
  Variable F : Type.
  Variable fl : Qd -> F.                   (* float(<literal>) / the int constants of the code *)
  Variables flt fle feq : F -> F -> bool.  (* <, <=, == on floats *)
  Hypothesis contract : forall a b, sig15 a = true -> sig15 b = true ->
    flt (fl a) (fl b) = qltb a b /\ fle (fl a) (fl b) = qleb a b /\ feq (fl a) (fl b) = qeqb a b.

  Definition f_ofZ (z : Z) : F := fl (q_of_Z z).
  (* the sort key compared on floats *)
  Definition f_key_geb (a b : spec * F) : bool :=
    match spec_cmp (fst a) (fst b) with Gt => true | Lt => false | Eq => fle (snd b) (snd a) end.

  Lemma sig15_const z : (Z.abs z <? 10 ^ 15)%Z = true -> sig15 (q_of_Z z) = true.
  Proof. intro H. unfold sig15, q_of_Z. cbn [fst snd]. now rewrite H. Qed.

  Ltac by_contract :=
    repeat match goal with
           | |- context [flt (fl ?a) (fl ?b)] =>
               rewrite (proj1 (contract a b ltac:(first [assumption | reflexivity]) ltac:(first [assumption | reflexivity])))
           | |- context [fle (fl ?a) (fl ?b)] =>
               rewrite (proj1 (proj2 (contract a b ltac:(first [assumption | reflexivity]) ltac:(first [assumption | reflexivity]))))
           | |- context [feq (fl ?a) (fl ?b)] =>
               rewrite (proj2 (proj2 (contract a b ltac:(first [assumption | reflexivity]) ltac:(first [assumption | reflexivity]))))
           end.

  Lemma float_decisions q bq s bs : sig15 q = true -> sig15 bq = true ->
    g_q_out_of_range F flt fle feq f_ofZ (fl q) = q_out_of_range q /\
    g_bm_skip F flt fle feq f_ofZ (fl q) (fl bq) = bm_skip q bq /\
    g_bm_take F flt fle feq f_ofZ (fl q) (fl bq) s bs = bm_take q bq s bs /\
    f_key_geb (s, fl q) (bs, fl bq) = key_geb (s, q) (bs, bq).
  Proof.
    intros Hq Hbq.
    unfold g_q_out_of_range, g_bm_skip, g_bm_take, q_out_of_range, bm_skip, bm_take, f_key_geb, key_geb, f_ofZ.
    cbn [fst snd]. by_contract. repeat split; reflexivity.
  Qed.
End FloatContract.

(* the contract is satisfiable: decimal rationals themselves *)
Lemma float_contract_inhabited : forall a b, sig15 a = true -> sig15 b = true ->
  qltb ((fun q => q) a) ((fun q => q) b) = qltb a b /\ qleb a b = qleb a b /\ qeqb a b = qeqb a b.
Proof. intros. repeat split. Qed.

(* ---------------------------------------------------------------- to_header / str round trip *)
Lemma pow10_add a b : pow10 (a + b) = (pow10 a * pow10 b)%Z.
Proof. unfold pow10. rewrite N2Z.inj_add, Z.pow_add_r; lia. Qed.

Lemma strip_zeros_spec f : forall n k, 1 <= k ->
  let '(n', k') := strip_zeros f n k in
  1 <= k' /\ k' <= k /\ n = (n' * pow10 (k - k'))%Z.
Proof.
  induction f as [|f IH]; intros n k Hk; cbn [strip_zeros].
  - repeat split; try lia. rewrite N.sub_diag. unfold pow10. cbn. lia.
  - destruct ((1 <? k) && (n mod 10 =? 0)%Z) eqn:E.
    + apply andb_prop in E as [E1 E2]. apply N.ltb_lt in E1. apply Z.eqb_eq in E2.
      specialize (IH (n / 10)%Z (k - 1) ltac:(lia)).
      destruct (strip_zeros f (n / 10) (k - 1)) as [n' k']. destruct IH as (A & B & C).
      repeat split; try lia.
      replace (k - k') with (1 + (k - 1 - k')) by lia. rewrite pow10_add.
      change (pow10 1) with 10%Z. pose proof (Z.div_mod n 10 ltac:(lia)). nia.
    + repeat split; try lia. rewrite N.sub_diag. unfold pow10. cbn. lia.
Qed.

Lemma q_normalize_spec n k : (0 <= n < pow10 k)%Z ->
  let '(n', k') := q_normalize (n, k) in
  1 <= k' /\ (0 <= n' < pow10 k')%Z /\ qeqb (n', k') (n, k) = true.
Proof.
  intro Hn. unfold q_normalize. cbn [fst snd]. destruct (k =? 0) eqn:Ek.
  - apply N.eqb_eq in Ek. subst k. change (pow10 0) with 1%Z in Hn. assert (n = 0%Z) by lia. subst n.
    repeat split; try reflexivity; try lia.
  - apply N.eqb_neq in Ek. pose proof (strip_zeros_spec (N.to_nat k) n k ltac:(lia)) as H.
    destruct (strip_zeros (N.to_nat k) n k) as [n' k']. destruct H as (A & B & C).
    pose proof (pow10_pos (k - k')) as P1. pose proof (pow10_pos k') as P2.
    assert (Hk : pow10 k = (pow10 k' * pow10 (k - k'))%Z) by (rewrite <- pow10_add; f_equal; lia).
    repeat split; try lia; try nia.
    unfold qeqb. cbn [fst snd]. apply Z.eqb_eq. rewrite C, Hk. ring.
Qed.

Lemma qeqb_refl q : qeqb q q = true.
Proof. apply qeqb_true. split; apply qleb_refl. Qed.
Lemma qeqb_sym a b : qeqb a b = true -> qeqb b a = true.
Proof. rewrite !qeqb_true. tauto. Qed.
Lemma qeqb_trans a b c : qeqb a b = true -> qeqb b c = true -> qeqb a c = true.
Proof. rewrite !qeqb_true. intros [A B] [C D]. split; eapply qleb_trans; eauto. Qed.

Lemma qleb_compat a a' b b' : qeqb a a' = true -> qeqb b b' = true -> qleb a b = qleb a' b'.
Proof.
  rewrite !qeqb_true. intros [A1 A2] [B1 B2].
  destruct (qleb a b) eqn:E; destruct (qleb a' b') eqn:E'; try reflexivity.
  - rewrite (qleb_trans _ _ _ A2 (qleb_trans _ _ _ E B1)) in E'. discriminate.
  - rewrite (qleb_trans _ _ _ A1 (qleb_trans _ _ _ E' B2)) in E. discriminate.
Qed.

Definition in_unit (q : Qd) : Prop := q_in_range q.

Lemma norm_q_spec q : q_in_range q -> wf_q (norm_q q) /\ qeqb (norm_q q) q = true.
Proof.
  intros [H0 H1]. unfold norm_q. destruct (qeqb q (q_of_Z 1%Z)) eqn:E.
  - split; [now left|]. apply qeqb_sym. exact E.
  - destruct q as [n k]. assert (Hn : (0 <= n < pow10 k)%Z).
    { unfold qleb, qeqb, zero, one, q_of_Z, pow10 in *. cbn [fst snd] in *. change (Z.of_N 0) with 0%Z in *.
      rewrite Z.pow_0_r in *. apply Z.leb_le in H0, H1. apply Z.eqb_neq in E. lia. }
    pose proof (q_normalize_spec n k Hn) as H. destruct (q_normalize (n, k)) as [n' k'].
    destruct H as (A & B & C). split; [right; cbn [fst snd]; auto | exact C].
Qed.

Lemma to_header_item_render it : q_in_range (snd it) -> to_header_item it = render_item (norm_item it).
Proof.
  intro Hr. destruct (norm_q_spec _ Hr) as [Hwf Heq]. destruct it as [v q]. cbn [fst snd] in *.
  unfold to_header_item, render_item, norm_item. cbn [fst snd]. unfold norm_q in *.
  destruct (qeqb q (q_of_Z 1%Z)) eqn:E; [reflexivity|].
  destruct (qeqb (q_normalize q) (q_of_Z 1%Z)) eqn:E'; [|reflexivity].
  rewrite (qeqb_trans _ _ _ (qeqb_sym _ _ Heq) E') in E. discriminate.
Qed.

Definition plain_unit_item (it : item) : Prop := plain_value (fst it) = true /\ q_in_range (snd it).

Lemma to_header_render acc : Forall plain_unit_item acc -> to_header acc = render_header (map norm_item acc).
Proof.
  intro H. unfold to_header, render_header. rewrite map_map. f_equal. apply map_ext_in.
  intros it Hin. rewrite Forall_forall in H. apply to_header_item_render, (H it Hin).
Qed.

Lemma item_geb_norm specificity a b : q_in_range (snd a) -> q_in_range (snd b) ->
  item_geb specificity (norm_item a) (norm_item b) = item_geb specificity a b.
Proof.
  intros Ha Hb. destruct (norm_q_spec _ Ha) as [_ Ea]. destruct (norm_q_spec _ Hb) as [_ Eb].
  unfold item_geb, key_geb, key_of, norm_item. cbn [fst snd].
  destruct (spec_cmp (specificity (fst a)) (specificity (fst b))); try reflexivity.
  now apply qleb_compat.
Qed.

Lemma sorted_norm specificity acc : Forall plain_unit_item acc ->
  Sorted.StronglySorted (fun a b => item_geb specificity a b = true) acc ->
  Sorted.StronglySorted (fun a b => item_geb specificity a b = true) (map norm_item acc).
Proof.
  intros Hp Hs. induction Hs as [|a t Ht IH Ha]; cbn [map]; [constructor|].
  inversion Hp as [|? ? [_ Hqa] Hpt]; subst. constructor; [now apply IH|].
  rewrite Forall_forall in *. intros y Hy. apply in_map_iff in Hy as (b & <- & Hb).
  rewrite item_geb_norm; [now apply Ha | exact Hqa | apply (Hpt b Hb)].
Qed.

(* C17_to_header_roundtrip: str(accept) parses back to the same values in the same order, each
   quality rewritten in its shortest form (equal as a rational) *)
Lemma to_header_roundtrip f acc : Forall plain_unit_item acc ->
  Sorted.StronglySorted (fun a b => item_geb (spec_of f) a b = true) acc ->
  parse_accept f (to_header acc) = Ok (map norm_item acc) /\
  Forall (fun it => fst (norm_item it) = fst it /\ qeqb (snd (norm_item it)) (snd it) = true) acc.
Proof.
  intros Hp Hs. split.
  - rewrite to_header_render by exact Hp.
    assert (Hpl : Forall plain_item (map norm_item acc)).
    { apply Forall_forall. intros x Hx. apply in_map_iff in Hx as (y & <- & Hy).
      rewrite Forall_forall in Hp. destruct (Hp y Hy) as [Hv Hq]. split; [exact Hv|].
      apply (norm_q_spec _ Hq). }
    destruct (accept_roundtrip f _ Hpl) as [_ ->]. f_equal. unfold mk_accept.
    apply sort_sorted_id. now apply sorted_norm.
  - apply Forall_forall. intros it Hin. rewrite Forall_forall in Hp. destruct (Hp it Hin) as [_ Hq].
    split; [reflexivity|]. apply (norm_q_spec _ Hq).
Qed.
