(* Generic stable insertion sort, descending w.r.t. a boolean total preorder `geb`
   (geb a b = true : a ranks at least as high as b), with permutation, sortedness and
   stability lemmas.  Models Python's `sorted(xs, key=k, reverse=True)` (a stable sort that keeps
   the original order among elements with equal keys) with geb a b := (k a >= k b).
   Candidate for promotion to coq/lib (DESIGN.md section 4, Sorting.v). *)
From Coq Require Import List Bool Permutation Sorted.
Import ListNotations.

Section Sort.
  Context {A : Type}.
  Variable geb : A -> A -> bool.

  (* x is placed in front of the first element it is at least as high as: elements that were
     inserted earlier (= stood later in the input) and have an equal key stay behind x *)
  Fixpoint insert (x : A) (l : list A) : list A :=
    match l with
    | [] => [x]
    | y :: t => if geb x y then x :: l else y :: insert x t
    end.

  Definition sort_desc (l : list A) : list A := fold_right insert [] l.

  Definition eqv (a b : A) : bool := geb a b && geb b a.

  (* first element satisfying p *)
  Fixpoint first (p : A -> bool) (l : list A) : option A :=
    match l with
    | [] => None
    | x :: t => if p x then Some x else first p t
    end.

  Lemma insert_perm x l : Permutation (insert x l) (x :: l).
  Proof.
    induction l as [|y t IH]; simpl; [apply Permutation_refl|].
    destruct (geb x y); [apply Permutation_refl|].
    eapply Permutation_trans; [apply perm_skip, IH | apply perm_swap].
  Qed.

  Lemma sort_perm l : Permutation (sort_desc l) l.
  Proof.
    induction l as [|x t IH]; simpl; [apply perm_nil|].
    eapply Permutation_trans; [apply insert_perm | apply perm_skip, IH].
  Qed.

  Lemma sort_in l x : In x (sort_desc l) <-> In x l.
  Proof.
    split; apply Permutation_in; [apply sort_perm | apply Permutation_sym, sort_perm].
  Qed.

  Lemma sort_length l : length (sort_desc l) = length l.
  Proof. apply Permutation_length, sort_perm. Qed.

  (* stability part 1: no hypothesis needed when x is not in the class of z *)
  Lemma filter_insert_other (p : A -> bool) x l :
    p x = false -> filter p (insert x l) = filter p l.
  Proof.
    intro Hx. induction l as [|y t IH]; simpl.
    - now rewrite Hx.
    - destruct (geb x y); simpl.
      + now rewrite Hx.
      + now rewrite IH.
  Qed.

  Section Order.
    Hypothesis geb_total : forall a b, geb a b = true \/ geb b a = true.
    Hypothesis geb_trans : forall a b c, geb a b = true -> geb b c = true -> geb a c = true.

    Lemma geb_refl a : geb a a = true.
    Proof. destruct (geb_total a a); assumption. Qed.

    Let R (a b : A) : Prop := geb a b = true.

    Lemma insert_sorted x l : StronglySorted R l -> StronglySorted R (insert x l).
    Proof.
      induction 1 as [|y t Ht IH Hy]; simpl.
      - constructor; constructor.
      - destruct (geb x y) eqn:E.
        + constructor; [constructor; assumption|].
          constructor; [exact E|].
          rewrite Forall_forall in *. intros z Hz. eapply geb_trans; [exact E | apply Hy, Hz].
        + constructor; [exact IH|].
          apply (Permutation_Forall (Permutation_sym (insert_perm x t))).
          constructor; [|exact Hy].
          destruct (geb_total x y) as [H|H]; [congruence | exact H].
    Qed.

    Lemma sort_sorted l : StronglySorted R (sort_desc l).
    Proof.
      induction l as [|x t IH]; simpl; [constructor | apply insert_sorted, IH].
    Qed.

    (* stability part 2 *)
    Lemma filter_insert_same z x l :
      eqv z x = true -> filter (eqv z) (insert x l) = x :: filter (eqv z) l.
    Proof.
      intro Hx. induction l as [|y t IH]; simpl.
      - now rewrite Hx.
      - destruct (geb x y) eqn:E; simpl.
        + now rewrite Hx.
        + assert (Hy : eqv z y = false).
          { destruct (eqv z y) eqn:Ey; [|reflexivity].
            unfold eqv in *. apply andb_prop in Hx as [_ Hxz]. apply andb_prop in Ey as [Hzy _].
            rewrite (geb_trans _ _ _ Hxz Hzy) in E. discriminate. }
          now rewrite Hy, IH.
    Qed.

    (* the elements of each key class keep their input order *)
    Lemma sort_stable z l : filter (eqv z) (sort_desc l) = filter (eqv z) l.
    Proof.
      induction l as [|x t IH]; simpl; [reflexivity|].
      destruct (eqv z x) eqn:E.
      - rewrite filter_insert_same by exact E. now rewrite IH.
      - rewrite filter_insert_other by exact E. exact IH.
    Qed.

    (* in a sorted list the first element satisfying p is at least as high as every element
       satisfying p *)
    Lemma first_sorted_max p l x :
      StronglySorted R l -> first p l = Some x ->
      forall y, In y l -> p y = true -> geb x y = true.
    Proof.
      induction 1 as [|a t Ht IH Ha]; simpl; [discriminate|].
      destruct (p a) eqn:Pa.
      - intros [= <-] y [<-|Hy] _; [apply geb_refl|].
        rewrite Forall_forall in Ha. apply Ha, Hy.
      - intros Hf y [<-|Hy] Py; [congruence|]. apply IH; assumption.
    Qed.
  End Order.

  (* sorting a list that is already in descending order changes nothing *)
  Lemma sort_sorted_id l : StronglySorted (fun a b => geb a b = true) l -> sort_desc l = l.
  Proof.
    induction 1 as [|a t Ht IH Ha]; [reflexivity|]. cbn [sort_desc fold_right]. fold (sort_desc t). rewrite IH.
    destruct t as [|y t']; [reflexivity|]. cbn [insert]. inversion Ha as [|? ? Hy _]; subst. now rewrite Hy.
  Qed.

  Lemma first_some p l x : first p l = Some x -> In x l /\ p x = true.
  Proof.
    induction l as [|a t IH]; simpl; [discriminate|].
    destruct (p a) eqn:Pa.
    - intros [= <-]. split; [now left | exact Pa].
    - intro H. destruct (IH H). split; [now right | assumption].
  Qed.

  Lemma first_none p l : first p l = None <-> forall y, In y l -> p y = false.
  Proof.
    induction l as [|a t IH]; simpl.
    - split; [intros _ y [] | reflexivity].
    - destruct (p a) eqn:Pa.
      + split; [discriminate|]. intro H. rewrite (H a) in Pa by now left. discriminate.
      + rewrite IH. split.
        * intros H y [<-|Hy]; [exact Pa | apply H, Hy].
        * intros H y Hy. apply H. now right.
  Qed.

  Lemma first_split p l x :
    first p l = Some x ->
    exists pre post, l = pre ++ x :: post /\ p x = true /\ forall y, In y pre -> p y = false.
  Proof.
    induction l as [|a t IH]; simpl; [discriminate|].
    destruct (p a) eqn:Pa.
    - intros [= <-]. exists [], t. repeat split; auto. intros y [].
    - intro H. destruct (IH H) as (pre & post & -> & Px & Hpre).
      exists (a :: pre), post. repeat split; auto. intros y [<-|Hy]; auto.
  Qed.

  Lemma first_perm_none p l l' : Permutation l l' -> first p l = None -> first p l' = None.
  Proof.
    intros HP. rewrite !first_none. intros H y Hy. apply H.
    eapply Permutation_in; [apply Permutation_sym, HP | exact Hy].
  Qed.
End Sort.
