(* C17: best_match is optimal (C17_optimal), generic in the header family. *)
From Coq Require Import ZArith Lia Permutation Sorted.
From Wz Require Import lib.Bytes C17.LibSort C17.Base C17.Gen C17.Model C17.Spec C17.ProofsOrder.
Open Scope N_scope.

Section Optimal.
  Variable specificity : str -> spec.
  Variable value_matches : str -> str -> result bool.
  Variable mb : str -> str -> bool.           (* the matching relation when no error occurs *)

  Local Notation is_Q := (Spec.is_Q specificity mb).
  Local Notation loses := Spec.loses.
  Local Notation loses_or_ties := Spec.loses_or_ties.

  Lemma is_Q_unique items o s q s' q' :
    is_Q items o s q -> is_Q items o s' q' -> s = s' /\ qeqb q q' = true.
  Proof.
    intros [(r & Hr & Hm & Hs) Hmax] [(r' & Hr' & Hm' & Hs') Hmax'].
    pose proof (Hmax _ _ Hr' Hm') as H1. pose proof (Hmax' _ _ Hr Hm) as H2.
    rewrite Hs' in H1. rewrite Hs in H2.
    apply (key_geb_antisym (s, q) (s', q') H1 H2).
  Qed.

  Definition matching (o : str) (it : item) : bool := mb o (fst it).

  Lemma best_single_first acc o :
    (forall r, value_matches o r = Ok (mb o r)) ->
    best_single value_matches acc o = Ok (first (matching o) acc).
  Proof.
    intro H. induction acc as [|[ci q] t IH]; simpl; [reflexivity|].
    rewrite H. unfold matching at 1. cbn [fst]. destruct (mb o ci); [reflexivity | exact IH].
  Qed.

  (* the offer's quality, computed on the sorted list *)
  Definition okey (items : list item) (o : str) : option item :=
    first (matching o) (mk_accept specificity items).

  Lemma okey_some items o r q :
    okey items o = Some (r, q) -> is_Q items o (specificity r) q.
  Proof.
    unfold okey. intro H. pose proof (first_some _ _ _ H) as [Hin Hm].
    apply mk_accept_in in Hin. split.
    - exists r. auto.
    - intros r' q' Hin' Hm'.
      apply (first_sorted_max (item_geb specificity) (item_geb_total specificity)
               _ _ _ (mk_accept_sorted specificity items) H (r', q')).
      + now apply mk_accept_in.
      + exact Hm'.
  Qed.

  Lemma okey_none items o : okey items o = None -> forall s q, ~ is_Q items o s q.
  Proof.
    unfold okey. intros H s q [(r & Hr & Hm & _) _].
    rewrite first_none in H. specialize (H (r, q)). rewrite mk_accept_in in H.
    specialize (H Hr). unfold matching in H. cbn [fst] in H. congruence.
  Qed.

  (* ---- the selection loop *)
  Definition inv (items : list item) (seen : list str) (st : bm_state) : Prop :=
    match st with
    | (None, bq, bs) =>
        bq = bm_init_quality /\ bs = bm_init_specificity /\
        forall o r q, In o seen -> okey items o = Some (r, q) -> qleb q zero = true
    | (Some o, bq, bs) =>
        exists pre post r, seen = pre ++ o :: post /\ okey items o = Some (r, bq) /\ specificity r = bs
          /\ qltb zero bq = true
          /\ (forall o' r' q', In o' pre -> okey items o' = Some (r', q') -> loses (specificity r') q' bs bq)
          /\ (forall o' r' q', In o' post -> okey items o' = Some (r', q') ->
                loses_or_ties (specificity r') q' bs bq)
    end.

  Lemma neg1_lt_zero : qltb bm_init_quality zero = true.
  Proof. reflexivity. Qed.

  Lemma inv_step items seen st o :
    inv items seen st -> inv items (seen ++ [o]) (bm_step specificity st o (okey items o)).
  Proof.
    destruct st as [[res bq] bs]. unfold bm_step. destruct (okey items o) as [[ci q]|] eqn:Ek.
    2:{ (* no range matches the offer *)
      destruct res as [cur|]; simpl.
      - intros (pre & post & r & -> & Hk & Hs & Hpos & Hpre & Hpost).
        exists pre, (post ++ [o]), r. rewrite <- app_assoc. simpl. repeat split; auto.
        intros o' r' q' Hin Hk'. apply in_app_or in Hin as [Hin|[<-|[]]]; [eauto|congruence].
      - intros (-> & -> & H). repeat split; auto.
        intros o' r' q' Hin Hk'. apply in_app_or in Hin as [Hin|[<-|[]]]; [eauto|congruence]. }
    unfold bm_skip, bm_take, g_bm_skip, g_bm_take. fold zero.
    destruct (qleb q zero) eqn:Ez; simpl.
    { (* q <= 0 : skipped *)
      destruct res as [cur|]; simpl.
      - intros (pre & post & r & -> & Hk & Hs & Hpos & Hpre & Hpost).
        exists pre, (post ++ [o]), r. rewrite <- app_assoc. simpl. repeat split; auto.
        intros o' r' q' Hin Hk'. apply in_app_or in Hin as [Hin|[<-|[]]]; [eauto|].
        rewrite Ek in Hk'. injection Hk' as <- <-. left. eapply qle_lt_trans; eauto.
      - intros (-> & -> & H). repeat split; auto.
        intros o' r' q' Hin Hk'. apply in_app_or in Hin as [Hin|[<-|[]]]; [eauto|].
        rewrite Ek in Hk'. injection Hk' as <- <-. exact Ez. }
    assert (Hq : qltb zero q = true) by now apply qltb_true.
    destruct (qltb q bq) eqn:Elt; simpl.
    { (* 0 < q < best : skipped *)
      destruct res as [cur|]; simpl.
      - intros (pre & post & r & -> & Hk & Hs & Hpos & Hpre & Hpost).
        exists pre, (post ++ [o]), r. rewrite <- app_assoc. simpl. repeat split; auto.
        intros o' r' q' Hin Hk'. apply in_app_or in Hin as [Hin|[<-|[]]]; [eauto|].
        rewrite Ek in Hk'. injection Hk' as <- <-. left. exact Elt.
      - intros (-> & -> & _). exfalso.
        pose proof (qlt_le_trans _ _ _ Elt (qlt_le _ _ neg1_lt_zero)) as H1.
        apply qlt_le in H1. congruence. }
    apply qltb_false in Elt.     (* best <= q *)
    destruct (qltb bq q) eqn:Egt; simpl.
    { (* a larger quality: taken *)
      intro Hinv. exists seen, [], ci. repeat split; auto; [|intros ? ? ? []].
      intros o' r' q' Hin Hk'. left.
      destruct res as [cur|]; simpl in Hinv.
      - destruct Hinv as (pre & post & r & -> & Hk & Hs & Hpos & Hpre & Hpost).
        assert (Hle : qleb q' bq = true).
        { apply in_app_or in Hin as [Hin|[<-|Hin]].
          - destruct (Hpre _ _ _ Hin Hk') as [H|[H _]]; [now apply qlt_le | now apply qeqb_true in H].
          - rewrite Hk in Hk'. injection Hk' as <- <-. apply qleb_refl.
          - destruct (Hpost _ _ _ Hin Hk') as [H|[H _]]; [now apply qlt_le | now apply qeqb_true in H]. }
        eapply qle_lt_trans; eauto.
      - destruct Hinv as (-> & -> & H). eapply qle_lt_trans; [eapply H; eauto | exact Hq]. }
    apply qltb_false in Egt.     (* q <= best, hence equal *)
    assert (Heq : qeqb q bq = true) by (apply qeqb_true; auto).
    destruct res as [cur|]; simpl.
    2:{ intros (-> & -> & _). exfalso.
        pose proof (qle_lt_trans _ _ _ Egt neg1_lt_zero) as H. apply qlt_le in H. congruence. }
    intros (pre & post & r & -> & Hk & Hs & Hpos & Hpre & Hpost).
    destruct (spec_ltb bs (specificity ci)) eqn:Es.
    - (* the same quality from a more specific range: taken *)
      exists (pre ++ cur :: post), [], ci. repeat split; auto; [|intros ? ? ? []].
      intros o' r' q' Hin Hk'.
      assert (Hlt : loses_or_ties (specificity r') q' bs bq).
      { apply in_app_or in Hin as [Hin|[<-|Hin]].
        - destruct (Hpre _ _ _ Hin Hk') as [H|[H1 H2]]; [now left|]. right. split; auto.
          apply spec_leb_cases. now left.
        - rewrite Hk in Hk'. injection Hk' as <- <-. right. split.
          + apply qeqb_true. split; apply qleb_refl.
          + rewrite Hs. apply spec_leb_cases. now right.
        - eauto. }
      destruct Hlt as [H|[H1 H2]].
      + left. eapply qlt_le_trans; eauto.
      + right. split.
        * apply qeqb_true in H1 as [Ha Hb]. apply qeqb_true.
          split; eapply qleb_trans; eauto.
        * eapply spec_leb_ltb_trans; eauto.
    - (* a tie that is not more specific: the earlier offer stays *)
      exists pre, (post ++ [o]), r. rewrite <- app_assoc. simpl. repeat split; auto.
      intros o' r' q' Hin Hk'. apply in_app_or in Hin as [Hin|[<-|[]]]; [eauto|].
      rewrite Ek in Hk'. injection Hk' as <- <-. right. split; [exact Heq|].
      now apply spec_not_ltb_leb.
  Qed.

  Lemma bm_loop_inv items offers : forall seen st,
    (forall o r, In o offers -> value_matches o r = Ok (mb o r)) ->
    inv items seen st ->
    exists st', bm_loop specificity value_matches (mk_accept specificity items) offers st = Ok st'
                /\ inv items (seen ++ offers) st'.
  Proof.
    induction offers as [|o t IH]; intros seen st Hok Hinv; simpl.
    - exists st. rewrite app_nil_r. auto.
    - rewrite best_single_first by (intro r; apply Hok; now left).
      destruct (IH (seen ++ [o]) (bm_step specificity st o (okey items o))) as (st' & H1 & H2).
      + intros o' r Hin. apply Hok. now right.
      + now apply inv_step.
      + exists st'. rewrite <- app_assoc in H2. auto.
  Qed.

  Lemma inv_init items : inv items [] (bm_init).
  Proof. simpl. repeat split; auto. Qed.

  (* C17_optimal, generic *)
  Lemma best_match_optimal items offers :
    (forall o r, In o offers -> value_matches o r = Ok (mb o r)) ->
    exists res,
      best_match specificity value_matches (mk_accept specificity items) offers = Ok res /\
      choice specificity mb items offers res.
  Proof.
    intro Hok. destruct (bm_loop_inv items offers [] bm_init Hok (inv_init items)) as (st & H1 & H2).
    unfold best_match. rewrite H1. destruct st as [[res bq] bs]. exists res. split; [reflexivity|].
    simpl app in H2. unfold choice. destruct res as [o|]; simpl in H2.
    - destruct H2 as (pre & post & r & -> & Hk & Hs & Hpos & Hpre & Hpost).
      exists pre, post, bs, bq. split; [reflexivity|].
      pose proof (okey_some _ _ _ _ Hk) as HQ. rewrite Hs in HQ. repeat split; auto.
      + apply HQ.
      + apply HQ.
      + intros o' s' q' Hin HQ'. destruct (okey items o') as [[r' q'']|] eqn:Ek'.
        * pose proof (okey_some _ _ _ _ Ek') as HQ''.
          destruct (is_Q_unique _ _ _ _ _ _ HQ' HQ'') as [-> Hqq].
          destruct (Hpre _ _ _ Hin Ek') as [H|[Ha Hb]].
          -- left. apply qeqb_true in Hqq as [Hq1 _]. eapply qle_lt_trans; eauto.
          -- right. split; auto. apply qeqb_true in Hqq as [Hq1 Hq2]. apply qeqb_true in Ha as [Ha1 Ha2].
             apply qeqb_true. split; eapply qleb_trans; eauto.
        * exfalso. eapply okey_none; eauto.
      + intros o' s' q' Hin HQ'. destruct (okey items o') as [[r' q'']|] eqn:Ek'.
        * pose proof (okey_some _ _ _ _ Ek') as HQ''.
          destruct (is_Q_unique _ _ _ _ _ _ HQ' HQ'') as [-> Hqq].
          destruct (Hpost _ _ _ Hin Ek') as [H|[Ha Hb]].
          -- left. apply qeqb_true in Hqq as [Hq1 _]. eapply qle_lt_trans; eauto.
          -- right. split; auto. apply qeqb_true in Hqq as [Hq1 Hq2]. apply qeqb_true in Ha as [Ha1 Ha2].
             apply qeqb_true. split; eapply qleb_trans; eauto.
        * exfalso. eapply okey_none; eauto.
    - destruct H2 as (_ & _ & H). intros o s q Hin HQ.
      destruct (okey items o) as [[r' q'']|] eqn:Ek'.
      + pose proof (okey_some _ _ _ _ Ek') as HQ''.
        destruct (is_Q_unique _ _ _ _ _ _ HQ HQ'') as [-> Hqq].
        apply qeqb_true in Hqq as [Hq1 _]. eapply qleb_trans; eauto.
      + exfalso. eapply okey_none; eauto.
  Qed.

  (* quality() and `in` *)
  Lemma quality_is_Q items o :
    (forall r, value_matches o r = Ok (mb o r)) ->
    match okey items o with
    | Some (r, q) => quality value_matches (mk_accept specificity items) o = Ok q
                     /\ contains value_matches (mk_accept specificity items) o = Ok true
                     /\ is_Q items o (specificity r) q
    | None => quality value_matches (mk_accept specificity items) o = Ok quality_default
              /\ contains value_matches (mk_accept specificity items) o = Ok false
              /\ forall s q, ~ is_Q items o s q
    end.
  Proof.
    intro H. unfold quality, contains. rewrite best_single_first by exact H.
    change (first (matching o) (mk_accept specificity items)) with (okey items o).
    destruct (okey items o) as [[r q]|] eqn:E.
    - split; [reflexivity|]. split; [reflexivity|]. now apply okey_some.
    - split; [reflexivity|]. split; [reflexivity|]. now apply okey_none.
  Qed.
End Optimal.
