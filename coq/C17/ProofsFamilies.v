(* C17: the four header families (C17_optimal instantiated), LanguageAccept.best_match's fallbacks. *)
From Coq Require Import ZArith Lia Permutation.
From Wz Require Import lib.Bytes lib.BytesFacts C17.LibSort C17.Base C17.Gen C17.Model C17.Spec
  C17.ProofsOrder C17.ProofsOptimal.
Open Scope N_scope.

(* ---------------------------------------------------------------- a value with a slash has two pieces *)
Lemma msplit_nonempty s : forall piece pend after, (1 <= length (msplit s piece pend after))%nat.
Proof.
  induction s as [|c t IH]; intros; cbn [msplit]; [cbn [length]; lia|].
  destruct (after && uni_ws c); [apply IH|].
  destruct (c =? SLASH); [cbn [length]; lia|].
  destruct (c =? SEMI); [cbn [length]; lia|].
  destruct (uni_ws c); apply IH.
Qed.

Lemma slash_not_ws : uni_ws SLASH = false.
Proof. reflexivity. Qed.

Lemma msplit_slash s : forall piece pend after,
  mem SLASH s = true -> (2 <= length (msplit s piece pend after))%nat.
Proof.
  unfold mem. induction s as [|c t IH]; intros piece pend after; cbn [existsb msplit]; [discriminate|].
  destruct (SLASH =? c) eqn:E.
  - apply N.eqb_eq in E. subst c. intros _. rewrite slash_not_ws, andb_false_r, N.eqb_refl.
    cbn [length]. pose proof (msplit_nonempty t [] [] false). lia.
  - cbn [orb]. intro H.
    destruct (after && uni_ws c); [now apply IH|].
    destruct (c =? SLASH); [cbn [length]; pose proof (msplit_nonempty t [] [] false); lia|].
    destruct (c =? SEMI); [cbn [length]; specialize (IH [] [] true H); lia|].
    destruct (uni_ws c); now apply IH.
Qed.

Lemma mem_slash_lower v : mem SLASH v = true -> mem SLASH (lower v) = true.
Proof.
  unfold mem, lower. induction v as [|c t IH]; cbn [existsb map]; [discriminate|].
  destruct (SLASH =? c) eqn:E.
  - apply N.eqb_eq in E. subst c. reflexivity.
  - cbn [orb]. intro H. rewrite (IH H). apply orb_true_r.
Qed.

Lemma mime_parts_some v : mem SLASH v = true -> mime_parts v <> None.
Proof.
  intro H. unfold mime_parts, mime_split.
  pose proof (msplit_slash (lower v) [] [] false (mem_slash_lower _ H)) as Hl.
  destruct (msplit (lower v) [] [] false) as [|a [|b ps]]; cbn [length] in Hl; try lia. discriminate.
Qed.

(* ---------------------------------------------------------------- matching cannot raise on valid offers *)
Lemma matches_ok tbl f offers :
  offers_valid f offers ->
  forall o r, In o offers -> matches_of tbl f o r = Ok (mb_of tbl f o r).
Proof.
  intros Hv o r Hin. unfold mb_of. destruct f; try reflexivity.
  (* MIMEAccept *)
  cbn [offers_valid] in Hv. rewrite forallb_forall in Hv. specialize (Hv o Hin).
  cbn [matches_of]. unfold mime_valid_offer in Hv. unfold mime_matches.
  destruct (mime_parts o) as [[[vt vs] vp]|]; [|discriminate].
  apply andb_prop in Hv as [Hs Hstar]. apply negb_true_iff in Hstar.
  destruct (mime_parts r) as [[[it is] ip]|] eqn:Er.
  - unfold mime_value_matches. change 47 with SLASH. rewrite Hs, Hstar. cbn [negb].
    destruct (negb (mem SLASH r)); [reflexivity|].
    destruct (str_eqb it star && str_neqb is star); reflexivity.
  - destruct (mem SLASH r) eqn:Hr.
    + exfalso. now apply (mime_parts_some r Hr).
    + cbn [andb]. unfold mime_value_matches. change 47 with SLASH. rewrite Hr. reflexivity.
Qed.

(* C17_optimal for headers *)
Lemma negotiation_optimal tbl f value acc offers :
  parse_accept f value = Ok acc -> offers_valid f offers ->
  exists items res,
    accept_items value = Ok items /\
    best_match (spec_of f) (matches_of tbl f) acc offers = Ok res /\
    choice (spec_of f) (mb_of tbl f) items offers res.
Proof.
  unfold parse_accept. destruct (accept_items value) as [items|e]; [|discriminate].
  intros [= <-] Hv. destruct (best_match_optimal (spec_of f) (matches_of tbl f) (mb_of tbl f) items offers
                                (matches_ok tbl f offers Hv)) as (res & H1 & H2).
  exists items, res. auto.
Qed.

(* quality() and `in` *)
Lemma quality_contains_spec tbl f value acc o :
  parse_accept f value = Ok acc -> offers_valid f [o] ->
  exists items, accept_items value = Ok items /\
    ((exists s q, is_Q (spec_of f) (mb_of tbl f) items o s q
                  /\ quality (matches_of tbl f) acc o = Ok q /\ contains (matches_of tbl f) acc o = Ok true)
     \/ ((forall s q, ~ is_Q (spec_of f) (mb_of tbl f) items o s q)
         /\ quality (matches_of tbl f) acc o = Ok zero /\ contains (matches_of tbl f) acc o = Ok false)).
Proof.
  unfold parse_accept. destruct (accept_items value) as [items|e]; [|discriminate].
  intros [= <-] Hv. exists items. split; [reflexivity|].
  assert (Hok : forall r, matches_of tbl f o r = Ok (mb_of tbl f o r)).
  { intro r. apply (matches_ok tbl f [o] Hv). now left. }
  pose proof (quality_is_Q (spec_of f) (matches_of tbl f) (mb_of tbl f) items o Hok) as H.
  destruct (okey (spec_of f) (mb_of tbl f) items o) as [[r q]|].
  - left. exists (spec_of f r), q. tauto.
  - right. tauto.
Qed.

(* ---------------------------------------------------------------- is_Q / choice only look at membership *)
Lemma is_Q_ext specificity mb items items' o s q :
  (forall x, In x items <-> In x items') ->
  is_Q specificity mb items o s q -> is_Q specificity mb items' o s q.
Proof.
  intros He [(r & Hr & Hm & Hs) Hmax]. split.
  - exists r. rewrite <- He. auto.
  - intros r' q' Hin. apply Hmax. now apply He.
Qed.

Lemma choice_ext specificity mb items items' offers res :
  (forall x, In x items <-> In x items') ->
  choice specificity mb items offers res -> choice specificity mb items' offers res.
Proof.
  intros He. assert (He' : forall x, In x items' <-> In x items) by (intro x; symmetry; apply He).
  destruct res as [o|]; cbn [choice].
  - intros (pre & post & s & q & -> & HQ & Hpos & Hpre & Hpost).
    exists pre, post, s, q. repeat split; auto.
    + apply (is_Q_ext _ _ _ _ _ _ _ He HQ).
    + apply (is_Q_ext _ _ _ _ _ _ _ He HQ).
    + intros o' s' q' Hin HQ'. apply (Hpre o' s' q' Hin). apply (is_Q_ext _ _ _ _ _ _ _ He' HQ').
    + intros o' s' q' Hin HQ'. apply (Hpost o' s' q' Hin). apply (is_Q_ext _ _ _ _ _ _ _ He' HQ').
  - intros H o s q Hin HQ. apply (H o s q Hin). apply (is_Q_ext _ _ _ _ _ _ _ He' HQ).
Qed.

(* ---------------------------------------------------------------- LanguageAccept.best_match *)
Definition lang_mb : str -> str -> bool := mb_of [] FLang.
Definition base_mb : str -> str -> bool := mb_of [] FBase.
Definition primary_item (it : item) : item := (primary (fst it), snd it).

(* the three stages, each described by `choice` on the client's items (no reference to the sorted
   list): exact matching; the accepted values cut to their primary tags, matched like plain
   Accept; the offers cut to their primary tags, matched exactly, the result mapped back to the
   first offer with that primary tag *)
Definition lang_choice (items : list item) (offers : list str) (res : option str) : Prop :=
  exists r1, choice base_specificity lang_mb items offers r1 /\
  match r1 with
  | Some o => res = Some o
  | None =>
      exists r2, choice base_specificity base_mb (map primary_item items) offers r2 /\
      match r2 with
      | Some o => res = Some o
      | None =>
          exists r3, choice base_specificity lang_mb items (map primary offers) r3 /\
          match r3 with
          | Some p => exists pre o post, offers = pre ++ o :: post /\ res = Some o /\ primary o = p
                                         /\ forall o', In o' pre -> primary o' <> p
          | None => res = None
          end
      end
  end.

Lemma list_eqb_eq a : forall b, list_eqb a b = true <-> a = b.
Proof.
  induction a as [|x a IH]; destruct b as [|y b]; cbn [list_eqb]; split; try discriminate; auto.
  - intro H. apply andb_prop in H as [H1 H2]. apply N.eqb_eq in H1. apply IH in H2. congruence.
  - intros [= -> ->]. rewrite N.eqb_refl. now apply IH.
Qed.

Lemma lang_best_match_stages items offers :
  exists res, lang_best_match (mk_accept base_specificity items) offers = Ok res
              /\ lang_choice items offers res.
Proof.
  unfold lang_best_match, lang_choice.
  assert (Hl : forall offs o r, In o offs -> lang_value_matches o r = Ok (lang_mb o r)) by reflexivity.
  assert (Hb : forall offs o r, In o offs -> base_value_matches o r = Ok (base_mb o r)) by reflexivity.
  destruct (best_match_optimal base_specificity lang_value_matches lang_mb items offers (Hl offers))
    as (r1 & E1 & C1). rewrite E1.
  destruct r1 as [o1|].
  { exists (Some o1). split; [reflexivity|]. exists (Some o1). auto. }
  set (acc := mk_accept base_specificity items).
  destruct (best_match_optimal base_specificity base_value_matches base_mb (map primary_item acc) offers
              (Hb offers)) as (r2 & E2 & C2).
  match goal with |- context [best_match base_specificity base_value_matches ?a offers] =>
    replace (best_match base_specificity base_value_matches a offers) with (@Ok (option str) r2)
      by (symmetry; exact E2) end.
  assert (C2' : choice base_specificity base_mb (map primary_item items) offers r2).
  { eapply choice_ext; [|exact C2]. intro x. rewrite !in_map_iff.
    split; intros (y & Hy & Hin); exists y; (split; [exact Hy|]); apply (mk_accept_in base_specificity items y); exact Hin. }
  destruct r2 as [o2|].
  { exists (Some o2). split; [reflexivity|]. exists None. split; [exact C1|]. exists (Some o2). auto. }
  destruct (best_match_optimal base_specificity lang_value_matches lang_mb items (map primary offers)
              (Hl (map primary offers))) as (r3 & E3 & C3).
  fold acc in E3. rewrite E3.
  destruct r3 as [p|].
  2:{ exists None. split; [reflexivity|]. exists None. split; [exact C1|]. exists None. split; [exact C2'|].
      exists None. auto. }
  destruct (first (fun o => list_eqb (primary o) p) offers) as [o|] eqn:Ef.
  - exists (Some o). split; [reflexivity|]. exists None. split; [exact C1|]. exists None. split; [exact C2'|].
    exists (Some p). split; [exact C3|].
    destruct (first_split _ _ _ Ef) as (pre & post & -> & Hp & Hpre).
    exists pre, o, post. repeat split; auto.
    + now apply list_eqb_eq.
    + intros o' Hin Heq. specialize (Hpre o' Hin). apply list_eqb_eq in Heq. congruence.
  - (* the next(...) cannot run dry: p is the primary tag of an offer *)
    exfalso. cbn [choice] in C3. destruct C3 as (pre & post & s & q & Hsplit & _).
    assert (Hin : In p (map primary offers)) by (rewrite Hsplit; apply in_or_app; right; now left).
    apply in_map_iff in Hin as (o & Ho & Hin).
    rewrite first_none in Ef. specialize (Ef o Hin). apply list_eqb_eq in Ho. congruence.
Qed.

(* each fallback stage returns an offer whose primary tag is matched by a range of positive quality *)
Lemma lang_fallback_primary_matches items offers o :
  lang_choice items offers (Some o) ->
  In o offers /\
  (  (exists r q, In (r, q) items /\ qltb zero q = true /\ lang_mb o r = true)
  \/ (exists r q, In (r, q) items /\ qltb zero q = true /\ base_mb o (primary r) = true)
  \/ (exists r q, In (r, q) items /\ qltb zero q = true /\ lang_mb (primary o) r = true)).
Proof.
  intros (r1 & C1 & H1). destruct r1 as [o1|].
  - injection H1 as <-. cbn [choice] in C1.
    destruct C1 as (pre & post & s & q & -> & [(r & Hr & Hm & _) _] & Hpos & _).
    split; [apply in_or_app; right; now left|]. left. eauto.
  - destruct H1 as (r2 & C2 & H2). destruct r2 as [o2|].
    + injection H2 as <-. cbn [choice] in C2.
      destruct C2 as (pre & post & s & q & -> & [(r & Hr & Hm & _) _] & Hpos & _).
      split; [apply in_or_app; right; now left|]. right. left.
      apply in_map_iff in Hr as ([r0 q0] & Heq & Hin). unfold primary_item in Heq. cbn [fst snd] in Heq.
      injection Heq as <- <-. eauto.
    + destruct H2 as (r3 & C3 & H3). destruct r3 as [p|]; [|discriminate].
      destruct H3 as (pre & o' & post & -> & [= <-] & Hp & _). cbn [choice] in C3.
      destruct C3 as (pre' & post' & s & q & _ & [(r & Hr & Hm & _) _] & Hpos & _).
      split; [apply in_or_app; right; now left|]. right. right. rewrite Hp. eauto.
Qed.

(* the familiar reading of `choice`: the chosen offer is an offer, its quality is positive, no
   offer has a larger quality, and no offer of equal quality comes from a more specific range *)
Lemma choice_consequences specificity mb items offers o :
  choice specificity mb items offers (Some o) ->
  In o offers /\
  exists s q, is_Q specificity mb items o s q /\ qltb zero q = true /\
    forall o' s' q', In o' offers -> is_Q specificity mb items o' s' q' ->
      qleb q' q = true /\ (qeqb q' q = true -> spec_leb s' s = true).
Proof.
  cbn [choice]. intros (pre & post & s & q & -> & HQ & Hpos & Hpre & Hpost).
  split; [apply in_or_app; right; now left|]. exists s, q. split; [exact HQ|]. split; [exact Hpos|].
  intros o' s' q' H H0. split.
  - apply in_app_or in H as [Hin|[<-|Hin]].
    + destruct (Hpre _ _ _ Hin H0) as [Hl|[He _]]; [now apply qlt_le | now apply qeqb_true in He].
    + destruct (is_Q_unique _ _ _ _ _ _ _ _ H0 HQ) as [_ He]. now apply qeqb_true in He.
    + destruct (Hpost _ _ _ Hin H0) as [Hl|[He _]]; [now apply qlt_le | now apply qeqb_true in He].
  - intro Heq. apply in_app_or in H as [Hin|[<-|Hin]].
    + destruct (Hpre _ _ _ Hin H0) as [Hl|[_ Hs]].
      * apply qeqb_true in Heq as [_ Hge]. apply qltb_true in Hl. congruence.
      * apply spec_leb_cases. now left.
    + destruct (is_Q_unique _ _ _ _ _ _ _ _ H0 HQ) as [-> _]. apply spec_leb_cases. now right.
    + destruct (Hpost _ _ _ Hin H0) as [Hl|[_ Hs]]; [|exact Hs].
      apply qeqb_true in Heq as [_ Hge]. apply qltb_true in Hl. congruence.
Qed.

(* LanguageAccept on a parsed header *)
Lemma language_negotiation tbl value acc offers :
  parse_accept FLang value = Ok acc ->
  exists items res, accept_items value = Ok items /\
    family_best_match tbl FLang acc offers = Ok res /\ lang_choice items offers res.
Proof.
  unfold parse_accept. destruct (accept_items value) as [items|e]; [|discriminate].
  intros [= <-]. destruct (lang_best_match_stages items offers) as (res & H1 & H2).
  exists items, res. auto.
Qed.

(* the other families negotiate with the generic best_match *)
Lemma family_best_match_generic tbl f acc offers :
  f <> FLang -> family_best_match tbl f acc offers = best_match (spec_of f) (matches_of tbl f) acc offers.
Proof. destruct f; intro H; try reflexivity. congruence. Qed.
