(* C17 round 3: index / find / __contains__ / __getitem__ / quality are all functions of the first
   matching item; best_match with a default; uniqueness of the negotiated choice (so the client's
   order among the header items is irrelevant, the server's offer order breaks ties); MIMEAccept's
   convenience properties; the RFC 9110 q-values; the codecs.lookup contract. *)
From Coq Require Import ZArith Lia Permutation.
From Wz Require Import lib.Bytes lib.BytesFacts C17.LibSort C17.Base C17.Gen C17.Model C17.Spec
  C17.ProofsOrder C17.ProofsOptimal C17.ProofsParse C17.ProofsFamilies.
Open Scope N_scope.

(* ---------------------------------------------------------------- the accessors *)
Section Access.
  Variable value_matches : str -> str -> result bool.
  Variable mb : str -> str -> bool.
  Variable k : str.
  Hypothesis no_error : forall r, value_matches k r = Ok (mb k r).

  Lemma index_from_first acc : forall i,
    match first (matching mb k) acc with
    | Some it => exists j, index_from value_matches acc k i = Ok (i + j)%nat /\ nth_error acc j = Some it
                           /\ forall j' it', (j' < j)%nat -> nth_error acc j' = Some it' -> mb k (fst it') = false
    | None => index_from value_matches acc k i = Err ValueError
    end.
  Proof.
    induction acc as [|[ci q] t IH]; intro i; cbn [first index_from]; [reflexivity|].
    rewrite no_error. unfold matching at 1. cbn [fst]. destruct (mb k ci) eqn:E.
    - exists O. rewrite Nat.add_0_r. repeat split; auto. intros j' it' Hj. lia.
    - specialize (IH (S i)). destruct (first (matching mb k) t) as [it|].
      + destruct IH as (j & H1 & H2 & H3). exists (S j). rewrite <- Nat.add_succ_comm. repeat split; auto.
        intros j' it' Hj Hn. destruct j' as [|j']; cbn [nth_error] in Hn.
        * injection Hn as <-. exact E.
        * apply (H3 j' it'); [lia | exact Hn].
      + exact IH.
  Qed.

  Lemma getitem_nth acc j it : nth_error acc j = Some it -> getitem_int acc (Z.of_nat j) = Ok it.
  Proof.
    intro H. unfold getitem_int. assert (Hj : (j < length acc)%nat) by (apply nth_error_Some; congruence).
    destruct (Z.of_nat j <? 0)%Z eqn:E1; [lia|].
    destruct ((Z.of_nat j <? 0)%Z || (Z.of_nat (length acc) <=? Z.of_nat j)%Z) eqn:E2; [lia|].
    rewrite Nat2Z.id, H. reflexivity.
  Qed.

  (* every accessor, read off the first matching item of the (sorted) list *)
  Lemma accessors_agree acc :
    match first (matching mb k) acc with
    | Some it =>
        exists j, nth_error acc j = Some it /\ mb k (fst it) = true
          /\ (forall j' it', (j' < j)%nat -> nth_error acc j' = Some it' -> mb k (fst it') = false)
          /\ index value_matches acc k = Ok j
          /\ find value_matches acc k = Ok (Z.of_nat j)
          /\ contains value_matches acc k = Ok true
          /\ quality value_matches acc k = Ok (snd it)
          /\ getitem_str value_matches acc k = Ok (snd it)
          /\ getitem_int acc (Z.of_nat j) = Ok it
    | None =>
        index value_matches acc k = Err ValueError
        /\ find value_matches acc k = Ok (-1)%Z
        /\ contains value_matches acc k = Ok false
        /\ quality value_matches acc k = Ok quality_default
        /\ getitem_str value_matches acc k = Ok quality_default
    end.
  Proof.
    pose proof (index_from_first acc 0) as H.
    unfold find, index, contains, quality, getitem_str, quality.
    rewrite (best_single_first value_matches mb acc k no_error).
    destruct (first (matching mb k) acc) as [[ci q]|] eqn:E.
    - destruct H as (j & H1 & H2 & H3). cbn [Nat.add] in H1. exists j.
      destruct (first_some _ _ _ E) as [_ Hm]. rewrite H1. repeat split; auto.
      now apply getitem_nth.
    - rewrite H. repeat split; reflexivity.
  Qed.
End Access.

(* `x in accept`, find(x) >= 0, index(x) not raising are the same thing; quality(x) > 0 implies them *)
Lemma access_consistency value_matches mb k acc :
  (forall r, value_matches k r = Ok (mb k r)) ->
  (contains value_matches acc k = Ok true <-> exists j, index value_matches acc k = Ok j) /\
  (contains value_matches acc k = Ok true <-> exists j, find value_matches acc k = Ok (Z.of_nat j)) /\
  (contains value_matches acc k = Ok false <-> index value_matches acc k = Err ValueError) /\
  (contains value_matches acc k = Ok false <-> find value_matches acc k = Ok (-1)%Z) /\
  (forall q, quality value_matches acc k = Ok q -> qltb zero q = true -> contains value_matches acc k = Ok true) /\
  (forall j, index value_matches acc k = Ok j ->
     exists it, getitem_int acc (Z.of_nat j) = Ok it /\ quality value_matches acc k = Ok (snd it)
                /\ getitem_str value_matches acc k = Ok (snd it)).
Proof.
  intro Hok. pose proof (accessors_agree value_matches mb k Hok acc) as H.
  destruct (first (matching mb k) acc) as [it|].
  - destruct H as (j & _ & _ & _ & Hi & Hf & Hc & Hq & Hg & Hn). rewrite Hi, Hf, Hc, Hq, Hg.
    repeat split; try discriminate; eauto; try (intros [j' Hj']; reflexivity).
    + intro H. injection H. lia.
    + intros j' [= <-]. eauto.
  - destruct H as (Hi & Hf & Hc & Hq & Hg). rewrite Hi, Hf, Hc, Hq.
    repeat split; try discriminate; try reflexivity.
    + intros [j Hj]. discriminate.
    + intros [j Hj]. injection Hj. lia.
    + intros q [= <-]. discriminate.
Qed.

(* the intuitive converse fails: an item with q=0 is `in` the object, its quality is not positive *)
Lemma contains_not_positive :
  exists value acc k,
    parse_accept FBase value = Ok acc /\ contains base_value_matches acc k = Ok true
    /\ find base_value_matches acc k = Ok 0%Z /\ quality base_value_matches acc k = Ok (0%Z, 0).
Proof. exists [97; 59; 113; 61; 48], [([97], (0%Z, 0))], [97]. repeat split; vm_compute; reflexivity. Qed.

(* ---------------------------------------------------------------- best_match(matches, default) *)
Lemma best_match_default_spec tbl f value acc offers d :
  parse_accept f value = Ok acc -> offers_valid f offers ->
  exists res, family_best_match tbl f acc offers = Ok res /\
    family_best_match_default tbl f acc offers d = Ok (match res with Some o => Some o | None => d end).
Proof.
  intros Hp Hv. unfold family_best_match_default.
  assert (Hgen : f <> FLang -> exists res, family_best_match tbl f acc offers = Ok res).
  { intro Hf. destruct (negotiation_optimal tbl f _ _ offers Hp Hv) as (items & res & _ & Hb & _).
    exists res. now rewrite family_best_match_generic. }
  assert (H : exists res, family_best_match tbl f acc offers = Ok res).
  { destruct f; try (apply Hgen; discriminate).
    destruct (language_negotiation tbl _ _ offers Hp) as (items & res & _ & Hb & _). eauto. }
  destruct H as (res & ->). exists res. destruct res; auto.
Qed.

(* ---------------------------------------------------------------- the choice is unique *)
Section Unique.
  Variable specificity : str -> spec.
  Variable mb : str -> str -> bool.
  Variable items : list item.

  Lemma loses_vs_ties s q s' q' : loses s q s' q' -> loses_or_ties s' q' s q -> False.
  Proof.
    intros [H1|[H1 H2]] [H3|[H3 H4]].
    - pose proof (qlt_le_trans _ _ _ H1 (qlt_le _ _ H3)) as H. rewrite qlt_irrefl in H. discriminate.
    - apply qeqb_true in H3 as [H3 _]. pose proof (qlt_le_trans _ _ _ H1 H3) as H. rewrite qlt_irrefl in H. discriminate.
    - apply qeqb_true in H1 as [H1 _]. pose proof (qlt_le_trans _ _ _ H3 H1) as H. rewrite qlt_irrefl in H. discriminate.
    - pose proof (spec_leb_ltb_trans _ _ _ H4 H2) as H. rewrite spec_ltb_irrefl in H. discriminate.
  Qed.

  Lemma choice_unique offers r r' :
    choice specificity mb items offers r -> choice specificity mb items offers r' -> r = r'.
  Proof.
    destruct r as [o|], r' as [o'|]; cbn [choice]; try reflexivity.
    - intros (pre & post & s & q & E & HQ & Hpos & Hpre & Hpost) (pre' & post' & s' & q' & E' & HQ' & Hpos' & Hpre' & Hpost').
      rewrite E in E'. destruct (app_eq_app _ _ _ _ E') as [l [[H1 H2]|[H1 H2]]].
      + destruct l as [|x l].
        * cbn in H2. congruence.
        * cbn [app] in H2. injection H2 as <- H2. exfalso.
          (* o' stands before o *)
          assert (Hin : In o' pre) by (rewrite H1; apply in_or_app; right; now left).
          assert (Hin' : In o post') by (rewrite H2; apply in_or_app; right; now left).
          apply (loses_vs_ties _ _ _ _ (Hpre _ _ _ Hin HQ') (Hpost' _ _ _ Hin' HQ)).
      + destruct l as [|x l].
        * cbn in H2. congruence.
        * cbn [app] in H2. injection H2 as <- H2. exfalso.
          assert (Hin : In o pre') by (rewrite H1; apply in_or_app; right; now left).
          assert (Hin' : In o' post) by (rewrite H2; apply in_or_app; right; now left).
          apply (loses_vs_ties _ _ _ _ (Hpre' _ _ _ Hin HQ) (Hpost _ _ _ Hin' HQ')).
    - intros (pre & post & s & q & E & HQ & Hpos & _) H. exfalso.
      assert (Hin : In o offers) by (rewrite E; apply in_or_app; right; now left).
      specialize (H o s q Hin HQ). apply qltb_true in Hpos. congruence.
    - intros H (pre & post & s & q & E & HQ & Hpos & _). exfalso.
      assert (Hin : In o' offers) by (rewrite E; apply in_or_app; right; now left).
      specialize (H o' s q Hin HQ). apply qltb_true in Hpos. congruence.
  Qed.

  (* ties between offers of equal quality from equally specific ranges go to the offer that stands
     first in the server's list: nothing at least as good precedes the chosen offer *)
  Lemma tie_first_offer offers o :
    choice specificity mb items offers (Some o) ->
    exists pre post s q, offers = pre ++ o :: post /\ is_Q specificity mb items o s q /\
      forall o' s' q', In o' pre -> is_Q specificity mb items o' s' q' ->
        ~ (qleb q q' = true /\ (qeqb q' q = true -> spec_leb s s' = true)).
  Proof.
    cbn [choice]. intros (pre & post & s & q & E & HQ & _ & Hpre & _). exists pre, post, s, q.
    split; [exact E|]. split; [exact HQ|].
    intros o' s' q' Hin HQ' [H1 H2]. destruct (Hpre _ _ _ Hin HQ') as [H|[Ha Hb]].
    - apply qltb_true in H. congruence.
    - pose proof (spec_leb_ltb_trans _ _ _ (H2 Ha) Hb) as H. rewrite spec_ltb_irrefl in H. discriminate.
  Qed.
End Unique.

(* the order in which the client wrote the items does not influence the answer *)
Lemma client_order_irrelevant specificity value_matches mb items items' offers :
  (forall o r, In o offers -> value_matches o r = Ok (mb o r)) ->
  Permutation items items' ->
  best_match specificity value_matches (mk_accept specificity items) offers
  = best_match specificity value_matches (mk_accept specificity items') offers.
Proof.
  intros Hok Hp.
  destruct (best_match_optimal specificity value_matches mb items offers Hok) as (r & E & C).
  destruct (best_match_optimal specificity value_matches mb items' offers Hok) as (r' & E' & C').
  rewrite E, E'. f_equal. apply (choice_unique specificity mb items' offers); [|exact C'].
  eapply choice_ext; [|exact C]. intro x. split; apply Permutation_in; [exact Hp | now apply Permutation_sym].
Qed.

(* ---------------------------------------------------------------- accept_html / accept_xhtml / accept_json *)
Definition matched (items : list item) (v : str) : Prop :=
  exists s q, is_Q (spec_of FMime) (mb_of [] FMime) items v s q.

Lemma mime_in_matched value acc v :
  parse_accept FMime value = Ok acc -> mime_valid_offer v = true ->
  exists items, accept_items value = Ok items /\ (mime_in acc v = true <-> matched items v).
Proof.
  intros Hp Hv. assert (Hov : offers_valid FMime [v]) by (cbn [offers_valid forallb]; now rewrite Hv).
  destruct (quality_contains_spec [] FMime value acc v Hp Hov) as (items & Ei & H).
  exists items. split; [exact Ei|]. unfold mime_in, matched. cbn [matches_of] in H.
  destruct H as [(s & q & HQ & _ & Hc)|(Hno & _ & Hc)]; rewrite Hc.
  - split; eauto.
  - split; [discriminate|]. intros (s & q & HQ). exfalso. apply (Hno s q HQ).
Qed.

Lemma convenience_spec value acc :
  parse_accept FMime value = Ok acc ->
  exists items, accept_items value = Ok items /\
    (accept_json acc = true <-> matched items s_app_json) /\
    (accept_xhtml acc = true <-> matched items s_app_xhtml \/ matched items s_app_xml) /\
    (accept_html acc = true <-> matched items s_text_html \/ matched items s_app_xhtml \/ matched items s_app_xml).
Proof.
  intro Hp.
  destruct (mime_in_matched value acc s_app_json Hp eq_refl) as (items & Ei & Hj).
  destruct (mime_in_matched value acc s_app_xhtml Hp eq_refl) as (i2 & E2 & Hx).
  destruct (mime_in_matched value acc s_app_xml Hp eq_refl) as (i3 & E3 & Hm).
  destruct (mime_in_matched value acc s_text_html Hp eq_refl) as (i4 & E4 & Hh).
  rewrite Ei in E2, E3, E4. injection E2 as <-. injection E3 as <-. injection E4 as <-.
  exists items. split; [exact Ei|].
  unfold accept_json, accept_html, accept_xhtml, accept_json_gen, accept_html_gen, accept_xhtml_gen.
  change [97; 112; 112; 108; 105; 99; 97; 116; 105; 111; 110; 47; 106; 115; 111; 110] with s_app_json.
  change [97; 112; 112; 108; 105; 99; 97; 116; 105; 111; 110; 47; 120; 104; 116; 109; 108; 43; 120; 109; 108] with s_app_xhtml.
  change [97; 112; 112; 108; 105; 99; 97; 116; 105; 111; 110; 47; 120; 109; 108] with s_app_xml.
  change [116; 101; 120; 116; 47; 104; 116; 109; 108] with s_text_html.
  rewrite <- Hj, <- Hx, <- Hm, <- Hh.
  destruct (mime_in acc s_app_json), (mime_in acc s_app_xhtml), (mime_in acc s_app_xml), (mime_in acc s_text_html);
    cbn [orb]; intuition congruence.
Qed.

(* accept_json is true for application/json;q=0 : it means a range matches, not that the type is acceptable *)
Lemma accept_json_not_positive :
  exists value acc, parse_accept FMime value = Ok acc /\ accept_json acc = true /\ accept_html acc = false
                    /\ quality mime_matches acc s_app_json = Ok (0%Z, 0).
Proof.
  exists (s_app_json ++ [59; 113; 61; 48]), [(s_app_json, (0%Z, 0))]. repeat split; vm_compute; reflexivity.
Qed.

(* ---------------------------------------------------------------- RFC 9110 q-values *)
(* qvalue = ( 0 [ . 0*3DIGIT ] ) / ( 1 [ . 0*3(0) ] ) : all 1117 of them *)
Definition digit_chars : list N := [48; 49; 50; 51; 52; 53; 54; 55; 56; 57].
Definition rfc_qvalues : list str :=
  [[48]; [48; DOT]]
  ++ map (fun a => [48; DOT; a]) digit_chars
  ++ flat_map (fun a => map (fun b => [48; DOT; a; b]) digit_chars) digit_chars
  ++ flat_map (fun a => flat_map (fun b => map (fun c => [48; DOT; a; b; c]) digit_chars) digit_chars) digit_chars
  ++ [[49]; [49; DOT]; [49; DOT; 48]; [49; DOT; 48; 48]; [49; DOT; 48; 48; 48]].
(* accepted with a value in [0, 1] - except the two spellings that end in a bare dot, which the
   code's grammar rejects *)
Definition rfc_qvalue_ok (s : str) : bool :=
  match parse_q s with
  | Some q => negb (last_is DOT s) && negb (q_out_of_range q)
  | None => last_is DOT s
  end.
Lemma rfc_qvalues_sweep : (length rfc_qvalues = 1117)%nat /\ forallb rfc_qvalue_ok rfc_qvalues = true.
Proof. split; vm_compute; reflexivity. Qed.

(* the code's grammar is wider than the RFC's: more than three decimals, leading zeros, a sign *)
Lemma q_grammar_wider :
  exists s1 s2 s3 q1 q2 q3,
    parse_q s1 = Some q1 /\ parse_q s2 = Some q2 /\ parse_q s3 = Some q3 /\
    q_out_of_range q1 = false /\ q_out_of_range q2 = false /\ q_out_of_range q3 = false /\
    existsb (list_eqb s1) rfc_qvalues = false /\ existsb (list_eqb s2) rfc_qvalues = false
    /\ existsb (list_eqb s3) rfc_qvalues = false.
Proof.
  exists [48; 46; 49; 50; 51; 52; 53], [48; 49], [45; 48], (12345%Z, 5), (1%Z, 0), (0%Z, 0).
  repeat split; vm_compute; reflexivity.
Qed.

(* ---------------------------------------------------------------- codecs.lookup as a contract *)
Section CodecContract.
  Variable lookup : str -> option str.          (* codecs.lookup(name).name, None for LookupError *)
  Hypothesis lookup_case : forall n, lookup (lower n) = lookup n.
  Hypothesis lookup_canonical : forall n c, lookup n = Some c -> lookup c = Some c /\ lower c = c.

  Definition normalize (n : str) : str := match lookup n with Some c => c | None => lower n end.

  Lemma lower_idem s : lower (lower s) = lower s.
  Proof.
    unfold lower. rewrite map_map. apply map_ext. intro c. unfold ascii_lower, is_upper.
    destruct ((65 <=? c) && (c <=? 90)) eqn:E; [|now rewrite E].
    destruct ((65 <=? c + 32) && (c + 32 <=? 90)) eqn:E'; [|reflexivity]. lia.
  Qed.

  Lemma normalize_lower n : normalize (lower n) = normalize n.
  Proof. unfold normalize. rewrite lookup_case. destruct (lookup n); [reflexivity | apply lower_idem]. Qed.

  Lemma normalize_idem n : normalize (normalize n) = normalize n.
  Proof.
    destruct (lookup n) as [c|] eqn:E.
    - assert (H : normalize n = c) by (unfold normalize; now rewrite E). rewrite H.
      unfold normalize. destruct (lookup_canonical n c E) as [-> _]. reflexivity.
    - assert (H : normalize n = lower n) by (unfold normalize; now rewrite E). rewrite H.
      now rewrite normalize_lower.
  Qed.

  (* charset matching does not see the spelling of the offer: letter case, or an alias replaced by
     the codec's canonical name *)
  Lemma charset_offer_spelling o r :
    charset_rule normalize (lower o) r = charset_rule normalize o r /\
    charset_rule normalize (normalize o) r = charset_rule normalize o r.
  Proof. unfold charset_rule. now rewrite normalize_lower, normalize_idem. Qed.

  (* two offers that codecs.lookup resolves to the same codec are matched by the same ranges *)
  Lemma charset_alias o o' c r :
    lookup o = Some c -> lookup o' = Some c -> charset_rule normalize o r = charset_rule normalize o' r.
  Proof. intros H H'. unfold charset_rule, normalize. now rewrite H, H'. Qed.
End CodecContract.
