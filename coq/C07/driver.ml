let s_of = nlist_of_csv
let to_s = csv_of_nlist
let implode l = String.concat "" (List.map (fun x -> String.make 1 (Char.chr (int_of_n x))) l)
let tz z = implode (text_of_Z z)
let exn_name = function
  | IndexError -> "IndexError" | ValueError -> "ValueError" | UnicodeError -> "UnicodeError" | BinasciiError -> "binascii.Error"
  | KeyError -> "KeyError" | TypeError -> "TypeError" | AssertionError -> "AssertionError" | OverflowError -> "OverflowError"
  | HTTPError c -> "HTTP" ^ string_of_int (int_of_n c) | OutOfFuel -> "OutOfFuel" | Unmodelled -> "Unmodelled"
let res f = function Ok a -> "ok " ^ f a | Err e -> "err:" ^ exn_name e
let opt f = function None -> "~" | Some x -> f x
let os s = if s = "~" then None else Some (s_of s)
let show_lst l = if l = [] then "~" else String.concat "|" (List.map to_s l)
let show_od d = if d = [] then "~" else String.concat "|" (List.map (fun (k, v) -> to_s k ^ (match v with None -> "" | Some x -> "=" ^ to_s x)) d)
let show_sd d = if d = [] then "~" else String.concat "|" (List.map (fun (k, v) -> to_s k ^ "=" ^ to_s v) d)
let show_oz = opt tz
let show_range r = to_s r.r_units ^ ";" ^ (if r.r_ranges = [] then "~" else String.concat "," (List.map (fun (b, e) -> tz b ^ ":" ^ show_oz e) r.r_ranges))
let show_cr c = opt to_s c.c_units ^ ";" ^ show_oz c.c_start ^ ";" ^ show_oz c.c_stop ^ ";" ^ show_oz c.c_length
let show_et e = (if e.star then "star" else "tags") ^ ";" ^ show_lst e.strong ^ ";" ^ show_lst e.weak
let show_auth a = to_s a.a_type ^ ";" ^ show_od a.a_params ^ ";" ^ opt to_s a.a_token
let () = iter_lines (fun line ->
  match fields line with
  | ["cookie"; v] -> res show_sd (cookie_sansio (s_of v))
  | ["hcookie"; v] -> res show_sd (cookie_http (s_of v))
  | ["b64"; v] -> res to_s (b64decode (s_of v))
  | ["auth"; v] -> res (opt show_auth) (authorization_from_header (s_of v))
  | ["wauth"; v] -> res (opt show_auth) (www_authenticate_from_header (s_of v))
  | ["host"; scheme; hh; name; port] ->
      to_s (get_host (s_of scheme) (os hh) (if name = "~" then None else Some (s_of name, os port)))
  | ["port"; h] -> res (opt (fun n -> string_of_int (int_of_n n))) (url_port (s_of h))
  | ["clen"; cl; te] -> res show_oz (get_content_length (os cl) (os te))
  | ["query"; r; q] -> res to_s (query_text (r = "1") (s_of q))
  | ["popt"; v] -> res (fun (h, o) -> to_s h ^ ";" ^ show_sd o) (parse_options_header (s_of v))
  | ["plist"; v] -> show_lst (parse_list_header (s_of v))
  | ["pset"; v] -> show_lst (parse_set_header (s_of v))
  | ["pdict"; v] -> res show_od (parse_dict_header (s_of v))
  | ["petags"; v] -> res show_et (parse_etags (s_of v))
  | ["prange"; v] -> res (opt show_range) (parse_range_header (s_of v))
  | ["pcrange"; v] -> res (opt show_cr) (parse_content_range_header (s_of v))
  | ["page"; v] -> res show_oz (parse_age (s_of v))
  | ["accept"; v] -> res (fun l -> if l = [] then "~" else String.concat "|" (List.map (fun (it, q) -> to_s it ^ "=" ^ opt to_s q) l)) (parse_accept_items (s_of v))
  | ["uqetag"; v] -> opt (fun (e, w) -> to_s e ^ ";" ^ (if w then "1" else "0")) (unquote_etag (s_of v))
  | _ -> "bad-command")
