(* C07 proofs, part 2: cookies (over the C13 model), base64 / Authorization, host and port,
   Content-Length, query text. *)
From Coq Require Import ZArith Lia ZifyBool ZifyN.
From Wz Require C13.Model C13.Gen.
From Wz Require Import lib.Bytes lib.BytesFacts lib.Utf8 C06.LibPy C06.LibPyFacts C06.Gen C06.Model C06.Proofs
  C07.Gen C07.Model C07.Proofs.
Open Scope N_scope.
Ltac Zify.zify_post_hook ::= Z.to_euclidean_division_equations.

Module CM := Wz.C13.Model.

(* ------------------------------------------------------------------ text ending in ';' *)
Definition ends_semi (s : str) : Prop := exists p, s = p ++ [CM.SEMI].

Lemma ends_semi_suffix t s : ends_semi s -> is_suffix t s -> t = [] \/ ends_semi t.
Proof.
  intros [p Hp] [q Hq]. destruct t as [|t0 tr]; [left; reflexivity|]. right.
  destruct (@exists_last _ (t0 :: tr) ltac:(discriminate)) as (t' & z & Ht). rewrite Ht in *.
  rewrite Hp in Hq. rewrite app_assoc in Hq. apply app_inj_tail in Hq. destruct Hq as [_ <-]. exists t'. reflexivity.
Qed.

Lemma ends_semi_mem s : ends_semi s -> mem CM.SEMI s = true.
Proof. intros [p ->]. rewrite mem_app. cbn [mem existsb]. rewrite N.eqb_refl. apply orb_true_r. Qed.

Lemma drop_while_ends_semi (p : N -> bool) s : p CM.SEMI = false -> ends_semi s ->
  ends_semi (drop_while p s) /\ drop_while p s <> [].
Proof.
  intros Hp [q ->]. induction q as [|c q IH]; cbn [app drop_while].
  - rewrite Hp. split; [exists []; reflexivity|discriminate].
  - destruct (p c); [exact IH|]. split; [exists (c :: q); reflexivity|discriminate].
Qed.

Lemma rstrip_mem (p : N -> bool) x s : mem x s = false -> mem x (rstrip p s) = false.
Proof.
  induction s as [|c s IH]; [reflexivity|]. rewrite mem_cons. intro H. apply orb_false_elim in H. destruct H as [H1 H2].
  cbn [rstrip]. specialize (IH H2). destruct (rstrip p s) as [|y r'] eqn:E.
  - destruct (p c); [reflexivity|]. rewrite mem_cons, H1. reflexivity.
  - rewrite mem_cons, H1. exact IH.
Qed.

Lemma partition1_before_mem x y s a b : partition1 x s = (a, b) -> mem y s = false -> mem y a = false.
Proof.
  revert a b. induction s as [|c s IH]; intros a b H Hm.
  - injection H as <- <-. reflexivity.
  - cbn [partition1] in H. rewrite mem_cons in Hm. apply orb_false_elim in Hm. destruct Hm as [H1 H2].
    destruct (x =? c); [injection H as <- <-; reflexivity|]. destruct (partition1 x s) as [a' b'] eqn:E. injection H as <- <-.
    rewrite mem_cons, H1. apply (IH _ _ eq_refl H2).
Qed.

Lemma scan_quoted_suffix s a b : CM.scan_quoted s = Some (a, b) -> is_suffix b s /\ (length b < length s)%nat.
Proof.
  revert a b. assert (G : forall n s, (length s <= n)%nat -> forall a b, CM.scan_quoted s = Some (a, b) -> is_suffix b s /\ (length b < length s)%nat).
  { induction n as [|n IH]; intros s0 Hn a b H.
    - destruct s0; [discriminate|cbn [length] in Hn; lia].
    - destruct s0 as [|c r]; [discriminate|]. cbn [CM.scan_quoted] in H. destruct (c =? CM.DQ).
      + injection H as <- <-. split; [apply suffix_cons, suffix_refl|cbn [length]; lia].
      + destruct (c =? CM.BS).
        * destruct r as [|d r']; [discriminate|]. destruct (d =? CM.LF); [discriminate|].
          destruct (CM.scan_quoted r') as [[a' b']|] eqn:E; [|discriminate]. injection H as <- <-.
          destruct (IH r' ltac:(cbn [length] in Hn; lia) _ _ E) as [Hs Hl]. split; [apply suffix_cons, suffix_cons; exact Hs|cbn [length]; lia].
        * destruct (CM.scan_quoted r) as [[a' b']|] eqn:E; [|discriminate]. injection H as <- <-.
          destruct (IH r ltac:(cbn [length] in Hn; lia) _ _ E) as [Hs Hl]. split; [apply suffix_cons; exact Hs|cbn [length]; lia]. }
  intros a b H. eapply G; [apply le_n|exact H].
Qed.

(* ------------------------------------------------------------------ the cookie pair scanner terminates *)
Lemma find_pairs_total fuel : forall s, (length s < fuel)%nat -> (s = [] \/ ends_semi s) -> mem CM.LF s = false ->
  exists l, CM.find_pairs fuel s = CM.POk l.
Proof.
  induction fuel as [|f IH]; intros s Hf Hinv Hlf; [lia|]. cbn [CM.find_pairs].
  pose proof (drop_while_suffix CM.not_eq_semi s) as Hd.
  destruct (drop_while CM.not_eq_semi s) as [|c r] eqn:Ed; [eauto|].
  assert (Hs_ne : ends_semi s) by (destruct Hinv as [->|H]; [discriminate|exact H]).
  set (key := take_while CM.not_eq_semi s).
  assert (Hcont : forall val after, is_suffix after s -> (length after < length s)%nat ->
            exists l, match CM.find_pairs f (drop_while ascii_ws after) with
                      | CM.POk l0 => CM.POk ((key, val) :: l0)
                      | e => e
                      end = CM.POk l).
  { intros val after Hsa Hla. pose proof (drop_while_suffix ascii_ws after) as Hda.
    destruct (IH (drop_while ascii_ws after)) as [l ->].
    - pose proof (suffix_length _ _ Hda). lia.
    - apply (ends_semi_suffix _ s Hs_ne). eapply suffix_trans; eassumption.
    - eapply suffix_mem; [eapply suffix_trans; eassumption|exact Hlf].
    - eauto. }
  assert (Hcr : ends_semi (c :: r)) by (destruct (ends_semi_suffix _ s Hs_ne Hd) as [H|H]; [discriminate|exact H]).
  assert (Hr_s : is_suffix r s /\ (length r < length s)%nat).
  { split; [eapply suffix_trans; [|exact Hd]; apply suffix_cons, suffix_refl|]. pose proof (suffix_length _ _ Hd). cbn [length] in *. lia. }
  destruct (c =? CM.SEMI) eqn:Ec; [apply Hcont; tauto|].
  assert (Hr : ends_semi r).
  { destruct Hcr as [p Hp]. destruct p as [|p0 p']; [cbn [app] in Hp; injection Hp as -> _; rewrite N.eqb_refl in Ec; discriminate|].
    cbn [app] in Hp. injection Hp as _ ->. exists p'. reflexivity. }
  destruct (drop_while_ends_semi ascii_ws r eq_refl Hr) as [Hr1 Hr1ne].
  pose proof (drop_while_suffix ascii_ws r) as Hr1s.
  set (r1 := drop_while ascii_ws r) in *.
  assert (Hr1_s : is_suffix r1 s /\ (length r1 < length s)%nat).
  { split; [eapply suffix_trans; [exact Hr1s|tauto]|]. pose proof (suffix_length _ _ Hr1s). lia. }
  assert (Hlazy : exists l, match CM.scan_lazy r1 with
                            | Some (v, after) =>
                              match CM.find_pairs f (drop_while ascii_ws after) with
                              | CM.POk l0 => CM.POk ((key, v) :: l0)
                              | e => e
                              end
                            | None => CM.PUnsupported
                            end = CM.POk l).
  { unfold CM.scan_lazy. destruct (partition1_mem _ _ (ends_semi_mem _ Hr1)) as (a & b & Ep). rewrite Ep.
    assert (Hlf1 : mem CM.LF r1 = false) by (eapply suffix_mem; [apply Hr1_s|exact Hlf]).
    rewrite (rstrip_mem ascii_ws CM.LF a (partition1_before_mem _ _ _ _ _ Ep Hlf1)).
    destruct (partition1_suffix _ _ _ _ Ep) as [Hbs Hbl]. apply Hcont; [eapply suffix_trans; [exact Hbs|tauto]|lia]. }
  destruct r1 as [|q r2] eqn:Er1; [congruence|]. destruct (q =? CM.DQ); [|exact Hlazy].
  destruct (CM.scan_quoted r2) as [[content after]|] eqn:Eq; [|exact Hlazy].
  destruct (scan_quoted_suffix _ _ _ Eq) as [Has Hal]. pose proof (drop_while_suffix ascii_ws after) as Hda.
  destruct (drop_while ascii_ws after) as [|z after'] eqn:Eda; [exact Hlazy|]. destruct (z =? CM.SEMI); [|exact Hlazy].
  apply Hcont.
  - eapply suffix_trans; [|apply Hr1_s]. apply suffix_cons. eapply suffix_trans; [|exact Has].
    eapply suffix_trans; [|exact Hda]. apply suffix_cons, suffix_refl.
  - pose proof (suffix_length _ _ Hda). cbn [length] in *. lia.
Qed.

Lemma cookie_sansio_total s : valid_text s = true -> mem LF s = false -> exists l, cookie_sansio s = Ok l.
Proof.
  intros Hv Hlf. unfold cookie_sansio. rewrite Hv. unfold CM.parse_cookie_sansio. destruct s as [|c r] eqn:Es; [eauto|].
  rewrite <- Es in *. destruct (find_pairs_total (S (S (length s))) (s ++ [CM.SEMI])) as [l ->].
  - rewrite app_length. cbn [length]. lia.
  - right. exists s. reflexivity.
  - change CM.LF with LF. rewrite mem_app, Hlf. reflexivity.
  - eauto.
Qed.

(* ------------------------------------------------------------------ errors=replace decoding yields text *)
Definition byte_ok (c : N) : bool := (c <? 256) && negb (c =? LF).
Definition cp_ok (c : N) : bool := valid_cp c && negb (c =? LF).

Lemma decode_replace_ok : forall n b, (length b <= n)%nat -> forallb byte_ok b = true ->
  forallb cp_ok (utf8_decode_replace b) = true.
Proof.
  induction n as [|n IH]; intros b Hn Hb; [destruct b; [reflexivity|cbn [length] in Hn; lia]|].
  destruct b as [|b0 r0]; [reflexivity|]. cbn [forallb] in Hb. apply andb_prop in Hb. destruct Hb as [H0 Hr0].
  cbn [length] in Hn. unfold byte_ok, LF in H0.
  assert (Hrepl : cp_ok REPL = true) by reflexivity.
  assert (Htail : forall t, (length t <= n)%nat -> forallb byte_ok t = true -> forall x, cp_ok x = true ->
            forallb cp_ok (x :: utf8_decode_replace t) = true).
  { intros t Ht Hbt x Hx. cbn [forallb]. rewrite Hx, (IH t Ht Hbt). reflexivity. }
  cbn [utf8_decode_replace].
  destruct (b0 <? 128) eqn:E1; [apply Htail; [lia|exact Hr0|unfold cp_ok, valid_cp, LF; lia]|].
  destruct (b0 <? 194) eqn:E2; [apply Htail; [lia|exact Hr0|exact Hrepl]|].
  destruct (b0 <? 224) eqn:E3.
  { destruct r0 as [|b1 r1]; [reflexivity|]. cbn [forallb] in Hr0. apply andb_prop in Hr0. destruct Hr0 as [H1 Hr1].
    cbn [length] in Hn. unfold byte_ok, LF in H1. destruct (is_cont b1) eqn:C1.
    - apply Htail; [lia|exact Hr1|]. unfold is_cont in C1. unfold cp_ok, valid_cp, LF. lia.
    - apply Htail; [cbn [length]; lia|cbn [forallb]; apply andb_true_intro; split; [unfold byte_ok, LF; exact H1|exact Hr1]|exact Hrepl]. }
  destruct (b0 <? 240) eqn:E4.
  { destruct r0 as [|b1 r1]; [reflexivity|]. cbn [forallb] in Hr0. apply andb_prop in Hr0. destruct Hr0 as [H1 Hr1].
    cbn [length] in Hn. unfold byte_ok, LF in H1. destruct (second_ok b0 b1) eqn:S1.
    - destruct r1 as [|b2 r2]; [reflexivity|]. cbn [forallb] in Hr1. apply andb_prop in Hr1. destruct Hr1 as [H2 Hr2].
      cbn [length] in Hn. unfold byte_ok, LF in H2. destruct (is_cont b2) eqn:C2.
      + apply Htail; [lia|exact Hr2|]. unfold is_cont in C2. unfold second_ok, is_cont in S1. unfold cp_ok, valid_cp, LF.
        destruct (b0 =? 224) eqn:Q1; [lia|]. destruct (b0 =? 237) eqn:Q2; [lia|].
        destruct (b0 =? 240) eqn:Q3; [lia|]. destruct (b0 =? 244) eqn:Q4; lia.
      + apply Htail; [cbn [length]; lia|cbn [forallb]; apply andb_true_intro; split; [unfold byte_ok, LF; exact H2|exact Hr2]|exact Hrepl].
    - apply Htail; [cbn [length]; lia|cbn [forallb]; apply andb_true_intro; split; [unfold byte_ok, LF; exact H1|exact Hr1]|exact Hrepl]. }
  destruct (b0 <? 245) eqn:E5; [|apply Htail; [lia|exact Hr0|exact Hrepl]].
  destruct r0 as [|b1 r1]; [reflexivity|]. cbn [forallb] in Hr0. apply andb_prop in Hr0. destruct Hr0 as [H1 Hr1].
  cbn [length] in Hn. unfold byte_ok, LF in H1. destruct (second_ok b0 b1) eqn:S1.
  - destruct r1 as [|b2 r2]; [reflexivity|]. cbn [forallb] in Hr1. apply andb_prop in Hr1. destruct Hr1 as [H2 Hr2].
    cbn [length] in Hn. unfold byte_ok, LF in H2. destruct (is_cont b2) eqn:C2.
    + destruct r2 as [|b3 r3]; [reflexivity|]. cbn [forallb] in Hr2. apply andb_prop in Hr2. destruct Hr2 as [H3 Hr3].
      cbn [length] in Hn. unfold byte_ok, LF in H3. destruct (is_cont b3) eqn:C3.
      * apply Htail; [lia|exact Hr3|]. unfold is_cont in C2, C3. unfold second_ok, is_cont in S1. unfold cp_ok, valid_cp, LF.
        destruct (b0 =? 224) eqn:Q1; [lia|]. destruct (b0 =? 237) eqn:Q2; [lia|].
        destruct (b0 =? 240) eqn:Q3; [lia|]. destruct (b0 =? 244) eqn:Q4; lia.
      * apply Htail; [cbn [length]; lia|cbn [forallb]; apply andb_true_intro; split; [unfold byte_ok, LF; exact H3|exact Hr3]|exact Hrepl].
    + apply Htail; [cbn [length]; lia|cbn [forallb]; apply andb_true_intro; split; [unfold byte_ok, LF; exact H2|exact Hr2]|exact Hrepl].
  - apply Htail; [cbn [length]; lia|cbn [forallb]; apply andb_true_intro; split; [unfold byte_ok, LF; exact H1|exact Hr1]|exact Hrepl].
Qed.

Lemma cp_ok_split s : forallb cp_ok s = true -> valid_text s = true /\ mem LF s = false.
Proof.
  induction s as [|c s IH]; [split; reflexivity|]. cbn [forallb]. intro H. apply andb_prop in H. destruct H as [Hc Hs].
  destruct (IH Hs) as [Hv Hm]. unfold cp_ok in Hc. apply andb_prop in Hc. destruct Hc as [Hc1 Hc2]. split.
  - unfold valid_text in *. cbn [forallb]. rewrite Hc1, Hv. reflexivity.
  - rewrite mem_cons, Hm. apply negb_true_iff in Hc2. rewrite N.eqb_sym, Hc2. reflexivity.
Qed.

Lemma latin1_no_lf_bytes h : forallb (fun c => c <? 256) h = true -> mem LF h = false -> forallb byte_ok h = true.
Proof.
  induction h as [|c h IH]; [reflexivity|]. cbn [forallb]. rewrite mem_cons. intros H Hm. apply andb_prop in H.
  apply orb_false_elim in Hm. unfold byte_ok at 1. rewrite (proj1 H). rewrite N.eqb_sym, (proj1 Hm). cbn [negb andb].
  apply IH; tauto.
Qed.

(* holds of the regenerated decode mode: after the repair cookie_decode_replace = true *)
Lemma cookie_http_total h : forallb (fun c => c <? 256) h = true -> mem LF h = false -> exists l, cookie_http h = Ok l.
Proof.
  intros Hb Hlf. unfold cookie_http. destruct h as [|c r] eqn:Eh; [apply cookie_sansio_total; reflexivity|]. rewrite <- Eh in *.
  unfold latin1_encode. rewrite Hb. change cookie_decode_replace with true. cbv iota.
  destruct (cp_ok_split _ (decode_replace_ok _ h (le_n _) (latin1_no_lf_bytes h Hb Hlf))) as [Hv Hm].
  apply cookie_sansio_total; assumption.
Qed.

(* ------------------------------------------------------------------ base64 / Authorization *)
Lemma a2b_base64_err s : forall q l p e, a2b_base64 s q l p = Err e -> e = BinasciiError.
Proof.
  induction s as [|c r IH]; intros q l p e H; cbn [a2b_base64] in H.
  - destruct (q =? 0); [discriminate|]. inversion H. reflexivity.
  - destruct (c =? 61).
    + destruct ((2 <=? q) && (4 <=? q + (p + 1))); [discriminate|]. eapply IH; exact H.
    + destruct (b64_val c) as [v|]; [|eapply IH; exact H].
      destruct (q =? 0); [eapply IH; exact H|].
      destruct (q =? 1); [|destruct (q =? 2)];
        match type of H with bind ?x _ = _ => destruct x as [t|e'] eqn:E end; try discriminate;
        cbn [bind] in H; inversion H; subst; eapply IH; exact E.
Qed.

Lemma b64decode_err s e : b64decode s = Err e -> is_value_error e = true.
Proof.
  unfold b64decode. destruct (forallb (fun c => c <? 128) s).
  - intro H. rewrite (a2b_base64_err _ _ _ _ _ H). reflexivity.
  - intro H. inversion H. reflexivity.
Qed.

Lemma auth_params_or_token_total scheme rest : exists a, auth_params_or_token scheme rest = Ok a.
Proof.
  unfold auth_params_or_token. destruct (mem EQ (rstrip (fun c => c =? EQ) rest)); [|eauto].
  destruct (parse_dict_header_total rest) as [d ->]. cbn [bind]. eauto.
Qed.

(* holds of the regenerated except clause: after the repair it catches every ValueError *)
Lemma authorization_total value : exists a, authorization_from_header value = Ok a.
Proof.
  unfold authorization_from_header. destruct value as [|c r]; [eauto|]. destruct (scheme_rest (c :: r)) as [scheme rest].
  destruct (list_eqb scheme s_basic); [|apply auth_params_or_token_total].
  unfold try_except. destruct (b64decode rest) as [b|e] eqn:Eb; cbn [bind].
  - unfold decode_utf8. destruct (utf8_decode b) as [t|]; cbn [bind].
    + destruct (partition1 COLON t). eauto.
    + change (auth_basic_catches UnicodeError) with true. eauto.
  - pose proof (b64decode_err _ _ Eb) as Hv. change (auth_basic_catches e) with (is_value_error e). rewrite Hv. eauto.
Qed.

Lemma www_authenticate_total value : exists a, www_authenticate_from_header value = Ok a.
Proof.
  unfold www_authenticate_from_header. destruct value as [|c r]; [eauto|]. destruct (scheme_rest (c :: r)). apply auth_params_or_token_total.
Qed.

(* ------------------------------------------------------------------ Content-Length, query text *)
Lemma get_content_length_total cl te : exists o, get_content_length cl te = Ok o.
Proof.
  unfold get_content_length. destruct (match te with Some t => list_eqb t s_chunked | None => false end); [eauto|].
  destruct cl as [v|]; [|eauto]. unfold try_except. destruct (plain_int v) as [n|e] eqn:E; cbn [bind]; [eauto|].
  rewrite (plain_int_err _ _ E). cbn [is_value_error]. eauto.
Qed.

Lemma query_text_total q : forallb (fun c => c <? 256) q = true -> exists t, query_text true q = Ok t.
Proof. intro H. unfold query_text, latin1_encode. rewrite H. eauto. Qed.

(* ------------------------------------------------------------------ the port of the reconstructed URL *)
Definition s_x_abc : str := [120; 58; 97; 98; 99].

(* Request.url on Host: x:abc *)
Lemma url_port_refuted : url_port s_x_abc = Err ValueError.
Proof. vm_compute. reflexivity. Qed.

(* the guard: printable Latin-1, no brackets, and the text after the first ':' of the host part
   (after the last '@', before the first of / ? #) empty or a port number *)
Definition port_text_ok (p : str) : bool :=
  match p with
  | [] => true
  | _ => forallb is_digit p &&
         match N_of_digits p with Ok n => n <=? 65535 | Err _ => false end
  end.

Definition host_port_ok (host : str) : bool :=
  forallb (fun c => (31 <? c) && (c <? 256) && negb (c =? 127)) host
  && negb (mem 91 (url_netloc host)) && negb (mem 93 (url_netloc host))
  && match partition1 COLON (after_last 64 (url_netloc host)) with
     | (_, Some p) => port_text_ok p
     | (_, None) => true
     end.

Lemma url_port_partial host : host_port_ok host = true -> exists p, url_port host = Ok p.
Proof.
  unfold host_port_ok, url_port. intro H. apply andb_prop in H. destruct H as [H Hp]. apply andb_prop in H. destruct H as [H H93].
  apply andb_prop in H. destruct H as [Hc H91]. rewrite Hc. cbn [negb]. apply negb_true_iff in H91, H93. rewrite H91, H93.
  cbn [negb andb orb]. destruct (partition1 COLON (after_last 64 (url_netloc host))) as [a [p|]]; [|eauto].
  destruct p as [|p0 p']; [eauto|]. unfold port_text_ok in Hp. apply andb_prop in Hp. destruct Hp as [Hd Hn]. rewrite Hd.
  destruct (N_of_digits (p0 :: p')) as [n|]; [|discriminate]. cbn [bind]. replace (65535 <? n) with false by lia. eauto.
Qed.

(* ------------------------------------------------------------------ Accept headers *)
Lemma dump_options_total h o : exists t, dump_options_header h o = Ok t.
Proof.
  unfold dump_options_header. assert (H : exists segs, map_res dump_option o = Ok segs).
  { induction o as [|[k v] o [segs IH]]; [exists []; reflexivity|]. cbn [map_res]. unfold dump_option at 1.
    destruct (last_is STAR k); cbn [bind]; rewrite IH; cbn [bind]; eauto. }
  destruct H as [segs ->]. cbn [bind]. eauto.
Qed.

Lemma accept_item_total item : exists o, accept_item item = Ok o.
Proof.
  unfold accept_item. destruct (parse_options_header_total item) as [[value options] ->]. cbn [bind].
  assert (Hd : forall (q : option str) opts, exists o,
            match opts with
            | [] => Ok (Some (value, q))
            | _ => do t <- dump_options_header value opts; Ok (Some (t, q))
            end = Ok o).
  { intros q opts. destruct opts as [|kv opts']; [eauto|]. destruct (dump_options_total value (kv :: opts')) as [t ->]. cbn [bind]. eauto. }
  destruct (dict_get s_q options) as [qv|]; [|apply Hd].
  destruct (q_parse (py_strip qv)) as [q|]; [|eauto]. destruct (q_out_of_range q); [eauto|apply Hd].
Qed.

Lemma accept_items_total items : exists l, accept_items items = Ok l.
Proof.
  induction items as [|it r [l IH]]; [exists []; reflexivity|]. cbn [accept_items].
  destruct (accept_item_total it) as [o ->]. cbn [bind]. rewrite IH. cbn [bind]. eauto.
Qed.

Lemma parse_accept_items_total s : exists l, parse_accept_items s = Ok l.
Proof. unfold parse_accept_items. destruct s; [eauto|apply accept_items_total]. Qed.

(* ------------------------------------------------------------------ Request.args: parse_qsl is not given a reason to raise *)
(* holds of the regenerated keywords: no max_num_fields, no strict_parsing *)
Lemma request_args_checks_total qs : request_args_checks qs = Ok tt.
Proof. unfold request_args_checks, parse_qsl_checks. change args_max_num_fields with (@None N). change args_strict_parsing with false. reflexivity. Qed.

(* the regex texts the C13 cookie matchers stand for, as this run regenerated them *)
Lemma cookie_patterns_pinned :
  list_eqb Wz.C13.Gen.cookie_unslash_re_text [92; 92; 40; 91; 48; 45; 51; 93; 91; 48; 45; 55; 93; 123; 50; 125; 124; 46; 41]
  && (Wz.C13.Gen.cookie_unslash_re_flags =? 0) && (Wz.C13.Gen.cookie_re_flags =? 320)
  && (N.of_nat (length Wz.C13.Gen.cookie_re_text) =? 114) && (weighted_sum Wz.C13.Gen.cookie_re_text 1 =? 292951) = true.
Proof. vm_compute. reflexivity. Qed.

(* ------------------------------------------------------------------ Cache-Control, CSP, dates *)
Lemma parse_cache_control_total v : exists d, parse_cache_control v = Ok d.
Proof. unfold parse_cache_control. destruct v as [[|c r]|]; eauto. apply parse_dict_header_total. Qed.

Lemma cc_get_e_total d key empty ty : exists v, cc_get_e d key empty ty = Ok v.
Proof.
  unfold cc_get_e. destruct ty; [eauto| |]; destruct (dict_get key d) as [[v|]|]; eauto.
  unfold try_except. destruct (py_int v) as [z|e] eqn:E; cbn [bind]; [eauto|]. rewrite (py_int_err _ _ E). cbn [is_value_error]. eauto.
Qed.

Lemma parse_csp_e_total v : exists d, parse_csp_e v = Ok d.
Proof. destruct v; cbn [parse_csp_e]; eauto. Qed.

(* holds of the regenerated except clause (TypeError, ValueError, OverflowError) *)
Lemma parse_date_over_total (D : Type) (parsedate : str -> res D) :
  (forall s e, parsedate s = Err e -> is_type_error e || is_value_error e || is_overflow_error e = true) ->
  forall v, exists o, parse_date_over parsedate v = Ok o.
Proof.
  intros Hc v. destruct v as [s|]; cbn [parse_date_over]; [|eauto]. unfold try_except.
  destruct (parsedate s) as [d|e] eqn:E; cbn [bind]; [eauto|]. change (parse_date_catches e) with (is_type_error e || is_value_error e || is_overflow_error e).
  rewrite (Hc s e E). eauto.
Qed.

(* ------------------------------------------------------------------ Request attributes *)
Lemma wire_text_facts s : wire_text s = true -> forallb (fun c => c <? 256) s = true /\ mem LF s = false /\ valid_text s = true.
Proof.
  unfold wire_text, valid_text. induction s as [|c s IH]; [repeat split; reflexivity|]. cbn [forallb]. intro H. apply andb_prop in H.
  destruct H as [Hc Hs]. destruct (IH Hs) as (I1 & I2 & I3). apply andb_prop in Hc. destruct Hc as [C1 C2]. apply negb_true_iff in C2.
  rewrite C1, I1, I3. rewrite mem_cons, I2. rewrite N.eqb_sym, C2. unfold valid_cp. replace (c <? 55296) with true by lia. repeat split.
Qed.

Lemma wire_opt_facts o : wire_opt o = true -> wire_text (or_empty o) = true.
Proof. destruct o; [exact (fun H => H)|reflexivity]. Qed.

Ltac env_split H :=
  unfold environ_ok in H; repeat (apply andb_prop in H; let H' := fresh "He" in destruct H as [H H']).

Lemma request_args_total e : environ_ok e = true -> exists t, request_args e = Ok t.
Proof.
  intro H. env_split H. unfold request_args. destruct (wire_text_facts _ H) as (Hb & _).
  destruct (query_text_total (e_query e) Hb) as [t Ht]. change args_decode_replace with true. rewrite Ht. cbn [bind].
  rewrite request_args_checks_total. cbn [bind]. eauto.
Qed.

Lemma request_cookies_total e : environ_ok e = true -> exists l, request_cookies e = Ok l.
Proof.
  intro H. env_split H. unfold request_cookies. destruct (wire_text_facts _ (wire_opt_facts _ He7)) as (_ & Hl & Hv).
  apply cookie_sansio_total; assumption.
Qed.

Lemma request_authorization_total e : exists a, request_authorization e = Ok a.
Proof. unfold request_authorization. destruct (e_authorization e); [apply authorization_total|eauto]. Qed.

Lemma request_range_total e : exists r, request_range e = Ok r.
Proof. unfold request_range. destruct (e_range e); [apply parse_range_header_total|eauto]. Qed.

Lemma request_if_match_total e : environ_ok e = true ->
  (exists t, request_if_match e = Ok t) /\ (exists t, request_if_none_match e = Ok t).
Proof.
  intro H. env_split H. unfold request_if_match, request_if_none_match. split; apply parse_etags_total.
  - apply (wire_text_facts _ (wire_opt_facts _ He4)).
  - apply (wire_text_facts _ (wire_opt_facts _ He3)).
Qed.

Lemma request_content_length_total e : exists n, request_content_length e = Ok n.
Proof. apply get_content_length_total. Qed.

Lemma request_mimetype_params_total e : exists o, request_mimetype_params e = Ok o.
Proof.
  unfold request_mimetype_params. destruct (parse_options_header_total (or_empty (e_content_type e))) as [[h o] ->]. cbn [bind]. eauto.
Qed.

Lemma request_cache_control_total e : exists d, request_cache_control e = Ok d.
Proof. apply parse_cache_control_total. Qed.

(* ------------------------------------------------------------------ more Request attributes *)
Lemma request_full_path_total e : forallb (fun c => c <? 256) (m_query e) = true -> exists t, request_full_path e = Ok t.
Proof.
  intro H. unfold request_full_path. change full_path_decode_replace with true. destruct (query_text_total _ H) as [q ->]. cbn [bind]. eauto.
Qed.

Lemma request_access_route_total e : exists l, request_access_route e = Ok l.
Proof. unfold request_access_route. destruct (m_forwarded_for e); [eauto|]. destruct (m_remote_addr e); eauto. Qed.

Lemma request_accept_total h : exists l, request_accept h = Ok l.
Proof. destruct h; [apply parse_accept_items_total|cbn; eauto]. Qed.

Lemma request_if_range_total (D : Type) (parsedate : str -> res D) :
  (forall s e, parsedate s = Err e -> is_type_error e || is_value_error e || is_overflow_error e = true) ->
  forall e, exists r, request_if_range parsedate e = Ok r.
Proof.
  intros Hc e. unfold request_if_range. destruct (m_if_range e) as [[|c r]|]; [eauto| |eauto].
  destruct (parse_date_over_total D parsedate Hc (@Some str (c :: r))) as [o Ho].
  destruct o as [d|]; eexists; rewrite Ho; reflexivity.
Qed.

Definition s_http : str := [104; 116; 116; 112].
Lemma request_url_port_refuted :
  request_url_port {| u_scheme := s_http; u_host := Some s_x_abc; u_server := Some ([108], Some [56; 48]) |} = Err ValueError.
Proof. vm_compute. reflexivity. Qed.

Lemma request_url_port_partial e : host_port_ok (get_host (u_scheme e) (u_host e) (u_server e)) = true -> exists p, request_url_port e = Ok p.
Proof. apply url_port_partial. Qed.
