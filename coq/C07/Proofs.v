(* C07 proofs, part 1: totality of the header parsers of C06/Model.v on arbitrary text. *)
From Coq Require Import ZArith Lia ZifyBool ZifyN.
From Wz Require Import lib.Bytes lib.BytesFacts lib.Utf8 C06.LibPy C06.LibPyFacts C06.Gen C06.Model C06.Proofs C06.Proofs2 C06.Proofs3.
Open Scope N_scope.
Ltac Zify.zify_post_hook ::= Z.to_euclidean_division_equations.

(* ------------------------------------------------------------------ suffixes and lengths *)
Definition is_suffix (t s : str) : Prop := exists p, s = p ++ t.

Lemma suffix_refl s : is_suffix s s.
Proof. exists []. reflexivity. Qed.
Lemma suffix_cons c t s : is_suffix t s -> is_suffix t (c :: s).
Proof. intros [p ->]. exists (c :: p). reflexivity. Qed.
Lemma suffix_trans a b c : is_suffix a b -> is_suffix b c -> is_suffix a c.
Proof. intros [p ->] [q ->]. exists (q ++ p). rewrite app_assoc. reflexivity. Qed.
Lemma suffix_length t s : is_suffix t s -> (length t <= length s)%nat.
Proof. intros [p ->]. rewrite app_length. lia. Qed.
Lemma suffix_mem x t s : is_suffix t s -> mem x s = false -> mem x t = false.
Proof. intros [p ->]. rewrite mem_app. intro H. apply orb_false_elim in H. tauto. Qed.
Lemma suffix_nil s : is_suffix [] s.
Proof. exists s. rewrite app_nil_r. reflexivity. Qed.

Lemma drop_while_suffix (p : N -> bool) s : is_suffix (drop_while p s) s.
Proof.
  induction s as [|c s IH]; [apply suffix_refl|]. cbn [drop_while]. destruct (p c); [apply suffix_cons; exact IH|apply suffix_refl].
Qed.

Lemma partition1_some x s a b : partition1 x s = (a, Some b) -> s = a ++ x :: b.
Proof.
  revert a. induction s as [|c s IH]; intros a H; [discriminate|]. cbn [partition1] in H.
  destruct (x =? c) eqn:E.
  - apply N.eqb_eq in E. subst c. injection H as <- <-. reflexivity.
  - destruct (partition1 x s) as [a' b'] eqn:Ep. injection H as <- ->. cbn [app]. f_equal. apply IH. reflexivity.
Qed.

Lemma partition1_suffix x s a b : partition1 x s = (a, Some b) -> is_suffix b s /\ (length b < length s)%nat.
Proof.
  intro H. apply partition1_some in H. subst s. split.
  - exists (a ++ [x]). rewrite <- app_assoc. reflexivity.
  - rewrite app_length. cbn [length]. lia.
Qed.

Lemma partition1_mem x s : mem x s = true -> exists a b, partition1 x s = (a, Some b).
Proof.
  induction s as [|c s IH]; [discriminate|]. rewrite mem_cons. cbn [partition1]. destruct (x =? c); [eauto|].
  cbn [orb]. intro H. destruct (IH H) as (a & b & ->). eauto.
Qed.

(* ------------------------------------------------------------------ int conversions raise ValueError only *)
Lemma N_of_digits_err ds e : N_of_digits ds = Err e -> e = ValueError.
Proof.
  unfold N_of_digits. destruct ds; [intro H; inversion H; reflexivity|].
  destruct (uint_of_digits (n :: ds)); [|intro H; inversion H; reflexivity].
  destruct (MAX_STR_DIGITS <? _); [intro H; inversion H; reflexivity|discriminate].
Qed.

Lemma plain_int_err s e : plain_int s = Err e -> e = ValueError.
Proof.
  unfold plain_int. destruct (py_strip s) as [|c r]; [intro H; inversion H; reflexivity|].
  destruct (c =? DASH).
  - destruct (N_of_digits r) eqn:E; [discriminate|]. cbn [bind]. intro H. injection H as <-. apply (N_of_digits_err _ _ E).
  - destruct (N_of_digits (c :: r)) eqn:E; [discriminate|]. cbn [bind]. intro H. injection H as <-. apply (N_of_digits_err _ _ E).
Qed.

Lemma py_int_body_err (f : N -> Z) body e :
  match body with
  | c :: _ =>
    if is_digit c then
      match strip_underscores body false with
      | Some ds => do n <- N_of_digits ds; Ok (f n)
      | None => Err ValueError
      end
    else Err ValueError
  | [] => Err ValueError
  end = Err e -> e = ValueError.
Proof.
  destruct body as [|d body']; [intro H; inversion H; reflexivity|].
  destruct (is_digit d); [|intro H; inversion H; reflexivity].
  destruct (strip_underscores (d :: body') false) as [ds|]; [|intro H; inversion H; reflexivity].
  destruct (N_of_digits ds) eqn:E; [discriminate|]. cbn [bind]. intro H. inversion H; subst. apply (N_of_digits_err _ _ E).
Qed.

Lemma py_int_err s e : py_int s = Err e -> e = ValueError.
Proof.
  unfold py_int. destruct (strip int_ws s) as [|c r].
  - intro H. inversion H. reflexivity.
  - destruct (c =? DASH); [apply (py_int_body_err (fun n => (- Z.of_N n)%Z))|].
    destruct (c =? 43); [apply (py_int_body_err (fun n => Z.of_N n))|apply (py_int_body_err (fun n => Z.of_N n) (c :: r))].
Qed.

Lemma catch_plain_int_ok s : exists o, catch_value_error (plain_int s) = Ok o.
Proof.
  unfold catch_value_error. destruct (plain_int s) as [z|e] eqn:E; [eauto|]. rewrite (plain_int_err _ _ E). cbn [is_value_error]. eauto.
Qed.

(* ------------------------------------------------------------------ fold_res *)
Lemma fold_res_total {A B : Type} (f : A -> B -> res A) (P : A -> Prop) (Q : B -> Prop) :
  (forall a b, P a -> Q b -> exists a', f a b = Ok a' /\ P a') ->
  forall l a, P a -> Forall Q l -> exists a', fold_res f a l = Ok a' /\ P a'.
Proof.
  intros Hf l. induction l as [|b l IH]; intros a Ha Hl; [exists a; split; [reflexivity|exact Ha]|].
  inversion Hl as [|? ? Hb Hl']; subst. destruct (Hf a b Ha Hb) as (a' & Ha' & Pa'). cbn [fold_res]. rewrite Ha'. cbn [bind].
  apply IH; assumption.
Qed.

(* ------------------------------------------------------------------ percent decoding keeps text non-empty *)
Lemma unquote_bytes_nonempty s : s <> [] -> unquote_bytes s <> [].
Proof.
  destruct s as [|c r]; [congruence|]. intros _. cbn [unquote_bytes]. destruct (c =? PCT); [|discriminate].
  destruct r as [|h1 r1]; [discriminate|]. destruct r1 as [|h2 r2]; [discriminate|].
  destruct (is_hex h1 && is_hex h2); discriminate.
Qed.

Lemma utf8_decode_replace_nonempty b : b <> [] -> utf8_decode_replace b <> [].
Proof.
  destruct b as [|b0 r0]; [congruence|]. intros _. cbn [utf8_decode_replace].
  repeat match goal with
         | |- context [if ?c then _ else _] => destruct c
         | |- context [match ?l with [] => _ | _ :: _ => _ end] => destruct l
         end; discriminate.
Qed.

Lemma decode_replace_nonempty cs b : b <> [] -> decode_replace cs b <> [].
Proof.
  intro H. destruct cs; cbn [decode_replace].
  - destruct b; [congruence|discriminate].
  - apply utf8_decode_replace_nonempty. exact H.
  - exact H.
Qed.

Lemma unquote_runs_nonempty cs s run : s <> [] \/ run <> [] -> unquote_runs cs s run <> [].
Proof.
  revert run. induction s as [|c s IH]; intros run H.
  - cbn [unquote_runs]. apply decode_replace_nonempty, unquote_bytes_nonempty. destruct H; congruence.
  - cbn [unquote_runs]. destruct (c <? 128).
    + apply IH. right. destruct run; discriminate.
    + intro E. apply app_eq_nil in E. destruct E as [_ E]. discriminate.
Qed.

Lemma url_unquote_nonempty cs s : s <> [] -> url_unquote cs s <> [].
Proof. intro H. unfold url_unquote. destruct (mem PCT s); [apply unquote_runs_nonempty; left; exact H|exact H]. Qed.

Lemma str_mem_in e l : str_mem e l = true -> In e l.
Proof.
  unfold str_mem. intro H. apply existsb_exists in H. destruct H as (x & Hx & He). apply list_eqb_eq in He. subst. exact Hx.
Qed.

Lemma unquote_if_allowed_ok allowed enc v :
  forallb (fun e => match charset_of e with Some _ => true | None => false end) allowed = true ->
  exists hit v', unquote_if_allowed allowed enc v = Ok (hit, v') /\ (v <> [] -> v' <> []).
Proof.
  intro Ha. unfold unquote_if_allowed. destruct enc as [e|]; [|exists false, v; tauto].
  destruct (str_mem e allowed) eqn:Em; [|exists false, v; tauto].
  apply str_mem_in in Em. rewrite forallb_forall in Ha. specialize (Ha e Em).
  destruct (charset_of e) as [cs|]; [|discriminate]. exists true, (url_unquote cs v). split; [reflexivity|apply url_unquote_nonempty].
Qed.

Lemma options_charsets_ok : forallb (fun e => match charset_of e with Some _ => true | None => false end) options_charsets = true.
Proof. pose proof charsets_pinned as H. apply andb_prop in H. exact (proj1 H). Qed.
Lemma dict_charsets_ok : forallb (fun e => match charset_of e with Some _ => true | None => false end) dict_charsets = true.
Proof. pose proof charsets_pinned as H. apply andb_prop in H. exact (proj2 H). Qed.

(* ------------------------------------------------------------------ parse_dict_header *)
Lemma pdh_item_total d item : exists d', pdh_item d item = Ok d'.
Proof.
  unfold pdh_item. destruct (partition1 EQ item) as [key rest]. destruct (py_strip key) as [|k0 k'] eqn:Ek; [eauto|].
  destruct rest as [value|]; [|eauto].
  destruct (last_e_forall (fun _ => true) (k0 :: k') ltac:(discriminate)) as (c & Hc & _).
  { clear. induction (k0 :: k'); [reflexivity|exact IHl]. }
  rewrite Hc. cbn [bind]. destruct (c =? STAR); cbn [bind]; [|eauto].
  destruct (charset_match (py_strip value)) as [[enc v]|].
  - destruct (unquote_if_allowed_ok dict_charsets (Some (py_lower enc)) v dict_charsets_ok) as (hit & v' & -> & _). cbn [bind]. eauto.
  - destruct (unquote_if_allowed_ok dict_charsets None (py_strip value) dict_charsets_ok) as (hit & v' & -> & _). cbn [bind]. eauto.
Qed.

Lemma parse_dict_header_total s : exists d, parse_dict_header s = Ok d.
Proof.
  unfold parse_dict_header.
  destruct (fold_res_total pdh_item (fun _ => True) (fun _ => True)) with (l := parse_list_header s) (a := @nil (str * option str)) as (d & Hd & _).
  - intros a b _ _. destruct (pdh_item_total a b) as [a' Ha']. eauto.
  - exact I.
  - clear. induction (parse_list_header s); constructor; [exact I|assumption].
  - eauto.
Qed.

(* ------------------------------------------------------------------ parse_options_header *)
Definition part_ok (p : str * str) : Prop := fst p <> [] /\ snd p <> [].

Lemma take_drop_length (p : N -> bool) s : (length (take_while p s) + length (drop_while p s) = length s)%nat.
Proof. induction s as [|c s IH]; [reflexivity|]. cbn [take_while drop_while]. destruct (p c); cbn [length]; lia. Qed.

Lemma key_match_some s k r : key_match s = Some (k, r) -> k <> [] /\ is_suffix r s.
Proof.
  unfold key_match. destruct (take_while is_pkey s) as [|k0 k'] eqn:Et; [discriminate|].
  pose proof (drop_while_suffix is_pkey s) as Hs. destruct (drop_while is_pkey s) as [|c r'] eqn:Ed; [discriminate|].
  destruct (c =? EQ); [|discriminate]. intro H. injection H as <- <-. split; [discriminate|].
  eapply suffix_trans; [|exact Hs]. exists [c]. reflexivity.
Qed.

Lemma qscan_suffix s a b : qscan s = Some (a, b) -> is_suffix b s.
Proof.
  revert a b. assert (G : forall n s, (length s <= n)%nat -> forall a b, qscan s = Some (a, b) -> is_suffix b s).
  { induction n as [|n IH]; intros s0 Hn a b H.
    - destruct s0; [discriminate|cbn [length] in Hn; lia].
    - destruct s0 as [|c r]; [discriminate|]. cbn [qscan] in H. destruct r as [|d r'].
      + destruct (c =? DQ); [|discriminate]. injection H as <- <-. apply suffix_nil.
      + destruct ((c =? BS) && ((d =? BS) || (d =? DQ))).
        * destruct (qscan r') as [[a' b']|] eqn:E; [|discriminate]. injection H as <- <-.
          apply suffix_cons, suffix_cons. eapply IH; [|exact E]. cbn [length] in Hn. lia.
        * destruct (c =? DQ); [injection H as <- <-; apply suffix_cons, suffix_refl|].
          change (match r' with
                  | [] => if d =? DQ then Some ([], []) else None
                  | d0 :: r'0 =>
                      if (d =? BS) && ((d0 =? BS) || (d0 =? DQ))
                      then match qscan r'0 with Some (a, b) => Some (d :: d0 :: a, b) | None => None end
                      else if d =? DQ then Some ([], r')
                           else match qscan r' with Some (a, b) => Some (d :: a, b) | None => None end
                  end) with (qscan (d :: r')) in H.
          destruct (qscan (d :: r')) as [[a' b']|] eqn:E; [|discriminate]. injection H as <- <-.
          apply suffix_cons. eapply IH; [|exact E]. cbn [length] in *. lia. }
  intros a b H. eapply G; [apply le_n|exact H].
Qed.

Lemma py_lower_nonempty k : k <> [] -> py_lower k <> [].
Proof. destruct k; [congruence|discriminate]. Qed.

Lemma poh_round_spec rest part rest1 : poh_round rest = (part, rest1) ->
  is_suffix rest1 rest /\ match part with Some p => part_ok p | None => True end.
Proof.
  unfold poh_round. destruct (key_match rest) as [[k r]|] eqn:Ek.
  - destruct (key_match_some _ _ _ Ek) as [Hk Hs]. destruct (take_while is_ptok r) as [|t0 t'] eqn:Et.
    + destruct r as [|c r'].
      * intro H. injection H as <- <-. tauto.
      * destruct (c =? DQ).
        -- destruct (qscan r') as [[content after]|] eqn:Eq.
           ++ intro H. injection H as <- <-. split.
              ** eapply suffix_trans; [|exact Hs]. apply suffix_cons. apply (qscan_suffix _ _ _ Eq).
              ** split; cbn [fst snd]; [apply py_lower_nonempty; exact Hk|discriminate].
           ++ intro H. injection H as <- <-. tauto.
        -- intro H. injection H as <- <-. tauto.
    + intro H. injection H as <- <-. split; [exact Hs|]. split; cbn [fst snd]; [apply py_lower_nonempty; exact Hk|discriminate].
  - intro H. injection H as <- <-. split; [apply suffix_refl|exact I].
Qed.

Lemma poh_loop_total fuel : forall rest, (length rest < fuel)%nat ->
  exists parts, poh_loop fuel rest = Ok parts /\ Forall part_ok parts.
Proof.
  induction fuel as [|f IH]; intros rest Hf; [lia|]. cbn [poh_loop].
  destruct (poh_round rest) as [part rest1] eqn:Er. destruct (poh_round_spec _ _ _ Er) as [Hs Hp].
  destruct (partition1 SEMI rest1) as [before [after|]] eqn:Ep.
  - destruct (partition1_suffix _ _ _ _ Ep) as [Hs2 Hl2].
    destruct (IH (py_lstrip after)) as (l & Hl & Hok).
    { pose proof (suffix_length _ _ (drop_while_suffix uni_ws after)). pose proof (suffix_length _ _ Hs). unfold py_lstrip. lia. }
    rewrite Hl. cbn [bind]. eexists. split; [reflexivity|]. destruct part; cbn [opt_list app]; [constructor; assumption|assumption].
  - eexists. split; [reflexivity|]. destruct part; cbn [opt_list]; [constructor; [assumption|constructor]|constructor].
Qed.

Lemma charset_match_nonempty v cs val : charset_match v = Some (cs, val) -> val <> [].
Proof.
  unfold charset_match. destruct (drop_while is_c1 v) as [|q1 r1]; [discriminate|]. destruct (q1 =? SQ); [|discriminate].
  destruct (drop_while is_lang r1) as [|q2 r2]; [discriminate|]. destruct (q2 =? SQ); [|discriminate].
  destruct (take_while is_c2 r2) as [|v0 v']; [discriminate|]. intro H. injection H as <- <-. discriminate.
Qed.

Lemma head_last_ok v : v <> [] -> exists c0 c1, head_e v = Ok c0 /\ last_e v = Ok c1.
Proof.
  intro H. destruct (last_e_forall (fun _ => true) v H) as (c1 & Hc1 & _).
  { clear. induction v; [reflexivity|exact IHv]. }
  destruct v as [|c0 v']; [congruence|]. exists c0, c1. split; [reflexivity|exact Hc1].
Qed.

Lemma poh_finish_total options pk pv (enc cont : option str) : pv <> [] ->
  exists st', poh_finish options (pk, pv, enc, cont) = Ok st'.
Proof.
  intro Hne. unfold poh_finish. destruct (head_last_ok pv Hne) as (c0 & c1 & -> & ->). cbn [bind].
  destruct (continuation_split pk); eauto.
Qed.

Lemma poh_part_total st p : part_ok p -> exists st', poh_part st p = Ok st'.
Proof.
  destruct st as [[options encoding] continued]. destruct p as [pk pv]. intros [Hk Hv]. cbn [fst snd] in *.
  unfold poh_part. destruct (head_last_ok pk Hk) as (_ & kl & _ & Hkl). rewrite Hkl. cbn [bind].
  destruct (kl =? STAR); cbn [bind]; [|apply poh_finish_total; exact Hv].
  destruct (charset_match pv) as [[enc v]|] eqn:Ec.
  - pose proof (charset_match_nonempty _ _ _ Ec) as Hvne.
    destruct (unquote_if_allowed_ok options_charsets (if truthy (Some (py_lower enc)) then Some (py_lower enc) else continued) v options_charsets_ok)
      as (hit & v' & -> & Hv'). cbn [bind]. apply poh_finish_total. apply Hv'. exact Hvne.
  - destruct (unquote_if_allowed_ok options_charsets (if truthy encoding then encoding else continued) pv options_charsets_ok)
      as (hit & v' & -> & Hv'). cbn [bind]. apply poh_finish_total. apply Hv'. exact Hv.
Qed.

Lemma parse_options_header_total value : exists r, parse_options_header value = Ok r.
Proof.
  unfold parse_options_header. destruct (partition1 SEMI value) as [v rest].
  destruct (py_strip v) as [|v0 v']; [eauto|].
  destruct (py_strip (match rest with Some r => r | None => [] end)) as [|r0 r'] eqn:Er; [eauto|].
  destruct (poh_loop_total (S (length (r0 :: r'))) (r0 :: r') ltac:(lia)) as (parts & -> & Hparts). cbn [bind].
  destruct (fold_res_total poh_part (fun _ => True) part_ok) with (l := parts) (a := (@nil (str * str), @None str, @None str)) as (st & -> & _).
  - intros a b _ Hb. destruct (poh_part_total a b Hb) as [a' Ha']. eauto.
  - exact I.
  - exact Hparts.
  - cbn [bind]. destruct st as [[o e] c]. eauto.
Qed.

(* ------------------------------------------------------------------ parse_etags *)
Definition trailing_lf_only (s : str) : Prop := s = [] \/ s = [LF].

Lemma etag_term_spec s rest : etag_term s = Some rest ->
  is_suffix rest s /\ ((length rest < length s)%nat \/ (rest = s /\ trailing_lf_only s)).
Proof.
  unfold etag_term. pose proof (drop_while_suffix uni_ws s) as Hd.
  assert (Hend : match s with [] => Some [] | [x] => if x =? LF then Some s else None | _ :: _ :: _ => None end = Some rest ->
                 is_suffix rest s /\ ((length rest < length s)%nat \/ (rest = s /\ trailing_lf_only s))).
  { destruct s as [|x [|y s']]; try discriminate.
    - intro H. injection H as <-. split; [apply suffix_refl|]. right. split; [reflexivity|left; reflexivity].
    - destruct (x =? LF) eqn:E; [|discriminate]. intro H. injection H as <-. apply N.eqb_eq in E. subst x.
      split; [apply suffix_refl|]. right. split; [reflexivity|right; reflexivity]. }
  destruct (drop_while uni_ws s) as [|c r] eqn:E; [exact Hend|].
  destruct (c =? COMMA); [|exact Hend]. intro H. injection H as <-.
  pose proof (drop_while_suffix uni_ws r) as Hr. pose proof (suffix_length _ _ Hd) as L1. pose proof (suffix_length _ _ Hr) as L2.
  split; [eapply suffix_trans; [exact Hr|]; eapply suffix_trans; [|exact Hd]; exists [c]; reflexivity|].
  left. cbn [length] in L1. lia.
Qed.

Lemma etag_raw_spec s t rest : etag_raw s = Some (t, rest) ->
  is_suffix rest s /\ ((length rest < length s)%nat \/ (rest = s /\ trailing_lf_only s)).
Proof.
  revert t rest. induction s as [|c r IH]; intros t rest H.
  - cbn [etag_raw] in H. destruct (etag_term []) as [x|] eqn:E; [|discriminate]. injection H as <- <-. apply (etag_term_spec _ _ E).
  - cbn [etag_raw] in H. destruct (etag_term (c :: r)) as [x|] eqn:E.
    + injection H as <- <-. apply (etag_term_spec _ _ E).
    + destruct (c =? LF); [discriminate|]. destruct (etag_raw r) as [[a b]|] eqn:Er; [|discriminate]. injection H as <- <-.
      destruct (IH _ _ eq_refl) as [Hs Hl]. split; [apply suffix_cons; exact Hs|]. left. pose proof (suffix_length _ _ Hs). cbn [length]. lia.
Qed.

Lemma etag_quoted_spec s q rest : etag_quoted s = Some (q, rest) -> is_suffix rest s /\ (length rest < length s)%nat.
Proof.
  revert q rest. induction s as [|c r IH]; intros q rest H; [discriminate|]. cbn [etag_quoted] in H.
  assert (Hc : (if c =? LF then None else match etag_quoted r with Some (a, b) => Some (c :: a, b) | None => None end) = Some (q, rest) ->
               is_suffix rest (c :: r) /\ (length rest < length (c :: r))%nat).
  { destruct (c =? LF); [discriminate|]. destruct (etag_quoted r) as [[a b]|] eqn:E; [|discriminate]. intro H'. injection H' as <- <-.
    destruct (IH _ _ eq_refl) as [Hs Hl]. split; [apply suffix_cons; exact Hs|cbn [length]; lia]. }
  destruct (c =? DQ); [|exact (Hc H)]. destruct (etag_term r) as [x|] eqn:E; [|exact (Hc H)].
  injection H as <- <-. destruct (etag_term_spec _ _ E) as [Hs _]. split; [apply suffix_cons; exact Hs|].
  pose proof (suffix_length _ _ Hs). cbn [length]. lia.
Qed.

(* a match always carries a tag and, away from a lone trailing line feed, consumes something *)
Definition etag_core (w : bool) (s1 : str) : option (bool * option str * option str * str) :=
  let raw := match etag_raw s1 with
             | Some (t, rest) => Some (w, None, Some t, rest)
             | None => None
             end in
  match s1 with
  | c :: r =>
    if c =? DQ then
      match etag_quoted r with
      | Some (q, rest) => Some (w, Some q, None, rest)
      | None => raw
      end
    else raw
  | [] => raw
  end.

Lemma etag_core_spec w0 s1 w quoted raw rest : etag_core w0 s1 = Some (w, quoted, raw, rest) ->
  is_suffix rest s1 /\ (quoted <> None \/ raw <> None) /\ ((length rest < length s1)%nat \/ (rest = s1 /\ trailing_lf_only s1)).
Proof.
  unfold etag_core. cbv zeta.
  assert (Hraw : match etag_raw s1 with Some (t, rest0) => Some (w0, @None str, Some t, rest0) | None => None end = Some (w, quoted, raw, rest) ->
                 is_suffix rest s1 /\ (quoted <> None \/ raw <> None) /\ ((length rest < length s1)%nat \/ (rest = s1 /\ trailing_lf_only s1))).
  { destruct (etag_raw s1) as [[t rest0]|] eqn:E; [|discriminate]. intro H. injection H as <- <- <- <-.
    destruct (etag_raw_spec _ _ _ E) as [Hs Hl]. split; [exact Hs|]. split; [right; discriminate|exact Hl]. }
  destruct s1 as [|c r]; [exact Hraw|]. destruct (c =? DQ); [|exact Hraw].
  destruct (etag_quoted r) as [[q rest0]|] eqn:E; [|exact Hraw]. intro H. injection H as <- <- <- <-.
  destruct (etag_quoted_spec _ _ _ E) as [Hs Hl]. split; [apply suffix_cons; exact Hs|]. split; [left; discriminate|].
  left. cbn [length]. lia.
Qed.

Lemma etag_match_spec s w quoted raw rest : s <> [] -> etag_match s = Some (w, quoted, raw, rest) ->
  is_suffix rest s /\ (quoted <> None \/ raw <> None) /\ ((length rest < length s)%nat \/ last_is LF s = true).
Proof.
  intros Hne H.
  assert (Hplain : etag_core false s = Some (w, quoted, raw, rest) ->
            is_suffix rest s /\ (quoted <> None \/ raw <> None) /\ ((length rest < length s)%nat \/ last_is LF s = true)).
  { intro Hc. destruct (etag_core_spec _ _ _ _ _ _ Hc) as (Hs & Ht & Hl). split; [exact Hs|]. split; [exact Ht|].
    destruct Hl as [Hl|[-> [->| ->]]]; [left; exact Hl|congruence|right; reflexivity]. }
  destruct s as [|c [|d r']]; [congruence|exact (Hplain H)|].
  change (etag_match (c :: d :: r')) with
    (let '(w1, s1) := if ((c =? 87) || (c =? 119)) && (d =? SLASH) then (true, r') else (false, c :: d :: r') in etag_core w1 s1) in H.
  destruct (((c =? 87) || (c =? 119)) && (d =? SLASH)); [|exact (Hplain H)].
  destruct (etag_core_spec _ _ _ _ _ _ H) as (Hs & Ht & Hl). split; [apply suffix_cons, suffix_cons; exact Hs|]. split; [exact Ht|].
  left. pose proof (suffix_length _ _ Hs). cbn [length]. lia.
Qed.

Lemma last_is_mem x s : last_is x s = true -> mem x s = true.
Proof.
  unfold last_is. induction s as [|c s IH]; [discriminate|]. destruct s as [|d s'].
  - cbn [last_e]. intro H. rewrite mem_cons. apply N.eqb_eq in H. subst. rewrite N.eqb_refl. reflexivity.
  - rewrite last_e_cons by discriminate. intro H. rewrite mem_cons. rewrite (IH H). apply orb_true_r.
Qed.

Lemma etags_loop_total fuel : forall s st wk, (length s < fuel)%nat -> mem LF s = false ->
  exists e, etags_loop fuel s st wk = Ok e.
Proof.
  induction fuel as [|f IH]; intros s st wk Hf Hlf; [lia|]. destruct s as [|c r] eqn:Es; [cbn [etags_loop]; eauto|].
  rewrite <- Es in *. rewrite etags_loop_step by (rewrite Es; discriminate).
  destruct (etag_match s) as [[[[w quoted] raw] rest]|] eqn:Em; [|eauto].
  destruct (etag_match_spec s w quoted raw rest ltac:(rewrite Es; discriminate) Em) as (Hs & Htag & Hprog).
  destruct (match raw with Some r0 => list_eqb r0 [STAR] | None => false end); [eauto|].
  assert (Hlen : (length rest < f)%nat).
  { destruct Hprog as [Hl|Hl]; [lia|]. apply last_is_mem in Hl. congruence. }
  pose proof (suffix_mem LF _ _ Hs Hlf) as Hlf'.
  destruct quoted as [q|]; [|destruct raw as [t|]; [|destruct Htag; congruence]]; destruct w; apply IH; assumption.
Qed.

Lemma parse_etags_total s : mem LF s = false -> exists e, parse_etags s = Ok e.
Proof. intro H. unfold parse_etags. apply etags_loop_total; [lia|exact H]. Qed.

(* outside the property's domain: a lone trailing line feed is matched without being consumed, so the
   loop of parse_etags makes no progress (the implementation never returns) *)
Lemma etag_match_no_progress : etag_match [LF] = Some (false, None, Some [], [LF]).
Proof. vm_compute. reflexivity. Qed.

(* ------------------------------------------------------------------ parse_range_header *)
Definition range_valid (p : Z * option Z) : bool :=
  match snd p with Some e => negb ((fst p <? 0)%Z || (e <=? fst p)%Z) | None => true end.

Ltac none_ok := cbn [is_value_error]; exists None; split; [reflexivity|exact I].

Lemma prh_item_total ranges le item : forallb range_valid ranges = true ->
  exists o, prh_item (ranges, le) item = Ok o /\
            match o with Some (ranges', _) => forallb range_valid ranges' = true | None => True end.
Proof.
  intro Hv. unfold prh_item, prh_guard_suffix_after_open, prh_guard_suffix_zero, prh_guard_order, prh_guard_empty. set (it := py_strip item). destruct (mem DASH it) eqn:Ed; cbn [negb]; [|none_ok].
  destruct (match it with c :: _ => c =? DASH | [] => false end).
  - destruct (le <? 0)%Z; [none_ok|]. destruct (plain_int it) as [b|e] eqn:Ep.
    + destruct (b =? 0)%Z; [none_ok|]. eexists. split; [reflexivity|]. cbv beta iota. rewrite forallb_app, Hv. reflexivity.
    + rewrite (plain_int_err _ _ Ep). none_ok.
  - destruct (partition1_mem _ _ Ed) as (a & b & ->).
    destruct (plain_int (py_strip a)) as [bg|e] eqn:Ep; [|rewrite (plain_int_err _ _ Ep); none_ok].
    destruct ((bg <? le)%Z || (le <? 0)%Z) eqn:Ec; [none_ok|].
    destruct (py_strip b) as [|e0 e'] eqn:Eb.
    + eexists. split; [reflexivity|]. cbv beta iota. rewrite forallb_app, Hv. reflexivity.
    + destruct (plain_int (e0 :: e')) as [e1|e] eqn:Ep2; [|rewrite (plain_int_err _ _ Ep2); none_ok].
      destruct (e1 + 1 <=? bg)%Z eqn:Ee; [none_ok|]. eexists. split; [reflexivity|]. cbv beta iota.
      rewrite forallb_app, Hv. cbn [forallb range_valid fst snd]. replace ((bg <? 0)%Z || (e1 + 1 <=? bg)%Z) with false by lia. reflexivity.
Qed.

Lemma prh_loop_total items : forall ranges le, forallb range_valid ranges = true ->
  exists o, prh_loop (ranges, le) items = Ok o /\ match o with Some rs => forallb range_valid rs = true | None => True end.
Proof.
  induction items as [|it items IH]; intros ranges le Hv; [cbn [prh_loop fst]; eauto|].
  cbn [prh_loop]. destruct (prh_item_total ranges le it Hv) as (o & -> & Ho). cbn [bind].
  destruct o as [[ranges' le']|]; [apply IH; exact Ho|eauto].
Qed.

Lemma parse_range_header_total s : exists o, parse_range_header s = Ok o.
Proof.
  unfold parse_range_header. destruct (partition1 EQ s) as [units [rng|]]; [|eauto].
  destruct (prh_loop_total (split_on COMMA rng) [] 0%Z eq_refl) as (o & -> & Ho). cbn [bind].
  destruct o as [rs|]; [|eauto]. unfold range_new. unfold range_valid in Ho. rewrite Ho. cbn [bind]. eauto.
Qed.

(* ------------------------------------------------------------------ parse_content_range_header *)
Lemma ibrv_ok s t l : exists b, ibrv s t l = Ok b /\ is_byte_range_valid s t l = Some b.
Proof. unfold ibrv. destruct (ibrv_total s t l) as [b Hb]. rewrite Hb. eauto. Qed.

Lemma parse_content_range_header_total s : exists o, parse_content_range_header s = Ok o.
Proof.
  unfold parse_content_range_header. destruct (split_ws1 (py_strip s)) as [[units rangedef]|]; [|eauto].
  destruct (partition1 SLASH rangedef) as [rng [length_str|]]; [|eauto].
  assert (Hlen : exists ol, (if list_eqb length_str [STAR] then Ok (Some None)
                             else do o <- catch_value_error (plain_int length_str);
                                  Ok (match o with Some l => Some (Some l) | None => None end)) = Ok ol).
  { destruct (list_eqb length_str [STAR]); [eauto|]. destruct (catch_plain_int_ok length_str) as [o ->]. cbn [bind]. eauto. }
  destruct Hlen as [ol ->]. cbn [bind]. destruct ol as [len|]; [|eauto].
  destruct (list_eqb rng [STAR]).
  - destruct (ibrv_ok None None len) as (b & -> & Hb). cbn [bind]. destruct b; [|eauto].
    unfold content_range_new. rewrite Hb. cbn [bind]. eauto.
  - destruct (partition1 DASH rng) as [start_str [stop_str|]]; [|eauto].
    assert (Hpair : exists o, catch_value_error (do a <- plain_int start_str; do b <- plain_int stop_str; Ok (a, (b + 1)%Z)) = Ok o).
    { unfold catch_value_error. destruct (plain_int start_str) as [a|e] eqn:E1; cbn [bind]; [|rewrite (plain_int_err _ _ E1); cbn [is_value_error]; eauto].
      destruct (plain_int stop_str) as [b|e] eqn:E2; cbn [bind]; [eauto|rewrite (plain_int_err _ _ E2); cbn [is_value_error]; eauto]. }
    destruct Hpair as [o ->]. cbn [bind]. destruct o as [[start stop]|]; [|eauto].
    destruct (ibrv_ok (Some start) (Some stop) len) as (b & -> & Hb). cbn [bind]. destruct b; [|eauto].
    unfold content_range_new. rewrite Hb. cbn [bind]. eauto.
Qed.

(* ------------------------------------------------------------------ parse_age *)
Lemma parse_age_total s : exists o, parse_age s = Ok o.
Proof.
  unfold parse_age. destruct s as [|c r]; [eauto|]. destruct (py_int (c :: r)) as [z|e] eqn:E.
  - destruct (z <? 0)%Z; [eauto|]. destruct (MAX_TIMEDELTA_SECONDS <? z)%Z; eauto.
  - rewrite (py_int_err _ _ E). cbn [is_value_error]. eauto.
Qed.
