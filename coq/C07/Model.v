(* C07: the request-side parsers in the exception monad of C06/LibPy.v.  The header parsers are the
   C06 models (already written with every partial primitive explicit); this file adds cookies (on top of
   the C13 model), Authorization / WWW-Authenticate, base64, get_host, the port of the reconstructed URL,
   get_content_length and the query-string / cookie decoding steps.  Definitions only.
   The except clauses and decode modes come from C07/Gen.v (regenerated from the source). *)
From Wz Require C13.Model.
From Wz Require Import lib.Bytes lib.Utf8 C06.LibPy C06.Gen C06.Model C07.Gen.
Open Scope N_scope.

(* ================================================================== cookies *)

(* sansio.http.parse_cookie(cookie: str): C13's model; str.encode() inside it is partial on lone
   surrogates, a line feed inside an unquoted value is outside the modelled regex domain *)
Definition cookie_sansio (cookie : str) : res (list (str * str)) :=
  if valid_text cookie then
    match C13.Model.parse_cookie_sansio cookie with
    | C13.Model.POk l => Ok l
    | C13.Model.PUnsupported => Err Unmodelled
    | C13.Model.POutOfFuel => Err OutOfFuel
    end
  else Err UnicodeError.

(* http.parse_cookie(header: str): cookie.encode(latin1).decode([errors]) first *)
Definition cookie_http (header : str) : res (list (str * str)) :=
  match header with
  | [] => cookie_sansio []
  | _ =>
    match latin1_encode header with
    | None => Err UnicodeError
    | Some b =>
      if cookie_decode_replace then cookie_sansio (utf8_decode_replace b)
      else match utf8_decode b with
           | Some s => cookie_sansio s
           | None => Err UnicodeError
           end
    end
  end.

(* ================================================================== base64.b64decode(s: str) *)

Definition b64_val (c : N) : option N :=
  if is_upper c then Some (c - 65)
  else if is_lower c then Some (c - 71)
  else if is_digit c then Some (c + 4)
  else if c =? 43 then Some 62
  else if c =? 47 then Some 63
  else None.

(* binascii.a2b_base64, non-strict: quad = position in the current quad, left = pending bits,
   pads = padding characters seen since the last data character *)
Fixpoint a2b_base64 (s : bytes) (quad left pads : N) : res bytes :=
  match s with
  | [] => if quad =? 0 then Ok [] else Err BinasciiError
  | c :: r =>
    if c =? 61 then
      if (2 <=? quad) && (4 <=? quad + (pads + 1)) then Ok []
      else a2b_base64 r quad left (if 2 <=? quad then pads + 1 else pads)
    else
      match b64_val c with
      | None => a2b_base64 r quad left pads
      | Some v =>
        if quad =? 0 then a2b_base64 r 1 v 0
        else if quad =? 1 then (do t <- a2b_base64 r 2 (v mod 16) 0; Ok ((left * 4 + v / 16) :: t))
        else if quad =? 2 then (do t <- a2b_base64 r 3 (v mod 4) 0; Ok ((left * 16 + v / 4) :: t))
        else (do t <- a2b_base64 r 0 0 0; Ok ((left * 64 + v) :: t))
      end
  end.

(* base64.b64decode(s) for s : str -- s.encode(ascii) failing is re-raised as ValueError *)
Definition b64decode (s : str) : res bytes :=
  if forallb (fun c => c <? 128) s then a2b_base64 s 0 0 0 else Err ValueError.

(* bytes.decode() : UTF-8, strict *)
Definition decode_utf8 (b : bytes) : res str :=
  match utf8_decode b with Some s => Ok s | None => Err UnicodeError end.

(* ================================================================== Authorization / WWW-Authenticate *)

Record auth := { a_type : str; a_params : odict; a_token : option str }.

Definition s_basic : str := [98; 97; 115; 105; 99].
Definition s_username : str := [117; 115; 101; 114; 110; 97; 109; 101].
Definition s_password : str := [112; 97; 115; 115; 119; 111; 114; 100].

(* the part shared by both from_header methods, after the Basic branch *)
Definition auth_params_or_token (scheme rest : str) : res (option auth) :=
  if mem EQ (rstrip (fun c => c =? EQ) rest)
  then (do d <- parse_dict_header rest; Ok (Some {| a_type := scheme; a_params := d; a_token := None |}))
  else Ok (Some {| a_type := scheme; a_params := []; a_token := Some rest |}).

Definition scheme_rest (value : str) : str * str :=
  let '(scheme, rest) := partition1 SP value in
  (py_lower scheme, py_strip (match rest with Some r => r | None => [] end)).

(* datastructures.auth.Authorization.from_header(value) for value : str *)
Definition authorization_from_header (value : str) : res (option auth) :=
  match value with
  | [] => Ok None
  | _ =>
    let '(scheme, rest) := scheme_rest value in
    if list_eqb scheme s_basic then
      try_except
        (do b <- b64decode rest;
         do t <- decode_utf8 b;
         let '(username, password) := partition1 COLON t in
         Ok (Some {| a_type := scheme;
                     a_params := [(s_username, Some username);
                                  (s_password, Some (match password with Some p => p | None => [] end))];
                     a_token := None |}))
        auth_basic_catches (Ok None)
    else auth_params_or_token scheme rest
  end.

(* WWWAuthenticate.from_header *)
Definition www_authenticate_from_header (value : str) : res (option auth) :=
  match value with
  | [] => Ok None
  | _ => let '(scheme, rest) := scheme_rest value in auth_params_or_token scheme rest
  end.

(* ================================================================== host *)

Fixpoint ends_with (suffix s : str) : bool :=
  list_eqb suffix s || match s with [] => false | _ :: r => ends_with suffix r end.

Definition drop_last (n : nat) (s : str) : str := firstn (length s - n) s.

Fixpoint strip_default_port (rules : list (list str * str)) (scheme host : str) : str :=
  match rules with
  | [] => host
  | (schemes, suffix) :: r =>
    if str_mem scheme schemes && ends_with suffix host then drop_last (length suffix) host
    else strip_default_port r scheme host
  end.

(* sansio.utils.get_host(scheme, host_header, server, trusted_hosts=None);
   server = (name, port text) as _get_server returns it *)
Definition get_host (scheme : str) (host_header : option str) (server : option (str * option str)) : str :=
  let host :=
    match host_header with
    | Some h => h
    | None =>
      match server with
      | None => []
      | Some (name, port) =>
        let name := if mem COLON name && negb (match name with c :: _ => c =? 91 | [] => false end)
                    then 91 :: name ++ [93] else name in
        match port with Some p => name ++ COLON :: p | None => name end
      end
    end in
  strip_default_port default_port_rules scheme host.

(* str.rpartition(c)[2] *)
Fixpoint after_last (c : N) (s : str) : str :=
  match s with
  | [] => []
  | x :: r => if mem c r then after_last c r else if x =? c then r else s
  end.

(* urllib.parse: the netloc of  scheme://host/...  and SplitResult.port, as uri_to_iri reads it.
   Unmodelled: bracketed literals (ipaddress validation) and non-Latin-1 text (NFKC check). *)
Definition url_netloc (host : str) : str :=
  take_while (fun c => negb ((c =? SLASH) || (c =? 63) || (c =? 35))) host.

Definition url_port (host : str) : res (option N) :=
  let netloc := url_netloc host in
  let has_open := mem 91 netloc in
  let has_close := mem 93 netloc in
  if negb (forallb (fun c => (31 <? c) && (c <? 256) && negb (c =? 127)) host) then Err Unmodelled
  else if (has_open && negb has_close) || (has_close && negb has_open) then Err ValueError
  else if has_open then Err Unmodelled
  else
    let hostinfo := after_last 64 netloc in
    match partition1 COLON hostinfo with
    | (_, None) => Ok None
    | (_, Some []) => Ok None
    | (_, Some port) =>
      if forallb is_digit port then
        (do n <- N_of_digits port; if 65535 <? n then Err ValueError else Ok (Some n))
      else Err ValueError
    end.

(* ================================================================== Content-Length *)

Definition s_chunked : str := [99; 104; 117; 110; 107; 101; 100].

(* sansio.utils.get_content_length *)
Definition get_content_length (content_length transfer_encoding : option str) : res (option Z) :=
  if match transfer_encoding with Some t => list_eqb t s_chunked | None => false end then Ok None
  else match content_length with
       | None => Ok None
       | Some v =>
         try_except (do n <- plain_int v; Ok (Some (Z.max 0 n))) is_value_error (Ok (Some 0%Z))
       end.

(* ================================================================== query string *)

(* Request.__init__: QUERY_STRING.encode(latin1); Request.args / full_path: .decode([errors]) *)
Definition query_text (replace : bool) (query_string : str) : res str :=
  match latin1_encode query_string with
  | None => Err UnicodeError
  | Some b => if replace then Ok (utf8_decode_replace b) else decode_utf8 b
  end.

(* ================================================================== uniform result-typed entry points *)
Definition parse_list_header_e (s : str) : res (list str) := Ok (parse_list_header s).
Definition parse_set_header_e (s : str) : res (list str) := Ok (parse_set_header s).

(* well-typed outcome: a value, or one of werkzeug's HTTP exceptions *)
Definition well_typed {A : Type} (r : res A) : Prop :=
  match r with Ok _ => True | Err e => is_http_error e = true end.

(* ================================================================== Accept headers (the loop of http.parse_accept_header) *)

(* _q_value_re.fullmatch(q_str): (negative, integer digits, fraction digits) *)
Definition q_parse (s : str) : option (bool * str * str) :=
  let '(neg, body) := match s with c :: r => if c =? DASH then (true, r) else (false, s) | [] => (false, s) end in
  let ip := take_while is_digit body in
  match ip with
  | [] => None
  | _ =>
    match drop_while is_digit body with
    | [] => Some (neg, ip, [])
    | c :: r =>
      if c =? 46 then
        match r with
        | [] => None
        | _ => if forallb is_digit r then Some (neg, ip, r) else None
        end
      else None
    end
  end.

Definition digits_value (ds : str) : Z :=
  match uint_of_digits ds with Some u => Z.of_N (N.of_uint u) | None => 0%Z end.

(* float(q_str) < 0 or float(q_str) > 1, decided exactly: the double nearest to a decimal v exceeds 1 iff
   v > 1 + 2^-53 and is a non-zero negative iff |v| > 2^-1075 (ties go to the even neighbours 1.0 and 0.0) *)
Definition q_out_of_range (q : bool * str * str) : bool :=
  let '(neg, ip, fp) := q in
  let v := digits_value (ip ++ fp) in
  let scale := (10 ^ Z.of_nat (length fp))%Z in
  if neg then (scale <? v * 2 ^ 1075)%Z
  else (scale <? (v - scale) * 2 ^ 53)%Z.

Definition s_q : str := [113].

(* one item of the list: None = skipped; Some (item text, q text or None for the default 1) *)
Definition accept_item (item : str) : res (option (str * option str)) :=
  do '(value, options) <- parse_options_header item;
  match dict_get s_q options with
  | Some qv =>
    let q_str := py_strip qv in
    let options := dict_del s_q options in
    match q_parse q_str with
    | None => Ok None
    | Some q =>
      if q_out_of_range q then Ok None
      else
        match options with
        | [] => Ok (Some (value, Some q_str))
        | _ => do t <- dump_options_header value options; Ok (Some (t, Some q_str))
        end
    end
  | None =>
    match options with
    | [] => Ok (Some (value, None))
    | _ => do t <- dump_options_header value options; Ok (Some (t, None))
    end
  end.

Fixpoint accept_items (items : list str) : res (list (str * option str)) :=
  match items with
  | [] => Ok []
  | it :: r =>
    do o <- accept_item it;
    do l <- accept_items r;
    Ok (match o with Some x => x :: l | None => l end)
  end.

(* http.parse_accept_header(value) before cls(result) sorts it *)
Definition parse_accept_items (value : str) : res (list (str * option str)) :=
  match value with [] => Ok [] | _ => accept_items (parse_list_header value) end.

(* ================================================================== Request.args: the field-count and strictness checks of parse_qsl *)

Fixpoint count_char (c : N) (s : str) : N :=
  match s with [] => 0 | x :: r => (if x =? c then 1 else 0) + count_char c r end.

(* a field without '=' raises in strict mode *)
Definition has_bare_field (q : str) : bool :=
  existsb (fun f => match f with [] => false | _ => negb (mem EQ f) end) (split_on 38 q).

(* urllib.parse.parse_qsl(qs, max_num_fields=m, strict_parsing=s): the two ValueErrors it raises by itself *)
Definition parse_qsl_checks (max_num_fields : option N) (strict : bool) (qs : str) : res unit :=
  do _ <- match max_num_fields with
          | Some m => match qs with
                      | [] => Ok tt
                      | _ => if m <? 1 + count_char 38 qs then Err ValueError else Ok tt
                      end
          | None => Ok tt
          end;
  if strict && has_bare_field qs then Err ValueError else Ok tt.

Definition request_args_checks (qs : str) : res unit := parse_qsl_checks args_max_num_fields args_strict_parsing qs.

(* position-weighted sum of a text: a compact pin for a long regex text (the full text is pinned in C13) *)
Fixpoint weighted_sum (s : str) (i : N) : N := match s with [] => 0 | c :: r => c * i + weighted_sum r (i + 1) end.

(* ================================================================== Cache-Control, CSP, dates *)

(* http.parse_cache_control_header(value) : the directive dict handed to the class *)
Definition parse_cache_control (value : option str) : res odict :=
  match value with
  | None => Ok []
  | Some [] => Ok []
  | Some v => parse_dict_header v
  end.

(* _CacheControl._get_cache_value with the conversion's ValueError handled as the source does *)
Definition cc_get_e (d : odict) (key : str) (empty : cc_value) (ty : cc_type) : res cc_value :=
  match ty with
  | CcBool => Ok (CvBool (dict_has key d))
  | _ =>
    match dict_get key d with
    | None => Ok CvNone
    | Some None => Ok empty
    | Some (Some v) =>
      match ty with
      | CcInt => try_except (do z <- py_int v; Ok (CvInt z)) is_value_error (Ok CvNone)
      | _ => Ok (CvStr v)
      end
    end
  end.

(* http.parse_csp_header(value) *)
Definition parse_csp_e (value : option str) : res sdict :=
  match value with None => Ok [] | Some v => Ok (parse_csp v) end.

(* http.parse_date over any model of email.utils.parsedate_to_datetime: the except clause is the regenerated one *)
Definition parse_date_over {D : Type} (parsedate : str -> res D) (value : option str) : res (option D) :=
  match value with
  | None => Ok None
  | Some v => try_except (do d <- parsedate v; Ok (Some d)) parse_date_catches (Ok None)
  end.

(* ================================================================== Request attributes that compose the modelled parsers *)

(* the client-controlled part of a WSGI environ: Latin-1 text, None = variable absent *)
Record environ := {
  e_query : str; e_cookie : option str; e_authorization : option str; e_range : option str;
  e_if_match : option str; e_if_none_match : option str; e_content_length : option str;
  e_transfer_encoding : option str; e_content_type : option str; e_cache_control : option str }.

Definition wire_text (s : str) : bool := forallb (fun c => (c <? 256) && negb (c =? LF)) s.
Definition wire_opt (o : option str) : bool := match o with Some s => wire_text s | None => true end.
Definition environ_ok (e : environ) : bool :=
  wire_text (e_query e) && wire_opt (e_cookie e) && wire_opt (e_authorization e) && wire_opt (e_range e)
  && wire_opt (e_if_match e) && wire_opt (e_if_none_match e) && wire_opt (e_content_length e)
  && wire_opt (e_transfer_encoding e) && wire_opt (e_content_type e) && wire_opt (e_cache_control e).

Definition or_empty (o : option str) : str := match o with Some s => s | None => [] end.

(* Request.args: the text handed to parse_qsl's field splitter (the splitting and unquoting are total) *)
Definition request_args (e : environ) : res str :=
  do t <- query_text args_decode_replace (e_query e); do _ <- request_args_checks t; Ok t.
(* Request.cookies: sansio parse_cookie on the raw header text *)
Definition request_cookies (e : environ) : res (list (str * str)) := cookie_sansio (or_empty (e_cookie e)).
Definition request_authorization (e : environ) : res (option auth) :=
  match e_authorization e with None => Ok None | Some h => authorization_from_header h end.
Definition request_range (e : environ) : res (option range) :=
  match e_range e with None => Ok None | Some h => parse_range_header h end.
Definition request_if_match (e : environ) : res etags := parse_etags (or_empty (e_if_match e)).
Definition request_if_none_match (e : environ) : res etags := parse_etags (or_empty (e_if_none_match e)).
Definition request_content_length (e : environ) : res (option Z) := get_content_length (e_content_length e) (e_transfer_encoding e).
Definition request_mimetype_params (e : environ) : res sdict :=
  do '(_, o) <- parse_options_header (or_empty (e_content_type e)); Ok o.
Definition request_cache_control (e : environ) : res odict := parse_cache_control (e_cache_control e).

(* ================================================================== more Request attributes *)
Record environ_more := {
  m_path : str; m_query : str; m_forwarded_for : option str; m_remote_addr : option str;
  m_accept : option str; m_accept_charset : option str; m_accept_encoding : option str; m_accept_language : option str;
  m_if_range : option str; m_date : option str; m_if_modified_since : option str; m_if_unmodified_since : option str }.

(* Request.full_path *)
Definition request_full_path (e : environ_more) : res str :=
  do q <- query_text full_path_decode_replace (m_query e); Ok (m_path e ++ 63 :: q).

(* Request.access_route *)
Definition request_access_route (e : environ_more) : res (list str) :=
  match m_forwarded_for e with
  | Some h => Ok (parse_list_header h)
  | None => match m_remote_addr e with Some a => Ok [a] | None => Ok [] end
  end.

(* Request.accept_mimetypes / accept_charsets / accept_encodings / accept_languages: the shared parse loop
   (the class-specific sorting and matching are C17's model) *)
Definition request_accept (h : option str) : res (list (str * option str)) :=
  match h with None => Ok [] | Some v => parse_accept_items v end.

(* Request.if_range over a model of email.utils.parsedate_to_datetime *)
Definition request_if_range {D : Type} (parsedate : str -> res D) (e : environ_more) : res (if_range D) :=
  match m_if_range e with
  | None => Ok IrNone
  | Some [] => Ok IrNone
  | Some v =>
    do o <- parse_date_over parsedate (Some v);
    match o with
    | Some d => Ok (IrDate d)
    | None => Ok (match unquote_etag v with Some (t, _) => IrEtag t | None => IrNone end)
    end
  end.

(* Request.date / if_modified_since / if_unmodified_since *)
Definition request_date_header {D : Type} (parsedate : str -> res D) (h : option str) : res (option D) := parse_date_over parsedate h.

(* the host part of Request.url / base_url / root_url / host_url: get_host, then the netloc and port checks of urlsplit
   inside uri_to_iri (IDNA decoding, bracketed literals and the NFKC check are outside the model) *)
Record url_environ := { u_scheme : str; u_host : option str; u_server : option (str * option str) }.
Definition request_url_port (e : url_environ) : res (option N) := url_port (get_host (u_scheme e) (u_host e) (u_server e)).
