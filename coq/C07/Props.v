(* C07 property theorems: totality of the request-side parsers in the exception monad.
   Ok v = the parser returns a value of its documented type; Err e = exception e escapes.
   Every theorem says: no unrelated exception and no OutOfFuel (termination), for every input text.
   Definitions: C06/Model.v, C07/Model.v, C13/Model.v; except clauses and decode modes: C07/Gen.v (regenerated). *)
From Coq Require Import ZArith.
From Wz Require C13.Gen.
From Wz Require Import lib.Bytes lib.Utf8 C06.LibPy C06.Gen C06.Model C07.Gen C07.Model C07.Proofs C07.Proofs2.
Open Scope N_scope.

Theorem C07_total_parse_list_header : forall s, exists v, parse_list_header_e s = Ok v.
Proof. exact (fun s => ex_intro _ _ eq_refl). Qed.
Print Assumptions C07_total_parse_list_header.

Theorem C07_total_parse_set_header : forall s, exists v, parse_set_header_e s = Ok v.
Proof. exact (fun s => ex_intro _ _ eq_refl). Qed.
Print Assumptions C07_total_parse_set_header.

(* key[-1] is guarded, the RFC 2231 charset list only names codecs that exist *)
Theorem C07_total_parse_dict_header : forall s, exists d, parse_dict_header s = Ok d.
Proof. exact parse_dict_header_total. Qed.
Print Assumptions C07_total_parse_dict_header.

(* the `while True` loop consumes a ';' per round; pk[-1], pv[0], pv[-1] never see an empty string *)
Theorem C07_total_parse_options_header : forall s, exists r, parse_options_header s = Ok r.
Proof. exact parse_options_header_total. Qed.
Print Assumptions C07_total_parse_options_header.

(* the `while pos < end` loop advances on every match unless the text ends in a line feed;
   header text never contains one (the property's domain excludes control characters) *)
Theorem C07_total_parse_etags : forall s, mem LF s = false -> exists e, parse_etags s = Ok e.
Proof. exact parse_etags_total. Qed.
Print Assumptions C07_total_parse_etags.
Example C07_total_parse_etags_inhabited : mem LF [87; 47; 34; 97; 34; 44; 32; 42; 160; 34] = false.
Proof. reflexivity. Qed.
Print Assumptions C07_total_parse_etags_inhabited.
(* outside the domain: on a lone trailing line feed the pattern matches the empty tag and consumes nothing,
   so the loop of parse_etags never advances (observed on the implementation as non-termination) *)
Theorem C07_parse_etags_no_progress_on_trailing_lf : etag_match [LF] = Some (false, None, Some [], [LF]).
Proof. exact etag_match_no_progress. Qed.
Print Assumptions C07_parse_etags_no_progress_on_trailing_lf.

(* every ValueError of _plain_int is caught, unpacking never fails, Range() never rejects what the parser built *)
Theorem C07_total_parse_range_header : forall s, exists o, parse_range_header s = Ok o.
Proof. exact parse_range_header_total. Qed.
Print Assumptions C07_total_parse_range_header.

(* the assert in ContentRange.set never fires: the parser checks with the same is_byte_range_valid first *)
Theorem C07_total_parse_content_range_header : forall s, exists o, parse_content_range_header s = Ok o.
Proof. exact parse_content_range_header_total. Qed.
Print Assumptions C07_total_parse_content_range_header.

Theorem C07_total_parse_age : forall s, exists o, parse_age s = Ok o.
Proof. exact parse_age_total. Qed.
Print Assumptions C07_total_parse_age.

(* sansio.http.parse_cookie: the findall scan consumes a ';' per pair; text = scalar values, no line feed *)
Theorem C07_total_cookie_sansio : forall s, valid_text s = true -> mem LF s = false ->
  exists l, cookie_sansio s = Ok l.
Proof. exact cookie_sansio_total. Qed.
Print Assumptions C07_total_cookie_sansio.

(* http.parse_cookie on any Latin-1 header text (what WSGI delivers): the UTF-8 step cannot raise *)
Theorem C07_total_cookie_http : forall h, forallb (fun c => c <? 256) h = true -> mem LF h = false ->
  exists l, cookie_http h = Ok l.
Proof. exact cookie_http_total. Qed.
Print Assumptions C07_total_cookie_http.
Example C07_total_cookie_inhabited :
  forallb (fun c => c <? 256) [97; 61; 255; 59; 32; 98; 61; 34; 92; 51; 55; 55; 34] = true
  /\ mem LF [97; 61; 255; 59; 32; 98; 61; 34; 92; 51; 55; 55; 34] = false
  /\ exists l, cookie_http [97; 61; 255; 59; 32; 98; 61; 34; 92; 51; 55; 55; 34] = Ok l.
Proof. repeat split; try reflexivity. eexists. vm_compute. reflexivity. Qed.
Print Assumptions C07_total_cookie_inhabited.

(* Authorization.from_header: non-ASCII text, bad base64 and bad UTF-8 all end in `return None` *)
Theorem C07_total_authorization : forall s, exists a, authorization_from_header s = Ok a.
Proof. exact authorization_total. Qed.
Print Assumptions C07_total_authorization.

Theorem C07_total_www_authenticate : forall s, exists a, www_authenticate_from_header s = Ok a.
Proof. exact www_authenticate_total. Qed.
Print Assumptions C07_total_www_authenticate.

(* the loop of parse_accept_header (all Accept classes share it): parse_options_header and dump_options_header on
   every list item, options.pop("q") only when present, float() only on text matching the q regex *)
Theorem C07_total_parse_accept_items : forall s, exists l, parse_accept_items s = Ok l.
Proof. exact parse_accept_items_total. Qed.
Print Assumptions C07_total_parse_accept_items.

Theorem C07_total_get_content_length : forall cl te, exists o, get_content_length cl te = Ok o.
Proof. exact get_content_length_total. Qed.
Print Assumptions C07_total_get_content_length.

(* Request.args / Request.full_path: decoding the raw query bytes cannot raise *)
Theorem C07_total_query_text : forall q, forallb (fun c => c <? 256) q = true ->
  (exists t, query_text args_decode_replace q = Ok t) /\ (exists t, query_text full_path_decode_replace q = Ok t).
Proof. exact (fun q H => conj (query_text_total q H) (query_text_total q H)). Qed.
Print Assumptions C07_total_query_text.

(* Request.args hands parse_qsl no max_num_fields and no strict_parsing (keywords regenerated from the source),
   so neither of parse_qsl's own ValueErrors can be raised, whatever the number or shape of the fields *)
Theorem C07_total_request_args_checks : forall qs, request_args_checks qs = Ok tt.
Proof. exact request_args_checks_total. Qed.
Print Assumptions C07_total_request_args_checks.

(* the cookie regex texts behind the C13 matchers used above are those of the current source *)
Theorem C07_cookie_patterns_pinned :
  list_eqb Wz.C13.Gen.cookie_unslash_re_text [92; 92; 40; 91; 48; 45; 51; 93; 91; 48; 45; 55; 93; 123; 50; 125; 124; 46; 41]
  && (Wz.C13.Gen.cookie_unslash_re_flags =? 0) && (Wz.C13.Gen.cookie_re_flags =? 320)
  && (N.of_nat (length Wz.C13.Gen.cookie_re_text) =? 114) && (weighted_sum Wz.C13.Gen.cookie_re_text 1 =? 292951) = true.
Proof. exact cookie_patterns_pinned. Qed.
Print Assumptions C07_cookie_patterns_pinned.

(* the port of the reconstructed URL (urlsplit(...).port inside uri_to_iri): the full statement is false *)
Theorem C07_url_port_refuted : exists host, url_port host = Err ValueError.
Proof. exact (ex_intro _ s_x_abc url_port_refuted). Qed.
Print Assumptions C07_url_port_refuted.
(* ... and holds exactly away from malformed ports and brackets *)
Theorem C07_url_port_partial : forall host, host_port_ok host = true -> exists p, url_port host = Ok p.
Proof. exact url_port_partial. Qed.
Print Assumptions C07_url_port_partial.
Example C07_url_port_inhabited :
  host_port_ok [117; 64; 233; 46; 99; 111; 109; 58; 56; 48; 56; 48; 47; 58; 120] = true
  /\ url_port [117; 64; 233; 46; 99; 111; 109; 58; 56; 48; 56; 48; 47; 58; 120] = Ok (Some 8080).
Proof. split; vm_compute; reflexivity. Qed.
Print Assumptions C07_url_port_inhabited.

(* ------------------------------------------------------------------ Cache-Control, CSP, dates *)
Theorem C07_total_parse_cache_control : forall v, exists d, parse_cache_control v = Ok d.
Proof. exact parse_cache_control_total. Qed.
Print Assumptions C07_total_parse_cache_control.
(* every typed cache-control getter: the int conversion's ValueError is the only error and it is handled *)
Theorem C07_total_cache_control_getter : forall d key empty ty, exists v, cc_get_e d key empty ty = Ok v.
Proof. exact cc_get_e_total. Qed.
Print Assumptions C07_total_cache_control_getter.
Theorem C07_total_parse_csp : forall v, exists d, parse_csp_e v = Ok d.
Proof. exact parse_csp_e_total. Qed.
Print Assumptions C07_total_parse_csp.
(* parse_date over the email.utils contract: whatever parsedate_to_datetime is, if it raises nothing but TypeError,
   ValueError (incl. its subclasses) and OverflowError, parse_date returns; the except clause is the regenerated one,
   so narrowing it breaks this proof *)
Theorem C07_total_parse_date : forall (D : Type) (parsedate : str -> res D),
  (forall s e, parsedate s = Err e -> is_type_error e || is_value_error e || is_overflow_error e = true) ->
  forall v, exists o, parse_date_over parsedate v = Ok o.
Proof. exact parse_date_over_total. Qed.
Print Assumptions C07_total_parse_date.

(* ------------------------------------------------------------------ Request attributes composed of the modelled parsers *)
(* environ_ok: every client-controlled variable is Latin-1 text without a line feed (what a WSGI server delivers).
   Each attribute returns a value: stronger than value-or-HTTPException. *)
Theorem C07_total_request_args : forall e, environ_ok e = true -> exists t, request_args e = Ok t.
Proof. exact request_args_total. Qed.
Print Assumptions C07_total_request_args.
Theorem C07_total_request_cookies : forall e, environ_ok e = true -> exists l, request_cookies e = Ok l.
Proof. exact request_cookies_total. Qed.
Print Assumptions C07_total_request_cookies.
Theorem C07_total_request_authorization : forall e, exists a, request_authorization e = Ok a.
Proof. exact request_authorization_total. Qed.
Print Assumptions C07_total_request_authorization.
Theorem C07_total_request_range : forall e, exists r, request_range e = Ok r.
Proof. exact request_range_total. Qed.
Print Assumptions C07_total_request_range.
Theorem C07_total_request_if_match : forall e, environ_ok e = true ->
  (exists t, request_if_match e = Ok t) /\ (exists t, request_if_none_match e = Ok t).
Proof. exact request_if_match_total. Qed.
Print Assumptions C07_total_request_if_match.
Theorem C07_total_request_content_length : forall e, exists n, request_content_length e = Ok n.
Proof. exact request_content_length_total. Qed.
Print Assumptions C07_total_request_content_length.
Theorem C07_total_request_mimetype_params : forall e, exists o, request_mimetype_params e = Ok o.
Proof. exact request_mimetype_params_total. Qed.
Print Assumptions C07_total_request_mimetype_params.
Theorem C07_total_request_cache_control : forall e, exists d, request_cache_control e = Ok d.
Proof. exact request_cache_control_total. Qed.
Print Assumptions C07_total_request_cache_control.
Example C07_environ_inhabited :
  environ_ok {| e_query := [97; 61; 255]; e_cookie := Some [97; 61; 34; 92; 52; 48; 48; 34]; e_authorization := Some [66; 97; 115; 105; 99; 32; 255];
                e_range := Some [98; 121; 116; 101; 115; 61; 53; 45; 52]; e_if_match := Some [34; 97]; e_if_none_match := None;
                e_content_length := Some [120]; e_transfer_encoding := None; e_content_type := Some [97; 59; 42; 61; 98]; e_cache_control := Some [42; 61; 120] |} = true.
Proof. vm_compute. reflexivity. Qed.
Print Assumptions C07_environ_inhabited.

(* ------------------------------------------------------------------ more Request attributes *)
Theorem C07_total_request_full_path : forall e, forallb (fun c => c <? 256) (m_query e) = true -> exists t, request_full_path e = Ok t.
Proof. exact request_full_path_total. Qed.
Print Assumptions C07_total_request_full_path.
Theorem C07_total_request_access_route : forall e, exists l, request_access_route e = Ok l.
Proof. exact request_access_route_total. Qed.
Print Assumptions C07_total_request_access_route.
(* accept_mimetypes / accept_charsets / accept_encodings / accept_languages share this parse loop; the class-specific
   sorting, membership and best_match are C17's model (C17_optimal, C17_quality, C17_order, C17_to_header_roundtrip) *)
Theorem C07_total_request_accept : forall e,
  (exists l, request_accept (m_accept e) = Ok l) /\ (exists l, request_accept (m_accept_charset e) = Ok l)
  /\ (exists l, request_accept (m_accept_encoding e) = Ok l) /\ (exists l, request_accept (m_accept_language e) = Ok l).
Proof. exact (fun e => conj (request_accept_total _) (conj (request_accept_total _) (conj (request_accept_total _) (request_accept_total _)))). Qed.
Print Assumptions C07_total_request_accept.
(* if_range and the date-typed headers over the email.utils contract (exception classes validated by the harness) *)
Theorem C07_total_request_if_range : forall (D : Type) (parsedate : str -> res D),
  (forall s e, parsedate s = Err e -> is_type_error e || is_value_error e || is_overflow_error e = true) ->
  forall e, exists r, request_if_range parsedate e = Ok r.
Proof. exact request_if_range_total. Qed.
Print Assumptions C07_total_request_if_range.
Theorem C07_total_request_dates : forall (D : Type) (parsedate : str -> res D),
  (forall s e, parsedate s = Err e -> is_type_error e || is_value_error e || is_overflow_error e = true) ->
  forall e, (exists o, request_date_header parsedate (m_date e) = Ok o)
            /\ (exists o, request_date_header parsedate (m_if_modified_since e) = Ok o)
            /\ (exists o, request_date_header parsedate (m_if_unmodified_since e) = Ok o).
Proof. exact (fun D pd Hc e => conj (parse_date_over_total D pd Hc _) (conj (parse_date_over_total D pd Hc _) (parse_date_over_total D pd Hc _))). Qed.
Print Assumptions C07_total_request_dates.
(* Request.url / base_url / root_url / host_url: the port check of urlsplit on the host get_host returns: the two known
   Host findings stay refuted, with the guard of C07_url_port_partial lifted to the request *)
Theorem C07_request_url_port_refuted : exists e, request_url_port e = Err ValueError.
Proof. exact (ex_intro _ _ request_url_port_refuted). Qed.
Print Assumptions C07_request_url_port_refuted.
Theorem C07_request_url_port_partial : forall e,
  host_port_ok (get_host (u_scheme e) (u_host e) (u_server e)) = true -> exists p, request_url_port e = Ok p.
Proof. exact request_url_port_partial. Qed.
Print Assumptions C07_request_url_port_partial.
Example C07_request_url_port_inhabited :
  host_port_ok (get_host [104; 116; 116; 112] None (Some ([58; 58; 49], Some [56; 48; 56; 48]))) = false
  /\ host_port_ok (get_host [104; 116; 116; 112] (Some [97; 46; 98; 58; 56; 48]) None) = true.
Proof. split; vm_compute; reflexivity. Qed.
Print Assumptions C07_request_url_port_inhabited.
