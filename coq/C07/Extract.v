From Coq Require Extraction ExtrOcamlBasic.
From Wz Require Import lib.Bytes lib.Utf8 lib.ExtractBase C06.LibPy C06.Gen C06.Model C07.Gen C07.Model.
Extraction Language OCaml.
Extraction "C07/model_extracted.ml" force_types cookie_sansio cookie_http b64decode authorization_from_header
  www_authenticate_from_header get_host url_port get_content_length query_text
  parse_options_header parse_list_header parse_set_header parse_dict_header parse_etags parse_range_header
  parse_content_range_header parse_age unquote_etag plain_int py_int Z_of_text text_of_Z parse_accept_items.
