(* C03 driver: one case per line.
   match <cfg> <rules> <adapter> <meth> <path>   -> M idx endpoint args | R url | 404 | 405 m|m | WS
   parts <cfg> <rules>                           -> compiled parts of every rule
   trie  <cfg> <rules>                           -> the transition tree after update()
   cfg = 4 digits strict merge redirect_defaults host_matching; see tools/c03.py for the rule syntax *)
let sp c s = String.split_on_char c s
let str s = nlist_of_csv s
let opt f s = if s = "~" then None else Some (f s)
let b s = (s = "1")
let zi s = z_of_int (int_of_string s)
let ni s = n_of_int (int_of_string s)
let lst c f s = if s = "_" then [] else List.map f (sp c s)
let conv s = match sp '.' s with
  | ["s"; e; mn; mx] -> CStr (opt ni e, ni mn, opt ni mx)
  | ["i"; fx; mn; mx; sg] -> CInt (ni fx, opt zi mn, opt zi mx, b sg)
  | ["f"; sg] -> CFloat (b sg)
  | ["a"; items] -> CAny (lst '|' str items)
  | ["u"] -> CUuid | ["p"] -> CPath
  | _ -> failwith ("conv " ^ s)
let seg s = match sp ':' s with
  | ["L"; k] -> SLit (str k)
  | ["D"; pre; c; name; post] -> SDyn (str pre, conv c, str name, str post)
  | _ -> failwith ("seg " ^ s)
let value s = match s.[0] with
  | 'I' -> VInt (zi (String.sub s 1 (String.length s - 1)))
  | _ -> VStr (str (String.sub s 1 (String.length s - 1)))
let kv s = match sp '=' s with [k; v] -> (str k, value v) | _ -> failwith ("kv " ^ s)
let rule s = match sp ';' s with
  | [idx; ep; dom; segs; tail; br; meths; st; mg; ws; al; defs] ->
      { r_idx = ni idx; r_endpoint = ni ep; r_dom = seg dom; r_segs = lst '^' seg segs; r_tail = opt str tail;
        r_branch = b br; r_methods = opt (lst '|' str) meths; r_strict_opt = opt b st; r_merge_opt = opt b mg;
        r_websocket = b ws; r_alias = b al; r_defaults = lst '|' kv defs }
  | _ -> failwith ("rule " ^ s)
let rmap cfg rules =
  { m_rules = lst '+' rule rules; m_strict = (cfg.[0] = '1'); m_merge = (cfg.[1] = '1');
    m_redirect_defaults = (cfg.[2] = '1'); m_host_matching = (cfg.[3] = '1') }
let adapter s = match sp '|' s with
  | [sch; srv; scr; sub; q] -> { a_scheme = str sch; a_server = str srv; a_script = str scr; a_subdomain = opt str sub; a_query = str q }
  | _ -> failwith ("adapter " ^ s)
let zs z = string_of_int (int_of_z z)
let show_value = function
  | VStr s -> "S" ^ csv_of_nlist s | VInt z -> "I" ^ zs z | VFloat t -> "F" ^ csv_of_nlist t | VFloatRaw t -> "F" ^ csv_of_nlist t | VUuid h -> "U" ^ csv_of_nlist h
let show_args l = if l = [] then "-" else String.concat "|" (List.map (fun (k, v) -> csv_of_nlist k ^ "=" ^ show_value v) l)
let show_outcome = function
  | Match (r, vs) -> Printf.sprintf "M %d %d %s" (int_of_n r.r_idx) (int_of_n r.r_endpoint) (show_args vs)
  | RedirectTo u -> "R " ^ csv_of_nlist u
  | NotFound -> "404"
  | MethodNotAllowed ms -> "405 " ^ String.concat "|" (List.map csv_of_nlist ms)
  | WsMismatch -> "WS"
  | Raised u -> if u then "UNSUPPORTED" else "EXN ValueError"
let show_weight w =
  Printf.sprintf "%s;%s;%s;%s" (zs w.w_ns) (String.concat "," (List.map (fun (a, c) -> zs a ^ ":" ^ zs c) w.w_sw))
    (zs w.w_na) (String.concat "," (List.map zs w.w_aw))
let show_part p =
  let fin, st, su = (match p with Static _ -> (false, true, false) | Dynamic d -> (d.d_final, false, d.d_suffixed)) in
  Printf.sprintf "%s;%b;%b;%b;%s" (csv_of_nlist (part_content p)) fin st su (show_weight (part_weight p))
let show_tok = function
  | TOpen -> "[" | TClose -> "]" | TBar -> "|" | TRule i -> "r" ^ string_of_int (int_of_n i)
  | TStat k -> "s" ^ csv_of_nlist k | TDyn c -> "d" ^ csv_of_nlist c
let () = iter_lines (fun line ->
  match fields line with
  | ["match"; cfg; rules; a; meth; path] ->
      show_outcome (map_match no_hooks (rmap cfg rules) (adapter a) (str path) (str meth))
  | ["parts"; cfg; rules] ->
      String.concat " " (List.map (fun r -> String.concat "+" (List.map show_part (rule_parts r))) (rmap cfg rules).m_rules)
  | ["trie"; cfg; rules] -> String.concat " " (List.map show_tok (dump_state (trie_of (rmap cfg rules))))
  | _ -> "bad-command")
