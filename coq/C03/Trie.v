(* C03: the transition tree of routing/matcher.py (State, StateMachineMatcher.add / update /
   match._match), generic in the type of dynamic parts, their matcher, and the rule type.
   Definitions only.  Instantiated in C03/Model.v; facts in C03/TrieFacts.v. *)
From Wz Require Import lib.Bytes.
Open Scope N_scope.

Definition SLASH : N := 47.

(* str.split("/") : never empty *)
Fixpoint split_slash (s : str) : list str :=
  match s with
  | [] => [[]]
  | c :: r =>
      if c =? SLASH then [] :: split_slash r
      else match split_slash r with
           | [] => [[c]]
           | h :: t => (c :: h) :: t
           end
  end.

(* "/".join(parts) *)
Fixpoint join_slash (l : list str) : str :=
  match l with
  | [] => []
  | x :: r => match r with [] => x | _ :: _ => x ++ SLASH :: join_slash r end
  end.

(* re.sub("/{2,}?", "/", s): the lazy quantifier takes exactly two slashes at a time *)
Fixpoint merge_slashes (s : str) : str :=
  match s with
  | [] => []
  | a :: t =>
      match t with
      | [] => [a]
      | b :: r => if (a =? SLASH) && (b =? SLASH) then SLASH :: merge_slashes r
                  else a :: merge_slashes t
      end
  end.

Section Trie.
  Variable dpart : Type.                (* a dynamic RulePart *)
  Variable rule : Type.
  Variable res : Type.                  (* converted arguments *)
  (* re.compile(part.content).match(target) with the final / suffixed handling:
     pmatch d part rest = Some (groups, remaining) *)
  Variable pmatch : dpart -> str -> list str -> option (list str * list str).
  Variable dpart_eqb : dpart -> dpart -> bool.      (* RulePart.__eq__ *)
  Variable wlt : dpart -> dpart -> bool.            (* part.weight < part'.weight *)
  Variable rmethods : rule -> option (list str).
  Variable rws : rule -> bool.
  Variable rstrict : rule -> bool.
  Variable rconvert : rule -> list str -> option res.   (* _convert: None = ValidationError *)

  Inductive cpart := PStatic (k : str) | PDyn (d : dpart).

  Inductive state :=
    St (dyn : list (dpart * state)) (rules : list rule) (stat : list (str * state)).

  Definition empty_state : state := St [] [] [].
  Definition st_dyn (s : state) := match s with St d _ _ => d end.
  Definition st_rules (s : state) := match s with St _ r _ => r end.
  Definition st_stat (s : state) := match s with St _ _ t => t end.

  (* ---------------------------------------------------------------- add *)
  (* state.static.setdefault(content, State()); state = state.static[content] *)
  Fixpoint stat_upd (k : str) (f : state -> state) (l : list (str * state)) : list (str * state) :=
    match l with
    | [] => [(k, f empty_state)]
    | (k', c) :: l' => if list_eqb k' k then (k', f c) :: l' else (k', c) :: stat_upd k f l'
    end.

  (* for test_part, new_state in state.dynamic: if test_part == part ... else append *)
  Fixpoint dyn_upd (d : dpart) (f : state -> state) (l : list (dpart * state)) : list (dpart * state) :=
    match l with
    | [] => [(d, f empty_state)]
    | (d', c) :: l' => if dpart_eqb d' d then (d', f c) :: l' else (d', c) :: dyn_upd d f l'
    end.

  Fixpoint add_parts (ps : list cpart) (r : rule) (s : state) : state :=
    match ps with
    | [] => St (st_dyn s) (st_rules s ++ [r]) (st_stat s)
    | PStatic k :: ps' => St (st_dyn s) (st_rules s) (stat_upd k (add_parts ps' r) (st_stat s))
    | PDyn d :: ps' => St (dyn_upd d (add_parts ps' r) (st_dyn s)) (st_rules s) (st_stat s)
    end.

  (* ---------------------------------------------------------------- update *)
  (* list.sort(key=weight) is stable; modelled by a stable insertion sort *)
  Fixpoint insert_dyn (x : dpart * state) (l : list (dpart * state)) : list (dpart * state) :=
    match l with
    | [] => [x]
    | y :: l' => if wlt (fst y) (fst x) then y :: insert_dyn x l' else x :: l
    end.
  Definition sort_dyn (l : list (dpart * state)) : list (dpart * state) := fold_right insert_dyn [] l.

  Fixpoint update (s : state) : state :=
    match s with
    | St dyn rules stat =>
        St (sort_dyn (map (fun dc => (fst dc, update (snd dc))) dyn)) rules
           (map (fun kc => (fst kc, update (snd kc))) stat)
    end.

  (* ---------------------------------------------------------------- _match *)
  Inductive mres := MNone | MFound (r : rule) (v : res) | MSlash.
  (* result, methods added to have_match_for, websocket_mismatch set *)
  Definition R : Type := mres * list str * bool.
  Definition rnone : R := (MNone, [], false).

  (* run k only when a found nothing; the bookkeeping of both is kept *)
  Definition orelse (a : R) (k : unit -> R) : R :=
    match a with
    | (MNone, h, w) => match k tt with (x, h', w') => (x, h ++ h', w || w') end
    | _ => a
    end.

  Definition method_ok (r : rule) (meth : str) : bool :=
    match rmethods r with None => true | Some ms => existsb (list_eqb meth) ms end.
  Definition methods_of (r : rule) : list str :=
    match rmethods r with None => [] | Some ms => ms end.

  (* for rule in state.rules: ... (skip_strict: the `parts == [""]` variant) *)
  Fixpoint try_rules (skip_strict : bool) (meth : str) (ws : bool) (rules : list rule) (values : list str) : R :=
    match rules with
    | [] => rnone
    | r :: rs =>
        if skip_strict && rstrict r then try_rules skip_strict meth ws rs values
        else match rconvert r values with
             | None => try_rules skip_strict meth ws rs values
             | Some v =>
                 if negb (method_ok r meth) then
                   match try_rules skip_strict meth ws rs values with (x, h, w) => (x, methods_of r ++ h, w) end
                 else if negb (Bool.eqb (rws r) ws) then
                   match try_rules skip_strict meth ws rs values with (x, h, w) => (x, h, true) end
                 else (MFound r v, [], false)
             end
    end.

  (* for rule in state.static[""].rules: a strict rule asks for the slash redirect, a non-strict one
     is treated like a rule of this state *)
  Fixpoint try_slash_rules (meth : str) (ws : bool) (rules : list rule) (values : list str) : R :=
    match rules with
    | [] => rnone
    | r :: rs =>
        match rconvert r values with
        | None => try_slash_rules meth ws rs values
        | Some v =>
            if rstrict r then
              if Bool.eqb ws (rws r) && method_ok r meth then (MSlash, [], false)
              else try_slash_rules meth ws rs values
            else if negb (method_ok r meth) then
              match try_slash_rules meth ws rs values with (x, h, w) => (x, methods_of r ++ h, w) end
            else if negb (Bool.eqb (rws r) ws) then
              match try_slash_rules meth ws rs values with (x, h, w) => (x, h, true) end
            else (MFound r v, [], false)
        end
    end.

  Fixpoint stat_find (k : str) (l : list (str * state)) : option state :=
    match l with
    | [] => None
    | (k', c) :: l' => if list_eqb k' k then Some c else stat_find k l'
    end.

  Definition is_empty_part (parts : list str) : bool :=
    match parts with [[]] => true | _ => false end.

  (* if part in state.static: f(state.static[part]) *)
  Definition stat_apply {A} (f : state -> A) (dflt : A) (k : str) : list (str * state) -> A :=
    fix go l := match l with
                | [] => dflt
                | (k', c) :: l' => if list_eqb k' k then f c else go l'
                end.

  (* for test_part, new_state in state.dynamic: ... *)
  Definition dyn_loop (f : state -> list str -> list str -> R) (part : str) (rest values : list str)
    : list (dpart * state) -> R :=
    fix loop l := match l with
                  | [] => rnone
                  | (d, c) :: l' =>
                      match pmatch d part rest with
                      | Some (groups, remaining) => orelse (f c remaining (values ++ groups)) (fun _ => loop l')
                      | None => loop l'
                      end
                  end.

  Fixpoint smatch (meth : str) (ws : bool) (s : state) (parts : list str) (values : list str) {struct s} : R :=
    match s with
    | St dyn rules stat =>
      match parts with
      | [] =>
          orelse (try_rules false meth ws rules values) (fun _ =>
            match stat_find [] stat with
            | Some c => try_slash_rules meth ws (st_rules c) values
            | None => rnone
            end)
      | part :: rest =>
          orelse (stat_apply (fun c => smatch meth ws c rest values) rnone part stat) (fun _ =>
          orelse (dyn_loop (fun c rem vals => smatch meth ws c rem vals) part rest values dyn) (fun _ =>
            if is_empty_part parts then try_rules true meth ws rules values else rnone))
      end
    end.

  (* ---------------------------------------------------------------- the same search as an ordered
     enumeration of candidates followed by a scan (used by the proofs; smatch_scan in TrieFacts) *)
  Inductive ckind := KHere | KSlash | KLate.
  Definition cand : Type := ckind * rule * list str.

  Definition dyn_collect (f : state -> list str -> list str -> list cand) (part : str) (rest values : list str)
    : list (dpart * state) -> list cand :=
    fix loop l := match l with
                  | [] => []
                  | (d, c) :: l' =>
                      match pmatch d part rest with
                      | Some (groups, remaining) => f c remaining (values ++ groups) ++ loop l'
                      | None => loop l'
                      end
                  end.

  Fixpoint cands (s : state) (parts : list str) (values : list str) {struct s} : list cand :=
    match s with
    | St dyn rules stat =>
      match parts with
      | [] =>
          map (fun r => (KHere, r, values)) rules
          ++ match stat_find [] stat with
             | Some c => map (fun r => (KSlash, r, values)) (st_rules c)
             | None => []
             end
      | part :: rest =>
          stat_apply (fun c => cands c rest values) [] part stat
          ++ dyn_collect (fun c rem vals => cands c rem vals) part rest values dyn
          ++ (if is_empty_part parts then map (fun r => (KLate, r, values)) rules else [])
      end
    end.

  Inductive step := SSkip | SMeth (ms : list str) | SWs | SFound (v : res) | SSlashReq.
  Definition cand_step (meth : str) (ws : bool) (c : cand) : step :=
    match c with
    | (k, r, values) =>
        if (match k with KLate => true | _ => false end) && rstrict r then SSkip
        else match rconvert r values with
             | None => SSkip
             | Some v =>
                 if (match k with KSlash => true | _ => false end) && rstrict r then
                   if Bool.eqb ws (rws r) && method_ok r meth then SSlashReq else SSkip
                 else if negb (method_ok r meth) then SMeth (methods_of r)
                 else if negb (Bool.eqb (rws r) ws) then SWs
                 else SFound v
             end
    end.
  Fixpoint scan (meth : str) (ws : bool) (cs : list cand) : R :=
    match cs with
    | [] => rnone
    | c :: cs' =>
        match cand_step meth ws c with
        | SSkip => scan meth ws cs'
        | SMeth ms => match scan meth ws cs' with (x, h, w) => (x, ms ++ h, w) end
        | SWs => match scan meth ws cs' with (x, h, w) => (x, h, true) end
        | SFound v => (MFound (snd (fst c)) v, [], false)
        | SSlashReq => (MSlash, [], false)
        end
    end.

  (* ---------------------------------------------------------------- StateMachineMatcher.match *)
  Variable rmerge : rule -> bool.

  Inductive mout :=
  | MOk (r : rule) (v : res)
  | MPath (p : str)                       (* RequestPath *)
  | MNoMatch (hm : list str) (wsm : bool).

  Definition matcher_match (merge : bool) (root : state) (domain path meth : str) (ws : bool) : mout :=
    match smatch meth ws root (domain :: split_slash path) [] with
    | (MSlash, _, _) => MPath (path ++ [SLASH])
    | (MFound r v, _, _) => MOk r v
    | (MNone, h1, w1) =>
        if merge then
          let path' := merge_slashes path in
          match smatch meth ws root (domain :: split_slash path') [] with
          | (MSlash, _, _) => MPath (path' ++ [SLASH])
          | (MNone, h2, w2) => MNoMatch (h1 ++ h2) (w1 || w2)
          | (MFound r v, h2, w2) =>
              if rmerge r then MPath path' else MNoMatch (h1 ++ h2) (w1 || w2)
          end
        else MNoMatch h1 w1
    end.

  (* Map.add for every rule in insertion order, then Map.update *)
  Variable rparts : rule -> list cpart.
  Definition build_trie (rules : list rule) : state :=
    update (fold_left (fun s r => add_parts (rparts r) r s) rules empty_state).

  (* ---------------------------------------------------------------- Spec: what one rule admits,
     independently of the other rules of the map *)
  (* run the rule's own parts over the path parts: captured texts and the parts left over *)
  Fixpoint walk (cs : list cpart) (parts : list str) : option (list str * list str) :=
    match cs with
    | [] => Some ([], parts)
    | PStatic k :: cs' =>
        match parts with
        | p :: ps => if list_eqb k p then walk cs' ps else None
        | [] => None
        end
    | PDyn d :: cs' =>
        match parts with
        | p :: ps =>
            match pmatch d p ps with
            | Some (g, rem) =>
                match walk cs' rem with
                | Some (caps, lo) => Some (g ++ caps, lo)
                | None => None
                end
            | None => None
            end
        | [] => None
        end
    end.

  Inductive adm := ADirect (v : res) | ASlash | ANo.

  (* cs = cs' ++ [PStatic ""] : the rule ends with a slash *)
  Fixpoint strip_last_empty (cs : list cpart) : option (list cpart) :=
    match cs with
    | [] => None
    | [PStatic []] => Some []
    | c :: cs' => option_map (cons c) (strip_last_empty cs')
    end.

  Definition convert_adm (r : rule) (caps : list str) (slash : bool) : adm :=
    match rconvert r caps with
    | Some v => if slash then ASlash else ADirect v
    | None => ANo
    end.

  (* Direct: the rule's parts consume the path exactly (and, for a rule without strict slashes, also
     with one more trailing slash, or - for a rule ending in a slash - without its slash).
     Slash: a strict rule ending in a slash whose other parts consume the path exactly. *)
  Definition admits (r : rule) (parts : list str) : adm :=
    match walk (rparts r) parts with
    | Some (caps, []) => convert_adm r caps false
    | Some (caps, [[]]) => if rstrict r then ANo else convert_adm r caps false
    | _ =>
        match strip_last_empty (rparts r) with
        | Some cs' =>
            match walk cs' parts with
            | Some (caps, []) => convert_adm r caps (rstrict r)
            | _ => ANo
            end
        | None => ANo
        end
    end.

  (* ---------------------------------------------------------------- Spec: the documented priority.
     A candidate is tried along the transitions of its rule; None marks the late trailing-slash clause
     (a rule without strict slashes matched with one extra trailing slash: tried last at its state). *)
  Definition ekey : Type := option cpart.
  Definition elt_lt (x y : ekey) : bool :=
    match x, y with
    | Some (PStatic _), Some (PDyn _) => true          (* literal text beats a variable *)
    | Some (PDyn d1), Some (PDyn d2) => wlt d1 d2      (* the lighter Weighting first *)
    | Some _, None => true                             (* the late clause comes last *)
    | _, _ => false
    end.
  (* K1 is tried strictly before K2 whatever the insertion order: a proper prefix, or at the first
     difference a smaller transition *)
  Inductive key_lt : list ekey -> list ekey -> Prop :=
  | kl_prefix y t : key_lt [] (y :: t)
  | kl_head x y t1 t2 : elt_lt x y = true -> key_lt (x :: t1) (y :: t2)
  | kl_tail x t1 t2 : key_lt t1 t2 -> key_lt (x :: t1) (x :: t2).
  Definition cand_key (k : ckind) (r : rule) : list ekey :=
    match k with
    | KLate => map Some (rparts r) ++ [None]
    | _ => map Some (rparts r)
    end.

  (* the candidates of cands, each with the transitions it was reached by *)
  Definition dyn_kcollect (f : state -> list str -> list str -> list (list ekey * cand)) (part : str) (rest values : list str)
    : list (dpart * state) -> list (list ekey * cand) :=
    fix loop l := match l with
                  | [] => []
                  | (d, c) :: l' =>
                      match pmatch d part rest with
                      | Some (groups, remaining) =>
                          map (fun kc => (Some (PDyn d) :: fst kc, snd kc)) (f c remaining (values ++ groups)) ++ loop l'
                      | None => loop l'
                      end
                  end.
  Fixpoint kcands (s : state) (parts : list str) (values : list str) {struct s} : list (list ekey * cand) :=
    match s with
    | St dyn rules stat =>
      match parts with
      | [] =>
          map (fun r => ([], (KHere, r, values))) rules
          ++ match stat_find [] stat with
             | Some c => map (fun r => ([Some (PStatic [])], (KSlash, r, values))) (st_rules c)
             | None => []
             end
      | part :: rest =>
          map (fun kc => (Some (PStatic part) :: fst kc, snd kc)) (stat_apply (fun c => kcands c rest values) [] part stat)
          ++ dyn_kcollect (fun c rem vals => kcands c rem vals) part rest values dyn
          ++ (if is_empty_part parts then map (fun r => ([None], (KLate, r, values))) rules else [])
      end
    end.

  (* rule r sits in state s behind the transitions sigma *)
  Inductive stored (r : rule) : state -> list cpart -> Prop :=
  | stored_here dyn rules stat : In r rules -> stored r (St dyn rules stat) []
  | stored_stat dyn rules stat k c sigma :
      In (k, c) stat -> stored r c sigma -> stored r (St dyn rules stat) (PStatic k :: sigma)
  | stored_dyn dyn rules stat d c sigma :
      In (d, c) dyn -> stored r c sigma -> stored r (St dyn rules stat) (PDyn d :: sigma).
End Trie.
