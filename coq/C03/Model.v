(* C03 (shared with C12, C04): executable model of werkzeug.routing matching.
   rules.Rule._parse_rule / compile (parts, final, suffixed, Weighting) over the abstract rule
   syntax of the C03 grammar, converters (regex languages as predicates, to_python),
   StateMachineMatcher (C03/Trie.v instantiated), MapAdapter.match and make_redirect_url.
   Definitions only.  Constants, regex texts, weights and the NumberConverter rejection tests
   come from C03/Gen.v (regenerated from /repo on every run). *)
From Coq Require Import ZArith.
From Wz Require Import lib.Bytes lib.Utf8 C03.Gen C03.Trie.
Open Scope N_scope.

Definition MINUS : N := 45.
Definition DOT : N := 46.
Definition LF : N := 10.
Definition PERCENT : N := 37.
Definition QMARK : N := 63.
Definition COLON : N := 58.

Definition is_nil {A} (l : list A) : bool := match l with [] => true | _ => false end.
Definition nlen (s : str) : N := N.of_nat (length s).
Definition zlen (s : str) : Z := Z.of_nat (length s).

(* ------------------------------------------------------------------ decimal text *)
Fixpoint uint_digits (d : Decimal.uint) : str :=
  match d with
  | Decimal.Nil => []
  | Decimal.D0 r => 48 :: uint_digits r | Decimal.D1 r => 49 :: uint_digits r
  | Decimal.D2 r => 50 :: uint_digits r | Decimal.D3 r => 51 :: uint_digits r
  | Decimal.D4 r => 52 :: uint_digits r | Decimal.D5 r => 53 :: uint_digits r
  | Decimal.D6 r => 54 :: uint_digits r | Decimal.D7 r => 55 :: uint_digits r
  | Decimal.D8 r => 56 :: uint_digits r | Decimal.D9 r => 57 :: uint_digits r
  end.
(* str(n) for a non-negative int *)
Definition dec_of_N (n : N) : str := uint_digits (N.to_uint n).

(* Unicode \d (category Nd): runs of ten consecutive code points; value = offset mod 10 *)
Fixpoint udigit_in (runs : list (N * N)) (c : N) : option N :=
  match runs with
  | [] => None
  | (lo, hi) :: r => if (lo <=? c) && (c <=? hi) then Some ((c - lo) mod 10) else udigit_in r c
  end.
Definition udigit_val (c : N) : option N := udigit_in digit_runs c.
Definition is_udigit (c : N) : bool := match udigit_val c with Some _ => true | None => false end.
Definition dval (c : N) : N := match udigit_val c with Some v => v | None => 0 end.

(* int(s) for s matching \d+ *)
Fixpoint parse_digits (s : str) (acc : N) : N :=
  match s with [] => acc | c :: r => parse_digits r (acc * 10 + dval c) end.
(* int(s) for s matching -?\d+ *)
Definition parse_int (s : str) : Z :=
  match s with
  | c :: r => if c =? MINUS then (- Z.of_N (parse_digits r 0))%Z else Z.of_N (parse_digits s 0)
  | [] => 0%Z
  end.

(* ------------------------------------------------------------------ converters *)
Inductive conv :=
| CStr (exact : option N) (mn : N) (mx : option N)      (* string(length= / minlength=, maxlength=) *)
| CInt (fixed : N) (mn mx : option Z) (signed : bool)
| CFloat (signed : bool)
| CAny (items : list str)
| CUuid
| CPath.

(* what the converter's regex accepts; to_python parameters do not appear here *)
Inductive lang :=
| LStrExact (n : N) | LStrRange (mn : N) (mx : option N)
| LDigits (signed : bool) | LFloat (signed : bool) | LAny (items : list str) | LUuid | LPath.

Definition lang_of (c : conv) : lang :=
  match c with
  | CStr (Some n) _ _ => LStrExact n
  | CStr None mn mx => LStrRange mn mx
  | CInt _ _ _ sg => LDigits sg
  | CFloat sg => LFloat sg
  | CAny items => LAny items
  | CUuid => LUuid
  | CPath => LPath
  end.

Definition conv_weight (c : conv) : Z :=
  match c with
  | CStr _ _ _ => weight_string | CInt _ _ _ _ => weight_int | CFloat _ => weight_float
  | CAny _ => weight_any | CUuid => weight_uuid | CPath => weight_path
  end.
Definition conv_isolating (c : conv) : bool :=
  match c with
  | CStr _ _ _ => isolating_string | CInt _ _ _ _ => isolating_int | CFloat _ => isolating_float
  | CAny _ => isolating_any | CUuid => isolating_uuid | CPath => isolating_path
  end.

Definition no_slash (s : str) : bool := forallb (fun c => negb (c =? SLASH)) s.
Definition all_udigits (s : str) : bool := negb (is_nil s) && forallb is_udigit s.
Definition strip_sign (sg : bool) (s : str) : str :=
  match s with c :: r => if sg && (c =? MINUS) then r else s | [] => s end.
Definition is_hex_ascii (c : N) : bool := is_hex c.

(* n hex digits then the rest *)
Fixpoint take_hex (n : nat) (s : str) : option str :=
  match n with
  | O => Some s
  | S n' => match s with c :: r => if is_hex_ascii c then take_hex n' r else None | [] => None end
  end.
Definition take_dash (s : str) : option str :=
  match s with c :: r => if c =? MINUS then Some r else None | [] => None end.
Definition obind {A B} (o : option A) (f : A -> option B) : option B :=
  match o with Some x => f x | None => None end.
Definition uuid_shape (s : str) : bool :=
  match obind (take_hex 8 s) (fun s1 => obind (take_dash s1) (fun s2 => obind (take_hex 4 s2) (fun s3 =>
        obind (take_dash s3) (fun s4 => obind (take_hex 4 s4) (fun s5 => obind (take_dash s5) (fun s6 =>
        obind (take_hex 4 s6) (fun s7 => obind (take_dash s7) (fun s8 => take_hex 12 s8)))))))) with
  | Some [] => true
  | _ => false
  end.

(* the deterministic reading of each converter regex anchored at both ends (Appendix A) *)
Definition in_lang (l : lang) (s : str) : bool :=
  match l with
  | LStrExact n => (nlen s =? n) && no_slash s                       (* [^/]{n} *)
  | LStrRange mn mx =>                                               (* [^/]{mn,mx} *)
      (mn <=? nlen s) && match mx with Some m => nlen s <=? m | None => true end && no_slash s
  | LDigits sg => all_udigits (strip_sign sg s)                      (* -?\d+ *)
  | LFloat sg =>                                                     (* -?\d+\.\d+ *)
      let t := strip_sign sg s in
      let a := take_while is_udigit t in
      match drop_while is_udigit t with
      | c :: b => negb (is_nil a) && (c =? DOT) && all_udigits b
      | [] => false
      end
  | LAny items => existsb (list_eqb s) items                         (* (?:a|b|c) *)
  | LUuid => uuid_shape s
  | LPath =>                                                         (* [^/](?s:.*?) *)
      match s with
      | c :: r => negb (c =? SLASH)
      | [] => false
      end
  end.

(* VFloat t: a float whose str() is t (values handed to the builder); VFloatRaw t: float(t) for a matched
   text t, whose str() the model does not know (float() is not computed: the harness applies it) *)
Inductive value := VStr (s : str) | VInt (z : Z) | VFloat (text : str) | VFloatRaw (text : str) | VUuid (hex : str).

(* converter.to_python; None = ValidationError.  uuid.UUID(text) is carried as its 32 lower-case hex digits *)
Definition to_python (c : conv) (v : str) : option value :=
  match c with
  | CStr _ _ _ | CAny _ | CPath => Some (VStr v)
  | CInt fixed mn mx _ =>
      if num_rejects_length fixed (nlen v) then None
      else let n := parse_int v in
           if num_rejects_range n mn mx then None else Some (VInt n)
  | CFloat _ => Some (VFloatRaw v)
  | CUuid => Some (VUuid (map ascii_lower (filter (fun c => negb (c =? MINUS)) v)))
  end.

(* ------------------------------------------------------------------ regex text of a part (checkpoint) *)
Definition re_escape (s : str) : str :=
  flat_map (fun c => if mem c re_escape_specials then [92; c] else [c]) s.

Fixpoint join_with (sep : str) (l : list str) : str :=
  match l with
  | [] => []
  | x :: r => match r with [] => x | _ :: _ => x ++ sep ++ join_with sep r end
  end.

Definition lang_regex (l : lang) : str :=
  match l with
  | LStrExact n => rx_str_prefix ++ [123] ++ dec_of_N n ++ [125]
  | LStrRange mn mx =>
      rx_str_prefix ++ [123] ++ dec_of_N mn ++ [44]
        ++ match mx with Some m => dec_of_N m | None => [] end ++ [125]
  | LDigits sg => (if sg then rx_signed_prefix else []) ++ rx_int
  | LFloat sg => (if sg then rx_signed_prefix else []) ++ rx_float
  | LAny items => rx_any_prefix ++ join_with [124] (map re_escape items) ++ rx_any_suffix
  | LUuid => rx_uuid
  | LPath => rx_path
  end.

(* ------------------------------------------------------------------ Weighting *)
Record weight := { w_ns : Z; w_sw : list (Z * Z); w_na : Z; w_aw : list Z }.
Definition w0 : weight := {| w_ns := 0; w_sw := []; w_na := 0; w_aw := [] |}.

(* Python's < on lists: lexicographic, a proper prefix is smaller *)
Fixpoint lex_lt {A} (lt eq : A -> A -> bool) (a b : list A) : bool :=
  match a, b with
  | [], [] => false
  | [], _ :: _ => true
  | _ :: _, [] => false
  | x :: a', y :: b' => if lt x y then true else if eq x y then lex_lt lt eq a' b' else false
  end.
Fixpoint lex_eq {A} (eq : A -> A -> bool) (a b : list A) : bool :=
  match a, b with
  | [], [] => true
  | x :: a', y :: b' => eq x y && lex_eq eq a' b'
  | _, _ => false
  end.
Definition pair_lt (a b : Z * Z) : bool :=
  ((fst a <? fst b) || ((fst a =? fst b) && (snd a <? snd b)))%Z.
Definition pair_eq (a b : Z * Z) : bool := ((fst a =? fst b) && (snd a =? snd b))%Z.

(* tuple comparison of two Weighting values *)
Definition weight_lt (a b : weight) : bool :=
  if (w_ns a <? w_ns b)%Z then true else if negb (w_ns a =? w_ns b)%Z then false
  else if lex_lt pair_lt pair_eq (w_sw a) (w_sw b) then true
  else if negb (lex_eq pair_eq (w_sw a) (w_sw b)) then false
  else if (w_na a <? w_na b)%Z then true else if negb (w_na a =? w_na b)%Z then false
  else lex_lt Z.ltb Z.eqb (w_aw a) (w_aw b).
Definition weight_eqb (a b : weight) : bool :=
  (w_ns a =? w_ns b)%Z && lex_eq pair_eq (w_sw a) (w_sw b) && (w_na a =? w_na b)%Z
  && lex_eq Z.eqb (w_aw a) (w_aw b).

(* ------------------------------------------------------------------ parts *)
Record dpart := { d_pre : str; d_lang : lang; d_post : str;
                  d_final : bool; d_suffixed : bool; d_weight : weight }.
Inductive part := Static (k : str) (w : weight) | Dynamic (d : dpart).

Definition opt_eqb {A} (eq : A -> A -> bool) (a b : option A) : bool :=
  match a, b with Some x, Some y => eq x y | None, None => true | _, _ => false end.
Definition lang_eqb (a b : lang) : bool :=
  match a, b with
  | LStrExact n, LStrExact m => n =? m
  | LStrRange a1 a2, LStrRange b1 b2 => (a1 =? b1) && opt_eqb N.eqb a2 b2
  | LDigits s, LDigits t => Bool.eqb s t
  | LFloat s, LFloat t => Bool.eqb s t
  | LAny x, LAny y => lex_eq list_eqb x y
  | LUuid, LUuid => true
  | LPath, LPath => true
  | _, _ => false
  end.
(* RulePart.__eq__ on two dynamic parts: content (pre, regex, post), final, suffixed, weight *)
Definition dpart_eqb (a b : dpart) : bool :=
  list_eqb (d_pre a) (d_pre b) && lang_eqb (d_lang a) (d_lang b) && list_eqb (d_post a) (d_post b)
  && Bool.eqb (d_final a) (d_final b) && Bool.eqb (d_suffixed a) (d_suffixed b)
  && weight_eqb (d_weight a) (d_weight b).
Definition dpart_wlt (a b : dpart) : bool := weight_lt (d_weight a) (d_weight b).

(* RulePart.content *)
Definition part_content (p : part) : str :=
  match p with
  | Static k _ => k
  | Dynamic d =>
      re_escape (d_pre d) ++ rx_group_open ++ [48] ++ rx_group_mid ++ lang_regex (d_lang d) ++ rx_group_close
      ++ (if d_suffixed d then rx_suffixed_tail else re_escape (d_post d)) ++ rx_end
  end.
Definition part_weight (p : part) : weight := match p with Static _ w => w | Dynamic d => d_weight d end.

Definition strip_prefix (p s : str) : option str :=
  if starts_with p s then Some (skipn (length p) s) else None.
Definition strip_suffix (p s : str) : option str :=
  let n := (length s - length p)%nat in
  if (length p <=? length s)%nat && list_eqb (skipn n s) p then Some (firstn n s) else None.
Definition ends_with_slash (s : str) : bool :=
  match rev s with c :: _ => c =? SLASH | [] => false end.

(* re.compile(content).match(target) in _match: for a part of the shape
   escape(pre) (?P<g>LANG) escape(post) \Z the capture is the unique middle.
   A suffixed part ends in (?<!/)(/?)\Z: one trailing slash is split off, the capture may not
   end in a slash; remaining = [""] asks for the slash-redirect check. *)
Definition pmatch (d : dpart) (p : str) (rest : list str) : option (list str * list str) :=
  let target := if d_final d then join_slash (p :: rest) else p in
  let remaining := if d_final d then [] else rest in
  match strip_prefix (d_pre d) target with
  | None => None
  | Some t1 =>
      if d_suffixed d then
        if ends_with_slash t1 then
          let body := removelast t1 in
          if in_lang (d_lang d) body && negb (ends_with_slash body) then Some ([body], [[]]) else None
        else if in_lang (d_lang d) t1 then Some ([t1], remaining) else None
      else
        match strip_suffix (d_post d) t1 with
        | None => None
        | Some mid => if in_lang (d_lang d) mid then Some ([mid], remaining) else None
        end
  end.

(* ------------------------------------------------------------------ rules *)
Inductive seg := SLit (s : str) | SDyn (pre : str) (c : conv) (name : str) (post : str).

Record rule := {
  r_idx : N; r_endpoint : N;
  r_dom : seg;                     (* subdomain / host rule; SLit [] when there is none *)
  r_segs : list seg;
  r_tail : option str;             (* trailing <path:name> *)
  r_branch : bool;                 (* rule string ends with a slash *)
  r_methods : option (list str);
  r_strict_opt : option bool; r_merge_opt : option bool;
  r_websocket : bool; r_alias : bool;
  r_defaults : list (str * value) }.

Record rmap := {
  m_rules : list rule; m_strict : bool; m_merge : bool;
  m_redirect_defaults : bool; m_host_matching : bool }.

(* Rule.bind *)
Definition rstrict (m : rmap) (r : rule) : bool :=
  match r_strict_opt r with Some b => b | None => m_strict m end.
Definition rmerge (m : rmap) (r : rule) : bool :=
  match r_merge_opt r with Some b => b | None => m_merge m end.

Definition GET : str := [71; 69; 84].
Definition HEAD : str := [72; 69; 65; 68].
Definition has (x : str) (l : list str) : bool := existsb (list_eqb x) l.
(* Rule.__init__: upper-case, HEAD added when GET is present *)
Definition rmethods (r : rule) : option (list str) :=
  match r_methods r with
  | None => None
  | Some ms => let u := map (map ascii_upper) ms in
               Some (if has GET u && negb (has HEAD u) then u ++ [HEAD] else u)
  end.

Definition static_weight (k : str) : weight :=
  if is_nil k then w0 else {| w_ns := -1; w_sw := [(0, - zlen k)%Z]; w_na := 0; w_aw := [] |}.

(* the RulePart of one `/`-delimited piece of the rule string (Rule._parse_rule) *)
Definition seg_part (s : seg) : part :=
  match s with
  | SLit k => Static k (static_weight k)
  | SDyn pre c _ post =>
      let sw1 := if is_nil pre then [] else [(0, - zlen pre)%Z] in
      let sw := sw1 ++ (if is_nil post then [] else [(Z.of_nat (length sw1), - zlen post)%Z]) in
      Dynamic {| d_pre := pre; d_lang := lang_of c; d_post := post;
                 d_final := negb (conv_isolating c); d_suffixed := false;
                 d_weight := {| w_ns := - Z.of_nat (length sw); w_sw := sw; w_na := -1; w_aw := [conv_weight c] |} |}
  end.

Definition path_weight : weight := {| w_ns := 0; w_sw := []; w_na := -1; w_aw := [conv_weight CPath] |}.
Definition tail_parts (branch : bool) : list part :=
  let d := {| d_pre := []; d_lang := LPath; d_post := []; d_final := negb (conv_isolating CPath);
              d_suffixed := branch; d_weight := path_weight |} in
  if branch then [Dynamic d; Static [] path_weight] else [Dynamic d].

Definition is_branch (r : rule) : bool :=
  r_branch r || (is_nil (r_segs r) && match r_tail r with None => true | Some _ => false end).

(* Rule._parts after compile(): the domain part, the part of the leading slash, one part per
   piece, and the empty static part of a trailing slash *)
Definition rule_parts (r : rule) : list part :=
  seg_part (r_dom r) :: Static [] w0 ::
  map seg_part (r_segs r) ++
  match r_tail r with
  | Some _ => tail_parts (is_branch r)
  | None => if is_branch r then [Static [] w0] else []
  end.

Definition seg_convs (s : seg) : list (str * conv) :=
  match s with SLit _ => [] | SDyn _ c n _ => [(n, c)] end.
(* Rule._converters in insertion order *)
Definition rule_convs (r : rule) : list (str * conv) :=
  seg_convs (r_dom r) ++ flat_map seg_convs (r_segs r)
  ++ match r_tail r with Some n => [(n, CPath)] | None => [] end.

(* matcher._convert: zip(rule._converters.keys(), values) *)
Fixpoint convert_all (cs : list (str * conv)) (vals : list str) : option (list (str * value)) :=
  match cs, vals with
  | (n, c) :: cs', v :: vals' =>
      match to_python c v with
      | None => None
      | Some x => option_map (cons (n, x)) (convert_all cs' vals')
      end
  | _, _ => Some []
  end.
Definition rconvert (r : rule) (vals : list str) : option (list (str * value)) :=
  convert_all (rule_convs r) vals.

(* dict.update *)
Fixpoint dict_set (k : str) (v : value) (d : list (str * value)) : list (str * value) :=
  match d with
  | [] => [(k, v)]
  | (k', v') :: d' => if list_eqb k' k then (k', v) :: d' else (k', v') :: dict_set k v d'
  end.
Definition dict_update (d upd : list (str * value)) : list (str * value) :=
  fold_left (fun acc kv => dict_set (fst kv) (snd kv) acc) upd d.

(* ------------------------------------------------------------------ the matcher, instantiated *)
Definition to_cpart (p : part) : cpart dpart :=
  match p with Static k _ => PStatic dpart k | Dynamic d => PDyn dpart d end.
Definition rparts (r : rule) : list (cpart dpart) := map to_cpart (rule_parts r).

Definition rstate := state dpart rule.
Definition trie_of (m : rmap) : rstate := build_trie dpart rule dpart_eqb dpart_wlt rparts (m_rules m).

Definition rmout := mout rule (list (str * value)).
Definition matcher_run (m : rmap) (root : rstate) (domain path meth : str) (ws : bool) : rmout :=
  matcher_match dpart rule (list (str * value)) pmatch rmethods r_websocket (rstrict m) rconvert (rmerge m)
                (m_merge m) root domain path meth ws.

(* ------------------------------------------------------------------ MapAdapter *)
Record adapter := {
  a_scheme : str; a_server : str; a_script : str;    (* script_name as given to bind *)
  a_subdomain : option str;
  a_query : str }.                                    (* encode_query_args(query_args), "" when falsy *)

Definition WS : str := [119; 115].
Definition WSS : str := [119; 115; 115].
Definition HTTP : str := [104; 116; 116; 112].
Definition a_websocket (a : adapter) : bool := list_eqb (a_scheme a) WS || list_eqb (a_scheme a) WSS.
(* MapAdapter.__init__ *)
Definition script_name (a : adapter) : str :=
  if ends_with_slash (a_script a) then a_script a else a_script a ++ [SLASH].

Definition lstrip_slash (s : str) : str := drop_while (N.eqb SLASH) s.
Definition strip_slash (s : str) : str := strip (N.eqb SLASH) s.

Definition path_part (path_info : str) : str :=
  if is_nil path_info then [] else SLASH :: lstrip_slash path_info.
(* Map.bind: without host matching a missing subdomain becomes Map.default_subdomain (""; other
   defaults are outside the model); with host matching there is no subdomain *)
Definition bound_subdomain (m : rmap) (a : adapter) : option str :=
  if m_host_matching m then None
  else match a_subdomain a with Some s => Some s | None => Some [] end.
Definition domain_part (m : rmap) (a : adapter) : str :=
  match bound_subdomain m a with
  | Some s => if m_host_matching m then a_server a else s
  | None => a_server a
  end.

Definition get_host (m : rmap) (a : adapter) (dp : option str) : str :=
  if m_host_matching m then match dp with None => a_server a | Some d => d end
  else
    let sub := match dp with None => bound_subdomain m a | Some d => Some d end in
    match sub with
    | Some (c :: s) => (c :: s) ++ DOT :: a_server a
    | _ => a_server a
    end.

(* urllib.parse.urlunsplit((scheme, netloc, url, query, None)) *)
Definition urlunsplit (scheme netloc url query : str) : str :=
  let url1 :=
    if negb (is_nil netloc)
       || (negb (is_nil scheme) && has scheme uses_netloc && negb (starts_with [SLASH; SLASH] url))
    then [SLASH; SLASH] ++ netloc
         ++ (if negb (is_nil url) && negb (starts_with [SLASH] url) then SLASH :: url else url)
    else url in
  let url2 := if is_nil scheme then url1 else scheme ++ COLON :: url1 in
  if is_nil query then url2 else url2 ++ QMARK :: query.

Definition make_redirect_url (m : rmap) (a : adapter) (path_info : str) (dp : option str) : str :=
  let scheme := if is_nil (a_scheme a) then HTTP else a_scheme a in
  let host := get_host m a dp in
  let path := strip_slash (script_name a) ++ SLASH :: lstrip_slash path_info in
  urlunsplit scheme host path (a_query a).

(* urllib.parse.quote(s, safe=...) for str input *)
Definition always_safe (c : N) : bool := is_alpha c || is_digit c || mem c [95; 46; 45; 126].
Definition hex_digit (n : N) : N := if n <? 10 then 48 + n else 55 + n.
Definition quote_byte (safe : list N) (b : N) : list N :=
  if (b <? 128) && (always_safe b || mem b safe) then [b]
  else [PERCENT; hex_digit (b / 16); hex_digit (b mod 16)].
Definition quote (safe : list N) (s : str) : str := flat_map (quote_byte safe) (utf8_encode s).

(* a result of the URL builder: a value, a ValueError escaping from a converter's to_url / a BuildError,
   or a value combination the model does not cover *)
Inductive bres (A : Type) := BOk (x : A) | BValueError | BUnsupported.
Arguments BOk {A} x. Arguments BValueError {A}. Arguments BUnsupported {A}.

Inductive outcome :=
| Match (r : rule) (vs : list (str * value))
| RedirectTo (url : str)
| NotFound
| MethodNotAllowed (ms : list str)
| WsMismatch
| Raised (unsupported : bool).     (* the URL builder raised while canonicalising (defaults / alias redirect) *)

(* the two places where MapAdapter.match consults the URL builder (C04 / C12 instantiate them) *)
Record hooks := {
  h_alias : rmap -> adapter -> str -> rule -> list (str * value) -> bres str;            (* make_alias_redirect_url *)
  h_default : rmap -> adapter -> str -> rule -> list (str * value) -> bres (option str) }.   (* get_default_redirect *)

Definition of_bres (b : bres outcome) : outcome :=
  match b with BOk o => o | BValueError => Raised false | BUnsupported => Raised true end.

(* MapAdapter.match(path_info, method) on a prebuilt tree (redirect_to rules are outside the model) *)
Definition adapter_match (h : hooks) (m : rmap) (root : rstate) (a : adapter) (path_info meth : str) : outcome :=
  let meth := map ascii_upper meth in
  match matcher_run m root (domain_part m a) (path_part path_info) meth (a_websocket a) with
  | MPath _ _ p => RedirectTo (make_redirect_url m a (quote safe_redirect p) None)
  | MNoMatch _ _ hm wsm =>
      if negb (is_nil hm) then MethodNotAllowed hm else if wsm then WsMismatch else NotFound
  | MOk _ _ r v =>
      let result := dict_update v (r_defaults r) in
      if r_alias r && m_redirect_defaults m then
        match h_alias h m a meth r result with
        | BOk u => RedirectTo u
        | BValueError => Raised false
        | BUnsupported => Raised true
        end
      else if m_redirect_defaults m then
        match h_default h m a meth r result with
        | BOk (Some u) => RedirectTo u
        | BOk None => Match r result
        | BValueError => Raised false
        | BUnsupported => Raised true
        end
      else Match r result
  end.

Definition map_match (h : hooks) (m : rmap) (a : adapter) (path_info meth : str) : outcome :=
  adapter_match h m (trie_of m) a path_info meth.

(* maps without defaults and aliases never consult the builder *)
Definition no_hooks : hooks :=
  {| h_alias := fun _ _ _ _ _ => BUnsupported; h_default := fun _ _ _ _ _ => BOk None |}.

(* ------------------------------------------------------------------ checkpoints for the harness *)
Inductive tok := TOpen | TClose | TBar | TRule (i : N) | TStat (k : str) | TDyn (content : str).
Fixpoint dump_state (s : rstate) : list tok :=
  match s with
  | St _ _ dyn rules stat =>
      [TOpen] ++ map (fun r => TRule (r_idx r)) rules ++ [TBar]
      ++ flat_map (fun kc => TStat (fst kc) :: dump_state (snd kc)) stat ++ [TBar]
      ++ flat_map (fun dc => TDyn (part_content (Dynamic (fst dc))) :: dump_state (snd dc)) dyn ++ [TClose]
  end.
