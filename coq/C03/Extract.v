From Coq Require Extraction ExtrOcamlBasic.
From Wz Require Import lib.Bytes lib.Utf8 lib.ExtractBase C03.Gen C03.Trie C03.Model.
Extraction Language OCaml.
Extraction "C03/model_extracted.ml" force_types map_match adapter_match trie_of no_hooks rule_parts part_content
  part_weight dump_state quote make_redirect_url merge_slashes split_slash in_lang to_python.
