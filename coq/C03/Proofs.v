(* C03 proofs on the concrete router model (C03/Model.v), by instantiating C03/TrieFacts.v. *)
From Coq Require Import ZArith Lia.
From Wz Require Import lib.Bytes lib.Utf8 C03.Gen C03.Trie C03.TrieFacts C03.Model.
Open Scope N_scope.

(* ------------------------------------------------------------------ pins: the regex texts the
   hand-written language predicates of Model.in_lang stand for, the weights and flags the priority
   statements mention, the safe= strings *)
Lemma patterns_pinned :
  list_eqb rx_base [91; 94; 47; 93; 43]                                  (* [^/]+ *)
  && list_eqb rx_str_prefix [91; 94; 47; 93]                             (* [^/]  *)
  && list_eqb rx_int [92; 100; 43]                                       (* \d+ *)
  && list_eqb rx_float [92; 100; 43; 92; 46; 92; 100; 43]                (* \d+\.\d+ *)
  && list_eqb rx_path [91; 94; 47; 93; 40; 63; 115; 58; 46; 42; 63; 41]                       (* [^/](?s:.*?) *)
  && list_eqb rx_signed_prefix [45; 63]                                  (* -? *)
  && list_eqb rx_any_prefix [40; 63; 58] && list_eqb rx_any_suffix [41]  (* (?: ... ) *)
  && list_eqb rx_uuid
       [91; 65; 45; 70; 97; 45; 102; 48; 45; 57; 93; 123; 56; 125; 45;
        91; 65; 45; 70; 97; 45; 102; 48; 45; 57; 93; 123; 52; 125; 45;
        91; 65; 45; 70; 97; 45; 102; 48; 45; 57; 93; 123; 52; 125; 45;
        91; 65; 45; 70; 97; 45; 102; 48; 45; 57; 93; 123; 52; 125; 45;
        91; 65; 45; 70; 97; 45; 102; 48; 45; 57; 93; 123; 49; 50; 125]
  && list_eqb rx_group_open [40; 63; 80; 60; 95; 95; 119; 101; 114; 107; 122; 101; 117; 103; 95]   (* (?P<__werkzeug_ *)
  && list_eqb rx_group_mid [62] && list_eqb rx_group_close [41]
  && list_eqb rx_suffixed_tail [40; 63; 60; 33; 47; 41; 40; 47; 63; 41]  (* (?<!/)(/?) *)
  && list_eqb rx_end [92; 90]                                            (* \Z *)
  && list_eqb rx_merge_rule [47; 123; 50; 44; 125; 63] && list_eqb rx_merge_rule_repl [47]    (* /{2,}? -> / *)
  && list_eqb rx_merge_match [47; 123; 50; 44; 125; 63] && list_eqb rx_merge_match_repl [47]
  = true.
Proof. vm_compute. reflexivity. Qed.

Lemma weights_pinned :
  (weight_int =? 50)%Z && (weight_float =? 50)%Z && (weight_string =? 100)%Z && (weight_default =? 100)%Z
  && (weight_any =? 100)%Z && (weight_uuid =? 100)%Z && (weight_path =? 200)%Z
  && isolating_string && isolating_default && isolating_int && isolating_float && isolating_any && isolating_uuid
  && negb isolating_path = true.
Proof. vm_compute. reflexivity. Qed.

(* NumberConverter.to_python as translated from the source: exactly the documented rejections *)
Lemma num_rejects_spec fixed len num mn mx :
  num_rejects_length fixed len = (negb (fixed =? 0) && negb (len =? fixed))
  /\ num_rejects_range num mn mx =
     (match mn with Some m => (num <? m)%Z | None => false end
      || match mx with Some m => (m <? num)%Z | None => false end).
Proof. split; [reflexivity|]. unfold num_rejects_range. destruct mn, mx; reflexivity. Qed.

(* ------------------------------------------------------------------ decidable equalities are equalities *)
Lemma lex_eq_eq {A} (eq : A -> A -> bool) :
  (forall x y, eq x y = true -> x = y) -> forall a b, lex_eq eq a b = true -> a = b.
Proof.
  intros Heq. induction a as [|x a IH]; destruct b as [|y b]; cbn [lex_eq]; intro H; try discriminate; [reflexivity|].
  apply andb_prop in H. destruct H as [H1 H2]. f_equal; [apply Heq; exact H1|apply IH; exact H2].
Qed.

Lemma pair_eq_eq a b : pair_eq a b = true -> a = b.
Proof.
  destruct a as [a1 a2], b as [b1 b2]. unfold pair_eq. cbn [fst snd]. intro H.
  apply andb_prop in H. destruct H as [H1 H2]. apply Z.eqb_eq in H1, H2. subst. reflexivity.
Qed.

Lemma weight_eqb_eq a b : weight_eqb a b = true -> a = b.
Proof.
  destruct a as [a1 a2 a3 a4], b as [b1 b2 b3 b4]. unfold weight_eqb. cbn [w_ns w_sw w_na w_aw]. intro H.
  apply andb_prop in H. destruct H as [H H4]. apply andb_prop in H. destruct H as [H H3].
  apply andb_prop in H. destruct H as [H1 H2].
  apply Z.eqb_eq in H1, H3. apply (lex_eq_eq _ pair_eq_eq) in H2.
  apply (lex_eq_eq _ (fun x y => proj1 (Z.eqb_eq x y))) in H4. subst. reflexivity.
Qed.

Lemma opt_eqb_N_eq a b : opt_eqb N.eqb a b = true -> a = b.
Proof. destruct a, b; cbn [opt_eqb]; intro H; try discriminate; [apply N.eqb_eq in H; subst|]; reflexivity. Qed.

Lemma lang_eqb_eq a b : lang_eqb a b = true -> a = b.
Proof.
  destruct a, b; cbn [lang_eqb]; intro H; try discriminate; try reflexivity.
  - apply N.eqb_eq in H. subst. reflexivity.
  - apply andb_prop in H. destruct H as [H1 H2]. apply N.eqb_eq in H1. apply opt_eqb_N_eq in H2. subst. reflexivity.
  - apply Bool.eqb_prop in H. subst. reflexivity.
  - apply Bool.eqb_prop in H. subst. reflexivity.
  - apply (lex_eq_eq _ list_eqb_eq) in H. subst. reflexivity.
Qed.

Lemma dpart_eqb_eq a b : dpart_eqb a b = true -> a = b.
Proof.
  destruct a as [a1 a2 a3 a4 a5 a6], b as [b1 b2 b3 b4 b5 b6]. unfold dpart_eqb.
  cbn [d_pre d_lang d_post d_final d_suffixed d_weight]. intro H.
  repeat (apply andb_prop in H; let H' := fresh "H" in destruct H as [H H']).
  apply list_eqb_eq in H. apply lang_eqb_eq in H4. apply list_eqb_eq in H3.
  apply Bool.eqb_prop in H2, H1. apply weight_eqb_eq in H0. subst. reflexivity.
Qed.

(* ------------------------------------------------------------------ Spec, instantiated *)
Notation rres := (list (str * value)).
Definition admits (m : rmap) (r : rule) (parts : list str) : adm rres :=
  Trie.admits dpart rule rres pmatch (rstrict m) rconvert rparts r parts.
Definition rmethod_ok (r : rule) (meth : str) : bool := method_ok rule rmethods r meth.
(* [domain, *path.split("/")] for the request as MapAdapter.match sees it *)
Definition request_parts (m : rmap) (a : adapter) (path_info : str) : list str :=
  domain_part m a :: split_slash (path_part path_info).
Definition merged_parts (m : rmap) (a : adapter) (path_info : str) : list str :=
  domain_part m a :: split_slash (merge_slashes (path_part path_info)).

(* what StateMachineMatcher.match answers, justified rule by rule *)
Lemma matcher_ok_sound m domain path meth ws r v :
  matcher_run m (trie_of m) domain path meth ws = MOk rule rres r v ->
  In r (m_rules m) /\ admits m r (domain :: split_slash path) = ADirect rres v
  /\ rmethod_ok r meth = true /\ r_websocket r = ws.
Proof.
  unfold matcher_run, matcher_match, trie_of.
  destruct (smatch _ _ _ _ _ _ _ _ _ _ _ (domain :: split_slash path) []) as [[x h1] w1] eqn:E1.
  destruct x as [|r1 v1|].
  - destruct (m_merge m); [|discriminate].
    destruct (smatch _ _ _ _ _ _ _ _ _ _ _ (domain :: split_slash (merge_slashes path)) []) as [[x2 h2] w2].
    destruct x2 as [|r2 v2|]; try discriminate. destruct (rmerge m r2); discriminate.
  - intro H. injection H as <- <-.
    exact (root_found_sound dpart rule rres pmatch dpart_eqb dpart_wlt rmethods r_websocket (rstrict m) rconvert rparts
             dpart_eqb_eq _ _ _ _ _ _ _ _ E1).
  - discriminate.
Qed.

Inductive path_reason (m : rmap) (domain path meth : str) (ws : bool) (p' : str) : Prop :=
| PR_slash r :
    In r (m_rules m) -> admits m r (domain :: split_slash path) = ASlash rres ->
    rmethod_ok r meth = true -> r_websocket r = ws -> p' = path ++ [SLASH] -> path_reason m domain path meth ws p'
| PR_merged_slash r :
    m_merge m = true -> In r (m_rules m) ->
    admits m r (domain :: split_slash (merge_slashes path)) = ASlash rres ->
    rmethod_ok r meth = true -> r_websocket r = ws -> p' = merge_slashes path ++ [SLASH] ->
    path_reason m domain path meth ws p'
| PR_merged r v :
    m_merge m = true -> In r (m_rules m) -> rmerge m r = true ->
    admits m r (domain :: split_slash (merge_slashes path)) = ADirect rres v ->
    rmethod_ok r meth = true -> r_websocket r = ws -> p' = merge_slashes path ->
    path_reason m domain path meth ws p'.

Lemma matcher_path_sound m domain path meth ws p' :
  matcher_run m (trie_of m) domain path meth ws = MPath rule rres p' -> path_reason m domain path meth ws p'.
Proof.
  unfold matcher_run, matcher_match, trie_of.
  destruct (smatch _ _ _ _ _ _ _ _ _ _ _ (domain :: split_slash path) []) as [[x h1] w1] eqn:E1.
  destruct x as [|r1 v1|].
  - destruct (m_merge m) eqn:Em; [|discriminate].
    destruct (smatch _ _ _ _ _ _ _ _ _ _ _ (domain :: split_slash (merge_slashes path)) []) as [[x2 h2] w2] eqn:E2.
    destruct x2 as [|r2 v2|]; try discriminate.
    + destruct (rmerge m r2) eqn:Er; [|discriminate]. intro H. injection H as <-.
      destruct (root_found_sound dpart rule rres pmatch dpart_eqb dpart_wlt rmethods r_websocket (rstrict m) rconvert rparts
                  dpart_eqb_eq _ _ _ _ _ _ _ _ E2) as (Hin & Ha & Hm & Hw).
      eapply PR_merged; eauto.
    + intro H. injection H as <-.
      destruct (root_slash_sound dpart rule rres pmatch dpart_eqb dpart_wlt rmethods r_websocket (rstrict m) rconvert rparts
                  dpart_eqb_eq _ _ _ _ _ _ E2) as (r & Hin & Ha & Hm & Hw).
      eapply PR_merged_slash; eauto.
  - discriminate.
  - intro H. injection H as <-.
    destruct (root_slash_sound dpart rule rres pmatch dpart_eqb dpart_wlt rmethods r_websocket (rstrict m) rconvert rparts
                dpart_eqb_eq _ _ _ _ _ _ E1) as (r & Hin & Ha & Hm & Hw).
    eapply PR_slash; eauto.
Qed.

(* ------------------------------------------------------------------ MapAdapter.match *)
Definition upper (s : str) : str := map ascii_upper s.

Theorem match_sound h m a p me r vs :
  map_match h m a p me = Match r vs ->
  In r (m_rules m)
  /\ (exists v, admits m r (request_parts m a p) = ADirect rres v /\ vs = dict_update v (r_defaults r))
  /\ rmethod_ok r (upper me) = true /\ r_websocket r = a_websocket a.
Proof.
  unfold map_match, adapter_match.
  destruct (matcher_run m (trie_of m) (domain_part m a) (path_part p) (map ascii_upper me) (a_websocket a))
    as [r0 v0|p'|hm wsm] eqn:E.
  - apply matcher_ok_sound in E. destruct E as (Hin & Ha & Hm & Hw).
    destruct (r_alias r0 && m_redirect_defaults m); [destruct (h_alias h m a (map ascii_upper me) r0 (dict_update v0 (r_defaults r0))); discriminate|].
    assert (Hfin : Match r0 (dict_update v0 (r_defaults r0)) = Match r vs ->
                   In r (m_rules m) /\ (exists v, admits m r (request_parts m a p) = ADirect rres v /\ vs = dict_update v (r_defaults r))
                   /\ rmethod_ok r (upper me) = true /\ r_websocket r = a_websocket a).
    { intro H. injection H as <- <-. repeat split; try assumption. exists v0. split; [exact Ha|reflexivity]. }
    destruct (m_redirect_defaults m); [|exact Hfin].
    destruct (h_default h m a (map ascii_upper me) r0 (dict_update v0 (r_defaults r0))) as [[u0|]| |]; try discriminate. exact Hfin.
  - discriminate.
  - destruct (negb (is_nil hm)); [discriminate|]. destruct wsm; discriminate.
Qed.

Inductive redirect_reason (h : hooks) (m : rmap) (a : adapter) (p me u : str) : Prop :=
| RR_path p' :
    path_reason m (domain_part m a) (path_part p) (upper me) (a_websocket a) p' ->
    u = make_redirect_url m a (quote safe_redirect p') None -> redirect_reason h m a p me u
| RR_builder r v :
    In r (m_rules m) -> admits m r (request_parts m a p) = ADirect rres v ->
    rmethod_ok r (upper me) = true -> r_websocket r = a_websocket a -> m_redirect_defaults m = true ->
    (r_alias r = true /\ h_alias h m a (upper me) r (dict_update v (r_defaults r)) = BOk u
     \/ h_default h m a (upper me) r (dict_update v (r_defaults r)) = BOk (Some u)) ->
    redirect_reason h m a p me u.

Theorem redirect_sound h m a p me u :
  map_match h m a p me = RedirectTo u -> redirect_reason h m a p me u.
Proof.
  unfold map_match, adapter_match.
  destruct (matcher_run m (trie_of m) (domain_part m a) (path_part p) (map ascii_upper me) (a_websocket a))
    as [r0 v0|p'|hm wsm] eqn:E.
  - apply matcher_ok_sound in E. destruct E as (Hin & Ha & Hm & Hw).
    destruct (r_alias r0) eqn:Eal; cbn [andb].
    + destruct (m_redirect_defaults m) eqn:Erd.
      * destruct (h_alias h m a (map ascii_upper me) r0 (dict_update v0 (r_defaults r0))) as [u0| |] eqn:Eh; try discriminate.
        intro H. injection H as <-. eapply RR_builder; eauto.
      * discriminate.
    + destruct (m_redirect_defaults m) eqn:Erd; [|discriminate].
      destruct (h_default h m a (map ascii_upper me) r0 (dict_update v0 (r_defaults r0))) as [[u0|]| |] eqn:Ed; try discriminate.
      intro H. injection H as <-. eapply RR_builder; eauto.
  - intro H. injection H as <-. apply matcher_path_sound in E. eapply RR_path; [exact E|reflexivity].
  - destruct (negb (is_nil hm)); [discriminate|]. destruct wsm; discriminate.
Qed.

(* ------------------------------------------------------------------ examples (hypotheses are satisfiable;
   the first is the formerly failing input of DESIGN.md section 8, fixed by werkzeug commit 0f9d43b) *)
Definition mk_rule (idx : N) (segs : list seg) (tail : option str) (branch : bool) (meths : option (list str)) : rule :=
  {| r_idx := idx; r_endpoint := idx; r_dom := SLit []; r_segs := segs; r_tail := tail; r_branch := branch;
     r_methods := meths; r_strict_opt := None; r_merge_opt := None; r_websocket := false; r_alias := false;
     r_defaults := [] |}.
Definition mk_map (rules : list rule) : rmap :=
  {| m_rules := rules; m_strict := true; m_merge := true; m_redirect_defaults := true; m_host_matching := false |}.
Definition ex_adapter : adapter :=
  {| a_scheme := HTTP; a_server := [101; 120; 97; 109; 112; 108; 101; 46; 99; 111; 109]; a_script := [SLASH];
     a_subdomain := None; a_query := [] |}.
(* Map([Rule('/<int(fixed_digits=3):a>'), Rule('/<string:b>')]) *)
Definition ex_r0 : rule := mk_rule 0 [SDyn [] (CInt 3 None None false) [97] []] None false None.
Definition ex_r1 : rule := mk_rule 1 [SDyn [] (CStr None 1 None) [98] []] None false None.
Definition ex_map : rmap := mk_map [ex_r0; ex_r1].
(* Map([Rule('/<int(max=5):a>/')]) *)
Definition ex_r2 : rule := mk_rule 0 [SDyn [] (CInt 0 None (Some 5%Z) false) [97] []] None true None.
Definition ex_map2 : rmap := mk_map [ex_r2].

Lemma ex_match_12 : map_match no_hooks ex_map ex_adapter [47; 49; 50] GET = Match ex_r1 [([98], VStr [49; 50])].
Proof. vm_compute. reflexivity. Qed.
Lemma ex_match_123 : map_match no_hooks ex_map ex_adapter [47; 49; 50; 51] GET = Match ex_r0 [([97], VInt 123)].
Proof. vm_compute. reflexivity. Qed.
(* '/3' -> http://example.com/3/ ; '/9' is NotFound (no redirect to a URL that does not match) *)
Lemma ex_redirect_3 :
  map_match no_hooks ex_map2 ex_adapter [47; 51] GET
  = RedirectTo ([104; 116; 116; 112; 58; 47; 47] ++ a_server ex_adapter ++ [47; 51; 47]).
Proof. vm_compute. reflexivity. Qed.
Lemma ex_notfound_9 : map_match no_hooks ex_map2 ex_adapter [47; 57] GET = NotFound.
Proof. vm_compute. reflexivity. Qed.

(* ================================================================== completeness *)
(* r serves the request for the path parts P: its pattern admits P (directly or but for the trailing
   slash), for the request method and protocol *)
Definition serves (m : rmap) (meth : str) (ws : bool) (r : rule) (P : list str) : Prop :=
  admits m r P <> ANo rres /\ rmethod_ok r meth = true /\ r_websocket r = ws.
Definition wrong_method (m : rmap) (meth : str) (r : rule) (P : list str) : Prop :=
  exists v, admits m r P = ADirect rres v /\ rmethod_ok r meth = false.
Definition wrong_protocol (m : rmap) (meth : str) (ws : bool) (r : rule) (P : list str) : Prop :=
  exists v, admits m r P = ADirect rres v /\ rmethod_ok r meth = true /\ r_websocket r <> ws.
Definition rmethods_of (r : rule) : list str := methods_of rule rmethods r.
(* merge_slashes is set at map level only (the C03 domain; per-rule settings: C12) *)
Definition uniform_merge (m : rmap) : Prop := forall r, In r (m_rules m) -> rmerge m r = m_merge m.

Section Classified.
  Variables (m : rmap) (a : adapter) (p me : str).
  Let P := request_parts m a p.
  Let P' := merged_parts m a p.
  Let meth := upper me.
  Let ws := a_websocket a.
  (* the path, or - with merge_slashes - the path with doubled slashes merged *)
  Definition on_some_path (Q : list str -> Prop) : Prop := Q P \/ (m_merge m = true /\ Q P').
  Definition nobody_serves : Prop :=
    forall r, In r (m_rules m) -> ~ on_some_path (serves m meth ws r).

  Inductive classified : outcome -> Prop :=
  | CL_match r vs :
      (exists r', In r' (m_rules m) /\ on_some_path (serves m meth ws r')) -> classified (Match r vs)
  | CL_redirect u :
      (exists r', In r' (m_rules m) /\ on_some_path (serves m meth ws r')) -> classified (RedirectTo u)
  | CL_raised e :      (* the URL builder raised while canonicalising a match *)
      (exists r', In r' (m_rules m) /\ on_some_path (serves m meth ws r')) -> classified (Raised e)
  | CL_405 ms :
      nobody_serves -> ms <> [] ->
      (forall x, In x ms <-> exists r, In r (m_rules m) /\ on_some_path (wrong_method m meth r) /\ In x (rmethods_of r)) ->
      classified (MethodNotAllowed ms)
  | CL_ws :
      nobody_serves ->
      (forall r x, In r (m_rules m) -> on_some_path (wrong_method m meth r) -> ~ In x (rmethods_of r)) ->
      (exists r, In r (m_rules m) /\ on_some_path (wrong_protocol m meth ws r)) ->
      classified WsMismatch
  | CL_404 :
      nobody_serves ->
      (forall r x, In r (m_rules m) -> on_some_path (wrong_method m meth r) -> ~ In x (rmethods_of r)) ->
      (forall r, In r (m_rules m) -> ~ on_some_path (wrong_protocol m meth ws r)) ->
      classified NotFound.
End Classified.

Lemma serves_of_direct m meth ws r P v :
  admits m r P = ADirect rres v -> rmethod_ok r meth = true -> r_websocket r = ws -> serves m meth ws r P.
Proof. intros Ha Hm Hw. split; [rewrite Ha; discriminate|split; assumption]. Qed.
Lemma serves_of_slash m meth ws r P :
  admits m r P = ASlash rres -> rmethod_ok r meth = true -> r_websocket r = ws -> serves m meth ws r P.
Proof. intros Ha Hm Hw. split; [rewrite Ha; discriminate|split; assumption]. Qed.

(* the fruitless first/second pass, in the vocabulary above *)
Lemma pass_none m meth ws P hm wsm :
  smatch dpart rule rres pmatch rmethods r_websocket (rstrict m) rconvert meth ws (trie_of m) P [] = (MNone rule rres, hm, wsm) ->
  (forall r, In r (m_rules m) -> ~ serves m meth ws r P)
  /\ (forall x, In x hm <-> exists r, In r (m_rules m) /\ wrong_method m meth r P /\ In x (rmethods_of r))
  /\ (wsm = true <-> exists r, In r (m_rules m) /\ wrong_protocol m meth ws r P).
Proof.
  intro H. unfold trie_of in H.
  destruct (root_none_char dpart rule rres pmatch dpart_eqb dpart_wlt rmethods r_websocket (rstrict m) rconvert rparts
              dpart_eqb_eq _ _ _ _ _ _ H) as (H1 & H2 & H3).
  split; [|split].
  - intros r Hr (Ha & Hm & Hw). exact (H1 r Hr Ha Hm Hw).
  - intro x. rewrite H2. split.
    + intros (r & v & Hr & Ha & Hm & Hx). exists r. split; [exact Hr|]. split; [exists v; split; assumption|exact Hx].
    + intros (r & Hr & (v & Ha & Hm) & Hx). exists r, v. auto.
  - rewrite H3. split.
    + intros (r & v & Hr & Ha & Hm & Hw). exists r. split; [exact Hr|]. exists v. auto.
    + intros (r & Hr & (v & Ha & Hm & Hw)). exists r, v. auto.
Qed.

Lemma classify_nomatch m a p me hm wsm :
  nobody_serves m a p me ->
  (forall x, In x hm <-> exists r, In r (m_rules m) /\ on_some_path m a p (wrong_method m (upper me) r) /\ In x (rmethods_of r)) ->
  (wsm = true <-> exists r, In r (m_rules m) /\ on_some_path m a p (wrong_protocol m (upper me) (a_websocket a) r)) ->
  classified m a p me (if negb (is_nil hm) then MethodNotAllowed hm else if wsm then WsMismatch else NotFound).
Proof.
  intros Hn Hh Hw. destruct hm as [|x0 hm]; cbn [is_nil negb].
  - assert (Hno : forall r x, In r (m_rules m) -> on_some_path m a p (wrong_method m (upper me) r) -> ~ In x (rmethods_of r)).
    { intros r x Hr Hq Hx. apply (proj2 (Hh x)). exists r. auto. }
    destruct wsm.
    + apply CL_ws; [exact Hn|exact Hno|]. apply (proj1 Hw). reflexivity.
    + apply CL_404; [exact Hn|exact Hno|]. intros r Hr Hq. assert (false = true) by (apply (proj2 Hw); exists r; auto). discriminate.
  - apply CL_405; [exact Hn|discriminate|exact Hh].
Qed.

Theorem complete h m a p me : uniform_merge m -> classified m a p me (map_match h m a p me).
Proof.
  intro Hum. unfold map_match, adapter_match, matcher_run, matcher_match.
  fold (upper me).
  destruct (smatch _ _ _ _ _ _ _ _ _ _ (trie_of m) (domain_part m a :: split_slash (path_part p)) []) as [[x h1] w1] eqn:E1.
  change (domain_part m a :: split_slash (path_part p)) with (request_parts m a p) in E1.
  destruct x as [|r1 v1|].
  - (* nothing on the path itself *)
    destruct (pass_none _ _ _ _ _ _ E1) as (N1 & H1 & W1).
    destruct (m_merge m) eqn:Em.
    + destruct (smatch _ _ _ _ _ _ _ _ _ _ (trie_of m) (domain_part m a :: split_slash (merge_slashes (path_part p))) []) as [[x2 h2] w2] eqn:E2.
      change (domain_part m a :: split_slash (merge_slashes (path_part p))) with (merged_parts m a p) in E2.
      destruct x2 as [|r2 v2|].
      * destruct (pass_none _ _ _ _ _ _ E2) as (N2 & H2 & W2).
        apply classify_nomatch.
        -- intros r Hr [Hs|[_ Hs]]; [exact (N1 r Hr Hs)|exact (N2 r Hr Hs)].
        -- intro x. rewrite in_app_iff, H1, H2. unfold on_some_path. rewrite Em. split.
           ++ intros [(r & Hr & Hq & Hx)|(r & Hr & Hq & Hx)]; exists r; auto.
           ++ intros (r & Hr & [Hq|[_ Hq]] & Hx); [left|right]; exists r; auto.
        -- unfold on_some_path. rewrite Em. split.
           ++ intro Hw. apply orb_prop in Hw. destruct Hw as [Hw|Hw]; [apply W1 in Hw|apply W2 in Hw];
                destruct Hw as (r & Hr & Hq); exists r; auto.
           ++ intros (r & Hr & [Hq|[_ Hq]]); apply orb_true_iff; [left; apply W1|right; apply W2]; exists r; auto.
      * unfold trie_of in E2.
        destruct (root_found_sound dpart rule rres pmatch dpart_eqb dpart_wlt rmethods r_websocket (rstrict m) rconvert rparts
                    dpart_eqb_eq _ _ _ _ _ _ _ _ E2) as (Hin & Ha & Hm & Hw).
        rewrite (Hum r2 Hin), Em. apply CL_redirect. exists r2. split; [exact Hin|]. right. split; [exact Em|].
        eapply serves_of_direct; eassumption.
      * unfold trie_of in E2.
        destruct (root_slash_sound dpart rule rres pmatch dpart_eqb dpart_wlt rmethods r_websocket (rstrict m) rconvert rparts
                    dpart_eqb_eq _ _ _ _ _ _ E2) as (r & Hin & Ha & Hm & Hw).
        apply CL_redirect. exists r. split; [exact Hin|]. right. split; [exact Em|]. eapply serves_of_slash; eassumption.
    + apply classify_nomatch.
      * intros r Hr [Hs|[Hc _]]; [exact (N1 r Hr Hs)|congruence].
      * intro x. rewrite H1. unfold on_some_path. rewrite Em. split.
        -- intros (r & Hr & Hq & Hx). exists r. auto.
        -- intros (r & Hr & [Hq|[Hc _]] & Hx); [exists r; auto|congruence].
      * rewrite W1. unfold on_some_path. rewrite Em. split.
        -- intros (r & Hr & Hq). exists r. auto.
        -- intros (r & Hr & [Hq|[Hc _]]); [exists r; auto|congruence].
  - unfold trie_of in E1.
    destruct (root_found_sound dpart rule rres pmatch dpart_eqb dpart_wlt rmethods r_websocket (rstrict m) rconvert rparts
                dpart_eqb_eq _ _ _ _ _ _ _ _ E1) as (Hin & Ha & Hm & Hw).
    assert (Hs : exists r', In r' (m_rules m) /\ on_some_path m a p (serves m (upper me) (a_websocket a) r')).
    { exists r1. split; [exact Hin|]. left. eapply serves_of_direct; eassumption. }
    destruct (r_alias r1 && m_redirect_defaults m).
    { destruct (h_alias h m a (upper me) r1 (dict_update v1 (r_defaults r1))); [apply CL_redirect|apply CL_raised|apply CL_raised]; exact Hs. }
    destruct (m_redirect_defaults m); [|apply CL_match; exact Hs].
    destruct (h_default h m a (upper me) r1 (dict_update v1 (r_defaults r1))) as [[u0|]| |];
      [apply CL_redirect|apply CL_match|apply CL_raised|apply CL_raised]; exact Hs.
  - unfold trie_of in E1.
    destruct (root_slash_sound dpart rule rres pmatch dpart_eqb dpart_wlt rmethods r_websocket (rstrict m) rconvert rparts
                dpart_eqb_eq _ _ _ _ _ _ E1) as (r & Hin & Ha & Hm & Hw).
    apply CL_redirect. exists r. split; [exact Hin|]. left. eapply serves_of_slash; eassumption.
Qed.

(* the statement in the property's words *)
Corollary notfound_only_if_unserved h m a p me :
  uniform_merge m -> map_match h m a p me = NotFound ->
  forall r, In r (m_rules m) ->
    ~ on_some_path m a p (serves m (upper me) (a_websocket a) r)
    /\ (on_some_path m a p (wrong_method m (upper me) r) -> rmethods_of r = []).
Proof.
  intros Hum H r Hr. pose proof (complete h m a p me Hum) as C. rewrite H in C. inversion C as [| | | | |Hn Hno Hw]; subst.
  split; [exact (Hn r Hr)|]. intro Hq. destruct (rmethods_of r) as [|x l] eqn:E; [reflexivity|].
  exfalso. apply (Hno r x Hr Hq). rewrite E. left. reflexivity.
Qed.

Corollary method_not_allowed_iff h m a p me ms :
  uniform_merge m ->
  (map_match h m a p me = MethodNotAllowed ms ->
     nobody_serves m a p me /\ ms <> []
     /\ forall x, In x ms <-> exists r, In r (m_rules m) /\ on_some_path m a p (wrong_method m (upper me) r) /\ In x (rmethods_of r)).
Proof.
  intros Hum H. pose proof (complete h m a p me Hum) as C. rewrite H in C. inversion C; subst. auto.
Qed.

Corollary served_never_refused h m a p me r :
  uniform_merge m -> In r (m_rules m) -> on_some_path m a p (serves m (upper me) (a_websocket a) r) ->
  (exists r' vs, map_match h m a p me = Match r' vs) \/ (exists u, map_match h m a p me = RedirectTo u)
  \/ (exists e, map_match h m a p me = Raised e).
Proof.
  intros Hum Hr Hs. pose proof (complete h m a p me Hum) as C.
  destruct (map_match h m a p me) as [r' vs|u| |ms| |e] eqn:E.
  - left. eauto.
  - right. left. eauto.
  - inversion C as [| | | | |Hn _ _]; subst. exfalso. exact (Hn r Hr Hs).
  - inversion C as [| | |? Hn _ _| |]; subst. exfalso. exact (Hn r Hr Hs).
  - inversion C as [| | | |Hn _ _|]; subst. exfalso. exact (Hn r Hr Hs).
  - right. right. eauto.
Qed.

Lemma ex_uniform : uniform_merge ex_map /\ uniform_merge ex_map2.
Proof. split; intros r Hr; cbn in Hr; repeat (destruct Hr as [<-|Hr]; [reflexivity|]); destruct Hr. Qed.

(* Rule('/a', methods=[]) admits '/a' but lists no method: the answer is NotFound, not a 405 with an
   empty Allow list (the reason why the 405 clause speaks of the listed methods) *)
Definition ex_r4 : rule := mk_rule 0 [SLit [97]] None false (Some []).
Lemma ex_empty_methods :
  map_match no_hooks (mk_map [ex_r4]) ex_adapter [47; 97] GET = NotFound
  /\ wrong_method (mk_map [ex_r4]) GET ex_r4 (request_parts (mk_map [ex_r4]) ex_adapter [47; 97]).
Proof. split; [vm_compute; reflexivity|]. exists []. split; vm_compute; reflexivity. Qed.

(* when some rule serves the path itself, the first pass answers: a match, or the slash redirect of a
   strict rule that admits the path but for its trailing slash *)
Lemma matcher_first_pass m domain path meth ws r :
  In r (m_rules m) -> serves m meth ws r (domain :: split_slash path) ->
  (exists r1 v1, matcher_run m (trie_of m) domain path meth ws = MOk rule rres r1 v1)
  \/ (matcher_run m (trie_of m) domain path meth ws = MPath rule rres (path ++ [SLASH])
      /\ exists r2, In r2 (m_rules m) /\ admits m r2 (domain :: split_slash path) = ASlash rres).
Proof.
  intros Hin (Ha & Hm & Hw). unfold matcher_run, matcher_match.
  destruct (smatch _ _ _ _ _ _ _ _ _ _ (trie_of m) (domain :: split_slash path) []) as [[x h1] w1] eqn:E1.
  unfold trie_of in E1.
  pose proof (root_complete_hit dpart rule rres pmatch dpart_eqb dpart_wlt rmethods r_websocket (rstrict m) rconvert rparts
                dpart_eqb_eq (m_rules m) meth ws (domain :: split_slash path) r Hin Ha Hm Hw) as Hc.
  rewrite E1 in Hc. cbn [fst] in Hc. destruct x as [|r1 v1|]; [contradiction| |].
  - left. eauto.
  - right. split; [reflexivity|].
    destruct (root_slash_sound dpart rule rres pmatch dpart_eqb dpart_wlt rmethods r_websocket (rstrict m) rconvert rparts
                dpart_eqb_eq _ _ _ _ _ _ E1) as (r2 & Hin2 & Ha2 & _ & _). eauto.
Qed.

(* ================================================================== the decision chains of _match, regenerated (T2) *)
Definition action_of_step (st : step rres) : gaction :=
  match st with
  | SSkip _ => GContinue | SMeth _ _ => GHaveMatch | SWs _ => GWsMismatch | SFound _ _ => GReturn | SSlashReq _ => GSlashRequired
  end.
Definition has_methods (r : rule) : bool := match rmethods r with Some _ => true | None => false end.
Definition in_methods (r : rule) (meth : str) : bool := match rmethods r with Some ms => existsb (list_eqb meth) ms | None => false end.
Definition conv_ok (r : rule) (vals : list str) : bool := match rconvert r vals with Some _ => true | None => false end.

(* the model's three rule loops take, rule by rule, exactly the action the source's loops take *)
Lemma match_loops_regenerated m meth ws r vals :
  let cs k := cand_step rule rres rmethods r_websocket (rstrict m) rconvert meth ws (k, r, vals) in
  let g f := f (conv_ok r vals) (rstrict m r) (has_methods r) (in_methods r meth) (Bool.eqb (r_websocket r) ws) in
  action_of_step (cs KHere) = g g_step_here
  /\ action_of_step (cs KSlash) = g g_step_slash
  /\ action_of_step (cs KLate) = g g_step_late.
Proof.
  cbv zeta. unfold cand_step, conv_ok, has_methods, in_methods, method_ok, g_step_here, g_step_slash, g_step_late.
  destruct (rconvert r vals); destruct (rstrict m r); destruct (rmethods r) as [ms|]; try destruct (existsb (list_eqb meth) ms);
    destruct (r_websocket r); destruct ws; repeat split; reflexivity.
Qed.

(* block order of _match (1 base case parts == [], 2 static transition, 3 dynamic transitions, 4 late trailing-slash
   clause, 9 return None; inside the base case: 5 rules of the state, 6 rules behind the "" transition) and the
   second-pass tests of match(), as regenerated from the source *)
Lemma match_blocks_regenerated :
  g_match_blocks = [1; 2; 3; 4; 9] /\ g_base_blocks = [5; 6; 9]
  /\ (forall merge rv_none, g_second_pass merge rv_none = merge && rv_none)
  /\ (forall rv_none rule_merge, g_second_nomatch rv_none rule_merge = rv_none || negb rule_merge).
Proof. repeat split; reflexivity. Qed.
