(* C03: Python's tuple / list comparison of Weighting values is a total preorder:
   weight_lt is asymmetric and its complement is transitive (used by the priority theorem). *)
From Coq Require Import ZArith Lia.
From Wz Require Import lib.Bytes C03.Gen C03.Trie C03.Model.
Open Scope Z_scope.

Definition lexc (c1 c2 : comparison) : comparison := match c1 with Eq => c2 | _ => c1 end.

Record good {A} (cmp : A -> A -> comparison) : Prop := {
  g_opp : forall a b, cmp b a = CompOpp (cmp a b);
  g_eq : forall a b c, cmp a b = Eq -> cmp b c = cmp a c;
  g_ltlt : forall a b c, cmp a b = Lt -> cmp b c = Lt -> cmp a c = Lt;
  g_lteq : forall a b c, cmp a b = Lt -> cmp b c = Eq -> cmp a c = Lt }.

Lemma good_le_trans {A} (cmp : A -> A -> comparison) : good cmp ->
  forall a b c, cmp a b <> Gt -> cmp b c <> Gt -> cmp a c <> Gt.
Proof.
  intros G a b c Hab Hbc. destruct (cmp a b) eqn:E1; [| |contradiction].
  - rewrite <- (g_eq _ G _ _ c E1). exact Hbc.
  - destruct (cmp b c) eqn:E2; [| |contradiction].
    + rewrite (g_lteq _ G _ _ _ E1 E2). discriminate.
    + rewrite (g_ltlt _ G _ _ _ E1 E2). discriminate.
Qed.

Lemma good_Z : good Z.compare.
Proof.
  constructor.
  - intros a b. apply Z.compare_antisym.
  - intros a b c H. apply Z.compare_eq in H. subst. reflexivity.
  - intros a b c H1 H2. rewrite Z.compare_lt_iff in *. lia.
  - intros a b c H1 H2. apply Z.compare_eq in H2. subst. exact H1.
Qed.

Definition proj_cmp {A B} (f : A -> B) (cmp : B -> B -> comparison) (a b : A) : comparison := cmp (f a) (f b).
Lemma good_proj {A B} (f : A -> B) cmp : good cmp -> good (proj_cmp f cmp).
Proof.
  intro G. unfold proj_cmp. constructor; intros.
  - apply (g_opp _ G).
  - apply (g_eq _ G); assumption.
  - eapply (g_ltlt _ G); eassumption.
  - eapply (g_lteq _ G); eassumption.
Qed.

Definition lex2 {A} (c1 c2 : A -> A -> comparison) (a b : A) : comparison := lexc (c1 a b) (c2 a b).
Lemma good_lex2 {A} (c1 c2 : A -> A -> comparison) : good c1 -> good c2 -> good (lex2 c1 c2).
Proof.
  intros G1 G2. unfold lex2, lexc. constructor.
  - intros a b. rewrite (g_opp _ G1 a b), (g_opp _ G2 a b). destruct (c1 a b); reflexivity.
  - intros a b c H. destruct (c1 a b) eqn:E1; try discriminate.
    rewrite (g_eq _ G1 _ _ c E1). rewrite (g_eq _ G2 _ _ c H). reflexivity.
  - intros a b c H1 H2. destruct (c1 a b) eqn:E1; try discriminate.
    + rewrite <- (g_eq _ G1 _ _ c E1). destruct (c1 b c) eqn:E2; try discriminate; [|reflexivity].
      exact (g_ltlt _ G2 _ _ _ H1 H2).
    + destruct (c1 b c) eqn:E2; try discriminate.
      * rewrite (g_lteq _ G1 _ _ _ E1 E2). reflexivity.
      * rewrite (g_ltlt _ G1 _ _ _ E1 E2). reflexivity.
  - intros a b c H1 H2. destruct (c1 b c) eqn:E2; try discriminate.
    destruct (c1 a b) eqn:E1; try discriminate.
    + rewrite <- (g_eq _ G1 _ _ c E1), E2. exact (g_lteq _ G2 _ _ _ H1 H2).
    + rewrite (g_lteq _ G1 _ _ _ E1 E2). reflexivity.
Qed.

Fixpoint list_cmp {A} (cmp : A -> A -> comparison) (a b : list A) : comparison :=
  match a, b with
  | [], [] => Eq
  | [], _ :: _ => Lt
  | _ :: _, [] => Gt
  | x :: a', y :: b' => lexc (cmp x y) (list_cmp cmp a' b')
  end.

Lemma good_list {A} (cmp : A -> A -> comparison) : good cmp -> good (list_cmp cmp).
Proof.
  intro G. constructor.
  - induction a as [|x a IH]; destruct b as [|y b]; cbn [list_cmp]; try reflexivity.
    rewrite (g_opp _ G x y), IH. unfold lexc. destruct (cmp x y); reflexivity.
  - induction a as [|x a IH]; destruct b as [|y b]; cbn [list_cmp]; intros c H; try discriminate; [reflexivity|].
    unfold lexc in H. destruct (cmp x y) eqn:E1; try discriminate.
    destruct c as [|z c]; cbn [list_cmp]; [reflexivity|]. rewrite (g_eq _ G _ _ z E1), (IH _ _ H). reflexivity.
  - induction a as [|x a IH]; destruct b as [|y b]; destruct c as [|z c]; cbn [list_cmp]; intros H1 H2; try discriminate; try reflexivity.
    unfold lexc in *. destruct (cmp x y) eqn:E1; try discriminate.
    + rewrite <- (g_eq _ G _ _ z E1). destruct (cmp y z) eqn:E2; try discriminate; [|reflexivity]. exact (IH _ _ H1 H2).
    + destruct (cmp y z) eqn:E2; try discriminate.
      * rewrite (g_lteq _ G _ _ _ E1 E2). reflexivity.
      * rewrite (g_ltlt _ G _ _ _ E1 E2). reflexivity.
  - induction a as [|x a IH]; destruct b as [|y b]; destruct c as [|z c]; cbn [list_cmp]; intros H1 H2; try discriminate; try reflexivity.
    unfold lexc in *. destruct (cmp y z) eqn:E2; try discriminate.
    destruct (cmp x y) eqn:E1; try discriminate.
    + rewrite <- (g_eq _ G _ _ z E1), E2. exact (IH _ _ H1 H2).
    + rewrite (g_lteq _ G _ _ _ E1 E2). reflexivity.
Qed.

(* ------------------------------------------------------------------ the model's boolean comparisons are these *)
Definition pair_cmp : Z * Z -> Z * Z -> comparison := lex2 (proj_cmp fst Z.compare) (proj_cmp snd Z.compare).
Definition wcmp : weight -> weight -> comparison :=
  lex2 (proj_cmp w_ns Z.compare)
    (lex2 (proj_cmp w_sw (list_cmp pair_cmp))
       (lex2 (proj_cmp w_na Z.compare) (proj_cmp w_aw (list_cmp Z.compare)))).

Lemma good_wcmp : good wcmp.
Proof.
  assert (Gp : good pair_cmp).
  { unfold pair_cmp. apply good_lex2; apply good_proj; exact good_Z. }
  unfold wcmp. apply good_lex2; [apply good_proj; exact good_Z|].
  apply good_lex2; [apply good_proj; apply good_list; exact Gp|].
  apply good_lex2; [apply good_proj; exact good_Z|]. apply good_proj. apply good_list. exact good_Z.
Qed.

Lemma ltb_cmp a b : (a <? b) = true <-> Z.compare a b = Lt.
Proof. rewrite Z.ltb_lt. apply iff_sym, Z.compare_lt_iff. Qed.
Lemma eqb_cmp a b : (a =? b) = true <-> Z.compare a b = Eq.
Proof. rewrite Z.eqb_eq. apply iff_sym, Z.compare_eq_iff. Qed.

Lemma pair_lt_cmp a b : pair_lt a b = true <-> pair_cmp a b = Lt.
Proof.
  unfold pair_lt, pair_cmp, lex2, proj_cmp, lexc. destruct (Z.compare_spec (fst a) (fst b)) as [E|E|E].
  - rewrite E, Z.ltb_irrefl, Z.eqb_refl. cbn [orb andb]. apply ltb_cmp.
  - replace (fst a <? fst b) with true by (symmetry; apply Z.ltb_lt; exact E). cbn [orb]. split; reflexivity.
  - replace (fst a <? fst b) with false by (symmetry; apply Z.ltb_ge; lia).
    replace (fst a =? fst b) with false by (symmetry; apply Z.eqb_neq; lia). cbn [orb andb]. split; discriminate.
Qed.
Lemma pair_eq_cmp a b : pair_eq a b = true <-> pair_cmp a b = Eq.
Proof.
  unfold pair_eq, pair_cmp, lex2, proj_cmp, lexc. destruct (Z.compare_spec (fst a) (fst b)) as [E|E|E].
  - rewrite E, Z.eqb_refl. cbn [andb]. apply eqb_cmp.
  - replace (fst a =? fst b) with false by (symmetry; apply Z.eqb_neq; lia). cbn [andb]. split; discriminate.
  - replace (fst a =? fst b) with false by (symmetry; apply Z.eqb_neq; lia). cbn [andb]. split; discriminate.
Qed.

Lemma lex_cmp {A} (lt eq : A -> A -> bool) (cmp : A -> A -> comparison) :
  (forall x y, lt x y = true <-> cmp x y = Lt) -> (forall x y, eq x y = true <-> cmp x y = Eq) ->
  forall a b, (lex_lt lt eq a b = true <-> list_cmp cmp a b = Lt) /\ (lex_eq eq a b = true <-> list_cmp cmp a b = Eq).
Proof.
  intros Hlt Heq. induction a as [|x a IH]; destruct b as [|y b]; cbn [lex_lt lex_eq list_cmp];
    try (split; split; (reflexivity || discriminate)).
  destruct (IH b) as [I1 I2]. unfold lexc. destruct (cmp x y) eqn:E.
  - assert (H1 : lt x y = false) by (destruct (lt x y) eqn:El; [apply Hlt in El; congruence|reflexivity]).
    assert (H2 : eq x y = true) by (apply Heq; exact E). rewrite H1, H2. cbn [andb]. split; assumption.
  - assert (H1 : lt x y = true) by (apply Hlt; exact E).
    assert (H2 : eq x y = false) by (destruct (eq x y) eqn:El; [apply Heq in El; congruence|reflexivity]).
    rewrite H1, H2. cbn [andb]. split; split; (reflexivity || discriminate).
  - assert (H1 : lt x y = false) by (destruct (lt x y) eqn:El; [apply Hlt in El; congruence|reflexivity]).
    assert (H2 : eq x y = false) by (destruct (eq x y) eqn:El; [apply Heq in El; congruence|reflexivity]).
    rewrite H1, H2. cbn [andb]. split; split; discriminate.
Qed.

Lemma weight_lt_cmp a b : weight_lt a b = true <-> wcmp a b = Lt.
Proof.
  unfold weight_lt, wcmp, lex2, proj_cmp, lexc.
  destruct (lex_cmp pair_lt pair_eq pair_cmp pair_lt_cmp pair_eq_cmp (w_sw a) (w_sw b)) as [S1 S2].
  destruct (lex_cmp Z.ltb Z.eqb Z.compare ltb_cmp eqb_cmp (w_aw a) (w_aw b)) as [A1 _].
  destruct (Z.compare_spec (w_ns a) (w_ns b)) as [E|E|E].
  - rewrite E, Z.ltb_irrefl, Z.eqb_refl. cbn [negb].
    destruct (list_cmp pair_cmp (w_sw a) (w_sw b)) eqn:Es.
    + assert (H1 : lex_lt pair_lt pair_eq (w_sw a) (w_sw b) = false).
      { apply Bool.not_true_is_false. intro El. apply S1 in El. discriminate. }
      assert (H2 : lex_eq pair_eq (w_sw a) (w_sw b) = true) by (apply S2; reflexivity). rewrite H1, H2. cbn [negb].
      destruct (Z.compare_spec (w_na a) (w_na b)) as [F|F|F].
      * rewrite F, Z.ltb_irrefl, Z.eqb_refl. cbn [negb]. exact A1.
      * replace (w_na a <? w_na b) with true by (symmetry; apply Z.ltb_lt; exact F). split; reflexivity.
      * replace (w_na a <? w_na b) with false by (symmetry; apply Z.ltb_ge; lia).
        replace (w_na a =? w_na b) with false by (symmetry; apply Z.eqb_neq; lia). cbn [negb]. split; discriminate.
    + assert (H1 : lex_lt pair_lt pair_eq (w_sw a) (w_sw b) = true) by (apply S1; reflexivity). rewrite H1. split; reflexivity.
    + assert (H1 : lex_lt pair_lt pair_eq (w_sw a) (w_sw b) = false).
      { apply Bool.not_true_is_false. intro El. apply S1 in El. discriminate. }
      assert (H2 : lex_eq pair_eq (w_sw a) (w_sw b) = false).
      { apply Bool.not_true_is_false. intro El. apply S2 in El. discriminate. }
      rewrite H1, H2. cbn [negb]. split; discriminate.
  - replace (w_ns a <? w_ns b) with true by (symmetry; apply Z.ltb_lt; exact E). split; reflexivity.
  - replace (w_ns a <? w_ns b) with false by (symmetry; apply Z.ltb_ge; lia).
    replace (w_ns a =? w_ns b) with false by (symmetry; apply Z.eqb_neq; lia). cbn [negb]. split; discriminate.
Qed.

Lemma weight_lt_asym a b : weight_lt a b = true -> weight_lt b a = false.
Proof.
  intro H. apply weight_lt_cmp in H. destruct (weight_lt b a) eqn:E; [|reflexivity].
  apply weight_lt_cmp in E. rewrite (g_opp _ good_wcmp a b), H in E. discriminate.
Qed.

Lemma weight_le_trans a b c : weight_lt b a = false -> weight_lt c b = false -> weight_lt c a = false.
Proof.
  intros H1 H2. destruct (weight_lt c a) eqn:E; [|reflexivity]. exfalso.
  apply weight_lt_cmp in E.
  assert (Hab : wcmp a b <> Gt).
  { intro H. assert (Hba : wcmp b a = Lt) by (rewrite (g_opp _ good_wcmp a b), H; reflexivity).
    apply weight_lt_cmp in Hba. congruence. }
  assert (Hbc : wcmp b c <> Gt).
  { intro H. assert (Hcb : wcmp c b = Lt) by (rewrite (g_opp _ good_wcmp b c), H; reflexivity).
    apply weight_lt_cmp in Hcb. congruence. }
  apply (good_le_trans _ good_wcmp a b c Hab Hbc). rewrite (g_opp _ good_wcmp c a), E. reflexivity.
Qed.
