(* C03: the priority theorem on the concrete router model. *)
From Coq Require Import ZArith Lia Sorting.Permutation.
From Wz Require Import lib.Bytes lib.Utf8 C03.Gen C03.Trie C03.TrieFacts C03.PrioFacts C03.OrderFacts C03.Model C03.Proofs.
Open Scope N_scope.

Lemma lex_eq_refl {A} (eq : A -> A -> bool) : (forall x, eq x x = true) -> forall l, lex_eq eq l l = true.
Proof. intros H. induction l as [|x l IH]; [reflexivity|]. cbn [lex_eq]. rewrite H, IH. reflexivity. Qed.

Lemma weight_eqb_refl w : weight_eqb w w = true.
Proof.
  unfold weight_eqb. rewrite !Z.eqb_refl.
  rewrite (lex_eq_refl pair_eq) by (intros [a b]; unfold pair_eq; cbn [fst snd]; rewrite !Z.eqb_refl; reflexivity).
  rewrite (lex_eq_refl Z.eqb) by (intro x; apply Z.eqb_refl). reflexivity.
Qed.

Lemma lang_eqb_refl l : lang_eqb l l = true.
Proof.
  destruct l; cbn [lang_eqb]; try reflexivity; try apply N.eqb_refl; try apply Bool.eqb_reflx.
  - rewrite N.eqb_refl. destruct mx; cbn [opt_eqb]; [apply N.eqb_refl|reflexivity].
  - apply lex_eq_refl. apply list_eqb_refl.
Qed.

Lemma dpart_eqb_refl d : dpart_eqb d d = true.
Proof.
  unfold dpart_eqb. rewrite !list_eqb_refl, lang_eqb_refl, !Bool.eqb_reflx, weight_eqb_refl. reflexivity.
Qed.

Lemma dpart_wlt_asym a b : dpart_wlt a b = true -> dpart_wlt b a = false.
Proof. apply weight_lt_asym. Qed.
Lemma dpart_wle_trans a b c : dpart_wlt b a = false -> dpart_wlt c b = false -> dpart_wlt c a = false.
Proof. apply weight_le_trans. Qed.

(* ------------------------------------------------------------------ the statement *)
Notation cwalk := (Trie.walk dpart pmatch).
(* the ways rule r can take part in the search for the path parts P, with the captured texts:
   KHere: its parts consume P; KLate: ... with one trailing slash left (rules without strict slashes);
   KSlash: all but its final empty part consume P *)
Definition cand_of (m : rmap) (P : list str) (k : ckind) (r : rule) (caps : list str) : Prop :=
  In r (m_rules m) /\ walkcond dpart rule pmatch rparts k r caps P.
Definition cand_adm_of (m : rmap) (k : ckind) (r : rule) (caps : list str) : adm rres :=
  cand_adm rule rres (rstrict m) rconvert k r caps.
(* ... and serves the request: admitted (directly or but for the slash) for the method and protocol *)
Definition serving_cand (m : rmap) (meth : str) (ws : bool) (P : list str) (k : ckind) (r : rule) (caps : list str) : Prop :=
  cand_of m P k r caps /\ cand_adm_of m k r caps <> ANo rres /\ rmethod_ok r meth = true /\ r_websocket r = ws.
(* the documented priority: literal parts before variables, lighter Weighting first, the late
   trailing-slash clause last, a proper prefix first *)
Definition ckey (k : ckind) (r : rule) : list (ekey dpart) := cand_key dpart rule rparts k r.
Definition prio_lt : list (ekey dpart) -> list (ekey dpart) -> Prop := key_lt dpart dpart_wlt.
Definition prio_minimal (m : rmap) (meth : str) (ws : bool) (P : list str) (k : ckind) (r : rule) (caps : list str) : Prop :=
  serving_cand m meth ws P k r caps
  /\ forall k' r' caps', serving_cand m meth ws P k' r' caps' -> ~ prio_lt (ckey k' r') (ckey k r).

Lemma pass_priority m meth ws P x h w :
  smatch dpart rule rres pmatch rmethods r_websocket (rstrict m) rconvert meth ws (trie_of m) P [] = (x, h, w) ->
  x <> MNone rule rres ->
  exists k r caps, prio_minimal m meth ws P k r caps
    /\ match x with
       | MFound _ _ r0 v => r0 = r /\ cand_adm_of m k r caps = ADirect rres v
       | MSlash _ _ => cand_adm_of m k r caps = ASlash rres
       | MNone _ _ => False
       end.
Proof.
  intros H Hx. unfold trie_of in H.
  destruct (root_first_hit dpart rule rres pmatch dpart_eqb dpart_wlt rmethods r_websocket (rstrict m) rconvert rparts
              dpart_eqb_eq dpart_eqb_refl dpart_wlt_asym dpart_wle_trans _ _ _ _ _ _ _ H Hx) as (k & r & caps & Hin & Hres & Hmin).
  exists k, r, caps.
  assert (Hhit : is_hit rres (cand_step rule rres rmethods r_websocket (rstrict m) rconvert meth ws (k, r, caps))).
  { unfold is_hit. destruct x; [contradiction|destruct Hres as [_ ->]; exact I|rewrite Hres; exact I]. }
  apply (root_cand_iff dpart rule pmatch dpart_eqb dpart_wlt rparts dpart_eqb_eq) in Hin.
  apply (hit_iff rule rres rmethods r_websocket (rstrict m) rconvert) in Hhit. destruct Hhit as (Ha & Hm & Hw).
  split.
  - split; [split; [exact Hin|split; [exact Ha|split; assumption]]|].
    intros k' r' caps' (Hc' & Ha' & Hm' & Hw'). apply Hmin with (vals' := caps').
    + apply (root_cand_iff dpart rule pmatch dpart_eqb dpart_wlt rparts dpart_eqb_eq). exact Hc'.
    + apply (hit_iff rule rres rmethods r_websocket (rstrict m) rconvert). auto.
  - destruct x; [contradiction| |].
    + destruct Hres as [-> Hs]. split; [reflexivity|].
      rewrite (cand_step_adm rule rres rmethods r_websocket (rstrict m) rconvert) in Hs. unfold cand_adm_of, step_of_adm in *.
      destruct (cand_adm rule rres (rstrict m) rconvert k r caps) as [v'| |]; try discriminate.
      * destruct (negb (method_ok rule rmethods r meth)); [discriminate|]. destruct (negb (Bool.eqb (r_websocket r) ws)); [discriminate|].
        injection Hs as ->. reflexivity.
      * destruct (Bool.eqb ws (r_websocket r) && method_ok rule rmethods r meth); discriminate.
    + rewrite (cand_step_adm rule rres rmethods r_websocket (rstrict m) rconvert) in Hres. unfold cand_adm_of, step_of_adm in *.
      destruct (cand_adm rule rres (rstrict m) rconvert k r caps) as [v'| |]; try discriminate; [|reflexivity].
      destruct (negb (method_ok rule rmethods r meth)); [discriminate|]. destruct (negb (Bool.eqb (r_websocket r) ws)); discriminate.
Qed.

(* a match is the outcome of a priority-minimal serving candidate *)
Theorem match_priority h m a p me r vs :
  map_match h m a p me = Match r vs ->
  exists k caps v, prio_minimal m (upper me) (a_websocket a) (request_parts m a p) k r caps
    /\ cand_adm_of m k r caps = ADirect rres v /\ vs = dict_update v (r_defaults r).
Proof.
  unfold map_match, adapter_match, matcher_run, matcher_match. fold (upper me).
  destruct (smatch _ _ _ _ _ _ _ _ _ _ (trie_of m) (domain_part m a :: split_slash (path_part p)) []) as [[x h1] w1] eqn:E1.
  change (domain_part m a :: split_slash (path_part p)) with (request_parts m a p) in E1.
  destruct x as [|r1 v1|].
  - destruct (m_merge m).
    + destruct (smatch _ _ _ _ _ _ _ _ _ _ (trie_of m) (domain_part m a :: split_slash (merge_slashes (path_part p))) []) as [[x2 h2] w2].
      destruct x2 as [|r2 v2|];
        repeat match goal with |- context [if ?c then _ else _] => destruct c end; discriminate.
    + repeat match goal with |- context [if ?c then _ else _] => destruct c end; discriminate.
  - destruct (pass_priority _ _ _ _ _ _ _ E1 ltac:(discriminate)) as (k & r0 & caps & Hmin & <- & Ha).
    assert (Hfin : Match r1 (dict_update v1 (r_defaults r1)) = Match r vs ->
                   exists k caps v, prio_minimal m (upper me) (a_websocket a) (request_parts m a p) k r caps
                     /\ cand_adm_of m k r caps = ADirect rres v /\ vs = dict_update v (r_defaults r)).
    { intro H. injection H as <- <-. exists k, caps, v1. auto. }
    destruct (r_alias r1 && m_redirect_defaults m); [destruct (h_alias h m a (upper me) r1 _); discriminate|].
    destruct (m_redirect_defaults m); [|exact Hfin].
    destruct (h_default h m a (upper me) r1 _) as [[u0|]| |]; try discriminate. exact Hfin.
  - discriminate.
Qed.

(* the priority relation and the serving candidates do not depend on the insertion order *)
Definition same_config (m m' : rmap) : Prop :=
  Permutation (m_rules m) (m_rules m') /\ m_strict m = m_strict m' /\ m_merge m = m_merge m'
  /\ m_redirect_defaults m = m_redirect_defaults m' /\ m_host_matching m = m_host_matching m'.

Lemma rstrict_same m m' r : m_strict m = m_strict m' -> rstrict m r = rstrict m' r.
Proof. intro H. unfold rstrict. rewrite H. reflexivity. Qed.

Lemma serving_cand_perm m m' meth ws P k r caps :
  same_config m m' -> serving_cand m meth ws P k r caps -> serving_cand m' meth ws P k r caps.
Proof.
  intros (Hp & Hs & _) ((Hin & Hw) & Ha & Hm & Hws). split; [split; [eapply Permutation_in; eassumption|exact Hw]|].
  split; [|split; assumption]. unfold cand_adm_of, cand_adm in *. rewrite <- (rstrict_same m m' r Hs). exact Ha.
Qed.

Lemma same_config_sym m m' : same_config m m' -> same_config m' m.
Proof. intros (Hp & H1 & H2 & H3 & H4). repeat split; auto. apply Permutation_sym. exact Hp. Qed.

Lemma prio_minimal_perm m m' meth ws P k r caps :
  same_config m m' -> prio_minimal m' meth ws P k r caps -> prio_minimal m meth ws P k r caps.
Proof.
  intros Hc [Hs Hmin]. split; [exact (serving_cand_perm _ _ _ _ _ _ _ _ (same_config_sym _ _ Hc) Hs)|].
  intros k' r' caps' Hs'. apply (Hmin k' r' caps'). exact (serving_cand_perm _ _ _ _ _ _ _ _ Hc Hs').
Qed.

Lemma same_config_request m m' a p : same_config m m' -> request_parts m a p = request_parts m' a p.
Proof.
  intros (_ & _ & _ & _ & Hh). unfold request_parts, domain_part, bound_subdomain. rewrite Hh. reflexivity.
Qed.

(* whatever the insertion order, a match is the outcome of a candidate that is priority-minimal
   for one and the same order-independent relation *)
Theorem priority_any_order h m m' a p me r vs :
  same_config m m' -> map_match h m' a p me = Match r vs ->
  exists k caps v, prio_minimal m (upper me) (a_websocket a) (request_parts m a p) k r caps
    /\ cand_adm_of m k r caps = ADirect rres v /\ vs = dict_update v (r_defaults r).
Proof.
  intros Hc H. destruct (match_priority _ _ _ _ _ _ _ H) as (k & caps & v & Hmin & Ha & Hvs).
  exists k, caps, v. rewrite (same_config_request _ _ a p Hc). split; [exact (prio_minimal_perm _ _ _ _ _ _ _ _ Hc Hmin)|].
  split; [|exact Hvs]. destruct Hc as (_ & Hs & _). unfold cand_adm_of, cand_adm in *. rewrite (rstrict_same m m' r Hs). exact Ha.
Qed.

(* literal beats variable, int before string before path: instances of the order *)
Lemma ex_prio_literal_first k d t1 t2 :
  prio_lt (Some (PStatic dpart k) :: t1) (Some (PDyn dpart d) :: t2).
Proof. apply kl_head. reflexivity. Qed.

Definition ex_dpart (c : conv) : dpart :=
  match seg_part (SDyn [] c [120] []) with Dynamic d => d | Static _ _ => {| d_pre := []; d_lang := LPath; d_post := []; d_final := false; d_suffixed := false; d_weight := w0 |} end.
Lemma ex_prio_converters :
  dpart_wlt (ex_dpart (CInt 0 None None false)) (ex_dpart (CStr None 1 None)) = true
  /\ dpart_wlt (ex_dpart (CFloat false)) (ex_dpart (CStr None 1 None)) = true
  /\ dpart_wlt (ex_dpart (CStr None 1 None)) (ex_dpart CPath) = true
  /\ dpart_wlt (ex_dpart (CStr None 1 None)) (ex_dpart (CAny [[97]])) = false
  /\ dpart_wlt (ex_dpart (CAny [[97]])) (ex_dpart (CStr None 1 None)) = false.
Proof. repeat split; vm_compute; reflexivity. Qed.

(* both insertion orders of the formerly failing map agree, and the example satisfies same_config *)
Lemma ex_priority_orders :
  same_config ex_map (mk_map [ex_r1; ex_r0])
  /\ map_match no_hooks (mk_map [ex_r1; ex_r0]) ex_adapter [47; 49; 50; 51] GET = Match ex_r0 [([97], VInt 123)]
  /\ map_match no_hooks ex_map ex_adapter [47; 49; 50; 51] GET = Match ex_r0 [([97], VInt 123)].
Proof.
  split; [|split; vm_compute; reflexivity].
  repeat split. apply perm_swap.
Qed.

(* ------------------------------------------------------------------ strict_slashes / merge_slashes = None on a rule
   Rule.bind: a rule that leaves strict_slashes / merge_slashes at None takes the setting of the map it is bound to;
   matching such a rule is matching the rule with the map's setting written on it *)
Definition explicit_flags (m : rmap) (r : rule) : rule :=
  {| r_idx := r_idx r; r_endpoint := r_endpoint r; r_dom := r_dom r; r_segs := r_segs r; r_tail := r_tail r;
     r_branch := r_branch r; r_methods := r_methods r; r_strict_opt := Some (rstrict m r); r_merge_opt := Some (rmerge m r);
     r_websocket := r_websocket r; r_alias := r_alias r; r_defaults := r_defaults r |}.

Theorem flags_inherited m r :
  (r_strict_opt r = None -> rstrict m r = m_strict m)
  /\ (r_merge_opt r = None -> rmerge m r = m_merge m)
  /\ (forall b, r_strict_opt r = Some b -> rstrict m r = b)
  /\ (forall b, r_merge_opt r = Some b -> rmerge m r = b)
  /\ rstrict m (explicit_flags m r) = rstrict m r /\ rmerge m (explicit_flags m r) = rmerge m r
  /\ forall P, admits m (explicit_flags m r) P = admits m r P.
Proof.
  unfold rstrict, rmerge. repeat split; try (intros; match goal with H : _ = _ |- _ => rewrite H end; reflexivity).
Qed.

(* Map(strict_slashes=False) makes Rule('/<int(max=5):a>/') answer '/3' directly; with strict_slashes=True on the rule it redirects *)
Lemma ex_flags :
  map_match no_hooks {| m_rules := [ex_r2]; m_strict := false; m_merge := true; m_redirect_defaults := true; m_host_matching := false |}
    ex_adapter [47; 51] GET = Match ex_r2 [([97], VInt 3)]
  /\ exists u, map_match no_hooks {| m_rules := [explicit_flags ex_map2 ex_r2]; m_strict := false; m_merge := true;
                                      m_redirect_defaults := true; m_host_matching := false |} ex_adapter [47; 51] GET = RedirectTo u.
Proof. split; [vm_compute; reflexivity|eexists; vm_compute; reflexivity]. Qed.
