(* C03: the priority order.  The depth-first search of the transition tree visits candidates in an
   order compatible with key_lt (literal before variable, lighter Weighting first, the late
   trailing-slash clause last, a proper prefix first); the reported candidate is the first hit, hence
   no candidate that also serves the request is strictly before it. *)
From Coq Require Import Lia Sorting.Sorted.
From Wz Require Import lib.Bytes C03.Trie C03.TrieFacts.
Open Scope N_scope.

Section Prio.
  Variable dpart : Type.
  Variable rule : Type.
  Variable res : Type.
  Variable pmatch : dpart -> str -> list str -> option (list str * list str).
  Variable dpart_eqb : dpart -> dpart -> bool.
  Variable wlt : dpart -> dpart -> bool.
  Variable rmethods : rule -> option (list str).
  Variable rws : rule -> bool.
  Variable rstrict : rule -> bool.
  Variable rconvert : rule -> list str -> option res.
  Variable rparts : rule -> list (cpart dpart).
  Hypothesis dpart_eqb_eq : forall a b, dpart_eqb a b = true -> a = b.
  Hypothesis dpart_eqb_refl : forall a, dpart_eqb a a = true.
  (* the weights are totally pre-ordered *)
  Hypothesis wlt_asym : forall a b, wlt a b = true -> wlt b a = false.
  Hypothesis wlt_le_trans : forall a b c, wlt b a = false -> wlt c b = false -> wlt c a = false.

  Notation state := (state dpart rule).
  Notation cpart := (cpart dpart).
  Notation St := (St dpart rule).
  Notation PStatic := (PStatic dpart).
  Notation PDyn := (PDyn dpart).
  Notation cand := (cand rule).
  Notation ekey := (ekey dpart).
  Notation cands := (cands dpart rule pmatch).
  Notation kcands := (kcands dpart rule pmatch).
  Notation key_lt := (key_lt dpart wlt).
  Notation elt_lt := (elt_lt dpart wlt).
  Notation cand_key := (cand_key dpart rule rparts).
  Notation scan := (scan rule res rmethods rws rstrict rconvert).
  Notation cand_step := (cand_step rule res rmethods rws rstrict rconvert).
  Notation smatch := (smatch dpart rule res pmatch rmethods rws rstrict rconvert).
  Notation stored := (stored dpart rule).
  Notation stat_find := (stat_find dpart rule).
  Notation add_parts := (add_parts dpart rule dpart_eqb).
  Notation update := (update dpart rule wlt).
  Notation build_trie := (build_trie dpart rule dpart_eqb wlt rparts).
  Notation empty_state := (empty_state dpart rule).

  (* ------------------------------------------------------------------ key_lt *)
  Lemma wlt_irrefl d : wlt d d = false.
  Proof. destruct (wlt d d) eqn:E; [|reflexivity]. rewrite (wlt_asym _ _ E) in E. discriminate. Qed.

  Lemma elt_lt_irrefl x : elt_lt x x = false.
  Proof. destruct x as [[k|d]|]; cbn [Trie.elt_lt]; [reflexivity|apply wlt_irrefl|reflexivity]. Qed.

  Lemma key_lt_cons_inv x y t1 t2 :
    key_lt (x :: t1) (y :: t2) -> elt_lt x y = true \/ (x = y /\ key_lt t1 t2).
  Proof. intro H. inversion H; subst; [left; assumption|right; split; [reflexivity|assumption]]. Qed.

  Lemma key_lt_irrefl K : ~ key_lt K K.
  Proof.
    induction K as [|x K IH]; intro H; [inversion H|].
    apply key_lt_cons_inv in H. destruct H as [H|[_ H]]; [rewrite elt_lt_irrefl in H; discriminate|exact (IH H)].
  Qed.

  (* ------------------------------------------------------------------ pairwise order of a list *)
  Definition kle (a b : list ekey * cand) : Prop := ~ key_lt (fst b) (fst a).   (* a may come before b *)
  Notation ksorted := (ForallOrdPairs kle).

  Lemma fop_app {A} (R : A -> A -> Prop) l1 l2 :
    ForallOrdPairs R l1 -> ForallOrdPairs R l2 -> (forall a b, In a l1 -> In b l2 -> R a b) ->
    ForallOrdPairs R (l1 ++ l2).
  Proof.
    intros H1 H2 H12. induction H1 as [|a l Ha Hl IH]; [exact H2|]. cbn [app]. constructor.
    - apply Forall_app. split; [exact Ha|]. apply Forall_forall. intros b Hb. apply H12; [left; reflexivity|exact Hb].
    - apply IH. intros a' b Ha' Hb. apply H12; [right; exact Ha'|exact Hb].
  Qed.

  Lemma fop_map {A B} (R : B -> B -> Prop) (f : A -> B) l :
    ForallOrdPairs (fun a b => R (f a) (f b)) l -> ForallOrdPairs R (map f l).
  Proof.
    intro H. induction H as [|a l Ha Hl IH]; [constructor|]. cbn [map]. constructor; [|exact IH].
    apply Forall_forall. intros b Hb. apply in_map_iff in Hb. destruct Hb as (b0 & <- & Hb0).
    rewrite Forall_forall in Ha. exact (Ha b0 Hb0).
  Qed.

  Lemma fop_same {A} (R : A -> A -> Prop) l : (forall a b, In a l -> In b l -> R a b) -> ForallOrdPairs R l.
  Proof.
    induction l as [|a l IH]; intro H; [constructor|]. constructor.
    - apply Forall_forall. intros b Hb. apply H; [left; reflexivity|right; exact Hb].
    - apply IH. intros x y Hx Hy. apply H; right; assumption.
  Qed.

  Lemma fop_impl {A} (R S : A -> A -> Prop) l : (forall a b, R a b -> S a b) -> ForallOrdPairs R l -> ForallOrdPairs S l.
  Proof.
    intros HRS H. induction H as [|a l Ha Hl IH]; [constructor|]. constructor; [|exact IH].
    eapply Forall_impl; [|exact Ha]. intros b. apply HRS.
  Qed.

  Lemma ksorted_prefix x l : ksorted l -> ksorted (map (fun kc => (x :: fst kc, snd kc)) l).
  Proof.
    intro H. apply fop_map. eapply fop_impl; [|exact H]. intros a b Hab. unfold kle in *. cbn [fst].
    intro Hlt. apply key_lt_cons_inv in Hlt. destruct Hlt as [Hlt|[_ Hlt]]; [rewrite elt_lt_irrefl in Hlt; discriminate|exact (Hab Hlt)].
  Qed.

  (* ------------------------------------------------------------------ dynamic transitions: distinct and sorted *)
  Definition dle (x y : dpart * state) : Prop := wlt (fst y) (fst x) = false.
  Inductive wfd : state -> Prop :=
  | wfd_intro dyn rules stat :
      NoDup (map fst dyn) -> StronglySorted dle dyn ->
      (forall k c, In (k, c) stat -> wfd c) -> (forall d c, In (d, c) dyn -> wfd c) ->
      wfd (St dyn rules stat).
  Inductive wfn : state -> Prop :=      (* before update(): distinct only *)
  | wfn_intro dyn rules stat :
      NoDup (map fst dyn) ->
      (forall k c, In (k, c) stat -> wfn c) -> (forall d c, In (d, c) dyn -> wfn c) ->
      wfn (St dyn rules stat).

  Lemma wfn_empty : wfn empty_state.
  Proof. constructor; [constructor|intros ? ? []|intros ? ? []]. Qed.

  Lemma dyn_upd_keys d f l :
    map fst (Trie.dyn_upd dpart rule dpart_eqb d f l)
    = if existsb (fun dc => dpart_eqb (fst dc) d) l then map fst l else map fst l ++ [d].
  Proof.
    induction l as [|[d0 c0] l IH]; cbn [Trie.dyn_upd existsb map fst]; [reflexivity|].
    destruct (dpart_eqb d0 d) eqn:E; cbn [orb map fst]; [reflexivity|]. rewrite IH.
    match goal with |- context [existsb ?f l] => destruct (existsb f l) end; reflexivity.
  Qed.

  Lemma existsb_dkey_in d (l : list (dpart * state)) :
    existsb (fun dc => dpart_eqb (fst dc) d) l = false -> ~ In d (map fst l).
  Proof.
    induction l as [|[d0 c0] l IH]; cbn [existsb map fst]; [intros _ []|].
    intro H. apply orb_false_elim in H. destruct H as [H1 H2]. intros [Heq|Hin]; [|exact (IH H2 Hin)].
    subst d0. rewrite dpart_eqb_refl in H1. discriminate.
  Qed.

  Lemma wfn_add ps r : forall s, wfn s -> wfn (add_parts ps r s).
  Proof.
    induction ps as [|p ps IH]; intros s Hs; inversion Hs as [dyn rules stat Hnd Hst Hdy]; subst.
    - cbn [Trie.add_parts Trie.st_dyn Trie.st_rules Trie.st_stat]. constructor; assumption.
    - destruct p as [k|d]; cbn [Trie.add_parts Trie.st_dyn Trie.st_rules Trie.st_stat]; constructor; try assumption.
      + intros k' c Hin. apply (stat_upd_in dpart rule) in Hin. destruct Hin as [Hin|(-> & [(c0 & Hin & ->)| ->])].
        * eapply Hst; eassumption.
        * apply IH. eapply Hst; eassumption.
        * apply IH. exact wfn_empty.
      + rewrite dyn_upd_keys.
        match goal with |- context [existsb ?f dyn] => destruct (existsb f dyn) eqn:E end; [exact Hnd|].
        apply (NoDup_app_one); [exact Hnd|]. apply existsb_dkey_in. exact E.
      + intros d' c Hin. apply (dyn_upd_in dpart rule dpart_eqb dpart_eqb_eq) in Hin.
        destruct Hin as [Hin|(-> & [(c0 & Hin & ->)| ->])].
        * eapply Hdy; eassumption.
        * apply IH. eapply Hdy; eassumption.
        * apply IH. exact wfn_empty.
  Qed.

  Lemma insert_sorted x l : StronglySorted dle l -> StronglySorted dle (Trie.insert_dyn dpart rule wlt x l).
  Proof.
    intro H. induction H as [|y l Hl IH Hy]; cbn [Trie.insert_dyn].
    - constructor; [constructor|constructor].
    - destruct (wlt (fst y) (fst x)) eqn:E.
      + constructor; [exact IH|]. apply Forall_forall. intros z Hz.
        apply (insert_dyn_in dpart rule wlt) in Hz. destruct Hz as [->|Hz].
        * unfold dle. exact (wlt_asym _ _ E).
        * rewrite Forall_forall in Hy. exact (Hy z Hz).
      + constructor; [constructor; assumption|]. constructor; [exact E|].
        apply Forall_forall. intros z Hz. rewrite Forall_forall in Hy. unfold dle in *.
        exact (wlt_le_trans _ _ _ E (Hy z Hz)).
  Qed.

  Lemma sort_sorted l : StronglySorted dle (Trie.sort_dyn dpart rule wlt l).
  Proof. induction l as [|x l IH]; cbn [Trie.sort_dyn fold_right]; [constructor|apply insert_sorted; exact IH]. Qed.

  Lemma insert_keys_nodup x l :
    NoDup (map fst l) -> ~ In (fst x) (map fst l) -> NoDup (map fst (Trie.insert_dyn dpart rule wlt x l)).
  Proof.
    induction l as [|y l IH]; cbn [Trie.insert_dyn map]; intros Hnd Hx.
    - constructor; [intros []|constructor].
    - inversion Hnd as [|? ? Hy Hnd']; subst. destruct (wlt (fst y) (fst x)).
      + cbn [map]. constructor.
        * intro Hin. apply in_map_iff in Hin. destruct Hin as (z & Hz & Hin). apply (insert_dyn_in dpart rule wlt) in Hin.
          destruct Hin as [->|Hin]; [apply Hx; left; symmetry; exact Hz|]. apply Hy. rewrite <- Hz. apply in_map. exact Hin.
        * apply IH; [exact Hnd'|]. intro Hin. apply Hx. right. exact Hin.
      + cbn [map]. constructor; [exact Hx|exact Hnd].
  Qed.

  Lemma sort_keys_nodup l : NoDup (map fst l) -> NoDup (map fst (Trie.sort_dyn dpart rule wlt l)).
  Proof.
    induction l as [|x l IH]; cbn [Trie.sort_dyn fold_right map]; intro H; [constructor|].
    inversion H as [|? ? Hx Hnd]; subst. apply insert_keys_nodup; [exact (IH Hnd)|].
    intro Hin. apply Hx. apply in_map_iff in Hin. destruct Hin as (z & Hz & Hin).
    apply (sort_dyn_in dpart rule wlt) in Hin. rewrite <- Hz. apply in_map. exact Hin.
  Qed.

  Lemma wfd_update : forall s, wfn s -> wfd (update s).
  Proof.
    induction s as [dyn rules stat IHd IHs] using (state_ind' dpart rule). intro H. inversion H as [? ? ? Hnd Hst Hdy]; subst.
    cbn [Trie.update]. constructor.
    - apply sort_keys_nodup. rewrite map_map. cbn [fst]. exact Hnd.
    - apply sort_sorted.
    - intros k c Hin. apply in_map_iff in Hin. destruct Hin as ([k0 c0] & Heq & Hin0). cbn [fst snd] in Heq.
      injection Heq as <- <-. eapply IHs; [exact Hin0|]. eapply Hst; exact Hin0.
    - intros d c Hin. apply (sort_dyn_in dpart rule wlt) in Hin. apply in_map_iff in Hin. destruct Hin as ([d0 c0] & Heq & Hin0).
      cbn [fst snd] in Heq. injection Heq as <- <-. eapply IHd; [exact Hin0|]. eapply Hdy; exact Hin0.
  Qed.

  Lemma wfd_build rules : wfd (build_trie rules).
  Proof.
    unfold Trie.build_trie. apply wfd_update.
    assert (H : forall s0, wfn s0 -> wfn (fold_left (fun s r => add_parts (rparts r) r s) rules s0)).
    { induction rules as [|r rs IH]; intros s0 Hs; [exact Hs|]. cbn [fold_left]. apply IH. apply wfn_add. exact Hs. }
    apply H. exact wfn_empty.
  Qed.

  (* ------------------------------------------------------------------ the keyed enumeration *)
  Lemma kcands_cands : forall s parts values, map snd (kcands s parts values) = cands s parts values.
  Proof.
    induction s as [dyn rules stat IHd IHs] using (state_ind' dpart rule). intros parts values.
    destruct parts as [|part rest]; cbn [Trie.kcands Trie.cands]; rewrite !map_app.
    - rewrite map_map. cbn [snd]. f_equal. destruct (stat_find [] stat); [rewrite map_map; reflexivity|reflexivity].
    - f_equal; [|f_equal].
      + rewrite map_map. cbn [snd]. clear IHd. induction stat as [|[k c] stat IH]; cbn [Trie.stat_apply]; [reflexivity|].
        destruct (list_eqb k part); [apply (IHs k c); left; reflexivity|].
        apply IH. intros k' c' Hin. apply (IHs k' c'). right. exact Hin.
      + clear IHs. induction dyn as [|[d c] dyn IH]; cbn [Trie.dyn_kcollect Trie.dyn_collect]; [reflexivity|].
        assert (IH' := IH (fun d' c' Hin => IHd d' c' (or_intror Hin))).
        destruct (pmatch d part rest) as [[g rem]|]; [|exact IH']. rewrite map_app, map_map. cbn [snd].
        f_equal; [|exact IH']. apply (IHd d c). left. reflexivity.
      + destruct (Trie.is_empty_part (part :: rest)); [rewrite map_map; reflexivity|reflexivity].
  Qed.

  Definition late_mark (k : ckind) : list ekey := match k with KLate => [None] | _ => [] end.

  Lemma kcands_key : forall s parts values K k r vals',
    In (K, (k, r, vals')) (kcands s parts values) ->
    exists sigma, stored r s sigma /\ K = map Some sigma ++ late_mark k.
  Proof.
    induction s as [dyn rules stat IHd IHs] using (state_ind' dpart rule). intros parts values K k r vals'.
    destruct parts as [|part rest]; cbn [Trie.kcands]; intro Hin; apply in_app_or in Hin.
    - destruct Hin as [Hin|Hin].
      + apply in_map_iff in Hin. destruct Hin as (r0 & Heq & Hr). injection Heq as <- <- <- <-.
        exists []. split; [constructor; exact Hr|reflexivity].
      + destruct (stat_find [] stat) as [child|] eqn:Ef; [|destruct Hin].
        apply in_map_iff in Hin. destruct Hin as (r0 & Heq & Hr). injection Heq as <- <- <- <-.
        exists [PStatic []]. split; [|reflexivity]. apply (stat_find_in dpart rule) in Ef.
        eapply stored_stat; [exact Ef|]. destruct child. constructor. exact Hr.
    - destruct Hin as [Hin|Hin]; [|apply in_app_or in Hin; destruct Hin as [Hin|Hin]].
      + apply in_map_iff in Hin. destruct Hin as ([K0 c0] & Heq & Hin). cbn [fst snd] in Heq. injection Heq as <- ->.
        clear IHd. induction stat as [|[k0 child] stat IH]; cbn [Trie.stat_apply] in Hin; [destruct Hin|].
        destruct (list_eqb k0 part) eqn:Ek.
        * apply list_eqb_eq in Ek. subst k0. destruct (IHs part child (or_introl eq_refl) _ _ _ _ _ _ Hin) as (sigma & Hst & ->).
          exists (PStatic part :: sigma). split; [eapply stored_stat; [left; reflexivity|exact Hst]|reflexivity].
        * destruct (IH (fun k' c' Hin' => IHs k' c' (or_intror Hin')) Hin) as (sigma & Hst & HK).
          exists sigma. split; [|exact HK]. inversion Hst; subst.
          -- constructor; assumption.
          -- eapply stored_stat; [right; eassumption|assumption].
          -- eapply stored_dyn; eassumption.
      + clear IHs. induction dyn as [|[d child] dyn IH]; cbn [Trie.dyn_kcollect] in Hin; [destruct Hin|].
        assert (Hrest : In (K, (k, r, vals')) (Trie.dyn_kcollect dpart rule pmatch (fun c rem vals => kcands c rem vals) part rest values dyn) ->
                        exists sigma, stored r (St ((d, child) :: dyn) rules stat) sigma /\ K = map Some sigma ++ late_mark k).
        { intro Hin'. destruct (IH (fun d' c' Hin'' => IHd d' c' (or_intror Hin'')) Hin') as (sigma & Hst & HK).
          exists sigma. split; [|exact HK]. inversion Hst; subst.
          - constructor; assumption.
          - eapply stored_stat; eassumption.
          - eapply stored_dyn; [right; eassumption|assumption]. }
        destruct (pmatch d part rest) as [[g rem]|]; [|exact (Hrest Hin)].
        apply in_app_or in Hin. destruct Hin as [Hin|Hin]; [|exact (Hrest Hin)].
        apply in_map_iff in Hin. destruct Hin as ([K0 c0] & Heq & Hin). cbn [fst snd] in Heq. injection Heq as <- ->.
        destruct (IHd d child (or_introl eq_refl) _ _ _ _ _ _ Hin) as (sigma & Hst & ->).
        exists (PDyn d :: sigma). split; [eapply stored_dyn; [left; reflexivity|exact Hst]|reflexivity].
      + destruct (Trie.is_empty_part (part :: rest)); [|destruct Hin].
        apply in_map_iff in Hin. destruct Hin as (r0 & Heq & Hr). injection Heq as <- <- <- <-.
        exists []. split; [constructor; exact Hr|reflexivity].
  Qed.

  Notation dyn_kcollect := (Trie.dyn_kcollect dpart rule pmatch).

  Lemma dyn_kcollect_head f part rest values dyn b :
    In b (dyn_kcollect f part rest values dyn) -> exists d' Kb, In d' (map fst dyn) /\ fst b = Some (PDyn d') :: Kb.
  Proof.
    induction dyn as [|[d1 c1] dyn IHl]; cbn [Trie.dyn_kcollect]; [intros []|]. intro Hb.
    assert (Hr : In b (dyn_kcollect f part rest values dyn) ->
                 exists d' Kb, In d' (map fst ((d1, c1) :: dyn)) /\ fst b = Some (PDyn d') :: Kb).
    { intro H. destruct (IHl H) as (d' & Kb & Hin & HK). exists d', Kb. split; [right; exact Hin|exact HK]. }
    destruct (pmatch d1 part rest) as [[g1 rem1]|]; [|exact (Hr Hb)].
    apply in_app_or in Hb. destruct Hb as [Hb|Hb]; [|exact (Hr Hb)].
    apply in_map_iff in Hb. destruct Hb as ([K0 c0] & <- & _). exists d1, K0. split; [left; reflexivity|reflexivity].
  Qed.

  Lemma dyn_kcollect_sorted f part rest values dyn :
    NoDup (map fst dyn) -> StronglySorted dle dyn ->
    (forall d c, In (d, c) dyn -> forall rem vals, ksorted (f c rem vals)) ->
    ksorted (dyn_kcollect f part rest values dyn).
  Proof.
    induction dyn as [|[d c] dyn IH]; cbn [Trie.dyn_kcollect]; intros Hnd Hsorted Hf; [constructor|].
    cbn [map fst] in Hnd. inversion Hnd as [|? ? Hd Hnd']; subst. inversion Hsorted as [|? ? Hs' Hall]; subst.
    assert (IH' : ksorted (dyn_kcollect f part rest values dyn)).
    { apply IH; [exact Hnd'|exact Hs'|]. intros d' c' Hin. apply (Hf d' c'). right. exact Hin. }
    destruct (pmatch d part rest) as [[g rem]|]; [|exact IH'].
    apply fop_app; [|exact IH'|].
    - apply ksorted_prefix. apply (Hf d c). left. reflexivity.
    - intros a b Ha Hb. apply in_map_iff in Ha. destruct Ha as ([Ka ca] & <- & _). cbn [fst snd].
      destruct (dyn_kcollect_head _ _ _ _ _ _ Hb) as (d' & Kb & Hd' & HK). unfold kle. cbn [fst]. rewrite HK. intro Hlt.
      apply key_lt_cons_inv in Hlt. destruct Hlt as [Hlt|[Heq _]].
      + cbn [Trie.elt_lt] in Hlt. apply in_map_iff in Hd'. destruct Hd' as ([d2 c2] & Hd2 & Hin2). cbn [fst] in Hd2. subst d2.
        rewrite Forall_forall in Hall. specialize (Hall _ Hin2). unfold dle in Hall. cbn [fst] in Hall. rewrite Hall in Hlt. discriminate.
      + injection Heq as ->. exact (Hd Hd').
  Qed.

  Lemma kcands_sorted : forall s parts values, wfd s -> ksorted (kcands s parts values).
  Proof.
    induction s as [dyn rules stat IHd IHs] using (state_ind' dpart rule). intros parts values Hwf.
    inversion Hwf as [? ? ? Hnd Hsorted Hws Hwdy]; subst.
    destruct parts as [|part rest]; cbn [Trie.kcands].
    - apply fop_app.
      + apply fop_same. intros a b Ha Hb. apply in_map_iff in Ha, Hb. destruct Ha as (ra & <- & _), Hb as (rb & <- & _).
        unfold kle. cbn [fst]. apply key_lt_irrefl.
      + destruct (stat_find [] stat); [|constructor]. apply fop_same. intros a b Ha Hb.
        apply in_map_iff in Ha, Hb. destruct Ha as (ra & <- & _), Hb as (rb & <- & _). unfold kle. cbn [fst]. apply key_lt_irrefl.
      + intros a b Ha Hb. apply in_map_iff in Ha. destruct Ha as (ra & <- & _). unfold kle. cbn [fst]. intro H. inversion H.
    - apply fop_app; [|apply fop_app|].
      + (* static subtree *)
        apply ksorted_prefix. rewrite (stat_apply_find dpart rule). destruct (stat_find part stat) as [c|] eqn:Ef; [|constructor].
        apply (stat_find_in dpart rule) in Ef. eapply IHs; [exact Ef|]. eapply Hws; exact Ef.
      + (* dynamic subtrees, in the sorted order of the transitions *)
        apply dyn_kcollect_sorted; [exact Hnd|exact Hsorted|]. intros d c Hin rem vals. apply (IHd d c Hin). exact (Hwdy d c Hin).
      + destruct (Trie.is_empty_part (part :: rest)); [|constructor]. apply fop_same. intros a b Ha Hb.
        apply in_map_iff in Ha, Hb. destruct Ha as (ra & <- & _), Hb as (rb & <- & _). unfold kle. cbn [fst]. apply key_lt_irrefl.
      + (* a dynamic candidate before the late clause *)
        intros a b Ha Hb. destruct (Trie.is_empty_part (part :: rest)); [|destruct Hb].
        apply in_map_iff in Hb. destruct Hb as (rb & <- & _). unfold kle. cbn [fst].
        destruct (dyn_kcollect_head _ _ _ _ _ _ Ha) as (d' & Ka & _ & ->). intro Hlt. apply key_lt_cons_inv in Hlt.
        destruct Hlt as [Hlt|[Heq _]]; [discriminate|discriminate].
      + (* a static candidate before the dynamic ones and the late clause *)
        intros a b Ha Hb. apply in_map_iff in Ha. destruct Ha as ([Ka ca] & <- & _). unfold kle. cbn [fst snd].
        apply in_app_or in Hb. destruct Hb as [Hb|Hb].
        * destruct (dyn_kcollect_head _ _ _ _ _ _ Hb) as (d' & Kb & _ & ->). intro Hlt. apply key_lt_cons_inv in Hlt.
          destruct Hlt as [Hlt|[Heq _]]; [discriminate|discriminate].
        * destruct (Trie.is_empty_part (part :: rest)); [|destruct Hb].
          apply in_map_iff in Hb. destruct Hb as (rb & <- & _). cbn [fst]. intro Hlt. apply key_lt_cons_inv in Hlt.
          destruct Hlt as [Hlt|[Heq _]]; [discriminate|discriminate].
  Qed.

  (* ------------------------------------------------------------------ the first hit *)
  Definition is_hit (st : step res) : Prop := match st with SFound _ _ | SSlashReq _ => True | _ => False end.

  Lemma scan_first meth ws cs x h w :
    scan meth ws cs = (x, h, w) -> x <> MNone rule res ->
    exists l1 c l2, cs = l1 ++ c :: l2 /\ (forall c', In c' l1 -> ~ is_hit (cand_step meth ws c'))
      /\ match x with
         | MFound _ _ r v => snd (fst c) = r /\ cand_step meth ws c = SFound res v
         | MSlash _ _ => cand_step meth ws c = SSlashReq res
         | MNone _ _ => False
         end.
  Proof.
    revert h w. induction cs as [|c cs IH]; cbn [Trie.scan]; intros h w H Hx; [injection H as <- _ _; contradiction|].
    destruct (cand_step meth ws c) eqn:Es.
    - destruct (IH _ _ H Hx) as (l1 & c0 & l2 & -> & Hl1 & Hc0). exists (c :: l1), c0, l2. split; [reflexivity|]. split; [|exact Hc0].
      intros c' [<-|Hin]; [rewrite Es; exact (fun f => f)|exact (Hl1 c' Hin)].
    - destruct (scan meth ws cs) as [[x0 h'] w'] eqn:E. injection H as -> _ _.
      destruct (IH _ _ eq_refl Hx) as (l1 & c0 & l2 & -> & Hl1 & Hc0). exists (c :: l1), c0, l2. split; [reflexivity|]. split; [|exact Hc0].
      intros c' [<-|Hin]; [rewrite Es; exact (fun f => f)|exact (Hl1 c' Hin)].
    - destruct (scan meth ws cs) as [[x0 h'] w'] eqn:E. injection H as -> _ _.
      destruct (IH _ _ eq_refl Hx) as (l1 & c0 & l2 & -> & Hl1 & Hc0). exists (c :: l1), c0, l2. split; [reflexivity|]. split; [|exact Hc0].
      intros c' [<-|Hin]; [rewrite Es; exact (fun f => f)|exact (Hl1 c' Hin)].
    - injection H as <- _ _. exists [], c, cs. split; [reflexivity|]. split; [intros c' []|]. split; [reflexivity|exact Es].
    - injection H as <- _ _. exists [], c, cs. split; [reflexivity|]. split; [intros c' []|]. exact Es.
  Qed.

  Lemma map_eq_app_cons {A B} (f : A -> B) l l1 y l2 :
    map f l = l1 ++ y :: l2 -> exists k1 x k2, l = k1 ++ x :: k2 /\ map f k1 = l1 /\ f x = y /\ map f k2 = l2.
  Proof.
    revert l. induction l1 as [|z l1 IH]; intros [|a l] H; try discriminate.
    - cbn [app map] in H. injection H as H1 H2. exists [], a, l. auto.
    - cbn [app map] in H. injection H as H1 H2. destruct (IH _ H2) as (k1 & x & k2 & -> & Hk1 & Hx & Hk2).
      exists (a :: k1), x, k2. cbn [map app]. rewrite Hk1, H1. auto.
  Qed.

  Lemma fop_app_cross {A} (R : A -> A -> Prop) l1 a l2 b :
    ForallOrdPairs R (l1 ++ a :: l2) -> In b l2 -> R a b.
  Proof.
    induction l1 as [|x l1 IH]; cbn [app]; intros H Hb; inversion H; subst.
    - match goal with Hf : Forall (R a) l2 |- _ => rewrite Forall_forall in Hf; exact (Hf b Hb) end.
    - apply IH; assumption.
  Qed.

  (* at the root every key is the candidate's own key *)
  Lemma root_key rules parts K k r vals :
    In (K, (k, r, vals)) (kcands (build_trie rules) parts []) -> K = cand_key k r.
  Proof.
    intro H. apply kcands_key in H. destruct H as (sigma & Hst & ->).
    apply (stored_build dpart rule dpart_eqb wlt rparts dpart_eqb_eq) in Hst. destruct Hst as [_ ->].
    destruct k; cbn [late_mark Trie.cand_key]; rewrite ?app_nil_r; reflexivity.
  Qed.

  (* the reported candidate is the first hit of the search; no candidate that is a hit as well is
     strictly before it in the priority order *)
  Theorem root_first_hit rules meth ws parts x h w :
    smatch meth ws (build_trie rules) parts [] = (x, h, w) -> x <> MNone rule res ->
    exists k r vals,
      In (k, r, vals) (cands (build_trie rules) parts [])
      /\ match x with
         | MFound _ _ r0 v => r0 = r /\ cand_step meth ws (k, r, vals) = SFound res v
         | MSlash _ _ => cand_step meth ws (k, r, vals) = SSlashReq res
         | MNone _ _ => False
         end
      /\ forall k' r' vals', In (k', r', vals') (cands (build_trie rules) parts []) ->
           is_hit (cand_step meth ws (k', r', vals')) -> ~ key_lt (cand_key k' r') (cand_key k r).
  Proof.
    rewrite (smatch_scan dpart rule res pmatch rmethods rws rstrict rconvert). intros H Hx.
    destruct (scan_first _ _ _ _ _ _ H Hx) as (l1 & c & l2 & Hcs & Hl1 & Hc).
    destruct c as [[k r] vals]. exists k, r, vals.
    assert (Hin : In (k, r, vals) (cands (build_trie rules) parts [])) by (rewrite Hcs; apply in_or_app; right; left; reflexivity).
    split; [exact Hin|]. split.
    { destruct x; [contradiction| |exact Hc]. destruct Hc as [Hr Hs]. cbn [fst snd] in Hr. subst. split; [reflexivity|exact Hs]. }
    intros k' r' vals' Hin' Hhit.
    rewrite <- kcands_cands in Hcs. apply map_eq_app_cons in Hcs. destruct Hcs as (L1 & [K c0] & L2 & HL & HL1 & Hc0 & HL2).
    cbn [snd] in Hc0. subst c0.
    pose proof (kcands_sorted _ parts [] (wfd_build rules)) as Hsorted. rewrite HL in Hsorted.
    assert (HK : K = cand_key k r).
    { eapply root_key. rewrite HL. apply in_or_app. right. left. reflexivity. }
    rewrite <- kcands_cands, HL in Hin'. apply in_map_iff in Hin'. destruct Hin' as ([K' c'] & Hc' & Hin'). cbn [snd] in Hc'. subst c'.
    assert (HK' : K' = cand_key k' r').
    { eapply root_key. rewrite HL. exact Hin'. }
    apply in_app_or in Hin'. destruct Hin' as [Hin'|[Heq|Hin']].
    - exfalso. apply (Hl1 (k', r', vals')); [|exact Hhit]. rewrite <- HL1. apply in_map_iff. exists (K', (k', r', vals')). auto.
    - injection Heq as <- <- <- <-. rewrite <- HK. apply key_lt_irrefl.
    - pose proof (fop_app_cross _ _ _ _ _ Hsorted Hin') as Hle. unfold kle in Hle. cbn [fst] in Hle. rewrite <- HK, <- HK'. exact Hle.
  Qed.
End Prio.
