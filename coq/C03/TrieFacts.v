(* C03: facts about the generic transition tree of C03/Trie.v.
   smatch is a scan over an ordered enumeration of candidates (smatch_scan); every candidate is a
   rule stored in the tree whose own parts walk the path (cands_sound); the tree built by
   add/update stores exactly the rules of the map behind their own parts (stored_build). *)
From Coq Require Import Lia.
From Wz Require Import lib.Bytes C03.Trie.
Open Scope N_scope.

Lemma list_eqb_eq a b : list_eqb a b = true -> a = b.
Proof.
  revert b. induction a as [|x a IH]; destruct b as [|y b]; cbn [list_eqb]; intro H;
    try discriminate; [reflexivity|].
  apply andb_prop in H. destruct H as [Hx Hab]. apply N.eqb_eq in Hx. subst y.
  f_equal. apply IH. exact Hab.
Qed.
Lemma list_eqb_refl a : list_eqb a a = true.
Proof. induction a as [|x a IH]; cbn [list_eqb]; [reflexivity|]. rewrite N.eqb_refl, IH. reflexivity. Qed.

Section Facts.
  Variable dpart : Type.
  Variable rule : Type.
  Variable res : Type.
  Variable pmatch : dpart -> str -> list str -> option (list str * list str).
  Variable dpart_eqb : dpart -> dpart -> bool.
  Variable wlt : dpart -> dpart -> bool.
  Variable rmethods : rule -> option (list str).
  Variable rws : rule -> bool.
  Variable rstrict : rule -> bool.
  Variable rconvert : rule -> list str -> option res.
  Variable rparts : rule -> list (cpart dpart).
  Hypothesis dpart_eqb_eq : forall a b, dpart_eqb a b = true -> a = b.

  Notation state := (state dpart rule).
  Notation cpart := (cpart dpart).
  Notation St := (St dpart rule).
  Notation PStatic := (PStatic dpart).
  Notation PDyn := (PDyn dpart).
  Notation R := (R rule res).
  Notation cand := (cand rule).
  Notation smatch := (smatch dpart rule res pmatch rmethods rws rstrict rconvert).
  Notation cands := (cands dpart rule pmatch).
  Notation scan := (scan rule res rmethods rws rstrict rconvert).
  Notation cand_step := (cand_step rule res rmethods rws rstrict rconvert).
  Notation try_rules := (try_rules rule res rmethods rws rstrict rconvert).
  Notation try_slash_rules := (try_slash_rules rule res rmethods rws rstrict rconvert).
  Notation walk := (walk dpart pmatch).
  Notation stored := (stored dpart rule).
  Notation orelse := (orelse rule res).
  Notation rnone := (rnone rule res).
  Notation stat_find := (stat_find dpart rule).
  Notation add_parts := (add_parts dpart rule dpart_eqb).
  Notation update := (update dpart rule wlt).
  Notation build_trie := (build_trie dpart rule dpart_eqb wlt rparts).
  Notation empty_state := (empty_state dpart rule).

  (* ------------------------------------------------------------------ induction on states *)
  Lemma state_ind' (P : state -> Prop) :
    (forall dyn rules stat,
        (forall d c, In (d, c) dyn -> P c) -> (forall k c, In (k, c) stat -> P c) -> P (St dyn rules stat)) ->
    forall s, P s.
  Proof.
    intro H. fix IH 1. intros [dyn rules stat]. apply H.
    - induction dyn as [|[d0 c0] dyn IHd]; intros d c Hin; [destruct Hin|].
      destruct Hin as [Heq|Hin]; [|exact (IHd d c Hin)].
      assert (Pc0 : P c0) by apply IH. injection Heq as _ <-. exact Pc0.
    - induction stat as [|[k0 c0] stat IHs]; intros k c Hin; [destruct Hin|].
      destruct Hin as [Heq|Hin]; [|exact (IHs k c Hin)].
      assert (Pc0 : P c0) by apply IH. injection Heq as _ <-. exact Pc0.
  Qed.

  (* ------------------------------------------------------------------ scan *)
  Lemma orelse_none_l (k : unit -> R) : orelse rnone k = k tt.
  Proof. unfold Trie.orelse, Trie.rnone. destruct (k tt) as [[x h] w]. reflexivity. Qed.

  Lemma orelse_assoc (a : R) (k1 k2 : unit -> R) :
    orelse (orelse a k1) k2 = orelse a (fun _ => orelse (k1 tt) k2).
  Proof.
    unfold Trie.orelse. destruct a as [[x h] w]. destruct x; try reflexivity.
    destruct (k1 tt) as [[x1 h1] w1]. destruct x1; try reflexivity.
    destruct (k2 tt) as [[x2 h2] w2]. rewrite app_assoc, orb_assoc. reflexivity.
  Qed.

  Lemma scan_app meth ws (a b : list cand) :
    scan meth ws (a ++ b) = orelse (scan meth ws a) (fun _ => scan meth ws b).
  Proof.
    induction a as [|c a IH]; cbn [app Trie.scan].
    - rewrite orelse_none_l. reflexivity.
    - destruct (cand_step meth ws c); try reflexivity.
      + exact IH.
      + rewrite IH. unfold Trie.orelse. destruct (scan meth ws a) as [[x h] w].
        destruct x; try reflexivity. destruct (scan meth ws b) as [[x2 h2] w2].
        rewrite app_assoc. reflexivity.
      + rewrite IH. unfold Trie.orelse. destruct (scan meth ws a) as [[x h] w].
        destruct x; try reflexivity. destruct (scan meth ws b) as [[x2 h2] w2]. reflexivity.
  Qed.

  Lemma try_rules_here meth ws rules values :
    try_rules false meth ws rules values = scan meth ws (map (fun r => (KHere, r, values)) rules).
  Proof.
    induction rules as [|r rs IH]; cbn [Trie.try_rules map Trie.scan Trie.cand_step andb fst snd]; [reflexivity|].
    destruct (rconvert r values) as [v|]; [|exact IH].
    destruct (negb (method_ok rule rmethods r meth)); [rewrite IH; reflexivity|].
    destruct (negb (Bool.eqb (rws r) ws)); [rewrite IH; reflexivity|]. reflexivity.
  Qed.

  Lemma try_rules_late meth ws rules values :
    try_rules true meth ws rules values = scan meth ws (map (fun r => (KLate, r, values)) rules).
  Proof.
    induction rules as [|r rs IH]; cbn [Trie.try_rules map Trie.scan Trie.cand_step andb fst snd]; [reflexivity|].
    destruct (rstrict r); [exact IH|].
    destruct (rconvert r values) as [v|]; [|exact IH].
    destruct (negb (method_ok rule rmethods r meth)); [rewrite IH; reflexivity|].
    destruct (negb (Bool.eqb (rws r) ws)); [rewrite IH; reflexivity|]. reflexivity.
  Qed.

  Lemma try_slash_scan meth ws rules values :
    try_slash_rules meth ws rules values = scan meth ws (map (fun r => (KSlash, r, values)) rules).
  Proof.
    induction rules as [|r rs IH]; cbn [Trie.try_slash_rules map Trie.scan Trie.cand_step andb fst snd]; [reflexivity|].
    destruct (rconvert r values) as [v|]; [|exact IH].
    destruct (rstrict r).
    - destruct (Bool.eqb ws (rws r) && method_ok rule rmethods r meth); [reflexivity|exact IH].
    - destruct (negb (method_ok rule rmethods r meth)); [rewrite IH; reflexivity|].
      destruct (negb (Bool.eqb (rws r) ws)); [rewrite IH; reflexivity|]. reflexivity.
  Qed.

  Lemma orelse_ext (a a' : R) (k k' : unit -> R) : a = a' -> k tt = k' tt -> orelse a k = orelse a' k'.
  Proof. intros -> H. unfold Trie.orelse. destruct a' as [[x h] w]. destruct x; try reflexivity. rewrite H. reflexivity. Qed.

  (* ------------------------------------------------------------------ smatch = scan of the candidates *)
  Theorem smatch_scan meth ws : forall s parts values,
    smatch meth ws s parts values = scan meth ws (cands s parts values).
  Proof.
    induction s as [dyn rules stat IHd IHs] using state_ind'. intros parts values.
    destruct parts as [|part rest].
    - cbn [Trie.smatch Trie.cands]. rewrite scan_app, try_rules_here.
      destruct (stat_find [] stat) as [c|]; [rewrite try_slash_scan|]; reflexivity.
    - cbn [Trie.smatch Trie.cands]. rewrite !scan_app. apply orelse_ext; [|apply orelse_ext].
      + (* static *)
        clear IHd. induction stat as [|[k c] stat IH]; cbn [Trie.stat_apply]; [reflexivity|].
        destruct (list_eqb k part).
        * apply (IHs k c). left. reflexivity.
        * apply IH. intros k' c' Hin. apply (IHs k' c'). right. exact Hin.
      + (* dynamic *)
        clear IHs. induction dyn as [|[d c] dyn IH]; cbn [Trie.dyn_loop Trie.dyn_collect]; [reflexivity|].
        assert (IH' := IH (fun d' c' Hin => IHd d' c' (or_intror Hin))).
        destruct (pmatch d part rest) as [[g rem]|]; [|exact IH'].
        rewrite scan_app. apply orelse_ext; [|exact IH'].
        apply (IHd d c). left. reflexivity.
      + destruct (Trie.is_empty_part (part :: rest)); [apply try_rules_late|reflexivity].
  Qed.

  (* ------------------------------------------------------------------ candidates are stored rules
     whose transitions walk the path *)
  Definition cand_ok (s : state) (parts values : list str) (c : cand) : Prop :=
    match c with
    | (k, r, vals') =>
        exists sigma caps, vals' = values ++ caps /\
          match k with
          | KHere => stored r s sigma /\ walk sigma parts = Some (caps, [])
          | KLate => stored r s sigma /\ walk sigma parts = Some (caps, [[]])
          | KSlash => stored r s (sigma ++ [PStatic []]) /\ walk sigma parts = Some (caps, [])
          end
    end.

  Lemma stat_find_in k l c : stat_find k l = Some c -> In (k, c) l.
  Proof.
    induction l as [|[k' c'] l IH]; cbn [Trie.stat_find]; [discriminate|].
    destruct (list_eqb k' k) eqn:E.
    - intro H. injection H as <-. apply list_eqb_eq in E. subst k'. left. reflexivity.
    - intro H. right. exact (IH H).
  Qed.

  Lemma cand_ok_static dyn rules stat k child part rest values c :
    In (k, child) stat -> list_eqb k part = true ->
    cand_ok child rest values c -> cand_ok (St dyn rules stat) (part :: rest) values c.
  Proof.
    intros Hin Hk. destruct c as [[kd r] vals']. intros (sigma & caps & Hv & H).
    exists (PStatic k :: sigma), caps. split; [exact Hv|].
    destruct kd; destruct H as [Hst Hw]; (split; [|cbn [Trie.walk]; rewrite Hk; exact Hw]).
    - eapply stored_stat; eassumption.
    - rewrite <- app_comm_cons. eapply stored_stat; eassumption.
    - eapply stored_stat; eassumption.
  Qed.

  Lemma cand_ok_dyn dyn rules stat d child part rest g rem values c :
    In (d, child) dyn -> pmatch d part rest = Some (g, rem) ->
    cand_ok child rem (values ++ g) c -> cand_ok (St dyn rules stat) (part :: rest) values c.
  Proof.
    intros Hin Hp. destruct c as [[kd r] vals']. intros (sigma & caps & Hv & H).
    exists (PDyn d :: sigma), (g ++ caps). split; [rewrite Hv, app_assoc; reflexivity|].
    destruct kd; destruct H as [Hst Hw]; (split; [|cbn [Trie.walk]; rewrite Hp, Hw; reflexivity]).
    - eapply stored_dyn; eassumption.
    - rewrite <- app_comm_cons. eapply stored_dyn; eassumption.
    - eapply stored_dyn; eassumption.
  Qed.

  Theorem cands_sound : forall s parts values c, In c (cands s parts values) -> cand_ok s parts values c.
  Proof.
    induction s as [dyn rules stat IHd IHs] using state_ind'. intros parts values c.
    destruct parts as [|part rest]; cbn [Trie.cands]; intro Hin; apply in_app_or in Hin.
    - destruct Hin as [Hin|Hin].
      + apply in_map_iff in Hin. destruct Hin as (r & <- & Hr).
        exists [], []. split; [rewrite app_nil_r; reflexivity|]. split; [constructor; exact Hr|reflexivity].
      + destruct (stat_find [] stat) as [child|] eqn:Ef; [|destruct Hin].
        apply in_map_iff in Hin. destruct Hin as (r & <- & Hr).
        exists [], []. split; [rewrite app_nil_r; reflexivity|]. split; [|reflexivity].
        cbn [app]. apply stat_find_in in Ef. eapply stored_stat; [exact Ef|].
        destruct child as [cd cr cs]. constructor. exact Hr.
    - destruct Hin as [Hin|Hin]; [|apply in_app_or in Hin; destruct Hin as [Hin|Hin]].
      + (* static *)
        clear IHd. induction stat as [|[k child] stat IH]; cbn [Trie.stat_apply] in Hin; [destruct Hin|].
        destruct (list_eqb k part) eqn:Ek.
        * eapply cand_ok_static; [left; reflexivity|exact Ek|]. apply (IHs k child); [left; reflexivity|exact Hin].
        * assert (H : cand_ok (St dyn rules stat) (part :: rest) values c).
          { apply IH; [|exact Hin]. intros k' c' Hin'. apply (IHs k' c'). right. exact Hin'. }
          destruct c as [[kd r] vals']. destruct H as (sigma & caps & Hv & H).
          exists sigma, caps. split; [exact Hv|].
          assert (Hmono : forall sg, stored r (St dyn rules stat) sg -> stored r (St dyn rules ((k, child) :: stat)) sg).
          { intros sg Hs. inversion Hs; subst.
            - constructor; assumption.
            - eapply stored_stat; [right; eassumption|assumption].
            - eapply stored_dyn; eassumption. }
          destruct kd; destruct H as [Hst Hw]; (split; [apply Hmono; exact Hst|exact Hw]).
      + (* dynamic *)
        clear IHs. induction dyn as [|[d child] dyn IH]; cbn [Trie.dyn_collect] in Hin; [destruct Hin|].
        assert (Hrest : In c (Trie.dyn_collect dpart rule pmatch (fun c rem vals => cands c rem vals) part rest values dyn) ->
                        cand_ok (St ((d, child) :: dyn) rules stat) (part :: rest) values c).
        { intro Hin'.
          assert (H : cand_ok (St dyn rules stat) (part :: rest) values c).
          { apply IH; [|exact Hin']. intros d' c' Hin''. apply (IHd d' c'). right. exact Hin''. }
          destruct c as [[kd r] vals']. destruct H as (sigma & caps & Hv & H).
          exists sigma, caps. split; [exact Hv|].
          assert (Hmono : forall sg, stored r (St dyn rules stat) sg -> stored r (St ((d, child) :: dyn) rules stat) sg).
          { intros sg Hs. inversion Hs; subst.
            - constructor; assumption.
            - eapply stored_stat; eassumption.
            - eapply stored_dyn; [right; eassumption|assumption]. }
          destruct kd; destruct H as [Hst Hw]; (split; [apply Hmono; exact Hst|exact Hw]). }
        destruct (pmatch d part rest) as [[g rem]|] eqn:Ep; [|exact (Hrest Hin)].
        apply in_app_or in Hin. destruct Hin as [Hin|Hin]; [|exact (Hrest Hin)].
        eapply cand_ok_dyn; [left; reflexivity|exact Ep|]. apply (IHd d child); [left; reflexivity|exact Hin].
      + (* the late trailing-slash clause *)
        destruct rest as [|x rest']; [|destruct part; destruct Hin].
        destruct part as [|y part']; [|destruct Hin].
        cbn [Trie.is_empty_part] in Hin. apply in_map_iff in Hin. destruct Hin as (r & <- & Hr).
        exists [], []. split; [rewrite app_nil_r; reflexivity|]. split; [constructor; exact Hr|reflexivity].
  Qed.

  (* ------------------------------------------------------------------ what a scan result says *)
  Lemma scan_found meth ws cs r v h w :
    scan meth ws cs = (MFound rule res r v, h, w) ->
    exists k vals, In (k, r, vals) cs /\ cand_step meth ws (k, r, vals) = SFound res v.
  Proof.
    revert h w. induction cs as [|c cs IH]; cbn [Trie.scan]; intros h w H; [discriminate|].
    destruct (cand_step meth ws c) eqn:Es.
    - destruct (IH _ _ H) as (k & vals & Hin & Hs). exists k, vals. split; [right; exact Hin|exact Hs].
    - destruct (scan meth ws cs) as [[x h'] w'] eqn:E. injection H as -> _ _.
      destruct (IH _ _ eq_refl) as (k & vals & Hin & Hs). exists k, vals. split; [right; exact Hin|exact Hs].
    - destruct (scan meth ws cs) as [[x h'] w'] eqn:E. injection H as -> _ _.
      destruct (IH _ _ eq_refl) as (k & vals & Hin & Hs). exists k, vals. split; [right; exact Hin|exact Hs].
    - injection H as <- <- _ _. destruct c as [[k r'] vals]. exists k, vals. split; [left; reflexivity|exact Es].
    - discriminate.
  Qed.

  Lemma scan_slash meth ws cs h w :
    scan meth ws cs = (MSlash rule res, h, w) ->
    exists k r vals, In (k, r, vals) cs /\ cand_step meth ws (k, r, vals) = SSlashReq res.
  Proof.
    revert h w. induction cs as [|c cs IH]; cbn [Trie.scan]; intros h w H; [discriminate|].
    destruct (cand_step meth ws c) eqn:Es.
    - destruct (IH _ _ H) as (k & r & vals & Hin & Hs). exists k, r, vals. split; [right; exact Hin|exact Hs].
    - destruct (scan meth ws cs) as [[x h'] w'] eqn:E. injection H as -> _ _.
      destruct (IH _ _ eq_refl) as (k & r & vals & Hin & Hs). exists k, r, vals. split; [right; exact Hin|exact Hs].
    - destruct (scan meth ws cs) as [[x h'] w'] eqn:E. injection H as -> _ _.
      destruct (IH _ _ eq_refl) as (k & r & vals & Hin & Hs). exists k, r, vals. split; [right; exact Hin|exact Hs].
    - discriminate.
    - destruct c as [[k r] vals]. exists k, r, vals. split; [left; reflexivity|exact Es].
  Qed.

  Lemma step_found meth ws k r vals v :
    cand_step meth ws (k, r, vals) = SFound res v ->
    rconvert r vals = Some v /\ method_ok rule rmethods r meth = true /\ rws r = ws
    /\ (k = KHere \/ rstrict r = false).
  Proof.
    cbn [Trie.cand_step].
    destruct k; cbn [andb]; destruct (rstrict r) eqn:Est; cbn [andb]; try discriminate;
      destruct (rconvert r vals) as [v'|]; try discriminate;
      try (destruct (Bool.eqb ws (rws r) && method_ok rule rmethods r meth); discriminate);
      destruct (method_ok rule rmethods r meth); cbn [negb]; try discriminate;
      destruct (Bool.eqb (rws r) ws) eqn:Ew; cbn [negb]; try discriminate;
      intro H; injection H as <-; apply Bool.eqb_prop in Ew; auto.
  Qed.

  Lemma step_slash meth ws k r vals :
    cand_step meth ws (k, r, vals) = SSlashReq res ->
    k = KSlash /\ rstrict r = true /\ (exists v, rconvert r vals = Some v)
    /\ method_ok rule rmethods r meth = true /\ rws r = ws.
  Proof.
    cbn [Trie.cand_step].
    destruct k; cbn [andb]; destruct (rstrict r) eqn:Est; cbn [andb]; try discriminate;
      destruct (rconvert r vals) as [v'|] eqn:Ec; try discriminate;
      try (destruct (method_ok rule rmethods r meth); cbn [negb]; try discriminate;
           destruct (Bool.eqb (rws r) ws); cbn [negb]; discriminate).
    destruct (Bool.eqb ws (rws r)) eqn:Ew; cbn [andb]; [|discriminate].
    destruct (method_ok rule rmethods r meth); [|discriminate].
    intros _. apply Bool.eqb_prop in Ew. repeat split; eauto.
  Qed.

  (* ------------------------------------------------------------------ what add / update store *)
  Lemma stored_empty r sigma : ~ stored r empty_state sigma.
  Proof. intro H. inversion H; subst; contradiction. Qed.

  Lemma stat_upd_in k f l k' c :
    In (k', c) (Trie.stat_upd dpart rule k f l) ->
    In (k', c) l \/ (k' = k /\ ((exists c0, In (k', c0) l /\ c = f c0) \/ c = f empty_state)).
  Proof.
    induction l as [|[k0 c0] l IH]; cbn [Trie.stat_upd].
    - intros [H|[]]. injection H as <- <-. right. split; [reflexivity|right; reflexivity].
    - destruct (list_eqb k0 k) eqn:E.
      + intros [H|H].
        * injection H as <- <-. apply list_eqb_eq in E. subst k0. right. split; [reflexivity|].
          left. exists c0. split; [left; reflexivity|reflexivity].
        * left. right. exact H.
      + intros [H|H].
        * left. left. exact H.
        * destruct (IH H) as [H'|(Hk & [(c1 & Hin & Hc)|Hc])].
          -- left. right. exact H'.
          -- right. split; [exact Hk|]. left. exists c1. split; [right; exact Hin|exact Hc].
          -- right. split; [exact Hk|]. right. exact Hc.
  Qed.

  Lemma dyn_upd_in d f l d' c :
    In (d', c) (Trie.dyn_upd dpart rule dpart_eqb d f l) ->
    In (d', c) l \/ (d' = d /\ ((exists c0, In (d', c0) l /\ c = f c0) \/ c = f empty_state)).
  Proof.
    induction l as [|[d0 c0] l IH]; cbn [Trie.dyn_upd].
    - intros [H|[]]. injection H as <- <-. right. split; [reflexivity|right; reflexivity].
    - destruct (dpart_eqb d0 d) eqn:E.
      + intros [H|H].
        * injection H as <- <-. apply dpart_eqb_eq in E. subst d0. right. split; [reflexivity|].
          left. exists c0. split; [left; reflexivity|reflexivity].
        * left. right. exact H.
      + intros [H|H].
        * left. left. exact H.
        * destruct (IH H) as [H'|(Hk & [(c1 & Hin & Hc)|Hc])].
          -- left. right. exact H'.
          -- right. split; [exact Hk|]. left. exists c1. split; [right; exact Hin|exact Hc].
          -- right. split; [exact Hk|]. right. exact Hc.
  Qed.

  Lemma stored_add ps r0 : forall s r sigma,
    stored r (add_parts ps r0 s) sigma -> stored r s sigma \/ (r = r0 /\ sigma = ps).
  Proof.
    induction ps as [|p ps IH]; intros [dyn rules stat] r sigma H.
    - cbn [Trie.add_parts Trie.st_dyn Trie.st_rules Trie.st_stat] in H. inversion H; subst.
      + match goal with Hi : In r (rules ++ [r0]) |- _ => apply in_app_or in Hi; destruct Hi as [Hi|[<-|[]]] end.
        * left. constructor. assumption.
        * right. split; reflexivity.
      + left. eapply stored_stat; eassumption.
      + left. eapply stored_dyn; eassumption.
    - destruct p as [k|d]; cbn [Trie.add_parts Trie.st_dyn Trie.st_rules Trie.st_stat] in H; inversion H; subst.
      + left. constructor. assumption.
      + match goal with Hi : In (_, _) (Trie.stat_upd _ _ _ _ _) |- _ => apply stat_upd_in in Hi;
          destruct Hi as [Hi|(-> & [(c0 & Hi & ->) | -> ])] end.
        * left. eapply stored_stat; eassumption.
        * match goal with Hs : stored r (add_parts ps r0 c0) _ |- _ => destruct (IH _ _ _ Hs) as [Hs'|(-> & ->)] end.
          -- left. eapply stored_stat; eassumption.
          -- right. split; reflexivity.
        * match goal with Hs : stored r (add_parts ps r0 empty_state) _ |- _ => destruct (IH _ _ _ Hs) as [Hs'|(-> & ->)] end.
          -- exfalso. exact (stored_empty _ _ Hs').
          -- right. split; reflexivity.
      + left. eapply stored_dyn; eassumption.
      + left. constructor. assumption.
      + left. eapply stored_stat; eassumption.
      + match goal with Hi : In (_, _) (Trie.dyn_upd _ _ _ _ _ _) |- _ => apply dyn_upd_in in Hi;
          destruct Hi as [Hi|(-> & [(c0 & Hi & ->) | -> ])] end.
        * left. eapply stored_dyn; eassumption.
        * match goal with Hs : stored r (add_parts ps r0 c0) _ |- _ => destruct (IH _ _ _ Hs) as [Hs'|(-> & ->)] end.
          -- left. eapply stored_dyn; eassumption.
          -- right. split; reflexivity.
        * match goal with Hs : stored r (add_parts ps r0 empty_state) _ |- _ => destruct (IH _ _ _ Hs) as [Hs'|(-> & ->)] end.
          -- exfalso. exact (stored_empty _ _ Hs').
          -- right. split; reflexivity.
  Qed.

  Lemma insert_dyn_in x l y : In y (Trie.insert_dyn dpart rule wlt x l) -> y = x \/ In y l.
  Proof.
    induction l as [|z l IH]; cbn [Trie.insert_dyn].
    - intros [H|[]]. left. symmetry. exact H.
    - destruct (wlt (fst z) (fst x)).
      + intros [H|H]; [right; left; exact H|]. destruct (IH H) as [H'|H']; [left; exact H'|right; right; exact H'].
      + intros [H|H]; [left; symmetry; exact H|right; exact H].
  Qed.
  Lemma sort_dyn_in l y : In y (Trie.sort_dyn dpart rule wlt l) -> In y l.
  Proof.
    induction l as [|x l IH]; cbn [Trie.sort_dyn fold_right]; [intros []|].
    intro H. apply insert_dyn_in in H. destruct H as [->|H]; [left; reflexivity|right; exact (IH H)].
  Qed.

  Lemma stored_update r : forall s sigma, stored r (update s) sigma -> stored r s sigma.
  Proof.
    induction s as [dyn rules stat IHd IHs] using state_ind'. intros sigma H.
    cbn [Trie.update] in H. inversion H; subst.
    - constructor. assumption.
    - match goal with Hi : In (_, _) (map _ stat) |- _ => apply in_map_iff in Hi; destruct Hi as ([k0 c0] & Heq & Hin0) end.
      cbn [fst snd] in Heq. injection Heq as <- <-.
      eapply stored_stat; [exact Hin0|]. eapply IHs; eassumption.
    - match goal with Hi : In (_, _) (Trie.sort_dyn _ _ _ _) |- _ => apply sort_dyn_in in Hi;
        apply in_map_iff in Hi; destruct Hi as ([d0 c0] & Heq & Hin0) end.
      cbn [fst snd] in Heq. injection Heq as <- <-.
      eapply stored_dyn; [exact Hin0|]. eapply IHd; eassumption.
  Qed.

  Lemma stored_fold rules : forall s0 r sigma,
    stored r (fold_left (fun s r => add_parts (rparts r) r s) rules s0) sigma ->
    stored r s0 sigma \/ (In r rules /\ sigma = rparts r).
  Proof.
    induction rules as [|r0 rules IH]; cbn [fold_left]; intros s0 r sigma H; [left; exact H|].
    destruct (IH _ _ _ H) as [H'|(Hin & Hs)].
    - destruct (stored_add _ _ _ _ _ H') as [H''|(-> & ->)]; [left; exact H''|].
      right. split; [left; reflexivity|reflexivity].
    - right. split; [right; exact Hin|exact Hs].
  Qed.

  Theorem stored_build rules r sigma :
    stored r (build_trie rules) sigma -> In r rules /\ sigma = rparts r.
  Proof.
    unfold Trie.build_trie. intro H. apply stored_update in H.
    destruct (stored_fold _ _ _ _ H) as [H'|H']; [exfalso; exact (stored_empty _ _ H')|exact H'].
  Qed.

  (* ------------------------------------------------------------------ walk *)
  Lemma walk_app a b parts :
    walk (a ++ b) parts =
    match walk a parts with
    | Some (caps, lo) => match walk b lo with Some (caps', lo') => Some (caps ++ caps', lo') | None => None end
    | None => None
    end.
  Proof.
    revert parts. induction a as [|c a IH]; intro parts; cbn [app].
    - cbn [Trie.walk]. destruct (walk b parts) as [[caps' lo']|]; reflexivity.
    - destruct c as [k|d]; cbn [Trie.walk]; destruct parts as [|p ps]; try reflexivity.
      + destruct (list_eqb k p); [apply IH|reflexivity].
      + destruct (pmatch d p ps) as [[g rem]|]; [|reflexivity]. rewrite IH.
        destruct (walk a rem) as [[caps lo]|]; [|reflexivity].
        destruct (walk b lo) as [[caps' lo']|]; [|reflexivity]. rewrite app_assoc. reflexivity.
  Qed.

  Lemma strip_last_empty_app cs : Trie.strip_last_empty dpart (cs ++ [PStatic []]) = Some cs.
  Proof.
    induction cs as [|c cs IH]; [reflexivity|].
    cbn [app]. destruct c as [k|d].
    - destruct k as [|x k].
      + destruct cs as [|c' cs']; [reflexivity|].
        change (option_map (cons (PStatic [])) (Trie.strip_last_empty dpart ((c' :: cs') ++ [PStatic []])) = Some (PStatic [] :: c' :: cs')).
        rewrite IH. reflexivity.
      + cbn [Trie.strip_last_empty]. rewrite IH. reflexivity.
    - cbn [Trie.strip_last_empty]. rewrite IH. reflexivity.
  Qed.

  Notation admits := (Trie.admits dpart rule res pmatch rstrict rconvert rparts).

  Lemma admits_here r parts caps v :
    walk (rparts r) parts = Some (caps, []) -> rconvert r caps = Some v -> admits r parts = ADirect res v.
  Proof. intros Hw Hc. unfold Trie.admits, Trie.convert_adm. rewrite Hw, Hc. reflexivity. Qed.

  Lemma admits_late r parts caps v :
    walk (rparts r) parts = Some (caps, [[]]) -> rstrict r = false -> rconvert r caps = Some v ->
    admits r parts = ADirect res v.
  Proof. intros Hw Hs Hc. unfold Trie.admits, Trie.convert_adm. rewrite Hw, Hs, Hc. reflexivity. Qed.

  Lemma admits_slashless r parts sigma caps v :
    rparts r = sigma ++ [PStatic []] -> walk sigma parts = Some (caps, []) -> rconvert r caps = Some v ->
    admits r parts = if rstrict r then ASlash res else ADirect res v.
  Proof.
    intros Hp Hw Hc. unfold Trie.admits, Trie.convert_adm.
    rewrite Hp, walk_app, Hw. cbn [Trie.walk]. rewrite strip_last_empty_app, Hw, Hc. reflexivity.
  Qed.

  (* ------------------------------------------------------------------ soundness of the search at the root *)
  Theorem root_found_sound rules meth ws parts r v h w :
    smatch meth ws (build_trie rules) parts [] = (MFound rule res r v, h, w) ->
    In r rules /\ admits r parts = ADirect res v /\ method_ok rule rmethods r meth = true /\ rws r = ws.
  Proof.
    rewrite smatch_scan. intro H. apply scan_found in H. destruct H as (k & vals & Hin & Hs).
    apply step_found in Hs. destruct Hs as (Hc & Hm & Hw & Hk).
    apply cands_sound in Hin. destruct Hin as (sigma & caps & Hv & Hst). cbn [app] in Hv. subst vals.
    destruct k; destruct Hst as [Hst Hwk]; apply stored_build in Hst; destruct Hst as [Hr Hsig].
    - subst sigma. repeat split; try assumption. eapply admits_here; eassumption.
    - destruct Hk as [Hk|Hk]; [discriminate|]. repeat split; try assumption.
      rewrite (admits_slashless _ _ _ _ _ (eq_sym Hsig) Hwk Hc), Hk. reflexivity.
    - destruct Hk as [Hk|Hk]; [discriminate|]. subst sigma. repeat split; try assumption.
      eapply admits_late; eassumption.
  Qed.

  Theorem root_slash_sound rules meth ws parts h w :
    smatch meth ws (build_trie rules) parts [] = (MSlash rule res, h, w) ->
    exists r, In r rules /\ admits r parts = ASlash res /\ method_ok rule rmethods r meth = true /\ rws r = ws.
  Proof.
    rewrite smatch_scan. intro H. apply scan_slash in H. destruct H as (k & r & vals & Hin & Hs).
    apply step_slash in Hs. destruct Hs as (-> & Hstrict & (v & Hc) & Hm & Hw).
    apply cands_sound in Hin. destruct Hin as (sigma & caps & Hv & Hst & Hwk). cbn [app] in Hv. subst vals.
    apply stored_build in Hst. destruct Hst as [Hr Hsig].
    exists r. repeat split; try assumption.
    rewrite (admits_slashless _ _ _ _ _ (eq_sym Hsig) Hwk Hc), Hstrict. reflexivity.
  Qed.

  (* ================================================================== completeness *)
  Lemma NoDup_app_one {A} (l : list A) x : NoDup l -> ~ In x l -> NoDup (l ++ [x]).
  Proof.
    intros Hl Hx. induction Hl as [|y l Hy Hl IH]; cbn [app]; [constructor; [intros []|constructor]|].
    constructor.
    - intro Hin. apply in_app_or in Hin. destruct Hin as [Hin|[<-|[]]]; [exact (Hy Hin)|]. apply Hx. left. reflexivity.
    - apply IH. intro Hin. apply Hx. right. exact Hin.
  Qed.

  Lemma list_eqb_true_iff a b : list_eqb a b = true <-> a = b.
  Proof. split; [apply list_eqb_eq|intros ->; apply list_eqb_refl]. Qed.

  (* static transitions of every state have distinct keys (a dict) *)
  Inductive wfk : state -> Prop :=
  | wfk_intro dyn rules stat :
      NoDup (map fst stat) ->
      (forall k c, In (k, c) stat -> wfk c) -> (forall d c, In (d, c) dyn -> wfk c) ->
      wfk (St dyn rules stat).

  Lemma wfk_empty : wfk empty_state.
  Proof. constructor; [constructor|intros ? ? []|intros ? ? []]. Qed.

  Lemma stat_upd_keys k f l :
    map fst (Trie.stat_upd dpart rule k f l) = if existsb (fun kc => list_eqb (fst kc) k) l then map fst l else map fst l ++ [k].
  Proof.
    induction l as [|[k0 c0] l IH]; cbn [Trie.stat_upd existsb map fst]; [reflexivity|].
    destruct (list_eqb k0 k) eqn:E; cbn [orb map fst]; [reflexivity|]. rewrite IH.
    match goal with |- context [existsb ?f l] => destruct (existsb f l) end; reflexivity.
  Qed.

  Lemma existsb_key_in k l :
    existsb (fun kc : str * state => list_eqb (fst kc) k) l = false -> ~ In k (map fst l).
  Proof.
    induction l as [|[k0 c0] l IH]; cbn [existsb map fst]; [intros _ []|].
    intro H. apply orb_false_elim in H. destruct H as [H1 H2]. intros [Heq|Hin]; [|exact (IH H2 Hin)].
    subst k0. rewrite list_eqb_refl in H1. discriminate.
  Qed.

  Lemma wfk_add ps r : forall s, wfk s -> wfk (add_parts ps r s).
  Proof.
    induction ps as [|p ps IH]; intros s Hs; inversion Hs as [dyn rules stat Hnd Hst Hdy]; subst.
    - cbn [Trie.add_parts Trie.st_dyn Trie.st_rules Trie.st_stat]. constructor; assumption.
    - destruct p as [k|d]; cbn [Trie.add_parts Trie.st_dyn Trie.st_rules Trie.st_stat]; constructor; try assumption.
      + rewrite stat_upd_keys.
        match goal with |- context [existsb ?f stat] => destruct (existsb f stat) eqn:E end; [exact Hnd|].
        apply NoDup_app_one; [exact Hnd|]. apply existsb_key_in. exact E.
      + intros k' c Hin. apply stat_upd_in in Hin. destruct Hin as [Hin|(-> & [(c0 & Hin & ->)| ->])].
        * eapply Hst; eassumption.
        * apply IH. eapply Hst; eassumption.
        * apply IH. exact wfk_empty.
      + intros d' c Hin. apply dyn_upd_in in Hin. destruct Hin as [Hin|(-> & [(c0 & Hin & ->)| ->])].
        * eapply Hdy; eassumption.
        * apply IH. eapply Hdy; eassumption.
        * apply IH. exact wfk_empty.
  Qed.

  Lemma in_insert_dyn x l y : y = x \/ In y l -> In y (Trie.insert_dyn dpart rule wlt x l).
  Proof.
    induction l as [|z l IH]; cbn [Trie.insert_dyn].
    - intros [->|[]]. left. reflexivity.
    - destruct (wlt (fst z) (fst x)).
      + intros [->|[->|H]]; [right; apply IH; left; reflexivity|left; reflexivity|right; apply IH; right; exact H].
      + intros [->|H]; [left; reflexivity|right; exact H].
  Qed.
  Lemma in_sort_dyn l y : In y l -> In y (Trie.sort_dyn dpart rule wlt l).
  Proof.
    induction l as [|x l IH]; cbn [Trie.sort_dyn fold_right]; [intros []|].
    intros [->|H]; apply in_insert_dyn; [left; reflexivity|right; exact (IH H)].
  Qed.

  Lemma wfk_update : forall s, wfk s -> wfk (update s).
  Proof.
    induction s as [dyn rules stat IHd IHs] using state_ind'. intro H. inversion H as [? ? ? Hnd Hst Hdy]; subst.
    cbn [Trie.update]. constructor.
    - rewrite map_map. cbn [fst]. exact Hnd.
    - intros k c Hin. apply in_map_iff in Hin. destruct Hin as ([k0 c0] & Heq & Hin0). cbn [fst snd] in Heq.
      injection Heq as <- <-. eapply IHs; [exact Hin0|]. eapply Hst; exact Hin0.
    - intros d c Hin. apply sort_dyn_in in Hin. apply in_map_iff in Hin. destruct Hin as ([d0 c0] & Heq & Hin0).
      cbn [fst snd] in Heq. injection Heq as <- <-. eapply IHd; [exact Hin0|]. eapply Hdy; exact Hin0.
  Qed.

  Lemma wfk_build rules : wfk (build_trie rules).
  Proof.
    unfold Trie.build_trie. apply wfk_update.
    assert (H : forall s0, wfk s0 -> wfk (fold_left (fun s r => add_parts (rparts r) r s) rules s0)).
    { induction rules as [|r rs IH]; intros s0 Hs; [exact Hs|]. cbn [fold_left]. apply IH. apply wfk_add. exact Hs. }
    apply H. exact wfk_empty.
  Qed.

  (* --- every rule of the map is stored behind its own parts *)
  Lemma stat_upd_keep k f l k0 c0 :
    In (k0, c0) l ->
    In (k0, c0) (Trie.stat_upd dpart rule k f l) \/ (k0 = k /\ In (k0, f c0) (Trie.stat_upd dpart rule k f l)).
  Proof.
    induction l as [|[k1 c1] l IH]; [intros []|]. cbn [Trie.stat_upd]. intros [Heq|Hin].
    - injection Heq as -> ->. destruct (list_eqb k0 k) eqn:E.
      + apply list_eqb_eq in E. right. split; [exact E|left; reflexivity].
      + left. left. reflexivity.
    - destruct (list_eqb k1 k).
      + left. right. exact Hin.
      + destruct (IH Hin) as [H|[H1 H2]]; [left; right; exact H|right; split; [exact H1|right; exact H2]].
  Qed.

  Lemma dyn_upd_keep d f l d0 c0 :
    In (d0, c0) l ->
    In (d0, c0) (Trie.dyn_upd dpart rule dpart_eqb d f l) \/ (d0 = d /\ In (d0, f c0) (Trie.dyn_upd dpart rule dpart_eqb d f l)).
  Proof.
    induction l as [|[d1 c1] l IH]; [intros []|]. cbn [Trie.dyn_upd]. intros [Heq|Hin].
    - injection Heq as -> ->. destruct (dpart_eqb d0 d) eqn:E.
      + apply dpart_eqb_eq in E. right. split; [exact E|left; reflexivity].
      + left. left. reflexivity.
    - destruct (dpart_eqb d1 d).
      + left. right. exact Hin.
      + destruct (IH Hin) as [H|[H1 H2]]; [left; right; exact H|right; split; [exact H1|right; exact H2]].
  Qed.

  Lemma stored_add_mono ps r0 : forall s r sigma, stored r s sigma -> stored r (add_parts ps r0 s) sigma.
  Proof.
    induction ps as [|p ps IH]; intros [dyn rules stat] r sigma H.
    - cbn [Trie.add_parts Trie.st_dyn Trie.st_rules Trie.st_stat]. inversion H; subst.
      + constructor. apply in_or_app. left. assumption.
      + eapply stored_stat; eassumption.
      + eapply stored_dyn; eassumption.
    - destruct p as [k|d]; cbn [Trie.add_parts Trie.st_dyn Trie.st_rules Trie.st_stat]; inversion H; subst.
      + constructor. assumption.
      + match goal with Hi : In (_, _) stat |- _ =>
          destruct (stat_upd_keep k (add_parts ps r0) _ _ _ Hi) as [Hk|[_ Hk]] end.
        * eapply stored_stat; eassumption.
        * eapply stored_stat; [exact Hk|]. apply IH. assumption.
      + eapply stored_dyn; eassumption.
      + constructor. assumption.
      + eapply stored_stat; eassumption.
      + match goal with Hi : In (_, _) dyn |- _ =>
          destruct (dyn_upd_keep d (add_parts ps r0) _ _ _ Hi) as [Hk|[_ Hk]] end.
        * eapply stored_dyn; eassumption.
        * eapply stored_dyn; [exact Hk|]. apply IH. assumption.
  Qed.

  Lemma stat_upd_has k f l : exists c, In (k, c) (Trie.stat_upd dpart rule k f l) /\ exists c0, c = f c0.
  Proof.
    induction l as [|[k1 c1] l IH]; cbn [Trie.stat_upd].
    - exists (f empty_state). split; [left; reflexivity|eexists; reflexivity].
    - destruct (list_eqb k1 k) eqn:E.
      + apply list_eqb_eq in E. subst k1. exists (f c1). split; [left; reflexivity|eexists; reflexivity].
      + destruct IH as (c & Hin & Hc). exists c. split; [right; exact Hin|exact Hc].
  Qed.
  Lemma dyn_upd_has d f l : exists c, In (d, c) (Trie.dyn_upd dpart rule dpart_eqb d f l) /\ exists c0, c = f c0.
  Proof.
    induction l as [|[d1 c1] l IH]; cbn [Trie.dyn_upd].
    - exists (f empty_state). split; [left; reflexivity|eexists; reflexivity].
    - destruct (dpart_eqb d1 d) eqn:E.
      + apply dpart_eqb_eq in E. subst d1. exists (f c1). split; [left; reflexivity|eexists; reflexivity].
      + destruct IH as (c & Hin & Hc). exists c. split; [right; exact Hin|exact Hc].
  Qed.

  Lemma stored_add_new ps r : forall s, stored r (add_parts ps r s) ps.
  Proof.
    induction ps as [|p ps IH]; intros [dyn rules stat].
    - cbn [Trie.add_parts Trie.st_dyn Trie.st_rules Trie.st_stat]. constructor. apply in_or_app. right. left. reflexivity.
    - destruct p as [k|d]; cbn [Trie.add_parts Trie.st_dyn Trie.st_rules Trie.st_stat].
      + destruct (stat_upd_has k (add_parts ps r) stat) as (c & Hin & c0 & ->).
        eapply stored_stat; [exact Hin|apply IH].
      + destruct (dyn_upd_has d (add_parts ps r) dyn) as (c & Hin & c0 & ->).
        eapply stored_dyn; [exact Hin|apply IH].
  Qed.

  Lemma stored_update_mono r : forall s sigma, stored r s sigma -> stored r (update s) sigma.
  Proof.
    induction s as [dyn rules stat IHd IHs] using state_ind'. intros sigma H. cbn [Trie.update]. inversion H; subst.
    - constructor. assumption.
    - eapply stored_stat; [|eapply IHs; eassumption].
      apply in_map_iff. match goal with Hi : In (?k0, ?c0) stat |- _ => exists (k0, c0); split; [reflexivity|exact Hi] end.
    - eapply stored_dyn; [|eapply IHd; eassumption].
      apply in_sort_dyn. apply in_map_iff. match goal with Hi : In (?d0, ?c0) dyn |- _ => exists (d0, c0); split; [reflexivity|exact Hi] end.
  Qed.

  Theorem stored_build_conv rules r : In r rules -> stored r (build_trie rules) (rparts r).
  Proof.
    intro Hin. unfold Trie.build_trie. apply stored_update_mono.
    assert (H : forall s0, stored r (fold_left (fun s r => add_parts (rparts r) r s) rules s0) (rparts r)).
    { revert Hin. induction rules as [|r0 rs IH]; intros Hin s0; [destruct Hin|]. cbn [fold_left]. destruct Hin as [->|Hin].
      - clear IH. generalize (add_parts (rparts r) r s0) (stored_add_new (rparts r) r s0). 
        induction rs as [|r1 rs IH]; intros s1 Hs1; [exact Hs1|]. cbn [fold_left]. apply IH. apply stored_add_mono. exact Hs1.
      - apply IH. exact Hin. }
    apply H.
  Qed.

  (* --- every way a stored rule's transitions walk the path shows up as a candidate *)
  Lemma stat_find_unique k c stat : NoDup (map fst stat) -> In (k, c) stat -> stat_find k stat = Some c.
  Proof.
    induction stat as [|[k0 c0] stat IH]; [intros _ []|]. cbn [map fst Trie.stat_find]. intros Hnd [Heq|Hin].
    - injection Heq as -> ->. rewrite list_eqb_refl. reflexivity.
    - inversion Hnd as [|? ? Hk0 Hnd']; subst. destruct (list_eqb k0 k) eqn:E.
      + apply list_eqb_eq in E. subst k0. exfalso. apply Hk0. apply in_map_iff. exists (k, c). split; [reflexivity|exact Hin].
      + exact (IH Hnd' Hin).
  Qed.

  Lemma stat_apply_find {A} (f : state -> A) dflt k stat :
    Trie.stat_apply dpart rule f dflt k stat = match stat_find k stat with Some c => f c | None => dflt end.
  Proof.
    induction stat as [|[k0 c0] stat IH]; cbn [Trie.stat_apply Trie.stat_find]; [reflexivity|].
    destruct (list_eqb k0 k); [reflexivity|exact IH].
  Qed.

  Lemma dyn_collect_incl f part rest values dyn d c g rem x :
    In (d, c) dyn -> pmatch d part rest = Some (g, rem) -> In x (f c rem (values ++ g)) ->
    In x (Trie.dyn_collect dpart rule pmatch f part rest values dyn).
  Proof.
    induction dyn as [|[d0 c0] dyn IH]; [intros []|]. intros [Heq|Hin] Hp Hx; cbn [Trie.dyn_collect].
    - injection Heq as -> ->. rewrite Hp. apply in_or_app. left. exact Hx.
    - destruct (pmatch d0 part rest) as [[g0 rem0]|]; [apply in_or_app; right|]; exact (IH Hin Hp Hx).
  Qed.

  Lemma cands_complete sigma : forall s parts values r caps lo,
    wfk s -> stored r s sigma -> walk sigma parts = Some (caps, lo) ->
    (lo = [] -> In (KHere, r, values ++ caps) (cands s parts values))
    /\ (lo = [[]] -> In (KLate, r, values ++ caps) (cands s parts values)).
  Proof.
    induction sigma as [|p sigma IH]; intros s parts values r caps lo Hwf Hst Hw.
    - cbn [Trie.walk] in Hw. injection Hw as <- <-. rewrite app_nil_r. inversion Hst; subst. split; intros ->.
      + cbn [Trie.cands]. apply in_or_app. left. apply in_map_iff. eexists. split; [reflexivity|assumption].
      + cbn [Trie.cands Trie.is_empty_part]. apply in_or_app. right. apply in_or_app. right.
        apply in_map_iff. eexists. split; [reflexivity|assumption].
    - inversion Hwf as [dyn rules stat Hnd Hws Hwd]; subst. destruct p as [k|d]; cbn [Trie.walk] in Hw;
        destruct parts as [|part rest]; try discriminate; inversion Hst; subst.
      + destruct (list_eqb k part) eqn:Ek; [|discriminate]. apply list_eqb_eq in Ek. subst part.
        match goal with Hi : In (k, ?c) stat, Hc : stored r ?c sigma |- _ =>
          destruct (IH c rest values r caps lo (Hws _ _ Hi) Hc Hw) as [I1 I2];
          pose proof (stat_find_unique _ _ _ Hnd Hi) as Hf end.
        split; intro Hlo; cbn [Trie.cands]; apply in_or_app; left; rewrite stat_apply_find, Hf; auto.
      + destruct (pmatch d part rest) as [[g rem]|] eqn:Ep; [|discriminate].
        destruct (walk sigma rem) as [[caps' lo']|] eqn:Ew; [|discriminate]. injection Hw as <- <-.
        match goal with Hi : In (d, ?c) dyn, Hc : stored r ?c sigma |- _ =>
          destruct (IH c rem (values ++ g) r caps' lo' (Hwd _ _ Hi) Hc Ew) as [I1 I2];
          pose proof (fun x => dyn_collect_incl (fun c rem vals => cands c rem vals) part rest values dyn d c g rem x Hi Ep) as Hincl end.
        rewrite app_assoc.
        split; intro Hlo; cbn [Trie.cands]; apply in_or_app; right; apply in_or_app; left; apply Hincl; auto.
  Qed.

  Lemma cands_complete_slash sigma : forall s parts values r caps,
    wfk s -> stored r s (sigma ++ [PStatic []]) -> walk sigma parts = Some (caps, []) ->
    In (KSlash, r, values ++ caps) (cands s parts values).
  Proof.
    induction sigma as [|p sigma IH]; intros s parts values r caps Hwf Hst Hw.
    - cbn [Trie.walk] in Hw. injection Hw as Hc Hp. subst caps parts. rewrite app_nil_r. cbn [app] in Hst.
      inversion Hwf as [dyn rules stat Hnd Hws Hwd]; subst. inversion Hst; subst.
      cbn [Trie.cands]. apply in_or_app. right.
      match goal with Hi : In ([], ?c) stat, Hc : stored r ?c [] |- _ =>
        rewrite (stat_find_unique _ _ _ Hnd Hi); inversion Hc; subst end.
      apply in_map_iff. eexists. split; [reflexivity|]. cbn [Trie.st_rules]. assumption.
    - inversion Hwf as [dyn rules stat Hnd Hws Hwd]; subst. cbn [app] in Hst. destruct p as [k|d]; cbn [Trie.walk] in Hw;
        destruct parts as [|part rest]; try discriminate; inversion Hst; subst.
      + destruct (list_eqb k part) eqn:Ek; [|discriminate]. apply list_eqb_eq in Ek. subst part.
        match goal with Hi : In (k, ?c) stat, Hc : stored r ?c _ |- _ =>
          pose proof (IH c rest values r caps (Hws _ _ Hi) Hc Hw) as I1;
          pose proof (stat_find_unique _ _ _ Hnd Hi) as Hf end.
        cbn [Trie.cands]. apply in_or_app. left. rewrite stat_apply_find, Hf. exact I1.
      + destruct (pmatch d part rest) as [[g rem]|] eqn:Ep; [|discriminate].
        destruct (walk sigma rem) as [[caps' lo']|] eqn:Ew; [|discriminate]. injection Hw as <- ->.
        match goal with Hi : In (d, ?c) dyn, Hc : stored r ?c _ |- _ =>
          pose proof (IH c rem (values ++ g) r caps' (Hwd _ _ Hi) Hc Ew) as I1;
          pose proof (fun x => dyn_collect_incl (fun c rem vals => cands c rem vals) part rest values dyn d c g rem x Hi Ep) as Hincl end.
        rewrite app_assoc. cbn [Trie.cands]. apply in_or_app. right. apply in_or_app. left. apply Hincl. exact I1.
  Qed.

  (* ------------------------------------------------------------------ candidates vs admits, at the root *)
  Definition cand_adm (k : ckind) (r : rule) (caps : list str) : adm res :=
    match k with
    | KHere => Trie.convert_adm rule res rconvert r caps false
    | KLate => if rstrict r then ANo res else Trie.convert_adm rule res rconvert r caps false
    | KSlash => Trie.convert_adm rule res rconvert r caps (rstrict r)
    end.
  Definition step_of_adm (meth : str) (ws : bool) (r : rule) (a : adm res) : step res :=
    match a with
    | ANo _ => SSkip res
    | ASlash _ => if Bool.eqb ws (rws r) && method_ok rule rmethods r meth then SSlashReq res else SSkip res
    | ADirect _ v =>
        if negb (method_ok rule rmethods r meth) then SMeth res (methods_of rule rmethods r)
        else if negb (Bool.eqb (rws r) ws) then SWs res else SFound res v
    end.

  Lemma cand_step_adm meth ws k r caps :
    cand_step meth ws (k, r, caps) = step_of_adm meth ws r (cand_adm k r caps).
  Proof.
    unfold Trie.cand_step, cand_adm, step_of_adm, Trie.convert_adm.
    destruct k; cbn [andb]; destruct (rstrict r); cbn [andb]; destruct (rconvert r caps); reflexivity.
  Qed.

  Lemma strip_last_empty_some cs cs' : Trie.strip_last_empty dpart cs = Some cs' -> cs = cs' ++ [PStatic []].
  Proof.
    revert cs'. induction cs as [|c cs IH]; intros cs'; [discriminate|].
    destruct c as [k|d].
    - destruct k as [|x k].
      + destruct cs as [|c2 cs2].
        * cbn [Trie.strip_last_empty]. intro H. injection H as <-. reflexivity.
        * change (Trie.strip_last_empty dpart (PStatic [] :: c2 :: cs2)) with
            (option_map (cons (PStatic [])) (Trie.strip_last_empty dpart (c2 :: cs2))).
          destruct (Trie.strip_last_empty dpart (c2 :: cs2)) as [t|] eqn:E; [|discriminate].
          cbn [option_map]. intro H. injection H as <-. rewrite (IH _ eq_refl). reflexivity.
      + cbn [Trie.strip_last_empty]. destruct (Trie.strip_last_empty dpart cs) as [t|] eqn:E; [|discriminate].
        cbn [option_map]. intro H. injection H as <-. rewrite (IH _ eq_refl). reflexivity.
    - cbn [Trie.strip_last_empty]. destruct (Trie.strip_last_empty dpart cs) as [t|] eqn:E; [|discriminate].
      cbn [option_map]. intro H. injection H as <-. rewrite (IH _ eq_refl). reflexivity.
  Qed.

  Lemma root_cand_adm rules parts k r caps :
    In (k, r, caps) (cands (build_trie rules) parts []) -> In r rules /\ admits r parts = cand_adm k r caps.
  Proof.
    intro Hin. apply cands_sound in Hin. destruct Hin as (sigma & caps' & Hv & Hst). cbn [app] in Hv. subst caps'.
    unfold cand_adm. destruct k; destruct Hst as [Hst Hw]; apply stored_build in Hst; destruct Hst as [Hr Hsig]; (split; [exact Hr|]).
    - subst sigma. unfold Trie.admits. rewrite Hw. reflexivity.
    - unfold Trie.admits. rewrite <- Hsig, walk_app, Hw. cbn [Trie.walk]. rewrite strip_last_empty_app, Hw. reflexivity.
    - subst sigma. unfold Trie.admits. rewrite Hw. reflexivity.
  Qed.

  Lemma root_adm_cand rules parts r :
    In r rules -> admits r parts <> ANo res ->
    exists k caps, In (k, r, caps) (cands (build_trie rules) parts []) /\ cand_adm k r caps = admits r parts.
  Proof.
    intros Hr Ha. pose proof (stored_build_conv rules r Hr) as Hst. pose proof (wfk_build rules) as Hwf.
    unfold Trie.admits in *.
    destruct (walk (rparts r) parts) as [[caps lo]|] eqn:Ew.
    - destruct lo as [|l0 lo].
      + destruct (cands_complete _ _ _ [] _ _ _ Hwf Hst Ew) as [I1 _]. exists KHere, caps. split; [exact (I1 eq_refl)|reflexivity].
      + destruct l0 as [|x l0]; [destruct lo as [|l1 lo]|].
        * destruct (cands_complete _ _ _ [] _ _ _ Hwf Hst Ew) as [_ I2]. exists KLate, caps. split; [exact (I2 eq_refl)|reflexivity].
        * destruct (Trie.strip_last_empty dpart (rparts r)) as [cs'|] eqn:Es; [|contradiction].
          apply strip_last_empty_some in Es. rewrite Es, walk_app in Ew.
          destruct (walk cs' parts) as [[caps2 lo2]|] eqn:Ew2; [|discriminate].
          destruct lo2 as [|? ?]; [cbn [Trie.walk] in Ew; discriminate|].
          contradiction.
        * destruct (Trie.strip_last_empty dpart (rparts r)) as [cs'|] eqn:Es; [|contradiction].
          apply strip_last_empty_some in Es. rewrite Es, walk_app in Ew.
          destruct (walk cs' parts) as [[caps2 lo2]|] eqn:Ew2; [|discriminate].
          destruct lo2 as [|? ?]; [cbn [Trie.walk] in Ew; discriminate|].
          contradiction.
    - destruct (Trie.strip_last_empty dpart (rparts r)) as [cs'|] eqn:Es; [|contradiction].
      apply strip_last_empty_some in Es.
      destruct (walk cs' parts) as [[caps2 lo2]|] eqn:Ew2; [|contradiction].
      destruct lo2 as [|? ?]; [|contradiction].
      rewrite Es in Hst. exists KSlash, caps2. split; [|reflexivity].
      exact (cands_complete_slash _ _ _ [] _ _ Hwf Hst Ew2).
  Qed.

  (* ------------------------------------------------------------------ what a fruitless scan says *)
  Lemma scan_hit meth ws cs c :
    In c cs -> (match cand_step meth ws c with SFound _ _ | SSlashReq _ => True | _ => False end) ->
    fst (fst (scan meth ws cs)) <> MNone rule res.
  Proof.
    induction cs as [|c0 cs IH]; [intros []|]. intros [->|Hin] Hc; cbn [Trie.scan].
    - destruct (cand_step meth ws c); try contradiction; cbn [fst]; discriminate.
    - destruct (cand_step meth ws c0); try (cbn [fst]; discriminate); try exact (IH Hin Hc);
        destruct (scan meth ws cs) as [[x h] w]; cbn [fst] in *; exact (IH Hin Hc).
  Qed.

  Lemma scan_none meth ws cs h w :
    scan meth ws cs = (MNone rule res, h, w) ->
    (forall x, In x h <-> exists c ms, In c cs /\ cand_step meth ws c = SMeth res ms /\ In x ms)
    /\ (w = true <-> exists c, In c cs /\ cand_step meth ws c = SWs res).
  Proof.
    revert h w. induction cs as [|c cs IH]; cbn [Trie.scan]; intros h w H.
    - injection H as <- <-. split; [intro x; split; [intros []|intros (c & ms & [] & _)]|split; [discriminate|intros (c & [] & _)]].
    - destruct (cand_step meth ws c) eqn:Es.
      + destruct (IH _ _ H) as [I1 I2]. split.
        * intro x. rewrite I1. split; intros (c' & ms & Hin & Hs & Hx).
          -- exists c', ms. split; [right; exact Hin|split; assumption].
          -- destruct Hin as [->|Hin]; [rewrite Es in Hs; discriminate|]. exists c', ms. split; [exact Hin|split; assumption].
        * rewrite I2. split; intros (c' & Hin & Hs).
          -- exists c'. split; [right; exact Hin|exact Hs].
          -- destruct Hin as [->|Hin]; [rewrite Es in Hs; discriminate|]. exists c'. split; assumption.
      + destruct (scan meth ws cs) as [[x0 h'] w'] eqn:E. injection H as -> <- <-. destruct (IH _ _ eq_refl) as [I1 I2]. split.
        * intro x. rewrite in_app_iff, I1. split.
          -- intros [Hx|(c' & ms' & Hin & Hs & Hx)].
             ++ exists c, ms. split; [left; reflexivity|split; assumption].
             ++ exists c', ms'. split; [right; exact Hin|split; assumption].
          -- intros (c' & ms' & [->|Hin] & Hs & Hx).
             ++ rewrite Es in Hs. injection Hs as <-. left. exact Hx.
             ++ right. exists c', ms'. split; [exact Hin|split; assumption].
        * rewrite I2. split; intros (c' & Hin & Hs).
          -- exists c'. split; [right; exact Hin|exact Hs].
          -- destruct Hin as [->|Hin]; [rewrite Es in Hs; discriminate|]. exists c'. split; assumption.
      + destruct (scan meth ws cs) as [[x0 h'] w'] eqn:E. injection H as -> <- <-. destruct (IH _ _ eq_refl) as [I1 I2]. split.
        * intro x. rewrite I1. split; intros (c' & ms & Hin & Hs & Hx).
          -- exists c', ms. split; [right; exact Hin|split; assumption].
          -- destruct Hin as [->|Hin]; [rewrite Es in Hs; discriminate|]. exists c', ms. split; [exact Hin|split; assumption].
        * split; [intros _; exists c; split; [left; reflexivity|exact Es]|reflexivity].
      + discriminate.
      + discriminate.
  Qed.

  (* ------------------------------------------------------------------ completeness of the search at the root *)
  Theorem root_complete_hit rules meth ws parts r :
    In r rules -> admits r parts <> ANo res -> method_ok rule rmethods r meth = true -> rws r = ws ->
    fst (fst (smatch meth ws (build_trie rules) parts [])) <> MNone rule res.
  Proof.
    intros Hr Ha Hm Hw. rewrite smatch_scan. destruct (root_adm_cand _ _ _ Hr Ha) as (k & caps & Hin & Hk).
    eapply scan_hit; [exact Hin|]. rewrite cand_step_adm, Hk. unfold step_of_adm.
    destruct (admits r parts); [| |contradiction].
    - rewrite Hm, Hw, Bool.eqb_reflx. exact I.
    - rewrite Hm, Hw, Bool.eqb_reflx. exact I.
  Qed.

  Theorem root_none_char rules meth ws parts h w :
    smatch meth ws (build_trie rules) parts [] = (MNone rule res, h, w) ->
    (forall r, In r rules -> admits r parts <> ANo res -> method_ok rule rmethods r meth = true -> rws r = ws -> False)
    /\ (forall x, In x h <-> exists r v, In r rules /\ admits r parts = ADirect res v
                             /\ method_ok rule rmethods r meth = false /\ In x (methods_of rule rmethods r))
    /\ (w = true <-> exists r v, In r rules /\ admits r parts = ADirect res v
                             /\ method_ok rule rmethods r meth = true /\ rws r <> ws).
  Proof.
    intro H. split.
    { intros r Hr Ha Hm Hw. apply (root_complete_hit rules meth ws parts r Hr Ha Hm Hw). rewrite H. reflexivity. }
    rewrite smatch_scan in H. apply scan_none in H. destruct H as [H1 H2]. split.
    - intro x. rewrite H1. split.
      + intros ([[k r] caps] & ms & Hin & Hs & Hx). destruct (root_cand_adm _ _ _ _ _ Hin) as [Hr Ha].
        rewrite cand_step_adm, <- Ha in Hs. unfold step_of_adm in Hs. destruct (admits r parts) as [v| |] eqn:Ea; try discriminate.
        * destruct (method_ok rule rmethods r meth) eqn:Em; cbn [negb] in Hs.
          -- destruct (negb (Bool.eqb (rws r) ws)); discriminate.
          -- injection Hs as <-. exists r, v. auto.
        * destruct (Bool.eqb ws (rws r) && method_ok rule rmethods r meth); discriminate.
      + intros (r & v & Hr & Ha & Hm & Hx). assert (Hne : admits r parts <> ANo res) by (rewrite Ha; discriminate).
        destruct (root_adm_cand _ _ _ Hr Hne) as (k & caps & Hin & Hk).
        exists (k, r, caps), (methods_of rule rmethods r). split; [exact Hin|]. split; [|exact Hx].
        rewrite cand_step_adm, Hk, Ha. unfold step_of_adm. rewrite Hm. reflexivity.
    - rewrite H2. split.
      + intros ([[k r] caps] & Hin & Hs). destruct (root_cand_adm _ _ _ _ _ Hin) as [Hr Ha].
        rewrite cand_step_adm, <- Ha in Hs. unfold step_of_adm in Hs. destruct (admits r parts) as [v| |] eqn:Ea; try discriminate.
        * destruct (method_ok rule rmethods r meth) eqn:Em; cbn [negb] in Hs; [|discriminate].
          destruct (Bool.eqb (rws r) ws) eqn:Ew; cbn [negb] in Hs; [discriminate|].
          exists r, v. repeat split; try assumption. intro Heq. rewrite Heq, Bool.eqb_reflx in Ew. discriminate.
        * destruct (Bool.eqb ws (rws r) && method_ok rule rmethods r meth); discriminate.
      + intros (r & v & Hr & Ha & Hm & Hw). assert (Hne : admits r parts <> ANo res) by (rewrite Ha; discriminate).
        destruct (root_adm_cand _ _ _ Hr Hne) as (k & caps & Hin & Hk).
        exists (k, r, caps). split; [exact Hin|].
        rewrite cand_step_adm, Hk, Ha. unfold step_of_adm. rewrite Hm. cbn [negb].
        destruct (Bool.eqb (rws r) ws) eqn:Ew; [apply Bool.eqb_prop in Ew; contradiction|reflexivity].
  Qed.

  (* ------------------------------------------------------------------ the candidates at the root, declaratively *)
  Definition walkcond (k : ckind) (r : rule) (caps : list str) (P : list str) : Prop :=
    match k with
    | KHere => walk (rparts r) P = Some (caps, [])
    | KLate => walk (rparts r) P = Some (caps, [[]])
    | KSlash => exists cs', rparts r = cs' ++ [PStatic []] /\ walk cs' P = Some (caps, [])
    end.

  Theorem root_cand_iff rules P k r caps :
    In (k, r, caps) (cands (build_trie rules) P []) <-> In r rules /\ walkcond k r caps P.
  Proof.
    split.
    - intro Hin. apply cands_sound in Hin. destruct Hin as (sigma & caps' & Hv & Hst). cbn [app] in Hv. subst caps'.
      destruct k; destruct Hst as [Hst Hw]; apply stored_build in Hst; destruct Hst as [Hr Hsig]; (split; [exact Hr|]); cbn [walkcond].
      + subst sigma. exact Hw.
      + exists sigma. split; [symmetry; exact Hsig|exact Hw].
      + subst sigma. exact Hw.
    - intros [Hr Hw]. pose proof (stored_build_conv rules r Hr) as Hst. pose proof (wfk_build rules) as Hwf.
      destruct k; cbn [walkcond] in Hw.
      + destruct (cands_complete _ _ _ [] _ _ _ Hwf Hst Hw) as [I1 _]. exact (I1 eq_refl).
      + destruct Hw as (cs' & Hp & Hw). rewrite Hp in Hst. exact (cands_complete_slash _ _ _ [] _ _ Hwf Hst Hw).
      + destruct (cands_complete _ _ _ [] _ _ _ Hwf Hst Hw) as [_ I2]. exact (I2 eq_refl).
  Qed.

  Lemma hit_iff meth ws k r caps :
    (match cand_step meth ws (k, r, caps) with SFound _ _ | SSlashReq _ => True | _ => False end)
    <-> cand_adm k r caps <> ANo res /\ method_ok rule rmethods r meth = true /\ rws r = ws.
  Proof.
    rewrite cand_step_adm. unfold step_of_adm. destruct (cand_adm k r caps) as [v| |].
    - destruct (method_ok rule rmethods r meth); cbn [negb].
      + destruct (Bool.eqb (rws r) ws) eqn:E; cbn [negb].
        * apply Bool.eqb_prop in E. split; [intros _; repeat split; [discriminate|exact E]|intros _; exact I].
        * split; [intros []|]. intros (_ & _ & Hw). rewrite Hw, Bool.eqb_reflx in E. discriminate.
      + split; [intros []|]. intros (_ & H & _). discriminate.
    - destruct (Bool.eqb ws (rws r)) eqn:E; cbn [andb].
      + apply Bool.eqb_prop in E. destruct (method_ok rule rmethods r meth).
        * split; [intros _; repeat split; [discriminate|symmetry; exact E]|intros _; exact I].
        * split; [intros []|]. intros (_ & H & _). discriminate.
      + split; [intros []|]. intros (_ & _ & Hw). rewrite Hw, Bool.eqb_reflx in E. discriminate.
    - split; [intros []|]. intros (H & _). contradiction.
  Qed.
End Facts.
