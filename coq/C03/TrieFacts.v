(* C03: facts about the generic transition tree of C03/Trie.v.
   smatch is a scan over an ordered enumeration of candidates (smatch_scan); every candidate is a
   rule stored in the tree whose own parts walk the path (cands_sound); the tree built by
   add/update stores exactly the rules of the map behind their own parts (stored_build). *)
From Coq Require Import Lia.
From Wz Require Import lib.Bytes C03.Trie.
Open Scope N_scope.

Lemma list_eqb_eq a b : list_eqb a b = true -> a = b.
Proof.
  revert b. induction a as [|x a IH]; destruct b as [|y b]; cbn [list_eqb]; intro H;
    try discriminate; [reflexivity|].
  apply andb_prop in H. destruct H as [Hx Hab]. apply N.eqb_eq in Hx. subst y.
  f_equal. apply IH. exact Hab.
Qed.
Lemma list_eqb_refl a : list_eqb a a = true.
Proof. induction a as [|x a IH]; cbn [list_eqb]; [reflexivity|]. rewrite N.eqb_refl, IH. reflexivity. Qed.

Section Facts.
  Variable dpart : Type.
  Variable rule : Type.
  Variable res : Type.
  Variable pmatch : dpart -> str -> list str -> option (list str * list str).
  Variable dpart_eqb : dpart -> dpart -> bool.
  Variable wlt : dpart -> dpart -> bool.
  Variable rmethods : rule -> option (list str).
  Variable rws : rule -> bool.
  Variable rstrict : rule -> bool.
  Variable rconvert : rule -> list str -> option res.
  Variable rparts : rule -> list (cpart dpart).
  Hypothesis dpart_eqb_eq : forall a b, dpart_eqb a b = true -> a = b.

  Notation state := (state dpart rule).
  Notation cpart := (cpart dpart).
  Notation St := (St dpart rule).
  Notation PStatic := (PStatic dpart).
  Notation PDyn := (PDyn dpart).
  Notation R := (R rule res).
  Notation cand := (cand rule).
  Notation smatch := (smatch dpart rule res pmatch rmethods rws rstrict rconvert).
  Notation cands := (cands dpart rule pmatch).
  Notation scan := (scan rule res rmethods rws rstrict rconvert).
  Notation cand_step := (cand_step rule res rmethods rws rstrict rconvert).
  Notation try_rules := (try_rules rule res rmethods rws rstrict rconvert).
  Notation try_slash_rules := (try_slash_rules rule res rmethods rws rstrict rconvert).
  Notation walk := (walk dpart pmatch).
  Notation stored := (stored dpart rule).
  Notation orelse := (orelse rule res).
  Notation rnone := (rnone rule res).
  Notation stat_find := (stat_find dpart rule).
  Notation add_parts := (add_parts dpart rule dpart_eqb).
  Notation update := (update dpart rule wlt).
  Notation build_trie := (build_trie dpart rule dpart_eqb wlt rparts).
  Notation empty_state := (empty_state dpart rule).

  (* ------------------------------------------------------------------ induction on states *)
  Lemma state_ind' (P : state -> Prop) :
    (forall dyn rules stat,
        (forall d c, In (d, c) dyn -> P c) -> (forall k c, In (k, c) stat -> P c) -> P (St dyn rules stat)) ->
    forall s, P s.
  Proof.
    intro H. fix IH 1. intros [dyn rules stat]. apply H.
    - induction dyn as [|[d0 c0] dyn IHd]; intros d c Hin; [destruct Hin|].
      destruct Hin as [Heq|Hin]; [|exact (IHd d c Hin)].
      assert (Pc0 : P c0) by apply IH. injection Heq as _ <-. exact Pc0.
    - induction stat as [|[k0 c0] stat IHs]; intros k c Hin; [destruct Hin|].
      destruct Hin as [Heq|Hin]; [|exact (IHs k c Hin)].
      assert (Pc0 : P c0) by apply IH. injection Heq as _ <-. exact Pc0.
  Qed.

  (* ------------------------------------------------------------------ scan *)
  Lemma orelse_none_l (k : unit -> R) : orelse rnone k = k tt.
  Proof. unfold Trie.orelse, Trie.rnone. destruct (k tt) as [[x h] w]. reflexivity. Qed.

  Lemma orelse_assoc (a : R) (k1 k2 : unit -> R) :
    orelse (orelse a k1) k2 = orelse a (fun _ => orelse (k1 tt) k2).
  Proof.
    unfold Trie.orelse. destruct a as [[x h] w]. destruct x; try reflexivity.
    destruct (k1 tt) as [[x1 h1] w1]. destruct x1; try reflexivity.
    destruct (k2 tt) as [[x2 h2] w2]. rewrite app_assoc, orb_assoc. reflexivity.
  Qed.

  Lemma scan_app meth ws (a b : list cand) :
    scan meth ws (a ++ b) = orelse (scan meth ws a) (fun _ => scan meth ws b).
  Proof.
    induction a as [|c a IH]; cbn [app Trie.scan].
    - rewrite orelse_none_l. reflexivity.
    - destruct (cand_step meth ws c); try reflexivity.
      + exact IH.
      + rewrite IH. unfold Trie.orelse. destruct (scan meth ws a) as [[x h] w].
        destruct x; try reflexivity. destruct (scan meth ws b) as [[x2 h2] w2].
        rewrite app_assoc. reflexivity.
      + rewrite IH. unfold Trie.orelse. destruct (scan meth ws a) as [[x h] w].
        destruct x; try reflexivity. destruct (scan meth ws b) as [[x2 h2] w2]. reflexivity.
  Qed.

  Lemma try_rules_here meth ws rules values :
    try_rules false meth ws rules values = scan meth ws (map (fun r => (KHere, r, values)) rules).
  Proof.
    induction rules as [|r rs IH]; cbn [Trie.try_rules map Trie.scan Trie.cand_step andb fst snd]; [reflexivity|].
    destruct (rconvert r values) as [v|]; [|exact IH].
    destruct (negb (method_ok rule rmethods r meth)); [rewrite IH; reflexivity|].
    destruct (negb (Bool.eqb (rws r) ws)); [rewrite IH; reflexivity|]. reflexivity.
  Qed.

  Lemma try_rules_late meth ws rules values :
    try_rules true meth ws rules values = scan meth ws (map (fun r => (KLate, r, values)) rules).
  Proof.
    induction rules as [|r rs IH]; cbn [Trie.try_rules map Trie.scan Trie.cand_step andb fst snd]; [reflexivity|].
    destruct (rstrict r); [exact IH|].
    destruct (rconvert r values) as [v|]; [|exact IH].
    destruct (negb (method_ok rule rmethods r meth)); [rewrite IH; reflexivity|].
    destruct (negb (Bool.eqb (rws r) ws)); [rewrite IH; reflexivity|]. reflexivity.
  Qed.

  Lemma try_slash_scan meth ws rules values :
    try_slash_rules meth ws rules values = scan meth ws (map (fun r => (KSlash, r, values)) rules).
  Proof.
    induction rules as [|r rs IH]; cbn [Trie.try_slash_rules map Trie.scan Trie.cand_step andb fst snd]; [reflexivity|].
    destruct (rconvert r values) as [v|]; [|exact IH].
    destruct (rstrict r).
    - destruct (Bool.eqb ws (rws r) && method_ok rule rmethods r meth); [reflexivity|exact IH].
    - destruct (negb (method_ok rule rmethods r meth)); [rewrite IH; reflexivity|].
      destruct (negb (Bool.eqb (rws r) ws)); [rewrite IH; reflexivity|]. reflexivity.
  Qed.

  Lemma orelse_ext (a a' : R) (k k' : unit -> R) : a = a' -> k tt = k' tt -> orelse a k = orelse a' k'.
  Proof. intros -> H. unfold Trie.orelse. destruct a' as [[x h] w]. destruct x; try reflexivity. rewrite H. reflexivity. Qed.

  (* ------------------------------------------------------------------ smatch = scan of the candidates *)
  Theorem smatch_scan meth ws : forall s parts values,
    smatch meth ws s parts values = scan meth ws (cands s parts values).
  Proof.
    induction s as [dyn rules stat IHd IHs] using state_ind'. intros parts values.
    destruct parts as [|part rest].
    - cbn [Trie.smatch Trie.cands]. rewrite scan_app, try_rules_here.
      destruct (stat_find [] stat) as [c|]; [rewrite try_slash_scan|]; reflexivity.
    - cbn [Trie.smatch Trie.cands]. rewrite !scan_app. apply orelse_ext; [|apply orelse_ext].
      + (* static *)
        clear IHd. induction stat as [|[k c] stat IH]; cbn [Trie.stat_apply]; [reflexivity|].
        destruct (list_eqb k part).
        * apply (IHs k c). left. reflexivity.
        * apply IH. intros k' c' Hin. apply (IHs k' c'). right. exact Hin.
      + (* dynamic *)
        clear IHs. induction dyn as [|[d c] dyn IH]; cbn [Trie.dyn_loop Trie.dyn_collect]; [reflexivity|].
        assert (IH' := IH (fun d' c' Hin => IHd d' c' (or_intror Hin))).
        destruct (pmatch d part rest) as [[g rem]|]; [|exact IH'].
        rewrite scan_app. apply orelse_ext; [|exact IH'].
        apply (IHd d c). left. reflexivity.
      + destruct (Trie.is_empty_part (part :: rest)); [apply try_rules_late|reflexivity].
  Qed.

  (* ------------------------------------------------------------------ candidates are stored rules
     whose transitions walk the path *)
  Definition cand_ok (s : state) (parts values : list str) (c : cand) : Prop :=
    match c with
    | (k, r, vals') =>
        exists sigma caps, vals' = values ++ caps /\
          match k with
          | KHere => stored r s sigma /\ walk sigma parts = Some (caps, [])
          | KLate => stored r s sigma /\ walk sigma parts = Some (caps, [[]])
          | KSlash => stored r s (sigma ++ [PStatic []]) /\ walk sigma parts = Some (caps, [])
          end
    end.

  Lemma stat_find_in k l c : stat_find k l = Some c -> In (k, c) l.
  Proof.
    induction l as [|[k' c'] l IH]; cbn [Trie.stat_find]; [discriminate|].
    destruct (list_eqb k' k) eqn:E.
    - intro H. injection H as <-. apply list_eqb_eq in E. subst k'. left. reflexivity.
    - intro H. right. exact (IH H).
  Qed.

  Lemma cand_ok_static dyn rules stat k child part rest values c :
    In (k, child) stat -> list_eqb k part = true ->
    cand_ok child rest values c -> cand_ok (St dyn rules stat) (part :: rest) values c.
  Proof.
    intros Hin Hk. destruct c as [[kd r] vals']. intros (sigma & caps & Hv & H).
    exists (PStatic k :: sigma), caps. split; [exact Hv|].
    destruct kd; destruct H as [Hst Hw]; (split; [|cbn [Trie.walk]; rewrite Hk; exact Hw]).
    - eapply stored_stat; eassumption.
    - rewrite <- app_comm_cons. eapply stored_stat; eassumption.
    - eapply stored_stat; eassumption.
  Qed.

  Lemma cand_ok_dyn dyn rules stat d child part rest g rem values c :
    In (d, child) dyn -> pmatch d part rest = Some (g, rem) ->
    cand_ok child rem (values ++ g) c -> cand_ok (St dyn rules stat) (part :: rest) values c.
  Proof.
    intros Hin Hp. destruct c as [[kd r] vals']. intros (sigma & caps & Hv & H).
    exists (PDyn d :: sigma), (g ++ caps). split; [rewrite Hv, app_assoc; reflexivity|].
    destruct kd; destruct H as [Hst Hw]; (split; [|cbn [Trie.walk]; rewrite Hp, Hw; reflexivity]).
    - eapply stored_dyn; eassumption.
    - rewrite <- app_comm_cons. eapply stored_dyn; eassumption.
    - eapply stored_dyn; eassumption.
  Qed.

  Theorem cands_sound : forall s parts values c, In c (cands s parts values) -> cand_ok s parts values c.
  Proof.
    induction s as [dyn rules stat IHd IHs] using state_ind'. intros parts values c.
    destruct parts as [|part rest]; cbn [Trie.cands]; intro Hin; apply in_app_or in Hin.
    - destruct Hin as [Hin|Hin].
      + apply in_map_iff in Hin. destruct Hin as (r & <- & Hr).
        exists [], []. split; [rewrite app_nil_r; reflexivity|]. split; [constructor; exact Hr|reflexivity].
      + destruct (stat_find [] stat) as [child|] eqn:Ef; [|destruct Hin].
        apply in_map_iff in Hin. destruct Hin as (r & <- & Hr).
        exists [], []. split; [rewrite app_nil_r; reflexivity|]. split; [|reflexivity].
        cbn [app]. apply stat_find_in in Ef. eapply stored_stat; [exact Ef|].
        destruct child as [cd cr cs]. constructor. exact Hr.
    - destruct Hin as [Hin|Hin]; [|apply in_app_or in Hin; destruct Hin as [Hin|Hin]].
      + (* static *)
        clear IHd. induction stat as [|[k child] stat IH]; cbn [Trie.stat_apply] in Hin; [destruct Hin|].
        destruct (list_eqb k part) eqn:Ek.
        * eapply cand_ok_static; [left; reflexivity|exact Ek|]. apply (IHs k child); [left; reflexivity|exact Hin].
        * assert (H : cand_ok (St dyn rules stat) (part :: rest) values c).
          { apply IH; [|exact Hin]. intros k' c' Hin'. apply (IHs k' c'). right. exact Hin'. }
          destruct c as [[kd r] vals']. destruct H as (sigma & caps & Hv & H).
          exists sigma, caps. split; [exact Hv|].
          assert (Hmono : forall sg, stored r (St dyn rules stat) sg -> stored r (St dyn rules ((k, child) :: stat)) sg).
          { intros sg Hs. inversion Hs; subst.
            - constructor; assumption.
            - eapply stored_stat; [right; eassumption|assumption].
            - eapply stored_dyn; eassumption. }
          destruct kd; destruct H as [Hst Hw]; (split; [apply Hmono; exact Hst|exact Hw]).
      + (* dynamic *)
        clear IHs. induction dyn as [|[d child] dyn IH]; cbn [Trie.dyn_collect] in Hin; [destruct Hin|].
        assert (Hrest : In c (Trie.dyn_collect dpart rule pmatch (fun c rem vals => cands c rem vals) part rest values dyn) ->
                        cand_ok (St ((d, child) :: dyn) rules stat) (part :: rest) values c).
        { intro Hin'.
          assert (H : cand_ok (St dyn rules stat) (part :: rest) values c).
          { apply IH; [|exact Hin']. intros d' c' Hin''. apply (IHd d' c'). right. exact Hin''. }
          destruct c as [[kd r] vals']. destruct H as (sigma & caps & Hv & H).
          exists sigma, caps. split; [exact Hv|].
          assert (Hmono : forall sg, stored r (St dyn rules stat) sg -> stored r (St ((d, child) :: dyn) rules stat) sg).
          { intros sg Hs. inversion Hs; subst.
            - constructor; assumption.
            - eapply stored_stat; eassumption.
            - eapply stored_dyn; [right; eassumption|assumption]. }
          destruct kd; destruct H as [Hst Hw]; (split; [apply Hmono; exact Hst|exact Hw]). }
        destruct (pmatch d part rest) as [[g rem]|] eqn:Ep; [|exact (Hrest Hin)].
        apply in_app_or in Hin. destruct Hin as [Hin|Hin]; [|exact (Hrest Hin)].
        eapply cand_ok_dyn; [left; reflexivity|exact Ep|]. apply (IHd d child); [left; reflexivity|exact Hin].
      + (* the late trailing-slash clause *)
        destruct rest as [|x rest']; [|destruct part; destruct Hin].
        destruct part as [|y part']; [|destruct Hin].
        cbn [Trie.is_empty_part] in Hin. apply in_map_iff in Hin. destruct Hin as (r & <- & Hr).
        exists [], []. split; [rewrite app_nil_r; reflexivity|]. split; [constructor; exact Hr|reflexivity].
  Qed.

  (* ------------------------------------------------------------------ what a scan result says *)
  Lemma scan_found meth ws cs r v h w :
    scan meth ws cs = (MFound rule res r v, h, w) ->
    exists k vals, In (k, r, vals) cs /\ cand_step meth ws (k, r, vals) = SFound res v.
  Proof.
    revert h w. induction cs as [|c cs IH]; cbn [Trie.scan]; intros h w H; [discriminate|].
    destruct (cand_step meth ws c) eqn:Es.
    - destruct (IH _ _ H) as (k & vals & Hin & Hs). exists k, vals. split; [right; exact Hin|exact Hs].
    - destruct (scan meth ws cs) as [[x h'] w'] eqn:E. injection H as -> _ _.
      destruct (IH _ _ eq_refl) as (k & vals & Hin & Hs). exists k, vals. split; [right; exact Hin|exact Hs].
    - destruct (scan meth ws cs) as [[x h'] w'] eqn:E. injection H as -> _ _.
      destruct (IH _ _ eq_refl) as (k & vals & Hin & Hs). exists k, vals. split; [right; exact Hin|exact Hs].
    - injection H as <- <- _ _. destruct c as [[k r'] vals]. exists k, vals. split; [left; reflexivity|exact Es].
    - discriminate.
  Qed.

  Lemma scan_slash meth ws cs h w :
    scan meth ws cs = (MSlash rule res, h, w) ->
    exists k r vals, In (k, r, vals) cs /\ cand_step meth ws (k, r, vals) = SSlashReq res.
  Proof.
    revert h w. induction cs as [|c cs IH]; cbn [Trie.scan]; intros h w H; [discriminate|].
    destruct (cand_step meth ws c) eqn:Es.
    - destruct (IH _ _ H) as (k & r & vals & Hin & Hs). exists k, r, vals. split; [right; exact Hin|exact Hs].
    - destruct (scan meth ws cs) as [[x h'] w'] eqn:E. injection H as -> _ _.
      destruct (IH _ _ eq_refl) as (k & r & vals & Hin & Hs). exists k, r, vals. split; [right; exact Hin|exact Hs].
    - destruct (scan meth ws cs) as [[x h'] w'] eqn:E. injection H as -> _ _.
      destruct (IH _ _ eq_refl) as (k & r & vals & Hin & Hs). exists k, r, vals. split; [right; exact Hin|exact Hs].
    - discriminate.
    - destruct c as [[k r] vals]. exists k, r, vals. split; [left; reflexivity|exact Es].
  Qed.

  Lemma step_found meth ws k r vals v :
    cand_step meth ws (k, r, vals) = SFound res v ->
    rconvert r vals = Some v /\ method_ok rule rmethods r meth = true /\ rws r = ws
    /\ (k = KHere \/ rstrict r = false).
  Proof.
    cbn [Trie.cand_step].
    destruct k; cbn [andb]; destruct (rstrict r) eqn:Est; cbn [andb]; try discriminate;
      destruct (rconvert r vals) as [v'|]; try discriminate;
      try (destruct (Bool.eqb ws (rws r) && method_ok rule rmethods r meth); discriminate);
      destruct (method_ok rule rmethods r meth); cbn [negb]; try discriminate;
      destruct (Bool.eqb (rws r) ws) eqn:Ew; cbn [negb]; try discriminate;
      intro H; injection H as <-; apply Bool.eqb_prop in Ew; auto.
  Qed.

  Lemma step_slash meth ws k r vals :
    cand_step meth ws (k, r, vals) = SSlashReq res ->
    k = KSlash /\ rstrict r = true /\ (exists v, rconvert r vals = Some v)
    /\ method_ok rule rmethods r meth = true /\ rws r = ws.
  Proof.
    cbn [Trie.cand_step].
    destruct k; cbn [andb]; destruct (rstrict r) eqn:Est; cbn [andb]; try discriminate;
      destruct (rconvert r vals) as [v'|] eqn:Ec; try discriminate;
      try (destruct (method_ok rule rmethods r meth); cbn [negb]; try discriminate;
           destruct (Bool.eqb (rws r) ws); cbn [negb]; discriminate).
    destruct (Bool.eqb ws (rws r)) eqn:Ew; cbn [andb]; [|discriminate].
    destruct (method_ok rule rmethods r meth); [|discriminate].
    intros _. apply Bool.eqb_prop in Ew. repeat split; eauto.
  Qed.

  (* ------------------------------------------------------------------ what add / update store *)
  Lemma stored_empty r sigma : ~ stored r empty_state sigma.
  Proof. intro H. inversion H; subst; contradiction. Qed.

  Lemma stat_upd_in k f l k' c :
    In (k', c) (Trie.stat_upd dpart rule k f l) ->
    In (k', c) l \/ (k' = k /\ ((exists c0, In (k', c0) l /\ c = f c0) \/ c = f empty_state)).
  Proof.
    induction l as [|[k0 c0] l IH]; cbn [Trie.stat_upd].
    - intros [H|[]]. injection H as <- <-. right. split; [reflexivity|right; reflexivity].
    - destruct (list_eqb k0 k) eqn:E.
      + intros [H|H].
        * injection H as <- <-. apply list_eqb_eq in E. subst k0. right. split; [reflexivity|].
          left. exists c0. split; [left; reflexivity|reflexivity].
        * left. right. exact H.
      + intros [H|H].
        * left. left. exact H.
        * destruct (IH H) as [H'|(Hk & [(c1 & Hin & Hc)|Hc])].
          -- left. right. exact H'.
          -- right. split; [exact Hk|]. left. exists c1. split; [right; exact Hin|exact Hc].
          -- right. split; [exact Hk|]. right. exact Hc.
  Qed.

  Lemma dyn_upd_in d f l d' c :
    In (d', c) (Trie.dyn_upd dpart rule dpart_eqb d f l) ->
    In (d', c) l \/ (d' = d /\ ((exists c0, In (d', c0) l /\ c = f c0) \/ c = f empty_state)).
  Proof.
    induction l as [|[d0 c0] l IH]; cbn [Trie.dyn_upd].
    - intros [H|[]]. injection H as <- <-. right. split; [reflexivity|right; reflexivity].
    - destruct (dpart_eqb d0 d) eqn:E.
      + intros [H|H].
        * injection H as <- <-. apply dpart_eqb_eq in E. subst d0. right. split; [reflexivity|].
          left. exists c0. split; [left; reflexivity|reflexivity].
        * left. right. exact H.
      + intros [H|H].
        * left. left. exact H.
        * destruct (IH H) as [H'|(Hk & [(c1 & Hin & Hc)|Hc])].
          -- left. right. exact H'.
          -- right. split; [exact Hk|]. left. exists c1. split; [right; exact Hin|exact Hc].
          -- right. split; [exact Hk|]. right. exact Hc.
  Qed.

  Lemma stored_add ps r0 : forall s r sigma,
    stored r (add_parts ps r0 s) sigma -> stored r s sigma \/ (r = r0 /\ sigma = ps).
  Proof.
    induction ps as [|p ps IH]; intros [dyn rules stat] r sigma H.
    - cbn [Trie.add_parts Trie.st_dyn Trie.st_rules Trie.st_stat] in H. inversion H; subst.
      + match goal with Hi : In r (rules ++ [r0]) |- _ => apply in_app_or in Hi; destruct Hi as [Hi|[<-|[]]] end.
        * left. constructor. assumption.
        * right. split; reflexivity.
      + left. eapply stored_stat; eassumption.
      + left. eapply stored_dyn; eassumption.
    - destruct p as [k|d]; cbn [Trie.add_parts Trie.st_dyn Trie.st_rules Trie.st_stat] in H; inversion H; subst.
      + left. constructor. assumption.
      + match goal with Hi : In (_, _) (Trie.stat_upd _ _ _ _ _) |- _ => apply stat_upd_in in Hi;
          destruct Hi as [Hi|(-> & [(c0 & Hi & ->) | -> ])] end.
        * left. eapply stored_stat; eassumption.
        * match goal with Hs : stored r (add_parts ps r0 c0) _ |- _ => destruct (IH _ _ _ Hs) as [Hs'|(-> & ->)] end.
          -- left. eapply stored_stat; eassumption.
          -- right. split; reflexivity.
        * match goal with Hs : stored r (add_parts ps r0 empty_state) _ |- _ => destruct (IH _ _ _ Hs) as [Hs'|(-> & ->)] end.
          -- exfalso. exact (stored_empty _ _ Hs').
          -- right. split; reflexivity.
      + left. eapply stored_dyn; eassumption.
      + left. constructor. assumption.
      + left. eapply stored_stat; eassumption.
      + match goal with Hi : In (_, _) (Trie.dyn_upd _ _ _ _ _ _) |- _ => apply dyn_upd_in in Hi;
          destruct Hi as [Hi|(-> & [(c0 & Hi & ->) | -> ])] end.
        * left. eapply stored_dyn; eassumption.
        * match goal with Hs : stored r (add_parts ps r0 c0) _ |- _ => destruct (IH _ _ _ Hs) as [Hs'|(-> & ->)] end.
          -- left. eapply stored_dyn; eassumption.
          -- right. split; reflexivity.
        * match goal with Hs : stored r (add_parts ps r0 empty_state) _ |- _ => destruct (IH _ _ _ Hs) as [Hs'|(-> & ->)] end.
          -- exfalso. exact (stored_empty _ _ Hs').
          -- right. split; reflexivity.
  Qed.

  Lemma insert_dyn_in x l y : In y (Trie.insert_dyn dpart rule wlt x l) -> y = x \/ In y l.
  Proof.
    induction l as [|z l IH]; cbn [Trie.insert_dyn].
    - intros [H|[]]. left. symmetry. exact H.
    - destruct (wlt (fst z) (fst x)).
      + intros [H|H]; [right; left; exact H|]. destruct (IH H) as [H'|H']; [left; exact H'|right; right; exact H'].
      + intros [H|H]; [left; symmetry; exact H|right; exact H].
  Qed.
  Lemma sort_dyn_in l y : In y (Trie.sort_dyn dpart rule wlt l) -> In y l.
  Proof.
    induction l as [|x l IH]; cbn [Trie.sort_dyn fold_right]; [intros []|].
    intro H. apply insert_dyn_in in H. destruct H as [->|H]; [left; reflexivity|right; exact (IH H)].
  Qed.

  Lemma stored_update r : forall s sigma, stored r (update s) sigma -> stored r s sigma.
  Proof.
    induction s as [dyn rules stat IHd IHs] using state_ind'. intros sigma H.
    cbn [Trie.update] in H. inversion H; subst.
    - constructor. assumption.
    - match goal with Hi : In (_, _) (map _ stat) |- _ => apply in_map_iff in Hi; destruct Hi as ([k0 c0] & Heq & Hin0) end.
      cbn [fst snd] in Heq. injection Heq as <- <-.
      eapply stored_stat; [exact Hin0|]. eapply IHs; eassumption.
    - match goal with Hi : In (_, _) (Trie.sort_dyn _ _ _ _) |- _ => apply sort_dyn_in in Hi;
        apply in_map_iff in Hi; destruct Hi as ([d0 c0] & Heq & Hin0) end.
      cbn [fst snd] in Heq. injection Heq as <- <-.
      eapply stored_dyn; [exact Hin0|]. eapply IHd; eassumption.
  Qed.

  Lemma stored_fold rules : forall s0 r sigma,
    stored r (fold_left (fun s r => add_parts (rparts r) r s) rules s0) sigma ->
    stored r s0 sigma \/ (In r rules /\ sigma = rparts r).
  Proof.
    induction rules as [|r0 rules IH]; cbn [fold_left]; intros s0 r sigma H; [left; exact H|].
    destruct (IH _ _ _ H) as [H'|(Hin & Hs)].
    - destruct (stored_add _ _ _ _ _ H') as [H''|(-> & ->)]; [left; exact H''|].
      right. split; [left; reflexivity|reflexivity].
    - right. split; [right; exact Hin|exact Hs].
  Qed.

  Theorem stored_build rules r sigma :
    stored r (build_trie rules) sigma -> In r rules /\ sigma = rparts r.
  Proof.
    unfold Trie.build_trie. intro H. apply stored_update in H.
    destruct (stored_fold _ _ _ _ H) as [H'|H']; [exfalso; exact (stored_empty _ _ H')|exact H'].
  Qed.

  (* ------------------------------------------------------------------ walk *)
  Lemma walk_app a b parts :
    walk (a ++ b) parts =
    match walk a parts with
    | Some (caps, lo) => match walk b lo with Some (caps', lo') => Some (caps ++ caps', lo') | None => None end
    | None => None
    end.
  Proof.
    revert parts. induction a as [|c a IH]; intro parts; cbn [app].
    - cbn [Trie.walk]. destruct (walk b parts) as [[caps' lo']|]; reflexivity.
    - destruct c as [k|d]; cbn [Trie.walk]; destruct parts as [|p ps]; try reflexivity.
      + destruct (list_eqb k p); [apply IH|reflexivity].
      + destruct (pmatch d p ps) as [[g rem]|]; [|reflexivity]. rewrite IH.
        destruct (walk a rem) as [[caps lo]|]; [|reflexivity].
        destruct (walk b lo) as [[caps' lo']|]; [|reflexivity]. rewrite app_assoc. reflexivity.
  Qed.

  Lemma strip_last_empty_app cs : Trie.strip_last_empty dpart (cs ++ [PStatic []]) = Some cs.
  Proof.
    induction cs as [|c cs IH]; [reflexivity|].
    cbn [app]. destruct c as [k|d].
    - destruct k as [|x k].
      + destruct cs as [|c' cs']; [reflexivity|].
        change (option_map (cons (PStatic [])) (Trie.strip_last_empty dpart ((c' :: cs') ++ [PStatic []])) = Some (PStatic [] :: c' :: cs')).
        rewrite IH. reflexivity.
      + cbn [Trie.strip_last_empty]. rewrite IH. reflexivity.
    - cbn [Trie.strip_last_empty]. rewrite IH. reflexivity.
  Qed.

  Notation admits := (Trie.admits dpart rule res pmatch rstrict rconvert rparts).

  Lemma admits_here r parts caps v :
    walk (rparts r) parts = Some (caps, []) -> rconvert r caps = Some v -> admits r parts = ADirect res v.
  Proof. intros Hw Hc. unfold Trie.admits, Trie.convert_adm. rewrite Hw, Hc. reflexivity. Qed.

  Lemma admits_late r parts caps v :
    walk (rparts r) parts = Some (caps, [[]]) -> rstrict r = false -> rconvert r caps = Some v ->
    admits r parts = ADirect res v.
  Proof. intros Hw Hs Hc. unfold Trie.admits, Trie.convert_adm. rewrite Hw, Hs, Hc. reflexivity. Qed.

  Lemma admits_slashless r parts sigma caps v :
    rparts r = sigma ++ [PStatic []] -> walk sigma parts = Some (caps, []) -> rconvert r caps = Some v ->
    admits r parts = if rstrict r then ASlash res else ADirect res v.
  Proof.
    intros Hp Hw Hc. unfold Trie.admits, Trie.convert_adm.
    rewrite Hp, walk_app, Hw. cbn [Trie.walk]. rewrite strip_last_empty_app, Hw, Hc. reflexivity.
  Qed.

  (* ------------------------------------------------------------------ soundness of the search at the root *)
  Theorem root_found_sound rules meth ws parts r v h w :
    smatch meth ws (build_trie rules) parts [] = (MFound rule res r v, h, w) ->
    In r rules /\ admits r parts = ADirect res v /\ method_ok rule rmethods r meth = true /\ rws r = ws.
  Proof.
    rewrite smatch_scan. intro H. apply scan_found in H. destruct H as (k & vals & Hin & Hs).
    apply step_found in Hs. destruct Hs as (Hc & Hm & Hw & Hk).
    apply cands_sound in Hin. destruct Hin as (sigma & caps & Hv & Hst). cbn [app] in Hv. subst vals.
    destruct k; destruct Hst as [Hst Hwk]; apply stored_build in Hst; destruct Hst as [Hr Hsig].
    - subst sigma. repeat split; try assumption. eapply admits_here; eassumption.
    - destruct Hk as [Hk|Hk]; [discriminate|]. repeat split; try assumption.
      rewrite (admits_slashless _ _ _ _ _ (eq_sym Hsig) Hwk Hc), Hk. reflexivity.
    - destruct Hk as [Hk|Hk]; [discriminate|]. subst sigma. repeat split; try assumption.
      eapply admits_late; eassumption.
  Qed.

  Theorem root_slash_sound rules meth ws parts h w :
    smatch meth ws (build_trie rules) parts [] = (MSlash rule res, h, w) ->
    exists r, In r rules /\ admits r parts = ASlash res /\ method_ok rule rmethods r meth = true /\ rws r = ws.
  Proof.
    rewrite smatch_scan. intro H. apply scan_slash in H. destruct H as (k & r & vals & Hin & Hs).
    apply step_slash in Hs. destruct Hs as (-> & Hstrict & (v & Hc) & Hm & Hw).
    apply cands_sound in Hin. destruct Hin as (sigma & caps & Hv & Hst & Hwk). cbn [app] in Hv. subst vals.
    apply stored_build in Hst. destruct Hst as [Hr Hsig].
    exists r. repeat split; try assumption.
    rewrite (admits_slashless _ _ _ _ _ (eq_sym Hsig) Hwk Hc), Hstrict. reflexivity.
  Qed.
End Facts.
