(* C03 property theorems.  Statements only, each closed by `exact <lemma>.`, Print Assumptions beneath.
   Model: C03/Trie.v (generic transition tree) + C03/Model.v; constants: C03/Gen.v (regenerated).
   admits m r parts (Trie.admits) is the declarative meaning of one rule, independent of the other
   rules: its own parts walk the path parts (Direct, with the converted arguments), or all but its
   trailing slash do (Slash for strict rules). *)
From Coq Require Import ZArith.
From Coq Require Import Sorting.Permutation.
From Wz Require Import lib.Bytes C03.Gen C03.Trie C03.TrieFacts C03.Model C03.Proofs C03.PrioProofs.
Open Scope N_scope.

(* a reported match is justified by a rule of the map that admits the request path directly, with
   exactly the converted arguments (plus the rule's defaults), for the request method and protocol;
   h: the URL-builder hooks of defaults/alias redirects (any) *)
Theorem C03_sound : forall h m a p me r vs,
  map_match h m a p me = Match r vs ->
  In r (m_rules m)
  /\ (exists v, admits m r (request_parts m a p) = ADirect (list (str * value)) v /\ vs = dict_update v (r_defaults r))
  /\ rmethod_ok r (upper me) = true /\ r_websocket r = a_websocket a.
Proof. exact match_sound. Qed.
Print Assumptions C03_sound.

Example C03_sound_example :
  map_match no_hooks ex_map ex_adapter [47; 49; 50] GET = Match ex_r1 [([98], VStr [49; 50])].
Proof. exact ex_match_12. Qed.
Print Assumptions C03_sound_example.

(* every redirect is justified: a strict rule admits the path but for its trailing slash (target:
   path + "/"), or - with merge_slashes - a rule admits the merged path (target: the merged path,
   with a slash appended in the strict-slash case), or a rule admits the path directly and the
   builder hooks (alias / defaults canonicalisation) supplied the target *)
Theorem C03_redirect_sound : forall h m a p me u,
  map_match h m a p me = RedirectTo u -> redirect_reason h m a p me u.
Proof. exact redirect_sound. Qed.
Print Assumptions C03_redirect_sound.

Example C03_redirect_example :
  map_match no_hooks ex_map2 ex_adapter [47; 51] GET
  = RedirectTo ([104; 116; 116; 112; 58; 47; 47] ++ a_server ex_adapter ++ [47; 51; 47])
  /\ map_match no_hooks ex_map2 ex_adapter [47; 57] GET = NotFound.
Proof. exact (conj ex_redirect_3 ex_notfound_9). Qed.
Print Assumptions C03_redirect_example.

(* completeness, at full strength on the repaired code (werkzeug 0f9d43b, c350753): the outcome of
   MapAdapter.match is classified exactly by what the rules admit -
   - some rule serves the path (admits it directly or but for its trailing slash, for the request method
     and protocol), or - with merge_slashes - the path with doubled slashes merged: a match or a redirect;
   - nobody serves it: MethodNotAllowed with exactly the methods of the rules that admit the path
     directly for another method, when there are such methods; else WebsocketMismatch when a rule admits
     it for the other protocol; else NotFound.
   uniform_merge: merge_slashes is a map-level setting (the domain of C03). *)
Theorem C03_complete : forall h m a p me,
  uniform_merge m -> classified m a p me (map_match h m a p me).
Proof. exact complete. Qed.
Print Assumptions C03_complete.

Example C03_complete_example :
  (uniform_merge ex_map /\ uniform_merge ex_map2)
  /\ map_match no_hooks ex_map2 ex_adapter [47; 57] GET = NotFound.
Proof. exact (conj ex_uniform ex_notfound_9). Qed.
Print Assumptions C03_complete_example.

(* NotFound is raised only when no rule serves the path; a rule that admits it directly for another
   method then lists no method at all *)
Theorem C03_notfound_only_if_unserved : forall h m a p me,
  uniform_merge m -> map_match h m a p me = NotFound ->
  forall r, In r (m_rules m) ->
    ~ on_some_path m a p (serves m (upper me) (a_websocket a) r)
    /\ (on_some_path m a p (wrong_method m (upper me) r) -> rmethods_of r = []).
Proof. exact notfound_only_if_unserved. Qed.
Print Assumptions C03_notfound_only_if_unserved.

Example C03_empty_method_set_example :
  map_match no_hooks (mk_map [ex_r4]) ex_adapter [47; 97] GET = NotFound
  /\ wrong_method (mk_map [ex_r4]) GET ex_r4 (request_parts (mk_map [ex_r4]) ex_adapter [47; 97]).
Proof. exact ex_empty_methods. Qed.
Print Assumptions C03_empty_method_set_example.

(* MethodNotAllowed: nobody serves the path, and the listed methods are exactly those of the rules
   that admit it directly for another method *)
Theorem C03_method_not_allowed : forall h m a p me ms,
  uniform_merge m -> map_match h m a p me = MethodNotAllowed ms ->
  nobody_serves m a p me /\ ms <> []
  /\ forall x, In x ms <-> exists r, In r (m_rules m) /\ on_some_path m a p (wrong_method m (upper me) r) /\ In x (rmethods_of r).
Proof. exact method_not_allowed_iff. Qed.
Print Assumptions C03_method_not_allowed.

(* a rule that serves the path is never shadowed into NotFound / MethodNotAllowed by the other rules
   (Raised: the URL builder hook raised while canonicalising the match; impossible with no_hooks on maps
   without alias rules) *)
Theorem C03_served_never_refused : forall h m a p me r,
  uniform_merge m -> In r (m_rules m) -> on_some_path m a p (serves m (upper me) (a_websocket a) r) ->
  (exists r' vs, map_match h m a p me = Match r' vs) \/ (exists u, map_match h m a p me = RedirectTo u)
  \/ (exists e, map_match h m a p me = Raised e).
Proof. exact served_never_refused. Qed.
Print Assumptions C03_served_never_refused.

(* priority.  A candidate (k, r, caps) is a way rule r takes part in the search for the path parts P
   (cand_of: its parts consume P / consume P but for one trailing slash / all but its final slash consume P);
   it serves the request when it admits for the method and protocol.  prio_lt is the documented order on
   the candidates' transition sequences: at the first difference a literal part beats a variable one, among
   variable parts the lighter Weighting (more / longer literal text around the variable, then int/float <
   string/any/uuid < path) wins, the late trailing-slash clause comes last, a proper prefix first; two
   different variable parts of equal Weighting are NOT ordered (insertion order decides: the ties of DESIGN.md).
   The reported rule is the outcome of a serving candidate that no serving candidate strictly precedes. *)
Theorem C03_priority : forall h m a p me r vs,
  map_match h m a p me = Match r vs ->
  exists k caps v, prio_minimal m (upper me) (a_websocket a) (request_parts m a p) k r caps
    /\ cand_adm_of m k r caps = ADirect (list (str * value)) v /\ vs = dict_update v (r_defaults r).
Proof. exact match_priority. Qed.
Print Assumptions C03_priority.

(* ... independent of the insertion order: for any permutation m' of the rules (same map settings) the
   rule reported by m' is priority-minimal for the relation and the serving candidates of m *)
Theorem C03_priority_any_order : forall h m m' a p me r vs,
  same_config m m' -> map_match h m' a p me = Match r vs ->
  exists k caps v, prio_minimal m (upper me) (a_websocket a) (request_parts m a p) k r caps
    /\ cand_adm_of m k r caps = ADirect (list (str * value)) v /\ vs = dict_update v (r_defaults r).
Proof. exact priority_any_order. Qed.
Print Assumptions C03_priority_any_order.

Example C03_priority_example :
  same_config ex_map (mk_map [ex_r1; ex_r0])
  /\ map_match no_hooks (mk_map [ex_r1; ex_r0]) ex_adapter [47; 49; 50; 51] GET = Match ex_r0 [([97], VInt 123)]
  /\ map_match no_hooks ex_map ex_adapter [47; 49; 50; 51] GET = Match ex_r0 [([97], VInt 123)].
Proof. exact ex_priority_orders. Qed.
Print Assumptions C03_priority_example.

(* the order on converters, with the weights of the current source: int and float before string,
   string before path, string and any tie *)
Theorem C03_converter_order :
  dpart_wlt (ex_dpart (CInt 0 None None false)) (ex_dpart (CStr None 1 None)) = true
  /\ dpart_wlt (ex_dpart (CFloat false)) (ex_dpart (CStr None 1 None)) = true
  /\ dpart_wlt (ex_dpart (CStr None 1 None)) (ex_dpart CPath) = true
  /\ dpart_wlt (ex_dpart (CStr None 1 None)) (ex_dpart (CAny [[97]])) = false
  /\ dpart_wlt (ex_dpart (CAny [[97]])) (ex_dpart (CStr None 1 None)) = false.
Proof. exact ex_prio_converters. Qed.
Print Assumptions C03_converter_order.

(* StateMachineMatcher.match._match, regenerated from the source on every run (T2): the three rule loops
   (rules of the state when parts == []; rules behind the "" transition; rules of the state when parts == [""])
   as decision functions g_step_here / g_step_slash / g_step_late over (the converters accept, rule.strict_slashes,
   rule.methods is not None, method in rule.methods, rule.websocket == websocket), with the actions continue /
   have_match_for.update / websocket_mismatch = True / return / raise SlashRequired.  The model's loops take, rule
   by rule, exactly these actions; an edit of a test or a branch in the source changes the generated definition. *)
Theorem C03_match_loops_regenerated : forall m meth ws r vals,
  let cs k := cand_step rule (list (str * value)) rmethods r_websocket (rstrict m) rconvert meth ws (k, r, vals) in
  let g f := f (conv_ok r vals) (rstrict m r) (has_methods r) (in_methods r meth) (Bool.eqb (r_websocket r) ws) in
  action_of_step (cs (KHere)) = g g_step_here
  /\ action_of_step (cs (KSlash)) = g g_step_slash
  /\ action_of_step (cs (KLate)) = g g_step_late.
Proof. exact match_loops_regenerated. Qed.
Print Assumptions C03_match_loops_regenerated.

(* ... the order of the blocks of _match (base case, static transition before the dynamic ones, late clause last;
   in the base case the rules of the state before the rules behind the "" transition) and the tests of the
   merge_slashes second pass of match() *)
Theorem C03_match_blocks_regenerated :
  g_match_blocks = [1; 2; 3; 4; 9] /\ g_base_blocks = [5; 6; 9]
  /\ (forall merge rv_none, g_second_pass merge rv_none = merge && rv_none)
  /\ (forall rv_none rule_merge, g_second_nomatch rv_none rule_merge = rv_none || negb rule_merge).
Proof. exact match_blocks_regenerated. Qed.
Print Assumptions C03_match_blocks_regenerated.

(* the regex texts, weights and part_isolating flags of the current source are the ones the
   language predicates and the priority order of the model stand for *)
Theorem C03_patterns_pinned :
  list_eqb rx_base [91; 94; 47; 93; 43]
  && list_eqb rx_str_prefix [91; 94; 47; 93]
  && list_eqb rx_int [92; 100; 43]
  && list_eqb rx_float [92; 100; 43; 92; 46; 92; 100; 43]
  && list_eqb rx_path [91; 94; 47; 93; 40; 63; 115; 58; 46; 42; 63; 41]
  && list_eqb rx_signed_prefix [45; 63]
  && list_eqb rx_any_prefix [40; 63; 58] && list_eqb rx_any_suffix [41]
  && list_eqb rx_uuid
       [91; 65; 45; 70; 97; 45; 102; 48; 45; 57; 93; 123; 56; 125; 45;
        91; 65; 45; 70; 97; 45; 102; 48; 45; 57; 93; 123; 52; 125; 45;
        91; 65; 45; 70; 97; 45; 102; 48; 45; 57; 93; 123; 52; 125; 45;
        91; 65; 45; 70; 97; 45; 102; 48; 45; 57; 93; 123; 52; 125; 45;
        91; 65; 45; 70; 97; 45; 102; 48; 45; 57; 93; 123; 49; 50; 125]
  && list_eqb rx_group_open [40; 63; 80; 60; 95; 95; 119; 101; 114; 107; 122; 101; 117; 103; 95]
  && list_eqb rx_group_mid [62] && list_eqb rx_group_close [41]
  && list_eqb rx_suffixed_tail [40; 63; 60; 33; 47; 41; 40; 47; 63; 41]
  && list_eqb rx_end [92; 90]
  && list_eqb rx_merge_rule [47; 123; 50; 44; 125; 63] && list_eqb rx_merge_rule_repl [47]
  && list_eqb rx_merge_match [47; 123; 50; 44; 125; 63] && list_eqb rx_merge_match_repl [47]
  = true.
Proof. exact patterns_pinned. Qed.
Print Assumptions C03_patterns_pinned.

Theorem C03_weights_pinned :
  (weight_int =? 50)%Z && (weight_float =? 50)%Z && (weight_string =? 100)%Z && (weight_default =? 100)%Z
  && (weight_any =? 100)%Z && (weight_uuid =? 100)%Z && (weight_path =? 200)%Z
  && isolating_string && isolating_default && isolating_int && isolating_float && isolating_any && isolating_uuid
  && negb isolating_path = true.
Proof. exact weights_pinned. Qed.
Print Assumptions C03_weights_pinned.

(* NumberConverter.to_python, as translated from the source, rejects exactly: a wrong number of
   digits when fixed_digits is set, a value below min, a value above max *)
Theorem C03_number_rejection : forall fixed len num mn mx,
  num_rejects_length fixed len = (negb (fixed =? 0) && negb (len =? fixed))
  /\ num_rejects_range num mn mx =
     (match mn with Some m => (num <? m)%Z | None => false end
      || match mx with Some m => (m <? num)%Z | None => false end).
Proof. exact num_rejects_spec. Qed.
Print Assumptions C03_number_rejection.

(* strict_slashes / merge_slashes left at None on a rule are the map's settings (Rule.bind); matching the rule is matching the
   rule with the inherited settings written on it *)
Theorem C03_flags_inherited : forall m r,
  (r_strict_opt r = None -> rstrict m r = m_strict m)
  /\ (r_merge_opt r = None -> rmerge m r = m_merge m)
  /\ (forall b, r_strict_opt r = Some b -> rstrict m r = b)
  /\ (forall b, r_merge_opt r = Some b -> rmerge m r = b)
  /\ rstrict m (explicit_flags m r) = rstrict m r /\ rmerge m (explicit_flags m r) = rmerge m r
  /\ forall P, admits m (explicit_flags m r) P = admits m r P.
Proof. exact flags_inherited. Qed.
Print Assumptions C03_flags_inherited.

Example C03_flags_example :
  map_match no_hooks {| m_rules := [ex_r2]; m_strict := false; m_merge := true; m_redirect_defaults := true; m_host_matching := false |}
    ex_adapter [47; 51] GET = Match ex_r2 [([97], VInt 3)]
  /\ exists u, map_match no_hooks {| m_rules := [explicit_flags ex_map2 ex_r2]; m_strict := false; m_merge := true;
                                      m_redirect_defaults := true; m_host_matching := false |} ex_adapter [47; 51] GET = RedirectTo u.
Proof. exact ex_flags. Qed.
Print Assumptions C03_flags_example.
