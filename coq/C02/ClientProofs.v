(* C02: the test client's encoder (C02/Client.v) is an instance of the sans-io encoder theorems:
   its output does not depend on how the file contents were read, and every chunking of it
   decodes to the items. *)
From Coq Require Import ZArith Lia.
From Wz Require Import lib.Bytes lib.BytesFacts lib.Utf8
  C01.Gen C01.Model C01.Hold C01.Render C01.HeaderBlock
  C02.Gen C02.Model C02.Encoder C02.Roundtrip C02.Client.
Open Scope N_scope.

Definition client_part (it : citem) : epart :=
  match it with
  | CText k v => mkep k None [] [] (utf8_encode v)
  | CFile k fn h reads => mkep k fn h reads []
  end.

(* identity of an item on the wire: its header block and its content *)
Definition item_ident (it : citem) : bytes * bytes := (hdr_block (client_part it), item_content it).

Lemma item_events_eq it : item_events it = events_of (client_part it).
Proof.
  destruct it as [k v|k fn h reads]; unfold item_events, events_of, client_part, head_event, data_events;
    cbn [ep_name ep_filename ep_hdrs ep_frags ep_last map app]; [reflexivity|].
  destruct fn; reflexivity.
Qed.

Lemma flat_map_map' (A C D : Type) (g : A -> C) (f : C -> list D) l :
  flat_map f (map g l) = flat_map (fun x => f (g x)) l.
Proof. induction l as [|x l IH]; cbn [map flat_map]; [reflexivity|rewrite IH; reflexivity]. Qed.

Lemma client_events_eq items :
  client_events items = XPreamble [] :: flat_map events_of (map client_part items) ++ [XEpilogue []].
Proof.
  unfold client_events. rewrite flat_map_map'. f_equal. f_equal.
  apply flat_map_ext. intro it. apply item_events_eq.
Qed.

Lemma payload_client_part it : payload (client_part it) = item_content it.
Proof.
  destruct it as [k v|k fn h reads]; unfold payload, client_part, item_content; cbn [ep_frags ep_last concat app];
    [reflexivity|apply app_nil_r].
Qed.

Lemma spec_of_client_part it : spec_of_part (client_part it) = item_ident it.
Proof. unfold spec_of_part, item_ident. rewrite payload_client_part. reflexivity. Qed.

(* the wire: a rendered CRLF body with an empty preamble and epilogue *)
Theorem client_wire B items :
  stream_encode B items
  = Some (render B LBcrlf ([] ++ CRLF) (map to_rpart (map client_part items)) (CRLF ++ [])).
Proof. unfold stream_encode. rewrite client_events_eq. apply encode_is_render. Qed.

Definition rp_of_spec (s : bytes * bytes) : rpart :=
  mkrp (fst s) (match snd s with [] => None | d => Some d end).
Lemma to_rpart_spec p : to_rpart p = rp_of_spec (spec_of_part p).
Proof. reflexivity. Qed.

(* ... which depends on the items only through their identity: the chunks read() returned (their
   number and sizes, empty ones included) leave no trace *)
Theorem client_wire_reads_irrelevant B items items' :
  map item_ident items = map item_ident items' -> stream_encode B items = stream_encode B items'.
Proof.
  intro H. rewrite !client_wire. f_equal. f_equal.
  rewrite !map_map.
  rewrite (map_ext (fun x => to_rpart (client_part x)) (fun x => rp_of_spec (item_ident x)))
    by (intro x; rewrite to_rpart_spec, spec_of_client_part; reflexivity).
  rewrite (map_ext (fun x => to_rpart (client_part x)) (fun x => rp_of_spec (item_ident x)))
    by (intro x; rewrite to_rpart_spec, spec_of_client_part; reflexivity).
  rewrite <- !(map_map item_ident rp_of_spec). rewrite H. reflexivity.
Qed.

Lemma Forall2_map_r (A C D : Type) (R : A -> D -> Prop) (f : C -> D) l l' :
  Forall2 R l (map f l') -> Forall2 (fun a c => R a (f c)) l l'.
Proof.
  revert l. induction l' as [|c l' IH]; intros l H; inversion H; subst; constructor; [assumption|].
  apply IH. assumption.
Qed.

(* the round trip through the decoder, for every chunking of the wire bytes *)
Theorem client_roundtrip B items wire chunks :
  good_boundary B = true ->
  wf_body B LBcrlf ([] ++ CRLF) (map to_rpart (map client_part items)) (CRLF ++ []) = true ->
  stream_encode B items = Some wire ->
  concat chunks = wire ->
  exists evs, drive no_limits B chunks = Ok evs /\
    Forall2 (fun a it => parse_headers (fst a) = parse_headers (fst (item_ident it)) /\ snd a = item_content it)
            (parts_of evs) items.
Proof.
  intros HB Hwf Henc Hcat. unfold stream_encode in Henc. rewrite client_events_eq in Henc.
  destruct (sansio_roundtrip B [] (map client_part items) [] wire chunks HB Hwf Henc Hcat) as [evs [Hd Hf]].
  exists evs. split; [exact Hd|].
  rewrite map_map in Hf. apply Forall2_map_r in Hf.
  eapply Forall2_weaken; [|exact Hf]. intros a it [H1 H2].
  rewrite spec_of_client_part in H1, H2. unfold item_ident in H2. cbn [snd] in H2. split; assumption.
Qed.

Example client_example :
  let items := [CText [97] [98; 233]; CFile [102] (Some [116; 46; 98]) [([67; 45; 84], [116; 47; 112])] [[120; 13]; [10; 45; 45]]] in
  let items' := [CText [97] [98; 233]; CFile [102] (Some [116; 46; 98]) [([67; 45; 84], [116; 47; 112])] [[120]; []; [13; 10; 45; 45]]] in
  good_boundary [66; 110; 100] = true /\
  wf_body [66; 110; 100] LBcrlf ([] ++ CRLF) (map to_rpart (map client_part items)) (CRLF ++ []) = true /\
  map item_ident items = map item_ident items' /\
  stream_encode [66; 110; 100] items = stream_encode [66; 110; 100] items'.
Proof. vm_compute. repeat split; reflexivity. Qed.
