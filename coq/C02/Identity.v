(* C02: part identity survives the round trip.  The header block the encoder writes for a part
   (C02/Roundtrip.hdr_block) is parsed by the decoder's header parser (C01/HeaderBlock.parse_headers)
   into a Content-Disposition header whose value the option-header parser (C06 model) reads back as
   form-data with exactly name = the part's name and filename = its file name. *)
From Coq Require Import ZArith Lia ZifyBool ZifyN.
From Wz Require Import lib.Bytes lib.BytesFacts lib.Utf8 lib.Utf8Facts C01.HeaderBlock
  C02.Gen C02.Model C02.Encoder C02.Roundtrip.
From Wz Require C06.LibPy C06.Model C06.Proofs2 C06.ProofsQuoted.
Open Scope N_scope.

(* the text of the Content-Disposition value, and of the whole line *)
Definition t_form_data : str := [102; 111; 114; 109; 45; 100; 97; 116; 97].            (* form-data *)
Definition t_name : str := [110; 97; 109; 101].                                          (* name *)
Definition t_filename : str := [102; 105; 108; 101; 110; 97; 109; 101].                 (* filename *)
Definition t_cd : str := [67; 111; 110; 116; 101; 110; 116; 45; 68; 105; 115; 112; 111; 115; 105; 116; 105; 111; 110].

Definition cd_options (p : epart) : list (str * str) :=
  (t_name, ep_name p) :: match ep_filename p with Some f => [(t_filename, f)] | None => [] end.
Definition cd_value (p : epart) : str :=
  t_form_data ++ flat_map (fun kv => [59; 32] ++ fst kv ++ 61 :: 34 :: snd kv ++ [34]) (cd_options p).
Definition cd_text (p : epart) : str := t_cd ++ [58; 32] ++ cd_value p.

(* names and file names the multipart header syntax can carry unescaped *)
Definition carried (v : str) : bool :=
  valid_text v && C06.ProofsQuoted.quoted_plain v && negb (mem 13 v) && negb (mem 10 v).
Definition part_names_ok (p : epart) : bool :=
  carried (ep_name p) && match ep_filename p with Some f => carried f | None => true end.

Lemma utf8_encode_ascii_app a s : forallb (fun c => c <? 128) a = true -> utf8_encode (a ++ s) = a ++ utf8_encode s.
Proof. intro H. rewrite utf8_encode_app, utf8_encode_ascii by exact H. reflexivity. Qed.

(* the two templates, split at %s *)
Definition A2 : list N := [67; 111; 110; 116; 101; 110; 116; 45; 68; 105; 115; 112; 111; 115; 105; 116; 105; 111; 110;
                           58; 32; 102; 111; 114; 109; 45; 100; 97; 116; 97; 59; 32; 110; 97; 109; 101; 61; 34].
Definition A3 : list N := [59; 32; 102; 105; 108; 101; 110; 97; 109; 101; 61; 34].

Lemma lit23 : lit 2 = A2 ++ [37; 115; 34] /\ lit 3 = A3 ++ [37; 115; 34].
Proof.
  pose proof encoder_literals_pinned as H.
  repeat (apply andb_prop in H; destruct H as [H ?]).
  repeat match goal with Hx : list_eqb _ _ = true |- _ => apply list_eqb_eq' in Hx end.
  split; assumption.
Qed.

Lemma fmt1_A2 arg : fmt1 (A2 ++ [37; 115; 34]) arg = A2 ++ arg ++ [34].
Proof. unfold fmt1. replace (find_sub [PCT; 115] (A2 ++ [37; 115; 34])) with (Some (A2, [34])) by (vm_compute; reflexivity). reflexivity. Qed.
Lemma fmt1_A3 arg : fmt1 (A3 ++ [37; 115; 34]) arg = A3 ++ arg ++ [34].
Proof. unfold fmt1. replace (find_sub [PCT; 115] (A3 ++ [37; 115; 34])) with (Some (A3, [34])) by (vm_compute; reflexivity). reflexivity. Qed.

Lemma cd_text_shape p :
  cd_text p = A2 ++ ep_name p ++ [34] ++ match ep_filename p with Some f => A3 ++ f ++ [34] | None => [] end.
Proof.
  unfold cd_text, cd_value, cd_options, A2, A3, t_cd, t_form_data, t_name, t_filename.
  destruct (ep_filename p); cbn [flat_map fst snd app]; repeat (rewrite <- app_assoc; cbn [app]); rewrite ?app_nil_r; reflexivity.
Qed.

Lemma A2_ascii : forallb (fun c => c <? 128) A2 = true. Proof. vm_compute. reflexivity. Qed.
Lemma A3_ascii : forallb (fun c => c <? 128) A3 = true. Proof. vm_compute. reflexivity. Qed.

(* the encoder's bytes for the line are the UTF-8 encoding of its text *)
Lemma cd_line_is_text p : cd_line p = utf8_encode (cd_text p).
Proof.
  destruct lit23 as [L2 L3]. unfold cd_line. rewrite L2, L3, fmt1_A2, cd_text_shape.
  rewrite utf8_encode_ascii_app by exact A2_ascii. rewrite utf8_encode_app, utf8_encode_app.
  change (utf8_encode [34]) with [34]. repeat rewrite <- app_assoc. do 3 f_equal.
  destruct (ep_filename p) as [f|]; [|reflexivity].
  rewrite fmt1_A3. rewrite utf8_encode_ascii_app by exact A3_ascii. rewrite utf8_encode_app. reflexivity.
Qed.

(* ---- the line is clean, decodes, and splits at the first colon *)
Lemma mem_utf8_ascii b v : b < 128 -> mem b v = false -> mem b (utf8_encode v) = false.
Proof.
  intros Hb Hm. destruct (mem b (utf8_encode v)) eqn:E; [|reflexivity]. exfalso.
  unfold mem in E. apply existsb_exists in E. destruct E as [x [Hx Hbx]]. apply N.eqb_eq in Hbx. subst x.
  unfold utf8_encode in Hx. apply in_flat_map in Hx. destruct Hx as [c [Hc Hin]].
  destruct (enc1_ascii c b Hin Hb) as [_ Hcb]. subst c.
  assert (mem b v = true) by (unfold mem; apply existsb_exists; exists b; split; [exact Hc|apply N.eqb_refl]).
  congruence.
Qed.

Lemma mem_app x a b : mem x (a ++ b) = mem x a || mem x b.
Proof. unfold mem. apply existsb_app. Qed.

Lemma carried_facts v : carried v = true ->
  valid_text v = true /\ C06.ProofsQuoted.quoted_plain v = true /\ mem 13 v = false /\ mem 10 v = false.
Proof.
  unfold carried. intro H. repeat (apply andb_prop in H; destruct H as [H ?]).
  repeat split; try assumption; apply negb_true_iff; assumption.
Qed.

Lemma no_crlf_forallb l : mem 13 l = false -> mem 10 l = false ->
  forallb (fun c => negb (c =? hCR) && negb (c =? hLF)) l = true.
Proof.
  unfold mem, hCR, hLF. induction l as [|c l IH]; cbn [existsb forallb]; intros H1 H2; [reflexivity|].
  apply orb_false_iff in H1. apply orb_false_iff in H2. destruct H1 as [A1 B1]. destruct H2 as [A2' B2].
  rewrite IH by assumption. rewrite N.eqb_sym in A1. rewrite N.eqb_sym in A2'. rewrite A1, A2'. reflexivity.
Qed.

Lemma cd_text_mem x p : mem x A2 = false -> mem x A3 = false -> (x =? 34) = false ->
  part_names_ok p = true -> mem x (ep_name p) = false ->
  (forall f, ep_filename p = Some f -> mem x f = false) -> mem x (cd_text p) = false.
Proof.
  intros H2 H3 Hq Hok Hn Hf. rewrite cd_text_shape. rewrite !mem_app, H2, Hn. cbn [orb].
  assert (Hq' : mem x [34] = false) by (unfold mem; cbn [existsb]; rewrite Hq; reflexivity).
  rewrite Hq'. cbn [orb]. destruct (ep_filename p) as [f|]; [|reflexivity].
  rewrite !mem_app, H3, (Hf f eq_refl), Hq'. reflexivity.
Qed.

Lemma part_names_facts p : part_names_ok p = true ->
  carried (ep_name p) = true /\ (forall f, ep_filename p = Some f -> carried f = true).
Proof.
  unfold part_names_ok. intro H. apply andb_prop in H. destruct H as [H1 H2]. split; [exact H1|].
  intros f Hf. rewrite Hf in H2. exact H2.
Qed.

Lemma cd_text_valid p : part_names_ok p = true -> valid_text (cd_text p) = true.
Proof.
  intro Hok. destruct (part_names_facts p Hok) as [Hn Hf]. destruct (carried_facts _ Hn) as [Hvn _].
  rewrite cd_text_shape. unfold valid_text. rewrite !forallb_app.
  replace (forallb valid_cp A2) with true by (vm_compute; reflexivity).
  change (forallb valid_cp (ep_name p)) with (valid_text (ep_name p)). rewrite Hvn. cbn [forallb andb].
  replace (valid_cp 34) with true by reflexivity. cbn [andb].
  destruct (ep_filename p) as [f|] eqn:Ef; [|reflexivity].
  destruct (carried_facts _ (Hf f eq_refl)) as [Hvf _].
  rewrite !forallb_app. replace (forallb valid_cp A3) with true by (vm_compute; reflexivity).
  change (forallb valid_cp f) with (valid_text f). rewrite Hvf. reflexivity.
Qed.

Lemma cd_line_clean p : part_names_ok p = true -> clean_line (cd_line p) = true.
Proof.
  intro Hok. destruct (part_names_facts p Hok) as [Hn Hf]. destruct (carried_facts _ Hn) as [_ [_ [Hn13 Hn10]]].
  assert (H13 : mem 13 (cd_text p) = false).
  { apply cd_text_mem; try reflexivity; try assumption. intros f Ef. destruct (carried_facts _ (Hf f Ef)) as [_ [_ [H _]]]. exact H. }
  assert (H10 : mem 10 (cd_text p) = false).
  { apply cd_text_mem; try reflexivity; try assumption. intros f Ef. destruct (carried_facts _ (Hf f Ef)) as [_ [_ [_ H]]]. exact H. }
  rewrite cd_line_is_text. unfold clean_line.
  assert (Hshape : exists m, utf8_encode (cd_text p) = 67 :: m ++ [34]).
  { rewrite cd_text_shape. rewrite utf8_encode_ascii_app by exact A2_ascii.
    destruct (ep_filename p) as [f|].
    - exists (tl A2 ++ utf8_encode (ep_name p) ++ [34] ++ A3 ++ utf8_encode f).
      rewrite !utf8_encode_app. rewrite (utf8_encode_ascii A3) by exact A3_ascii.
      change (utf8_encode [34]) with [34]. unfold A2. cbn [tl app]. repeat rewrite <- app_assoc. reflexivity.
    - exists (tl A2 ++ utf8_encode (ep_name p)).
      rewrite !utf8_encode_app. change (utf8_encode [34]) with [34]. change (utf8_encode []) with (@nil N).
      unfold A2. cbn [tl app]. rewrite ?app_nil_r. repeat rewrite <- app_assoc. reflexivity. }
  destruct Hshape as [m Hm]. rewrite Hm.
  assert (Hnl : forallb (fun c => negb (c =? hCR) && negb (c =? hLF)) (67 :: m ++ [34]) = true).
  { rewrite <- Hm. apply no_crlf_forallb; apply mem_utf8_ascii; try assumption; reflexivity. }
  rewrite Hnl. cbn [nonempty andb]. rewrite strip_ends by reflexivity.
  clear. induction (67 :: m ++ [34]) as [|x l IH]; cbn [list_eqb]; [reflexivity|]. rewrite N.eqb_refl, IH. reflexivity.
Qed.

Lemma parse_cd_line p : part_names_ok p = true -> parse_line (cd_line p) = Some (t_cd, cd_value p).
Proof.
  intro Hok. unfold parse_line. rewrite cd_line_is_text, utf8_decode_encode by (apply cd_text_valid; exact Hok).
  unfold cd_text. change ([58; 32] ++ cd_value p) with (COLON :: 32 :: cd_value p).
  rewrite partition1_app_stop by (vm_compute; reflexivity).
  replace (strip uni_ws t_cd) with t_cd by (vm_compute; reflexivity).
  f_equal. f_equal.
  (* the value: one leading space, then form-data ... ending with a quote *)
  cbn [app]. unfold strip. cbn [drop_while]. replace (uni_ws 32) with true by reflexivity.
  assert (Hshape : exists m, cd_value p = 102 :: m ++ [34]).
  { unfold cd_value, cd_options, t_form_data, t_name, t_filename. destruct (ep_filename p) as [f|].
    - exists ([111; 114; 109; 45; 100; 97; 116; 97; 59; 32; 110; 97; 109; 101; 61; 34] ++ ep_name p
              ++ [34; 59; 32; 102; 105; 108; 101; 110; 97; 109; 101; 61; 34] ++ f).
      cbn [flat_map fst snd app]. rewrite app_nil_r.
      repeat (rewrite <- app_assoc; cbn [app]). reflexivity.
    - exists ([111; 114; 109; 45; 100; 97; 116; 97; 59; 32; 110; 97; 109; 101; 61; 34] ++ ep_name p).
      cbn [flat_map fst snd app]. rewrite app_nil_r.
      repeat (rewrite <- app_assoc; cbn [app]). reflexivity. }
  destruct Hshape as [m Hm]. rewrite Hm. fold (strip uni_ws (102 :: m ++ [34])). apply strip_ends; reflexivity.
Qed.

(* ---- the whole header block *)
Lemma hdr_block_join p : hdr_block p = join_crlf (cd_line p :: extra_lines (ep_hdrs p)).
Proof.
  unfold hdr_block, join_crlf, crlf_tail. f_equal; try (apply flat_map_ext; intro l; reflexivity).
Qed.

(* the option-header parser (C06 model) reads the value back *)
Lemma cd_value_parsed p : part_names_ok p = true ->
  C06.Model.parse_options_header (cd_value p) = C06.LibPy.Ok (t_form_data, cd_options p).
Proof.
  intro Hok. destruct (part_names_facts p Hok) as [Hn Hf]. destruct (carried_facts _ Hn) as [_ [Hqn _]].
  unfold cd_value. apply C06.ProofsQuoted.options_always_quoted_In.
  - vm_compute. reflexivity.
  - intros kv Hin. unfold cd_options in Hin. destruct Hin as [<-|Hin].
    + split; [vm_compute; reflexivity|exact Hqn].
    + destruct (ep_filename p) as [f|] eqn:Ef; [|destruct Hin].
      destruct Hin as [<-|[]]. destruct (carried_facts _ (Hf f eq_refl)) as [_ [Hqf _]].
      split; [vm_compute; reflexivity|exact Hqf].
  - unfold cd_options. destruct (ep_filename p); vm_compute; reflexivity.
Qed.

(* part identity: what the decoder's header parser and the option-header parser recover from the
   block the encoder wrote is exactly form-data, the part's name and its file name (or none) *)
Theorem part_identity p hs :
  part_names_ok p = true ->
  forallb clean_line (extra_lines (ep_hdrs p)) = true ->
  parse_lines (extra_lines (ep_hdrs p)) = Some hs ->
  parse_headers (hdr_block p) = Some ((t_cd, cd_value p) :: hs) /\
  C06.Model.parse_options_header (cd_value p) = C06.LibPy.Ok (t_form_data, cd_options p).
Proof.
  intros Hok Hclean Hlines. split; [|apply cd_value_parsed; exact Hok].
  unfold parse_headers. rewrite hdr_block_join. rewrite header_lines_of_clean.
  - cbn [parse_lines]. rewrite parse_cd_line by exact Hok. rewrite Hlines. reflexivity.
  - cbn [forallb]. rewrite cd_line_clean by exact Hok. exact Hclean.
Qed.

(* hypotheses are satisfiable: a non-ASCII name, a file name with blanks, ';' and '=', a Content-Type header *)
Example part_identity_example :
  let p := mkep [102; 239; 101; 108; 100; 32; 8364] (Some [97; 32; 98; 59; 32; 99; 61; 100; 32; 233; 46; 116; 120; 116])
                [([67; 111; 110; 116; 101; 110; 116; 45; 84; 121; 112; 101], [116; 101; 120; 116; 47; 112; 108; 97; 105; 110])] [] [] in
  part_names_ok p = true /\ forallb clean_line (extra_lines (ep_hdrs p)) = true /\
  parse_lines (extra_lines (ep_hdrs p))
  = Some [([67; 111; 110; 116; 101; 110; 116; 45; 84; 121; 112; 101], [116; 101; 120; 116; 47; 112; 108; 97; 105; 110])].
Proof. vm_compute. repeat split; reflexivity. Qed.
