(* C02: executable models of
     urls._urlencode  = urllib.parse.urlencode(items, safe=...) with quote_plus, utf-8, strict
     urllib.parse.parse_qsl(qs, keep_blank_values=True, errors="werkzeug.url_quote") and unquote
     sansio.multipart.MultipartEncoder.send_event (repaired: stays in DATA_START on an empty
     non-final first Data event).
   Definitions only.  The pass-through table comes from C02/Gen.v (regenerated). *)
From Wz Require Import lib.Bytes lib.Utf8 C02.Gen.
Open Scope N_scope.

Definition PCT : N := 37.
Definition PLUS : N := 43.
Definition AMP : N := 38.
Definition EQS : N := 61.
Definition SPC : N := 32.

(* upper-case hex digit of n < 16 *)
Definition hexchar (n : N) : N := if n <? 10 then 48 + n else 55 + n.
Definition pct_escape (b : N) : bytes := [PCT; hexchar (b / 16); hexchar (b mod 16)].

(* quote_plus on one byte: space -> '+', pass-through table, else %XX *)
Definition qp_byte (b : N) : bytes :=
  if b =? SPC then [PLUS]
  else if in_ranges b urlencode_pass then [b] else pct_escape b.
Definition quote_plus (s : str) : str := flat_map qp_byte (utf8_encode s).

Fixpoint join_amp (l : list str) : str :=
  match l with
  | [] => []
  | [x] => x
  | x :: r => x ++ AMP :: join_amp r
  end.
Definition urlencode (items : list (str * str)) : str :=
  join_amp (map (fun kv => quote_plus (fst kv) ++ EQS :: quote_plus (snd kv)) items).

(* ---- unquote *)
(* _unquote_impl on the bytes of an ASCII run: %XX with two hex digits -> the byte, any other
   % stays literal *)
Fixpoint unquote_impl (b : bytes) : bytes :=
  match b with
  | [] => []
  | c :: r =>
    if c =? PCT then
      match r with
      | h1 :: (h2 :: r2) =>
        if is_hex h1 && is_hex h2 then (hex_val h1 * 16 + hex_val h2) :: unquote_impl r2
        else c :: unquote_impl r
      | _ => c :: unquote_impl r
      end
    else c :: unquote_impl r
  end.

(* bytes.decode("utf-8", "werkzeug.url_quote"): an invalid range is replaced by its
   percent-encoding (quote(..., safe="")), then decoding resumes *)
Definition requote (bs : bytes) : str := flat_map pct_escape bs.
Fixpoint utf8_decode_requote (b : bytes) : str :=
  match b with
  | [] => []
  | b0 :: r0 =>
    if b0 <? 128 then b0 :: utf8_decode_requote r0
    else if b0 <? 194 then requote [b0] ++ utf8_decode_requote r0
    else if b0 <? 224 then
      match r0 with
      | b1 :: r1 =>
        if is_cont b1 then ((b0 - 192) * 64 + (b1 - 128)) :: utf8_decode_requote r1
        else requote [b0] ++ utf8_decode_requote r0
      | [] => requote [b0]
      end
    else if b0 <? 240 then
      match r0 with
      | b1 :: r1 =>
        if second_ok b0 b1 then
          match r1 with
          | b2 :: r2 =>
            if is_cont b2
            then ((b0 - 224) * 4096 + (b1 - 128) * 64 + (b2 - 128)) :: utf8_decode_requote r2
            else requote [b0; b1] ++ utf8_decode_requote r1
          | [] => requote [b0; b1]
          end
        else requote [b0] ++ utf8_decode_requote r0
      | [] => requote [b0]
      end
    else if b0 <? 245 then
      match r0 with
      | b1 :: r1 =>
        if second_ok b0 b1 then
          match r1 with
          | b2 :: r2 =>
            if is_cont b2 then
              match r2 with
              | b3 :: r3 =>
                if is_cont b3
                then ((b0 - 240) * 262144 + (b1 - 128) * 4096 + (b2 - 128) * 64 + (b3 - 128))
                       :: utf8_decode_requote r3
                else requote [b0; b1; b2] ++ utf8_decode_requote r2
              | [] => requote [b0; b1; b2]
              end
            else requote [b0; b1] ++ utf8_decode_requote r1
          | [] => requote [b0; b1]
          end
        else requote [b0] ++ utf8_decode_requote r0
      | [] => requote [b0]
      end
    else requote [b0] ++ utf8_decode_requote r0
  end.

Definition flush (run : list N) : str := utf8_decode_requote (unquote_impl run).

(* _generate_unquoted_parts: maximal ASCII runs are unquoted and decoded, other characters pass *)
Fixpoint unq_runs (s : str) (run : list N) : str :=
  match s with
  | [] => flush run
  | c :: r => if c <? 128 then unq_runs r (run ++ [c]) else flush run ++ c :: unq_runs r []
  end.
Definition unquote (s : str) : str := if mem PCT s then unq_runs s [] else s.

Definition plus_to_space (s : str) : str := map (fun c => if c =? PLUS then SPC else c) s.

(* str.split(sep) for a one-character separator *)
Fixpoint split_on (sep : N) (s : str) (cur : str) : list str :=
  match s with
  | [] => [cur]
  | c :: r => if c =? sep then cur :: split_on sep r [] else split_on sep r (cur ++ [c])
  end.

Definition parse_field (nv : str) : str * str :=
  match partition1 EQS nv with
  | (k, Some v) => (unquote (plus_to_space k), unquote (plus_to_space v))
  | (k, None) => (unquote (plus_to_space k), [])
  end.

Definition parse_qsl (qs : str) : list (str * str) :=
  match qs with
  | [] => []
  | _ => map parse_field (filter (fun f => match f with [] => false | _ => true end) (split_on AMP qs []))
  end.

(* ---- MultipartEncoder *)
Inductive estate := SPreamble | SPart | SData | SDataStart | SComplete.
Inductive xevent :=
| XPreamble (d : bytes)
| XField (name : str) (hdrs : list (str * str))
| XFile (name filename : str) (hdrs : list (str * str))
| XData (d : bytes) (more : bool)
| XEpilogue (d : bytes).

Definition lit (n : nat) : bytes := nth n encoder_literals [].
(* the template  Content-Disposition: form-data; name="%s"  around the UTF-8 name *)
Definition fmt1 (template : bytes) (arg : bytes) : bytes :=
  match find_sub [PCT; 115] template with
  | Some (a, b) => a ++ arg ++ b
  | None => template
  end.
Definition content_disposition_lower : str :=
  [99; 111; 110; 116; 101; 110; 116; 45; 100; 105; 115; 112; 111; 115; 105; 116; 105; 111; 110].

Definition header_lines (hdrs : list (str * str)) : bytes :=
  flat_map (fun nv => if list_eqb (lower (fst nv)) content_disposition_lower then []
                      else utf8_encode (fst nv ++ [58; 32] ++ snd nv ++ [13; 10])) hdrs.

Definition part_head (B : bytes) (name : str) (filename : option str) (hdrs : list (str * str)) : bytes :=
  lit 0 ++ B ++ lit 1 ++ fmt1 (lit 2) (utf8_encode name)
  ++ (match filename with Some f => fmt1 (lit 3) (utf8_encode f) | None => [] end)
  ++ lit 4 ++ header_lines hdrs.

(* send_event: None models ValueError *)
Definition send_event (B : bytes) (s : estate) (ev : xevent) : option (bytes * estate) :=
  match ev, s with
  | XPreamble d, SPreamble => Some (d, SPart)
  | XField name hdrs, (SPreamble | SPart | SData) => Some (part_head B name None hdrs, SDataStart)
  | XFile name fn hdrs, (SPreamble | SPart | SData) => Some (part_head B name (Some fn) hdrs, SDataStart)
  | XData d more, SDataStart =>
    let s' := match d with [] => if more then SDataStart else SData | _ => SData end in
    match d with
    | [] => Some ([], s')
    | _ => Some (lit 6 ++ d, s')
    end
  | XData d more, SData => Some (d, SData)
  | XEpilogue d, _ => Some (lit 7 ++ B ++ lit 8 ++ d, SComplete)
  | _, _ => None
  end.

Fixpoint encode_from (B : bytes) (s : estate) (evs : list xevent) : option bytes :=
  match evs with
  | [] => Some []
  | ev :: r =>
    match send_event B s ev with
    | None => None
    | Some (out, s') => match encode_from B s' r with
                        | Some rest => Some (out ++ rest)
                        | None => None
                        end
    end
  end.
Definition encode (B : bytes) (evs : list xevent) : option bytes := encode_from B SPreamble evs.
