(* items: k=v|k=v with csv code points; events: P:hex / F:name;hdrs / L:name;filename;hdrs / D:hex:more / E:hex ; hdrs = n~v^n~v *)
let pairs_of s = if s = "~" then [] else List.map (fun kv -> match String.split_on_char '=' kv with
  | [k; v] -> (nlist_of_csv k, nlist_of_csv v) | _ -> failwith "pair") (String.split_on_char '|' s)
let pairs_str l = if l = [] then "~" else String.concat "|" (List.map (fun (k, v) -> csv_of_nlist k ^ "=" ^ csv_of_nlist v) l)
let hdrs_of s = if s = "~" then [] else List.map (fun nv -> match String.split_on_char '~' nv with
  | [n; v] -> (nlist_of_csv n, nlist_of_csv v) | _ -> failwith "hdr") (String.split_on_char '^' s)
let event_of tok =
  match String.split_on_char ';' tok with
  | ["P"; d] -> XPreamble (nlist_of_hex d)
  | ["F"; name; hdrs] -> XField (nlist_of_csv name, hdrs_of hdrs)
  | ["L"; name; fn; hdrs] -> XFile (nlist_of_csv name, nlist_of_csv fn, hdrs_of hdrs)
  | ["D"; d; more] -> XData (nlist_of_hex d, more = "1")
  | ["E"; d] -> XEpilogue (nlist_of_hex d)
  | _ -> failwith "event"
(* client items: T;key;value (csv) / L;key;filename-or-~;hdrs;hex:hex:...-or-~ *)
let item_of tok =
  match String.split_on_char ';' tok with
  | ["T"; k; v] -> CText (nlist_of_csv k, nlist_of_csv v)
  | ["L"; k; fn; hdrs; reads] ->
      CFile (nlist_of_csv k, (if fn = "~" then None else Some (nlist_of_csv fn)), hdrs_of hdrs,
             (if reads = "~" then [] else List.map nlist_of_hex (String.split_on_char ':' reads)))
  | _ -> failwith "item"
let () = iter_lines (fun line ->
  match fields line with
  | ["urlencode"; items] -> csv_of_nlist (urlencode (pairs_of items))
  | ["parse_qsl"; qs] -> pairs_str (parse_qsl (nlist_of_csv qs))
  | ["unquote"; s] -> csv_of_nlist (unquote (nlist_of_csv s))
  | "encode" :: b :: evs ->
      (match encode (nlist_of_hex b) (List.map event_of evs) with Some out -> "ok " ^ hex_of_nlist out | None -> "ValueError")
  | "senc" :: b :: items ->
      (match stream_encode (nlist_of_hex b) (List.map item_of items) with Some out -> "ok " ^ hex_of_nlist out | None -> "ValueError")
  | _ -> "bad-command")
