(* C02 property theorems (theorems only). *)
From Wz Require Import lib.Bytes lib.Utf8 C02.Gen C02.Model C02.Proofs C02.Encoder.
Open Scope N_scope.

(* URL-encoded forms and query strings round-trip for every list of Unicode pairs: repeated keys,
   empty keys, empty values, reserved characters, spaces, non-BMP *)
Theorem C02_urlencoded_roundtrip : forall items,
  forallb valid_pair items = true -> parse_qsl (urlencode items) = items.
Proof. exact urlencoded_roundtrip. Qed.
Print Assumptions C02_urlencoded_roundtrip.

(* the encoded text is pure ASCII (the test client's .encode("ascii") cannot fail) *)
Theorem C02_urlencode_ascii : forall items,
  forallb valid_pair items = true -> forallb (fun c => c <? 128) (urlencode items) = true.
Proof. exact urlencode_ascii. Qed.
Print Assumptions C02_urlencode_ascii.

(* one component: unquote(plus-to-space(quote_plus s)) = s *)
Theorem C02_unquote_quote_plus : forall s,
  valid_text s = true -> unquote (plus_to_space (quote_plus s)) = s.
Proof. exact unquote_quote_plus. Qed.
Print Assumptions C02_unquote_quote_plus.

(* the sans-io encoder's framing: for every list of parts and every fragmentation of their data
   into Data events (empty fragments included), the bytes written are the preamble, each part as
   CRLF--B CRLF headers [CRLF payload], then CRLF--B--CRLF and the epilogue *)
Theorem C02_encoder_framing : forall B pre parts epi,
  encode B (XPreamble pre :: flat_map events_of parts ++ [XEpilogue epi])
  = Some (pre ++ flat_map (part_text B) parts ++ lit 7 ++ B ++ lit 8 ++ epi).
Proof. exact encoder_framing. Qed.
Print Assumptions C02_encoder_framing.

(* byte templates of the encoder and the safe set of _urlencode are those of the source *)
Theorem C02_literals_pinned :
  list_eqb (lit 0) [13; 10; 45; 45] && list_eqb (lit 1) [13; 10] && list_eqb (lit 4) [13; 10]
  && list_eqb (lit 6) [13; 10] && list_eqb (lit 7) [13; 10; 45; 45] && list_eqb (lit 8) [45; 45; 13; 10]
  && list_eqb (lit 2) [67; 111; 110; 116; 101; 110; 116; 45; 68; 105; 115; 112; 111; 115; 105; 116; 105; 111; 110;
                       58; 32; 102; 111; 114; 109; 45; 100; 97; 116; 97; 59; 32; 110; 97; 109; 101; 61; 34; 37; 115; 34]
  && list_eqb (lit 3) [59; 32; 102; 105; 108; 101; 110; 97; 109; 101; 61; 34; 37; 115; 34]
  && list_eqb (lit 5) [102; 39; 123; 110; 97; 109; 101; 125; 58; 32; 123; 118; 97; 108; 117; 101; 125; 92; 114; 92; 110; 39]
  && list_eqb urlencode_safe_text [33; 36; 39; 40; 41; 42; 44; 47; 58; 59; 63; 64] = true.
Proof. exact encoder_literals_pinned. Qed.
Print Assumptions C02_literals_pinned.
