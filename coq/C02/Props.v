(* C02 property theorems (theorems only). *)
From Wz Require C06.LibPy C06.Model.
From Wz Require Import lib.Bytes lib.Utf8 C01.Model C01.Hold C01.Render C01.HeaderBlock C02.Gen C02.Model C02.Proofs C02.Encoder C02.Roundtrip C02.Identity C02.Client C02.ClientProofs.
Open Scope N_scope.

(* URL-encoded forms and query strings round-trip for every list of Unicode pairs: repeated keys,
   empty keys, empty values, reserved characters, spaces, non-BMP *)
Theorem C02_urlencoded_roundtrip : forall items,
  forallb valid_pair items = true -> parse_qsl (urlencode items) = items.
Proof. exact urlencoded_roundtrip. Qed.
Print Assumptions C02_urlencoded_roundtrip.

(* the encoded text is pure ASCII (the test client's .encode("ascii") cannot fail) *)
Theorem C02_urlencode_ascii : forall items,
  forallb valid_pair items = true -> forallb (fun c => c <? 128) (urlencode items) = true.
Proof. exact urlencode_ascii. Qed.
Print Assumptions C02_urlencode_ascii.

(* one component: unquote(plus-to-space(quote_plus s)) = s *)
Theorem C02_unquote_quote_plus : forall s,
  valid_text s = true -> unquote (plus_to_space (quote_plus s)) = s.
Proof. exact unquote_quote_plus. Qed.
Print Assumptions C02_unquote_quote_plus.

(* the sans-io encoder's framing: for every list of parts and every fragmentation of their data
   into Data events (empty fragments included), the bytes written are the preamble, each part as
   CRLF--B CRLF headers [CRLF payload], then CRLF--B--CRLF and the epilogue *)
Theorem C02_encoder_framing : forall B pre parts epi,
  encode B (XPreamble pre :: flat_map events_of parts ++ [XEpilogue epi])
  = Some (pre ++ flat_map (part_text B) parts ++ lit 7 ++ B ++ lit 8 ++ epi).
Proof. exact encoder_framing. Qed.
Print Assumptions C02_encoder_framing.

(* byte templates of the encoder and the safe set of _urlencode are those of the source *)
Theorem C02_literals_pinned :
  list_eqb (lit 0) [13; 10; 45; 45] && list_eqb (lit 1) [13; 10] && list_eqb (lit 4) [13; 10]
  && list_eqb (lit 6) [13; 10] && list_eqb (lit 7) [13; 10; 45; 45] && list_eqb (lit 8) [45; 45; 13; 10]
  && list_eqb (lit 2) [67; 111; 110; 116; 101; 110; 116; 45; 68; 105; 115; 112; 111; 115; 105; 116; 105; 111; 110;
                       58; 32; 102; 111; 114; 109; 45; 100; 97; 116; 97; 59; 32; 110; 97; 109; 101; 61; 34; 37; 115; 34]
  && list_eqb (lit 3) [59; 32; 102; 105; 108; 101; 110; 97; 109; 101; 61; 34; 37; 115; 34]
  && list_eqb (lit 5) [102; 39; 123; 110; 97; 109; 101; 125; 58; 32; 123; 118; 97; 108; 117; 101; 125; 92; 114; 92; 110; 39]
  && list_eqb urlencode_safe_text [33; 36; 39; 40; 41; 42; 44; 47; 58; 59; 63; 64] = true.
Proof. exact encoder_literals_pinned. Qed.
Print Assumptions C02_literals_pinned.

(* what the encoder writes is a rendered CRLF body in the sense of C01/Render.v *)
Theorem C02_encode_is_render : forall B pre parts epi,
  encode B (XPreamble pre :: flat_map events_of parts ++ [XEpilogue epi])
  = Some (render B LBcrlf (pre ++ CRLF) (map to_rpart parts) (CRLF ++ epi)).
Proof. exact encode_is_render. Qed.
Print Assumptions C02_encode_is_render.

(* the sans-io round trip: for every part list the boundary can carry (wf_body: no delimiter line
   inside a payload, header lines without line breaks, ...), every fragmentation of the data on the
   encoder side and EVERY chunking of the bytes on the decoder side, the decoder returns the parts
   that were encoded: payloads byte-exact, header blocks parsed identically *)
Theorem C02_sansio_roundtrip : forall B pre parts epi wire chunks,
  good_boundary B = true ->
  wf_body B LBcrlf (pre ++ CRLF) (map to_rpart parts) (CRLF ++ epi) = true ->
  encode B (XPreamble pre :: flat_map events_of parts ++ [XEpilogue epi]) = Some wire ->
  concat chunks = wire ->
  exists evs, drive no_limits B chunks = Ok evs /\
    Forall2 (fun a e => parse_headers (fst a) = parse_headers (fst e) /\ snd a = snd e)
            (parts_of evs) (map spec_of_part parts).
Proof. exact sansio_roundtrip. Qed.
Print Assumptions C02_sansio_roundtrip.

(* the hypotheses are satisfiable: a field with an empty fragment and a CRLF-rich payload, and a file *)
Example C02_roundtrip_example :
  let parts := [mkep [97] None [] [[]; [120; 13; 10; 45; 45]] [121];
                mkep [102] (Some [116; 46; 98]) [([67; 45; 84], [116; 47; 112])] [] []] in
  good_boundary [66; 110; 100] = true /\
  wf_body [66; 110; 100] LBcrlf ([] ++ CRLF) (map to_rpart parts) (CRLF ++ []) = true.
Proof. vm_compute. split; reflexivity. Qed.
Print Assumptions C02_roundtrip_example.

(* part identity: from the header block the encoder writes for a part, the decoder's header parser
   (model C01/HeaderBlock.v, compared with MultipartDecoder._parse_headers on every run) and the
   option-header parser (model C06/Model.v, compared with http.parse_options_header on every run)
   recover exactly form-data, name = the part's name and filename = its file name (or none), for
   every name / file name the header syntax can carry unescaped (any Unicode text without a double
   quote, a backslash, CR, LF or the literal %22; empty file names and names with blanks, ';', '='
   included).  Together with C02_sansio_roundtrip: kind, name, filename and payload of every part
   survive encode -> decode under every chunking. *)
Theorem C02_part_identity : forall p hs,
  part_names_ok p = true ->
  forallb clean_line (extra_lines (ep_hdrs p)) = true ->
  parse_lines (extra_lines (ep_hdrs p)) = Some hs ->
  parse_headers (hdr_block p) = Some ((t_cd, cd_value p) :: hs) /\
  C06.Model.parse_options_header (cd_value p) = C06.LibPy.Ok (t_form_data, cd_options p).
Proof. exact part_identity. Qed.
Print Assumptions C02_part_identity.

Example C02_part_identity_example :
  let p := mkep [102; 239; 101; 108; 100; 32; 8364] (Some [97; 32; 98; 59; 32; 99; 61; 100; 32; 233; 46; 116; 120; 116])
                [([67; 111; 110; 116; 101; 110; 116; 45; 84; 121; 112; 101], [116; 101; 120; 116; 47; 112; 108; 97; 105; 110])] [] [] in
  part_names_ok p = true /\ forallb clean_line (extra_lines (ep_hdrs p)) = true /\
  parse_lines (extra_lines (ep_hdrs p))
  = Some [([67; 111; 110; 116; 101; 110; 116; 45; 84; 121; 112; 101], [116; 101; 120; 116; 47; 112; 108; 97; 105; 110])].
Proof. exact part_identity_example. Qed.
Print Assumptions C02_part_identity_example.

(* ---- the test client / environ builder path (test.stream_encode_multipart, statements pinned by the
   translator; C02/Client.v is its event sequence: text values as one final Data event, file values
   as one Data event per chunk read() returned plus an empty final one) *)

(* the bytes it writes are a rendered CRLF body with empty preamble and epilogue *)
Theorem C02_client_wire : forall B items,
  stream_encode B items
  = Some (render B LBcrlf ([] ++ CRLF) (map to_rpart (map client_part items)) (CRLF ++ [])).
Proof. exact client_wire. Qed.
Print Assumptions C02_client_wire.

(* ... and depend on each item only through its header block and content: the number and sizes of
   the chunks the file objects handed out (short reads, the read size of the source) leave no trace *)
Theorem C02_client_wire_reads_irrelevant : forall B items items',
  map item_ident items = map item_ident items' -> stream_encode B items = stream_encode B items'.
Proof. exact client_wire_reads_irrelevant. Qed.
Print Assumptions C02_client_wire_reads_irrelevant.

(* round trip: for every item list the boundary can carry and EVERY chunking on the decoder side,
   the decoder returns one part per item, in order, with the item's header block (parsed) and its
   content byte for byte *)
Theorem C02_client_roundtrip : forall B items wire chunks,
  good_boundary B = true ->
  wf_body B LBcrlf ([] ++ CRLF) (map to_rpart (map client_part items)) (CRLF ++ []) = true ->
  stream_encode B items = Some wire ->
  concat chunks = wire ->
  exists evs, drive no_limits B chunks = Ok evs /\
    Forall2 (fun a it => parse_headers (fst a) = parse_headers (fst (item_ident it)) /\ snd a = item_content it)
            (parts_of evs) items.
Proof. exact client_roundtrip. Qed.
Print Assumptions C02_client_roundtrip.

Example C02_client_example :
  let items := [CText [97] [98; 233]; CFile [102] (Some [116; 46; 98]) [([67; 45; 84], [116; 47; 112])] [[120; 13]; [10; 45; 45]]] in
  let items' := [CText [97] [98; 233]; CFile [102] (Some [116; 46; 98]) [([67; 45; 84], [116; 47; 112])] [[120]; []; [13; 10; 45; 45]]] in
  good_boundary [66; 110; 100] = true /\
  wf_body [66; 110; 100] LBcrlf ([] ++ CRLF) (map to_rpart (map client_part items)) (CRLF ++ []) = true /\
  map item_ident items = map item_ident items' /\
  stream_encode [66; 110; 100] items = stream_encode [66; 110; 100] items'.
Proof. exact client_example. Qed.
Print Assumptions C02_client_example.
