From Coq Require Extraction ExtrOcamlBasic.
From Wz Require Import lib.Bytes lib.Utf8 lib.ExtractBase C02.Gen C02.Model C02.Client.
Extraction Language OCaml.
Extraction "C02/model_extracted.ml" force_types urlencode parse_qsl unquote quote_plus send_event encode stream_encode.
