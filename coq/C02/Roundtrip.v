(* C02: the sans-io round trip MultipartEncoder -> MultipartDecoder, for every chunking:
   composition of the encoder framing theorem (C02/Encoder.v) with C01's decode_render_chunked,
   and parsed-header identity through C01/HeaderBlock.v. *)
From Coq Require Import ZArith Lia.
From Wz Require Import lib.Bytes lib.BytesFacts lib.Utf8
  C01.Gen C01.Model C01.Strings C01.Hold C01.Inv C01.Chunks C01.Render C01.HeaderBlock
  C02.Gen C02.Model C02.Proofs C02.Encoder.
Open Scope N_scope.

Definition CRLF : bytes := [13; 10].

(* the header lines the encoder writes for a part, without line breaks *)
Definition cd_line (p : epart) : bytes :=
  fmt1 (lit 2) (utf8_encode (ep_name p))
  ++ match ep_filename p with Some f => fmt1 (lit 3) (utf8_encode f) | None => [] end.
Definition extra_lines (hdrs : list (str * str)) : list bytes :=
  flat_map (fun nv => if list_eqb (lower (fst nv)) content_disposition_lower then []
                      else [utf8_encode (fst nv ++ [58; 32] ++ snd nv)]) hdrs.

(* raw header block of the part as the decoder sees it: the lines joined by CRLF *)
Definition hdr_block (p : epart) : bytes :=
  cd_line p ++ flat_map (fun l => CRLF ++ l) (extra_lines (ep_hdrs p)).

Definition to_rpart (p : epart) : rpart :=
  mkrp (hdr_block p) (match payload p with [] => None | d => Some d end).

Lemma list_eqb_eq' a b : list_eqb a b = true -> a = b.
Proof.
  revert b. induction a as [|x a IH]; destruct b as [|y b]; cbn [list_eqb]; intro H;
    try discriminate; [reflexivity|].
  apply andb_prop in H. destruct H as [Hx Hab]. apply N.eqb_eq in Hx. subst y.
  f_equal. apply IH. exact Hab.
Qed.

Lemma lits :
  lit 0 = CRLF ++ [45; 45] /\ lit 1 = CRLF /\ lit 4 = CRLF /\ lit 6 = CRLF
  /\ lit 7 = CRLF ++ [45; 45] /\ lit 8 = [45; 45] ++ CRLF.
Proof.
  pose proof encoder_literals_pinned as H.
  repeat (apply andb_prop in H; destruct H as [H ?]).
  repeat match goal with Hx : list_eqb _ _ = true |- _ => apply list_eqb_eq' in Hx end.
  repeat split; assumption.
Qed.

Lemma utf8_encode_app_crlf a : utf8_encode (a ++ [13; 10]) = utf8_encode a ++ CRLF.
Proof. unfold utf8_encode. rewrite flat_map_app. reflexivity. Qed.

Lemma flat_map_flat_map (A C D : Type) (g : A -> list C) (h : C -> list D) l :
  flat_map h (flat_map g l) = flat_map (fun x => flat_map h (g x)) l.
Proof.
  induction l as [|x l IH]; [reflexivity|]. cbn [flat_map]. rewrite flat_map_app, IH. reflexivity.
Qed.

Lemma header_lines_as_lines hdrs :
  header_lines hdrs = flat_map (fun l => l ++ CRLF) (extra_lines hdrs).
Proof.
  unfold header_lines, extra_lines. rewrite flat_map_flat_map. apply flat_map_ext. intro nv.
  destruct (list_eqb (lower (fst nv)) content_disposition_lower); [reflexivity|].
  cbn [flat_map]. rewrite app_nil_r.
  replace (fst nv ++ [58; 32] ++ snd nv ++ [13; 10]) with ((fst nv ++ [58; 32] ++ snd nv) ++ [13; 10])
    by (repeat rewrite <- app_assoc; reflexivity).
  apply utf8_encode_app_crlf.
Qed.

Lemma lines_shift c ls :
  c ++ CRLF ++ flat_map (fun l => l ++ CRLF) ls = (c ++ flat_map (fun l => CRLF ++ l) ls) ++ CRLF.
Proof.
  revert c. induction ls as [|l r IH]; intro c; cbn [flat_map].
  - rewrite !app_nil_r. reflexivity.
  - replace (c ++ CRLF ++ (l ++ CRLF) ++ flat_map (fun l0 => l0 ++ CRLF) r)
      with ((c ++ CRLF ++ l) ++ CRLF ++ flat_map (fun l0 => l0 ++ CRLF) r)
      by (repeat rewrite <- app_assoc; reflexivity).
    rewrite IH. repeat rewrite <- app_assoc. reflexivity.
Qed.

(* one part: the encoder's text is C01's render_part of to_rpart *)
Lemma part_head_eq B p :
  part_head B (ep_name p) (ep_filename p) (ep_hdrs p) = CRLF ++ dd B ++ CRLF ++ hdr_block p ++ CRLF.
Proof.
  destruct lits as [L0 [L1 [L4 _]]].
  unfold part_head. rewrite L0, L1, L4, header_lines_as_lines.
  unfold hdr_block. rewrite <- lines_shift. unfold cd_line, dd, DASH, CRLF.
  cbn [app]. repeat rewrite <- app_assoc. reflexivity.
Qed.

Lemma part_text_render B p : part_text B p = render_part B LBcrlf (to_rpart p).
Proof.
  destruct lits as [_ [_ [_ [L6 _]]]].
  unfold part_text. rewrite part_head_eq.
  unfold render_part, to_rpart, Render.body_text, Encoder.body_text, lbs. cbn [r_hdr r_body].
  rewrite L6. unfold CRLF, CR, LF.
  destruct (payload p); cbn [app]; repeat (rewrite <- app_assoc || rewrite <- app_comm_cons || rewrite app_nil_r); reflexivity.
Qed.

Lemma parts_text_render B parts :
  flat_map (part_text B) parts = flat_map (render_part B LBcrlf) (map to_rpart parts).
Proof.
  induction parts as [|p r IH]; [reflexivity|]. cbn [flat_map map]. rewrite part_text_render, IH. reflexivity.
Qed.

(* what the encoder writes is a rendered body *)
Theorem encode_is_render B pre parts epi :
  encode B (XPreamble pre :: flat_map events_of parts ++ [XEpilogue epi])
  = Some (render B LBcrlf (pre ++ CRLF) (map to_rpart parts) (CRLF ++ epi)).
Proof.
  rewrite encoder_framing. destruct lits as [_ [_ [_ [_ [L7 L8]]]]]. rewrite L7, L8.
  change (pre ++ CRLF) with (pre ++ lbs LBcrlf).
  rewrite (render_flat B LBcrlf pre (map to_rpart parts) (CRLF ++ epi)).
  rewrite parts_text_render. unfold lbs, dd, CRLF, DASH, CR, LF. f_equal.
Qed.

Definition spec_of_part (p : epart) : bytes * bytes := (hdr_block p, payload p).

Lemma spec_part_to_rpart p : spec_part (to_rpart p) = spec_of_part p.
Proof. unfold spec_part, to_rpart, spec_of_part. cbn [r_hdr r_body]. destruct (payload p); reflexivity. Qed.

Lemma Forall2_weaken (A C : Type) (R1 R2 : A -> C -> Prop) l l' :
  (forall a b, R1 a b -> R2 a b) -> Forall2 R1 l l' -> Forall2 R2 l l'.
Proof. intros H F. induction F as [|a b l l' Hab _ IH]; constructor; [apply H; exact Hab|exact IH]. Qed.

(* the round trip: every chunking of the encoder's output decodes to the parts that were encoded,
   payloads byte-exact, header blocks parsed identically *)
Theorem sansio_roundtrip B pre parts epi wire chunks :
  good_boundary B = true ->
  wf_body B LBcrlf (pre ++ CRLF) (map to_rpart parts) (CRLF ++ epi) = true ->
  encode B (XPreamble pre :: flat_map events_of parts ++ [XEpilogue epi]) = Some wire ->
  concat chunks = wire ->
  exists evs, drive no_limits B chunks = Ok evs /\
    Forall2 (fun a e => parse_headers (fst a) = parse_headers (fst e) /\ snd a = snd e)
            (parts_of evs) (map spec_of_part parts).
Proof.
  intros HB Hwf Henc Hcat. rewrite encode_is_render in Henc. inversion Henc as [Hw]. rewrite <- Hw in Hcat.
  destruct (decode_render_chunked B LBcrlf (pre ++ CRLF) (map to_rpart parts) (CRLF ++ epi) chunks HB Hwf Hcat)
    as [evs [Hd Hf]].
  exists evs. split; [exact Hd|].
  rewrite map_map in Hf. rewrite (map_ext _ _ spec_part_to_rpart) in Hf.
  eapply Forall2_weaken; [|exact Hf]. intros a e [[H1|H1] H2]; (split; [|exact H2]).
  - rewrite H1. reflexivity.
  - rewrite H1. apply parse_headers_leading_lf.
Qed.
