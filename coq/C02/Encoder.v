(* C02: the encoder's framing does not depend on how a part's data is fragmented. *)
From Coq Require Import ZArith Lia.
From Wz Require Import lib.Bytes lib.BytesFacts lib.Utf8 C02.Gen C02.Model.
Open Scope N_scope.

(* a part as the caller sends it: head event, then its data in fragments (the last one final) *)
Record epart := mkep { ep_name : str; ep_filename : option str; ep_hdrs : list (str * str);
                       ep_frags : list bytes; ep_last : bytes }.

Definition head_event (p : epart) : xevent :=
  match ep_filename p with
  | Some f => XFile (ep_name p) f (ep_hdrs p)
  | None => XField (ep_name p) (ep_hdrs p)
  end.
Definition data_events (frags : list bytes) (last : bytes) : list xevent :=
  map (fun d => XData d true) frags ++ [XData last false].
Definition events_of (p : epart) : list xevent := head_event p :: data_events (ep_frags p) (ep_last p).
Definition payload (p : epart) : bytes := concat (ep_frags p) ++ ep_last p.

(* what the part looks like on the wire *)
Definition body_text (d : bytes) : bytes := match d with [] => [] | _ => lit 6 ++ d end.
Definition part_text (B : bytes) (p : epart) : bytes :=
  part_head B (ep_name p) (ep_filename p) (ep_hdrs p) ++ body_text (payload p).

(* the framing invariant: in every state, the text produced so far ends right where the next piece starts *)
Definition opt_app (a : bytes) (o : option bytes) : option bytes :=
  match o with Some r => Some (a ++ r) | None => None end.

Lemma encode_data_in_data B frags last rest :
  encode_from B SData (data_events frags last ++ rest)
  = opt_app (concat frags ++ last) (encode_from B SData rest).
Proof.
  unfold data_events. induction frags as [|d frags IH]; cbn [map app concat encode_from send_event].
  - destruct (encode_from B SData rest); cbn [opt_app]; reflexivity.
  - rewrite IH. destruct (encode_from B SData rest); cbn [opt_app]; [|reflexivity].
    cbn [app]; repeat (rewrite <- app_assoc || rewrite <- app_comm_cons); reflexivity.
Qed.

Lemma encode_data_in_start B frags last rest :
  encode_from B SDataStart (data_events frags last ++ rest)
  = opt_app (body_text (concat frags ++ last)) (encode_from B SData rest).
Proof.
  unfold data_events. induction frags as [|d frags IH].
  - cbn [map app concat encode_from send_event]. destruct last as [|l0 lr].
    + cbn [body_text app]. destruct (encode_from B SData rest); reflexivity.
    + cbn [body_text]. destruct (encode_from B SData rest); cbn [opt_app]; [|reflexivity].
      cbn [app]; repeat (rewrite <- app_assoc || rewrite <- app_comm_cons); reflexivity.
  - cbn [map app concat]. cbn [encode_from send_event]. destruct d as [|d0 dr].
    + (* an empty non-final fragment: stay in DATA_START, nothing written *)
      cbn [app]. rewrite IH. destruct (encode_from B SData rest); reflexivity.
    + fold (data_events frags last). change (map (fun d => XData d true) frags ++ [XData last false]) with (data_events frags last).
      rewrite encode_data_in_data.
      destruct (encode_from B SData rest); cbn [opt_app]; [|reflexivity].
      cbn [body_text app]; repeat (rewrite <- app_assoc || rewrite <- app_comm_cons); reflexivity.
Qed.

Lemma encode_part B s p rest :
  s = SPreamble \/ s = SPart \/ s = SData ->
  encode_from B s (events_of p ++ rest) = opt_app (part_text B p) (encode_from B SData rest).
Proof.
  intro Hs. unfold events_of, part_text, payload. cbn [app encode_from].
  assert (Hh : send_event B s (head_event p)
               = Some (part_head B (ep_name p) (ep_filename p) (ep_hdrs p), SDataStart)).
  { unfold head_event. destruct (ep_filename p); destruct Hs as [Hs|[Hs|Hs]]; subst s; reflexivity. }
  rewrite Hh. rewrite encode_data_in_start.
  destruct (encode_from B SData rest); cbn [opt_app]; [|reflexivity].
  cbn [app]; repeat (rewrite <- app_assoc || rewrite <- app_comm_cons); reflexivity.
Qed.

Lemma encode_parts B s parts epi :
  s = SPart \/ s = SData ->
  encode_from B s (flat_map events_of parts ++ [XEpilogue epi])
  = Some (flat_map (part_text B) parts ++ lit 7 ++ B ++ lit 8 ++ epi).
Proof.
  revert s. induction parts as [|p parts IH]; intros s Hs.
  - cbn [flat_map app encode_from]. destruct Hs as [Hs|Hs]; subst s; cbn [send_event]; rewrite app_nil_r; reflexivity.
  - cbn [flat_map]. rewrite <- app_assoc. rewrite encode_part by tauto.
    rewrite IH by tauto. cbn [opt_app]. rewrite <- app_assoc. reflexivity.
Qed.

(* the framing theorem: for every list of parts and EVERY fragmentation of their data *)
Theorem encoder_framing B pre parts epi :
  encode B (XPreamble pre :: flat_map events_of parts ++ [XEpilogue epi])
  = Some (pre ++ flat_map (part_text B) parts ++ lit 7 ++ B ++ lit 8 ++ epi).
Proof.
  unfold encode. cbn [encode_from send_event]. rewrite encode_parts by tauto. reflexivity.
Qed.

(* the literals the model indexes are those of the source *)
Lemma encoder_literals_pinned :
  list_eqb (lit 0) [13; 10; 45; 45] && list_eqb (lit 1) [13; 10] && list_eqb (lit 4) [13; 10]
  && list_eqb (lit 6) [13; 10] && list_eqb (lit 7) [13; 10; 45; 45] && list_eqb (lit 8) [45; 45; 13; 10]
  && list_eqb (lit 2) [67; 111; 110; 116; 101; 110; 116; 45; 68; 105; 115; 112; 111; 115; 105; 116; 105; 111; 110;
                       58; 32; 102; 111; 114; 109; 45; 100; 97; 116; 97; 59; 32; 110; 97; 109; 101; 61; 34; 37; 115; 34]
  && list_eqb (lit 3) [59; 32; 102; 105; 108; 101; 110; 97; 109; 101; 61; 34; 37; 115; 34]
  && list_eqb (lit 5) [102; 39; 123; 110; 97; 109; 101; 125; 58; 32; 123; 118; 97; 108; 117; 101; 125; 92; 114; 92; 110; 39]
  && list_eqb urlencode_safe_text [33; 36; 39; 40; 41; 42; 44; 47; 58; 59; 63; 64] = true.
Proof. vm_compute. reflexivity. Qed.

Example framing_example :
  encode [66] (XPreamble [] :: events_of (mkep [97] None [] [[]; [120]] [121]) ++ [XEpilogue []])
  = encode [66] (XPreamble [] :: events_of (mkep [97] None [] [] [120; 121]) ++ [XEpilogue []]).
Proof. vm_compute. reflexivity. Qed.
