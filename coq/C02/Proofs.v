(* C02 proofs: the urlencoded round trip. *)
From Coq Require Import ZArith Lia ZifyBool ZifyN.
From Wz Require Import lib.Bytes lib.BytesFacts lib.Utf8 lib.Utf8Facts C02.Gen C02.Model.
Open Scope N_scope.
Ltac Zify.zify_post_hook ::= Z.to_euclidean_division_equations.

Lemma dec_requote_enc1 c rest :
  valid_cp c = true ->
  utf8_decode_requote (enc1 c ++ rest) = c :: utf8_decode_requote rest.
Proof.
  intro Hv. unfold valid_cp in Hv. unfold enc1.
  destruct (c <? 128) eqn:H1.
  { cbn [app utf8_decode_requote]. rewrite H1. reflexivity. }
  destruct (c <? 2048) eqn:H2.
  { cbn [app utf8_decode_requote].
    replace (192 + c / 64 <? 128) with false by lia.
    replace (192 + c / 64 <? 194) with false by lia.
    replace (192 + c / 64 <? 224) with true by lia.
    unfold is_cont.
    replace ((128 <=? 128 + c mod 64) && (128 + c mod 64 <? 192)) with true by lia.
    replace ((192 + c / 64 - 192) * 64 + (128 + c mod 64 - 128)) with c by lia.
    reflexivity. }
  destruct (c <? 65536) eqn:H3.
  { cbn [app utf8_decode_requote].
    replace (224 + c / 4096 <? 128) with false by lia.
    replace (224 + c / 4096 <? 194) with false by lia.
    replace (224 + c / 4096 <? 224) with false by lia.
    replace (224 + c / 4096 <? 240) with true by lia.
    assert (Hs : second_ok (224 + c / 4096) (128 + (c / 64) mod 64) = true).
    { unfold second_ok, is_cont.
      destruct (224 + c / 4096 =? 224) eqn:E1; [lia|].
      destruct (224 + c / 4096 =? 237) eqn:E2; [lia|].
      destruct (224 + c / 4096 =? 240) eqn:E3; [lia|].
      destruct (224 + c / 4096 =? 244) eqn:E4; lia. }
    rewrite Hs. unfold is_cont.
    replace ((128 <=? 128 + c mod 64) && (128 + c mod 64 <? 192)) with true by lia.
    replace ((224 + c / 4096 - 224) * 4096 + (128 + (c / 64) mod 64 - 128) * 64
             + (128 + c mod 64 - 128)) with c by lia.
    reflexivity. }
  cbn [app utf8_decode_requote].
  replace (240 + c / 262144 <? 128) with false by lia.
  replace (240 + c / 262144 <? 194) with false by lia.
  replace (240 + c / 262144 <? 224) with false by lia.
  replace (240 + c / 262144 <? 240) with false by lia.
  replace (240 + c / 262144 <? 245) with true by lia.
  assert (Hs : second_ok (240 + c / 262144) (128 + (c / 4096) mod 64) = true).
  { unfold second_ok, is_cont.
    destruct (240 + c / 262144 =? 224) eqn:E1; [lia|].
    destruct (240 + c / 262144 =? 237) eqn:E2; [lia|].
    destruct (240 + c / 262144 =? 240) eqn:E3; [lia|].
    destruct (240 + c / 262144 =? 244) eqn:E4; lia. }
  rewrite Hs. unfold is_cont.
  replace ((128 <=? 128 + (c / 64) mod 64) && (128 + (c / 64) mod 64 <? 192)) with true by lia.
  replace ((128 <=? 128 + c mod 64) && (128 + c mod 64 <? 192)) with true by lia.
  replace ((240 + c / 262144 - 240) * 262144 + (128 + (c / 4096) mod 64 - 128) * 4096
           + (128 + (c / 64) mod 64 - 128) * 64 + (128 + c mod 64 - 128)) with c by lia.
  reflexivity.
Qed.

Theorem utf8_decode_requote_encode s :
  valid_text s = true -> utf8_decode_requote (utf8_encode s) = s.
Proof.
  unfold valid_text, utf8_encode.
  induction s as [|c s IH]; intro H; [reflexivity|].
  cbn [forallb] in H. apply andb_prop in H. destruct H as [Hc Hs].
  cbn [flat_map]. rewrite dec_requote_enc1 by exact Hc. rewrite IH by exact Hs. reflexivity.
Qed.

Lemma utf8_decode_requote_ascii s : forallb (fun c => c <? 128) s = true -> utf8_decode_requote s = s.
Proof.
  induction s as [|c s IH]; cbn [forallb utf8_decode_requote]; intro H; [reflexivity|].
  apply andb_prop in H. destruct H as [Hc Hs]. rewrite Hc, IH by exact Hs. reflexivity.
Qed.

(* ---- table sweep (re-proved against the regenerated pass-through table) *)
Definition pass_good (b : N) : bool :=
  negb (b =? PCT) && negb (b =? PLUS) && negb (b =? AMP) && negb (b =? EQS) && negb (b =? SPC) && (b <? 128).
Lemma pass_sweep :
  forallb (fun b => implb (in_ranges b urlencode_pass) (pass_good b)) all_bytes = true.
Proof. vm_compute. reflexivity. Qed.
Lemma pass_bound : forallb (fun r => snd r <? 256) urlencode_pass = true.
Proof. vm_compute. reflexivity. Qed.

Lemma pass_facts b : in_ranges b urlencode_pass = true -> pass_good b = true.
Proof.
  intro H. pose proof (in_ranges_bound _ 256 b pass_bound H) as Hb.
  pose proof (sweep256 _ pass_sweep b Hb) as Hs. cbv beta in Hs. rewrite H in Hs. exact Hs.
Qed.

Lemma hexchar_facts n : n < 16 ->
  is_hex (hexchar n) = true /\ hex_val (hexchar n) = n /\ hexchar n < 128 /\
  hexchar n <> PCT /\ hexchar n <> PLUS /\ hexchar n <> AMP /\ hexchar n <> EQS.
Proof.
  intro H. unfold hexchar, is_hex, hex_val, is_digit, PCT, PLUS, AMP, EQS.
  destruct (n <? 10) eqn:E.
  - replace ((48 <=? 48 + n) && (48 + n <=? 57)) with true by lia. cbn [orb]. lia.
  - replace ((48 <=? 55 + n) && (55 + n <=? 57)) with false by lia.
    replace ((65 <=? 55 + n) && (55 + n <=? 70)) with true by lia. cbn [orb]. lia.
Qed.

(* the three shapes of a quoted byte *)
Lemma qp_byte_cases b : b < 256 ->
  (b = SPC /\ qp_byte b = [PLUS])
  \/ (pass_good b = true /\ qp_byte b = [b])
  \/ (qp_byte b = [PCT; hexchar (b / 16); hexchar (b mod 16)] /\ b / 16 < 16 /\ b mod 16 < 16).
Proof.
  intro Hb. unfold qp_byte. destruct (b =? SPC) eqn:E1; [left; split; [lia|reflexivity]|].
  destruct (in_ranges b urlencode_pass) eqn:E2.
  - right; left. split; [apply pass_facts; exact E2|reflexivity].
  - right; right. unfold pct_escape. split; [reflexivity|]. lia.
Qed.

Lemma plus_to_space_app a b : plus_to_space (a ++ b) = plus_to_space a ++ plus_to_space b.
Proof. unfold plus_to_space. apply map_app. Qed.

Lemma unquote_qp_byte b X : b < 256 ->
  unquote_impl (plus_to_space (qp_byte b) ++ X) = b :: unquote_impl X.
Proof.
  intro Hb. destruct (qp_byte_cases b Hb) as [[-> ->]|[[Hg ->]|[-> [H1 H2]]]].
  - cbn. reflexivity.
  - unfold pass_good in Hg. unfold plus_to_space. cbn [map app].
    replace (b =? PLUS) with false by lia. cbn [unquote_impl].
    replace (b =? PCT) with false by lia. reflexivity.
  - destruct (hexchar_facts _ H1) as [A1 [A2 [A3 [A4 [A5 _]]]]].
    destruct (hexchar_facts _ H2) as [B1 [B2 [B3 [B4 [B5 _]]]]].
    unfold plus_to_space. cbn [map app].
    replace (PCT =? PLUS) with false by reflexivity.
    replace (hexchar (b / 16) =? PLUS) with false by lia.
    replace (hexchar (b mod 16) =? PLUS) with false by lia.
    cbn [unquote_impl]. rewrite N.eqb_refl, A1, B1. cbn [andb]. rewrite A2, B2.
    f_equal. lia.
Qed.

Lemma unquote_quoted bs : Forall (fun b => b < 256) bs ->
  unquote_impl (plus_to_space (flat_map qp_byte bs)) = bs.
Proof.
  induction 1 as [|b bs Hb _ IH]; [reflexivity|].
  cbn [flat_map]. rewrite plus_to_space_app, unquote_qp_byte by exact Hb. rewrite IH. reflexivity.
Qed.

(* every character of a quoted string is ASCII and is none of & = ; + appears only for space *)
Definition quoted_char (c : N) : bool := (c <? 128) && negb (c =? AMP) && negb (c =? EQS).
Lemma qp_byte_chars b : b < 256 -> forallb quoted_char (qp_byte b) = true.
Proof.
  intro Hb. destruct (qp_byte_cases b Hb) as [[-> ->]|[[Hg ->]|[-> [H1 H2]]]].
  - reflexivity.
  - unfold pass_good in Hg. unfold quoted_char. cbn [forallb]. lia.
  - destruct (hexchar_facts _ H1) as [_ [_ [A3 [_ [_ [A6 A7]]]]]].
    destruct (hexchar_facts _ H2) as [_ [_ [B3 [_ [_ [B6 B7]]]]]].
    unfold quoted_char, PCT, AMP, EQS in *. cbn [forallb]. lia.
Qed.

Lemma utf8_bytes_256 v : valid_text v = true -> Forall (fun b => b < 256) (utf8_encode v).
Proof. intro H. apply Forall_forall. intros b Hb. eapply utf8_encode_bytes; eassumption. Qed.

Lemma quote_plus_chars s : valid_text s = true -> forallb quoted_char (quote_plus s) = true.
Proof.
  intro Hv. unfold quote_plus. apply forallb_flat_map. intros c Hc. apply qp_byte_chars.
  eapply utf8_encode_bytes; eassumption.
Qed.

Lemma unq_runs_ascii s run :
  forallb (fun c => c <? 128) s = true -> unq_runs s run = flush (run ++ s).
Proof.
  revert run. induction s as [|c s IH]; intros run H; cbn [unq_runs].
  - rewrite app_nil_r. reflexivity.
  - cbn [forallb] in H. apply andb_prop in H. destruct H as [Hc Hs]. rewrite Hc.
    rewrite IH by exact Hs. rewrite <- app_assoc. reflexivity.
Qed.

Lemma unquote_impl_no_pct b : mem PCT b = false -> unquote_impl b = b.
Proof.
  unfold mem. induction b as [|c r IH]; cbn [existsb unquote_impl]; intro H; [reflexivity|].
  apply orb_false_iff in H. destruct H as [Hc Hr].
  replace (c =? PCT) with false by (rewrite N.eqb_sym; symmetry; exact Hc).
  rewrite IH by exact Hr. reflexivity.
Qed.

Lemma plus_to_space_ascii s :
  forallb (fun c => c <? 128) s = true -> forallb (fun c => c <? 128) (plus_to_space s) = true.
Proof.
  unfold plus_to_space. induction s as [|c s IH]; cbn [map forallb]; intro H; [reflexivity|].
  apply andb_prop in H. destruct H as [Hc Hs]. rewrite IH by exact Hs.
  destruct (c =? PLUS); [reflexivity|]. rewrite Hc. reflexivity.
Qed.

Theorem unquote_quote_plus s :
  valid_text s = true -> unquote (plus_to_space (quote_plus s)) = s.
Proof.
  intro Hv.
  assert (Hq : forallb (fun c => c <? 128) (plus_to_space (quote_plus s)) = true).
  { apply plus_to_space_ascii. eapply forallb_impl; [|apply quote_plus_chars; exact Hv].
    intros c Hc. unfold quoted_char in Hc. lia. }
  assert (Hu : unquote_impl (plus_to_space (quote_plus s)) = utf8_encode s).
  { unfold quote_plus. apply unquote_quoted. apply utf8_bytes_256. exact Hv. }
  unfold unquote. destruct (mem PCT (plus_to_space (quote_plus s))) eqn:Em.
  - rewrite unq_runs_ascii by exact Hq. cbn [app]. unfold flush. rewrite Hu.
    apply utf8_decode_requote_encode. exact Hv.
  - (* no escape at all: the quoted text is the UTF-8 text, and it is ASCII *)
    rewrite (unquote_impl_no_pct _ Em) in Hu.
    rewrite Hu in *. rewrite <- (utf8_decode_requote_encode s Hv) at 2.
    symmetry. apply utf8_decode_requote_ascii. exact Hq.
Qed.

(* ---- splitting *)
Lemma split_on_no_sep sep s cur :
  forallb (fun c => negb (c =? sep)) s = true -> split_on sep s cur = [cur ++ s].
Proof.
  revert cur. induction s as [|c s IH]; intros cur H; cbn [split_on].
  - rewrite app_nil_r. reflexivity.
  - cbn [forallb] in H. apply andb_prop in H. destruct H as [Hc Hs].
    destruct (c =? sep); [discriminate|]. rewrite IH by exact Hs. rewrite <- app_assoc. reflexivity.
Qed.

Lemma split_on_app sep a b cur :
  forallb (fun c => negb (c =? sep)) a = true ->
  split_on sep (a ++ sep :: b) cur = (cur ++ a) :: split_on sep b [].
Proof.
  revert cur. induction a as [|c a IH]; intros cur H; cbn [app split_on].
  - rewrite N.eqb_refl, app_nil_r. reflexivity.
  - cbn [forallb] in H. apply andb_prop in H. destruct H as [Hc Ha].
    destruct (c =? sep); [discriminate|]. rewrite IH by exact Ha. rewrite <- app_assoc. reflexivity.
Qed.

Lemma split_join fields :
  fields <> [] -> Forall (fun f => forallb (fun c => negb (c =? AMP)) f = true) fields ->
  split_on AMP (join_amp fields) [] = fields.
Proof.
  induction fields as [|f r IH]; intros Hne Hall; [congruence|].
  inversion Hall as [|? ? Hf Hr]; subst. destruct r as [|g r'].
  - cbn [join_amp]. rewrite split_on_no_sep by exact Hf. reflexivity.
  - change (join_amp (f :: g :: r')) with (f ++ AMP :: join_amp (g :: r')).
    rewrite split_on_app by exact Hf. cbn [app]. f_equal. apply IH; [discriminate|exact Hr].
Qed.

Definition field_of (kv : str * str) : str := quote_plus (fst kv) ++ EQS :: quote_plus (snd kv).

Lemma field_no_amp kv :
  valid_text (fst kv) = true -> valid_text (snd kv) = true ->
  forallb (fun c => negb (c =? AMP)) (field_of kv) = true.
Proof.
  intros Hk Hv. unfold field_of. rewrite forallb_app. cbn [forallb].
  replace (negb (EQS =? AMP)) with true by reflexivity. cbn [andb].
  rewrite andb_true_iff. split.
  - eapply forallb_impl; [|apply quote_plus_chars; exact Hk]. intros c Hc. unfold quoted_char in Hc. lia.
  - eapply forallb_impl; [|apply quote_plus_chars; exact Hv]. intros c Hc. unfold quoted_char in Hc. lia.
Qed.

Lemma parse_field_of kv :
  valid_text (fst kv) = true -> valid_text (snd kv) = true -> parse_field (field_of kv) = kv.
Proof.
  intros Hk Hv. unfold parse_field, field_of.
  rewrite partition1_app_stop.
  2:{ eapply forallb_impl; [|apply quote_plus_chars; exact Hk]. intros c Hc. unfold quoted_char in Hc.
      rewrite N.eqb_sym. lia. }
  rewrite !unquote_quote_plus by assumption. destruct kv; reflexivity.
Qed.

Definition valid_pair (kv : str * str) : bool := valid_text (fst kv) && valid_text (snd kv).

Theorem urlencoded_roundtrip items :
  forallb valid_pair items = true -> parse_qsl (urlencode items) = items.
Proof.
  intro H. destruct items as [|kv0 rest]; [reflexivity|].
  set (fields := map field_of (kv0 :: rest)).
  assert (Hall : Forall (fun f => forallb (fun c => negb (c =? AMP)) f = true) fields).
  { unfold fields. apply Forall_forall. intros f Hf. apply in_map_iff in Hf. destruct Hf as [kv [<- Hin]].
    rewrite forallb_forall in H. specialize (H kv Hin). unfold valid_pair in H. apply andb_prop in H.
    apply field_no_amp; tauto. }
  assert (Hne : fields <> []) by (unfold fields; discriminate).
  unfold parse_qsl.
  replace (urlencode (kv0 :: rest)) with (join_amp fields) by reflexivity.
  destruct (join_amp fields) as [|j0 jr] eqn:Ej.
  { (* a joined non-empty list of fields, each containing '=', is not empty *)
    exfalso. unfold fields in Ej. cbn [map join_amp] in Ej.
    destruct (map field_of rest); unfold field_of in Ej; destruct (quote_plus (fst kv0)); discriminate. }
  rewrite <- Ej. rewrite split_join by assumption.
  assert (Hfilter : filter (fun f : list N => match f with [] => false | _ => true end) fields = fields).
  { unfold fields. clear. induction (kv0 :: rest) as [|kv l IH]; [reflexivity|]. cbn [map filter].
    unfold field_of at 1. destruct (quote_plus (fst kv)); cbn [app]; rewrite IH; reflexivity. }
  rewrite Hfilter. unfold fields. rewrite map_map.
  rewrite <- (map_id (kv0 :: rest)) at 2. apply map_ext_in. intros kv Hin.
  rewrite forallb_forall in H. specialize (H kv Hin). unfold valid_pair in H. apply andb_prop in H.
  apply parse_field_of; tauto.
Qed.

(* the urlencoded text is pure ASCII: the test client's .encode("ascii") cannot fail *)
Theorem urlencode_ascii items :
  forallb valid_pair items = true -> forallb (fun c => c <? 128) (urlencode items) = true.
Proof.
  intro H. unfold urlencode. induction items as [|kv r IH]; [reflexivity|].
  cbn [forallb] in H. apply andb_prop in H. destruct H as [Hkv Hr]. unfold valid_pair in Hkv.
  apply andb_prop in Hkv. destruct Hkv as [Hk Hv].
  assert (Hf : forallb (fun c => c <? 128) (quote_plus (fst kv) ++ EQS :: quote_plus (snd kv)) = true).
  { rewrite forallb_app. cbn [forallb]. replace (EQS <? 128) with true by reflexivity. cbn [andb].
    rewrite andb_true_iff. split; (eapply forallb_impl; [|apply quote_plus_chars; eassumption]);
      intros c Hc; unfold quoted_char in Hc; lia. }
  cbn [map]. destruct r as [|kv' r'].
  - cbn [map join_amp]. exact Hf.
  - change (join_amp (?x :: map ?f (kv' :: r'))) with (x ++ AMP :: join_amp (map f (kv' :: r'))).
    cbn [map]. change (join_amp (?a :: ?b :: ?c)) with (a ++ AMP :: join_amp (b :: c)).
    rewrite forallb_app. rewrite Hf. cbn [forallb andb]. replace (AMP <? 128) with true by reflexivity.
    apply (IH Hr).
Qed.

Example roundtrip_example :
  parse_qsl (urlencode [([107; 61; 38], [32; 8364; 43; 37]); ([], []); ([107; 61; 38], [128512])])
  = [([107; 61; 38], [32; 8364; 43; 37]); ([], []); ([107; 61; 38], [128512])].
Proof. vm_compute. reflexivity. Qed.
