(* C02: model of test.stream_encode_multipart (the test client / EnvironBuilder path): the event
   sequence it feeds to MultipartEncoder.  Definitions only.
   A text value is one Field event and one final Data event with its UTF-8 bytes; a file value is a
   File event (a Field event when it has no file name) carrying its header list - the FileStorage
   headers after Content-Type was set, an input of the model - followed by one non-final Data event
   per chunk its read() returned and a final empty Data event. *)
From Wz Require Import lib.Bytes lib.Utf8 C02.Gen C02.Model.
Open Scope N_scope.

Inductive citem :=
| CText (key value : str)
| CFile (key : str) (filename : option str) (hdrs : list (str * str)) (reads : list bytes).

Definition item_events (it : citem) : list xevent :=
  match it with
  | CText k v => [XField k []; XData (utf8_encode v) false]
  | CFile k fn h reads =>
      (match fn with Some f => XFile k f h | None => XField k h end)
      :: map (fun d => XData d true) reads ++ [XData [] false]
  end.

Definition client_events (items : list citem) : list xevent :=
  XPreamble [] :: flat_map item_events items ++ [XEpilogue []].

(* the bytes stream_encode_multipart writes for boundary B (None: the encoder raised ValueError) *)
Definition stream_encode (B : bytes) (items : list citem) : option bytes := encode B (client_events items).

(* what an item is, apart from how its content was read *)
Definition item_content (it : citem) : bytes :=
  match it with CText _ v => utf8_encode v | CFile _ _ _ reads => concat reads end.
