(* C16: types shared by the generated definitions (C16/Gen.v) and the model.  Definitions only. *)
From Coq Require Import ZArith.
From Wz Require Import lib.Bytes C08.LibStr.
Open Scope N_scope.

(* what an on_update callback does to the header *)
Inductive cb_action := CbDel | CbSet | CbNone.

(* cache_control_property(key, empty, type): type is bool / int / None (a str) *)
Inductive cctype := TBool | TInt | TStr.
(* a value assigned to a typed cache-control property *)
Inductive ccval := CVNone | CVTrue | CVFalse | CVInt (z : Z) | CVStr (s : str).
(* what _set_cache_value does *)
Inductive ccaction := CSetNone | CPop | CStore.

Definition cct_is_bool (t : cctype) : bool := match t with TBool => true | _ => false end.
Definition ccv_is_none (v : ccval) : bool := match v with CVNone => true | _ => false end.
Definition ccv_is_true (v : ccval) : bool := match v with CVTrue => true | _ => false end.
Definition ccv_is_false (v : ccval) : bool := match v with CVFalse => true | _ => false end.
(* Python truthiness *)
Definition ccv_truthy (v : ccval) : bool :=
  match v with
  | CVNone | CVFalse => false
  | CVTrue => true
  | CVInt z => negb (Z.eqb z 0)
  | CVStr s => match s with [] => false | _ => true end
  end.

(* the load / dump pair of a header_property *)
Inductive hcodec :=
| CStr       (* no load / dump: the header text itself *)
| CInt       (* int / str *)
| CAge       (* parse_age / dump_age: non-negative seconds *)
| CSet       (* parse_set_header / dump_header *)
| CDate      (* parse_date / http_date: over the date contract *)
| CEnum.     (* an enum constructor / its value: not modelled *)
