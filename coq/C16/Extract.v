From Coq Require Extraction ExtrOcamlBasic.
From Wz Require Import lib.Bytes lib.ExtractBase C08.LibStr C08.Gen C08.Model C16.Base C16.Gen C16.Model.
Extraction Language OCaml.
Extraction "C16/model_extracted.ml" force_types sv_parse sv_obs sv_run cc_parse ccr_obs ccr_run csp_parse_h cspr_obs cspr_run
  parse_list_header parse_dict_header dump_list dump_dict parse_dec parse_csp dump_csp int_prop_get
  cr_read crr_obs crr_after_obs crr_run parse_content_range
  wa_read war_obs war_run wa_to_header wa_assign_list mp_step mp_obs hp_set hp_get hp_del hp_text.
