(* C16 proofs, part 5: WWW-Authenticate codec on its domain, and the attribute routing table. *)
From Coq Require Import ZArith Lia ZifyBool ZifyN.
From Wz Require Import lib.Bytes lib.BytesFacts C08.LibStr C08.LibStrFacts C08.Gen C08.Model C08.Spec C08.Proofs
  C16.Base C16.Gen C16.Model C16.ProofsCodec C16.Proofs.
Open Scope N_scope.

(* scheme names in normal form: lower-case letters, digits and hyphen *)
Definition ty_char (c : N) : bool := is_lower c || is_digit c || (c =? 45).
Definition ty_ok (ty : str) : bool := nonempty ty && forallb ty_char ty.

Lemma title_go_props (b : bool) s : forallb ty_char s = true ->
  lower (title_go b s) = s /\ forallb (fun c => negb (SP =? c)) (title_go b s) = true.
Proof.
  revert b. induction s as [|c s IH]; intros b H; [split; reflexivity|].
  cbn [forallb] in H. apply andb_prop in H. destruct H as [Hc Hs]. cbn [title_go]. destruct (IH (is_alpha c) Hs) as [A B].
  unfold lower in *. cbn [map forallb]. rewrite A, B. split.
  - f_equal. unfold ty_char, is_lower, is_digit in Hc. unfold is_alpha, is_upper, is_lower, ascii_lower, ascii_upper, is_upper, is_lower.
    destruct b; repeat match goal with |- context [if ?x then _ else _] => destruct x eqn:? end; lia.
  - rewrite andb_true_r. apply negb_true_iff. apply N.eqb_neq.
    unfold ty_char, is_lower, is_digit in Hc. unfold is_alpha, is_upper, is_lower, ascii_lower, ascii_upper, is_upper, is_lower, SP.
    destruct b; repeat match goal with |- context [if ?x then _ else _] => destruct x eqn:? end; lia.
Qed.

(* a token: non-empty, no surrounding white space, no equals sign other than trailing ones *)
Definition wtoken_ok (t : str) : bool :=
  match t with
  | [] => false
  | a :: r => negb (uni_ws a) && negb (uni_ws (last r a)) && negb (mem EQ (rstrip (fun c => c =? EQ) t))
  end.

Lemma wtoken_strip t : wtoken_ok t = true -> strip uni_ws t = t.
Proof.
  unfold wtoken_ok. destruct t as [|a r]; [discriminate|]. intro H. apply andb_prop in H. destruct H as [H _].
  apply andb_prop in H. destruct H as [Wa Wz]. apply negb_true_iff in Wa. apply negb_true_iff in Wz.
  destruct r as [|b r'] eqn:Er.
  - apply (strip_keep [a] a a [] (or_intror (conj eq_refl eq_refl)) Wa Wa).
  - assert (Hne : r <> []) by (subst; discriminate). rewrite <- Er in *.
    destruct (exists_last Hne) as [m [z Ez]]. rewrite Ez in Wz. rewrite last_last in Wz. rewrite Ez.
    apply (strip_keep (a :: m ++ [z]) a z m (or_introl eq_refl) Wa Wz).
Qed.

Theorem wa_token_roundtrip ty t :
  ty_ok ty = true -> wtoken_ok t = true ->
  wa_from_header (Some (wa_to_header {| wa_type := ty; wa_params := []; wa_token := Some t |}))
  = Some (Some {| wa_type := ty; wa_params := []; wa_token := Some t |}).
Proof.
  intros Hty Ht. unfold ty_ok in Hty. apply andb_prop in Hty. destruct Hty as [Hn Hc].
  destruct (title_go_props false ty Hc) as [L P]. fold (title ty) in L, P.
  unfold wa_to_header. cbn [wa_token wa_type]. unfold wa_from_header.
  destruct (title ty ++ [SP] ++ t) as [|x y] eqn:E.
  { destruct ty; [discriminate|]. unfold title in E. cbn [title_go app] in E. discriminate. }
  rewrite <- E. change (title ty ++ [SP] ++ t) with (title ty ++ SP :: t). rewrite (partition1_app_stop SP (title ty) t P).
  rewrite (wtoken_strip t Ht). unfold wtoken_ok in Ht. destruct t as [|a r]; [discriminate|].
  apply andb_prop in Ht. destruct Ht as [_ Hm]. apply negb_true_iff in Hm. rewrite Hm. rewrite L. reflexivity.
Qed.

(* the public attribute names with setters are routed to them, not to the parameter dict (regenerated table) *)
Theorem wa_routing :
  forallb (fun n => smem n wa_direct_attrs)
    [[116; 121; 112; 101]; [116; 111; 107; 101; 110]; [112; 97; 114; 97; 109; 101; 116; 101; 114; 115]] = true.
Proof. vm_compute. reflexivity. Qed.

(* assigning the token / the scheme / the parameter dict changes exactly that, and notifies *)
Theorem wa_setters w :
  (forall t, wa_step w (WASetToken t) = ({| wa_type := wa_type w; wa_params := wa_params w; wa_token := t |}, Ok ONone, true)) /\
  (forall s, wa_step w (WASetType s) = ({| wa_type := s; wa_params := wa_params w; wa_token := wa_token w |}, Ok ONone, true)) /\
  (forall d, wa_step w (WASetParams d) = ({| wa_type := wa_type w; wa_params := d; wa_token := wa_token w |}, Ok ONone, true)).
Proof. repeat split. Qed.

(* after a notifying step the header is the serialisation of the view *)
Theorem wa_step_serial h w o :
  snd (wa_step w o) = true -> has_newline (wa_to_header (fst (fst (wa_step w o)))) = false ->
  hd_get_key (fst (fst (war_step (h, w) o))) WWW_AUTH = Some (wa_to_header (fst (fst (wa_step w o)))) /\
  snd (fst (war_step (h, w) o)) = fst (fst (wa_step w o)).
Proof.
  intros F N. cbn [war_step]. destruct (wa_step w o) as [[w' r] fired]. cbn [fst snd] in *. subst fired.
  unfold hd_set, str_header_value. rewrite N. cbn [fst snd]. split; [|reflexivity].
  apply hd_get_after_set. apply ci_eqb_refl.
Qed.

(* ================================================================== parameter schemes: the forced-quote dict round trip *)
(* an item key=value whose value is quoted with allow_token chosen per key (Digest: realm, domain, nonce, opaque, qop
   are always quoted) *)
Definition qitem (q : str -> bool) (kv : str * str) : str := fst kv ++ [EQ] ++ quote_header_value (q (fst kv)) (snd kv).
Definition raw_q (b : bool) (v : str) : str := if b then raw v else DQ :: v ++ [DQ].
Definition raw_qitem (q : str -> bool) (kv : str * str) : str := fst kv ++ [EQ] ++ raw_q (q (fst kv)) (snd kv).
Definition pdom (d : list (str * str)) : Prop := NoDup (map fst d) /\ Forall (fun kv => key_ok (fst kv) = true) d.

Lemma phl_item_q b v r res part :
  phl_go (quote_header_value b v ++ r) res part false false = phl_go r res (part ++ raw_q b v) false false.
Proof.
  destruct b; [apply phl_item|]. unfold raw_q, quote_header_value. cbn [andb]. destruct v as [|c v].
  - change ([DQ; DQ] ++ r) with (DQ :: escape_q [] ++ DQ :: r). rewrite phl_quoted. reflexivity.
  - change ((DQ :: escape_q (c :: v) ++ [DQ]) ++ r) with (DQ :: (escape_q (c :: v) ++ [DQ]) ++ r).
    rewrite <- app_assoc. cbn [app]. apply phl_quoted.
Qed.

Lemma raw_q_ends b v : exists a z m, (raw_q b v = a :: m ++ [z] \/ (raw_q b v = [a] /\ z = a)) /\ uni_ws a = false /\ uni_ws z = false.
Proof.
  destruct b; [apply raw_ends|]. exists DQ, DQ, v. split; [left; reflexivity|split; reflexivity].
Qed.

Lemma strip_outer_quotes_raw_q b v : strip_outer_quotes (raw_q b v) = v.
Proof.
  destruct b; [apply strip_outer_quotes_raw|]. unfold raw_q, strip_outer_quotes. rewrite N.eqb_refl.
  rewrite rev_app_distr. cbn [rev app]. rewrite N.eqb_refl. apply rev_involutive.
Qed.

Lemma phl_qitem q kv r res part :
  key_ok (fst kv) = true ->
  phl_go (qitem q kv ++ r) res part false false = phl_go r res (part ++ raw_qitem q kv) false false.
Proof.
  destruct kv as [k v]. unfold key_ok, qitem, raw_qitem. cbn [fst snd]. intro H.
  apply andb_prop in H. destruct H as [H _]. apply andb_prop in H. destruct H as [_ Ht].
  rewrite <- !app_assoc. rewrite (phl_plain k) by (apply token_plain; exact Ht).
  cbn [app phl_go]. change (EQ =? COMMA) with false. change (EQ =? DQ) with false. cbv iota.
  rewrite phl_item_q. rewrite <- !app_assoc. reflexivity.
Qed.

Lemma raw_qitem_nonempty q kv : key_ok (fst kv) = true -> raw_qitem q kv <> [].
Proof.
  intro H. destruct (key_first _ H) as (c & r & E & _). unfold raw_qitem. rewrite E. discriminate.
Qed.

Fixpoint expect_q (q : str -> bool) (part : str) (l : list (str * str)) : list str :=
  match l with
  | [] => []
  | [kv] => [part ++ raw_qitem q kv]
  | kv :: l' => (part ++ raw_qitem q kv) :: expect_q q [SP] l'
  end.

Lemma phl_join_q q : forall l res part, l <> [] -> Forall (fun kv => key_ok (fst kv) = true) l ->
  phl_go (join COMMA_SP (map (qitem q) l)) res part false false = res ++ expect_q q part l.
Proof.
  induction l as [|kv l IH]; intros res part Hne HF; [contradiction|]. inversion HF as [|? ? Hk Hl]; subst.
  destruct l as [|w l].
  - cbn [map join expect_q]. rewrite <- (app_nil_r (qitem q kv)), phl_qitem by exact Hk. cbn [phl_go].
    destruct (part ++ raw_qitem q kv) eqn:E; [|reflexivity].
    apply app_eq_nil in E. destruct E as [_ E]. exfalso. apply (raw_qitem_nonempty q kv Hk). exact E.
  - change (join COMMA_SP (map (qitem q) (kv :: w :: l))) with (qitem q kv ++ COMMA_SP ++ join COMMA_SP (map (qitem q) (w :: l))).
    rewrite phl_qitem by exact Hk. unfold COMMA_SP at 1. cbn [app phl_go]. change (44 =? COMMA) with true. cbv iota.
    change (32 =? COMMA) with false. change (32 =? DQ) with false. cbv iota. cbn [app].
    rewrite IH by (try discriminate; exact Hl). rewrite <- app_assoc. reflexivity.
Qed.

Lemma raw_qitem_shape q kv : key_ok (fst kv) = true ->
  exists c z m, raw_qitem q kv = c :: m ++ [z] /\ is_token_char c = true /\ uni_ws z = false /\ (z =? EQ) = false.
Proof.
  intro Hk. destruct (key_first _ Hk) as (c & r & Ek & Hc & Hr). destruct kv as [k v]. cbn [fst snd] in *. subst k.
  unfold raw_qitem. cbn [fst snd]. destruct (raw_q_ends (q (c :: r)) v) as (a & z & m & E & _ & Wz).
  assert (Zq : (z =? EQ) = false).
  { unfold raw_q in E. destruct (q (c :: r)).
    - unfold raw in E. destruct v as [|x v'].
      + destruct E as [E|[E _]]; [|discriminate]. destruct m as [|? [|? ?]]; inversion E; subst; reflexivity.
      + destruct (forallb is_token_char (x :: v')) eqn:T.
        * assert (Hz : In z (x :: v')).
          { destruct E as [E|[E Ez]]; [rewrite E; right; apply in_or_app; right; left; reflexivity|rewrite E; subst; left; reflexivity]. }
          rewrite forallb_forall in T. destruct (token_char_facts z (T z Hz)) as (_ & _ & Q & _). exact Q.
        * destruct E as [E|[E _]]; [|discriminate]. injection E as Ea Em.
          change ((x :: v') ++ [DQ] = m ++ [z]) in Em.
          assert (z = DQ) by (apply app_inj_tail in Em; symmetry; apply Em). subst z. reflexivity.
    - destruct E as [E|[E _]]; [|destruct v; discriminate]. injection E as Ea Em.
      assert (z = DQ) by (apply app_inj_tail in Em; symmetry; apply Em). subst z. reflexivity. }
  exists c, z. destruct E as [E|[E Ez]].
  - exists (r ++ [EQ] ++ a :: m). rewrite E. cbn [app]. split; [f_equal; rewrite <- !app_assoc; reflexivity|]. repeat split; assumption.
  - exists (r ++ [EQ]). rewrite E. subst z. cbn [app]. split; [f_equal; rewrite <- !app_assoc; reflexivity|]. repeat split; assumption.
Qed.

Lemma strip_raw_qitem q kv : key_ok (fst kv) = true ->
  strip uni_ws (raw_qitem q kv) = raw_qitem q kv /\ strip uni_ws (SP :: raw_qitem q kv) = raw_qitem q kv /\
  strip_outer_quotes (raw_qitem q kv) = raw_qitem q kv.
Proof.
  intro Hk. destruct (raw_qitem_shape q kv Hk) as (c & z & m & E & Hc & Wz & _).
  destruct (token_char_facts c Hc) as (_ & B & _ & Wc & _).
  destruct (strip_keep (raw_qitem q kv) c z m (or_introl E) Wc Wz) as [S1 S2].
  split; [exact S1|]. split; [exact S2|]. rewrite E. unfold strip_outer_quotes. rewrite B. reflexivity.
Qed.

Lemma map_strip_expect_q q l : forall part, (part = [] \/ part = [SP]) ->
  Forall (fun kv => key_ok (fst kv) = true) l ->
  map strip_outer_quotes (map (strip uni_ws) (expect_q q part l)) = map (raw_qitem q) l.
Proof.
  induction l as [|kv l IH]; intros part Hp HF; [reflexivity|]. inversion HF as [|? ? Hk Hl]; subst.
  destruct (strip_raw_qitem q kv Hk) as (S1 & S2 & S3).
  assert (Hs : strip uni_ws (part ++ raw_qitem q kv) = raw_qitem q kv) by (destruct Hp; subst part; cbn [app]; assumption).
  destruct l as [|w l].
  - cbn [expect_q map]. rewrite Hs, S3. reflexivity.
  - change (expect_q q part (kv :: w :: l)) with ((part ++ raw_qitem q kv) :: expect_q q [SP] (w :: l)).
    cbn [map]. rewrite Hs, S3. f_equal. apply (IH [SP]); [right; reflexivity|exact Hl].
Qed.

Lemma pd_go_qitems q l : forall acc,
  Forall (fun kv => key_ok (fst kv) = true) l -> NoDup (map fst (acc ++ map (fun kv => (fst kv, Some (snd kv))) l)) ->
  pd_go (map (raw_qitem q) l) acc = Some (acc ++ map (fun kv => (fst kv, Some (snd kv))) l).
Proof.
  induction l as [|[k v] l IH]; intros acc HF HN; cbn [map pd_go]; [rewrite app_nil_r; reflexivity|].
  inversion HF as [|? ? Hk Hl]; subst. cbn [fst snd] in *.
  pose proof Hk as Hk2. unfold key_ok in Hk2. apply andb_prop in Hk2. destruct Hk2 as [Hk2 Hstar].
  apply andb_prop in Hk2. destruct Hk2 as [Hne Htok]. apply negb_true_iff in Hstar.
  assert (Hfresh : ~ In k (map fst acc)).
  { rewrite map_app in HN. cbn [map fst] in HN. apply NoDup_remove_2 in HN. intro A. apply HN. apply in_or_app. left. exact A. }
  unfold raw_qitem at 1. cbn [fst snd app]. rewrite (partition1_token k (raw_q (q k) v) Htok), (strip_token k Htok).
  destruct k as [|c k']; [discriminate|]. rewrite Hstar.
  destruct (raw_q_ends (q (c :: k')) v) as (a & z & m & E & Wa & Wz).
  rewrite (proj1 (strip_keep _ a z m E Wa Wz)), strip_outer_quotes_raw_q, ad_set_fresh by exact Hfresh.
  match goal with |- pd_go _ ?a = _ => rewrite (IH a Hl) by (rewrite <- app_assoc; exact HN) end.
  rewrite <- app_assoc. reflexivity.
Qed.

Theorem qdict_roundtrip q d : pdom d -> d <> [] ->
  parse_dict_header (join COMMA_SP (map (qitem q) d)) = Some (map (fun kv => (fst kv, Some (snd kv))) d).
Proof.
  intros [HN HF] Hne. unfold parse_dict_header, parse_list_header, parse_http_list.
  rewrite phl_join_q by assumption. cbn [app]. rewrite (map_strip_expect_q q d []) by (try (left; reflexivity); exact HF).
  apply (pd_go_qitems q d []); [exact HF|]. cbn [app]. rewrite map_map. cbn [fst]. exact HN.
Qed.

(* ------------------------------------------------------------------ parameter schemes re-read equal *)
Definition wa_q (ty : str) : str -> bool :=
  if list_eqb ty DIGEST then (fun k => negb (smem k wa_digest_quoted)) else (fun _ => true).
Definition some_params (d : list (str * str)) : cdict := map (fun kv => (fst kv, Some (snd kv))) d.

Lemma quote_shape b v : exists z m, quote_header_value b v = m ++ [z] /\ uni_ws z = false /\ (z =? EQ) = false.
Proof.
  unfold quote_header_value. destruct v as [|c v]; [exists DQ, [DQ]; repeat split|].
  destruct (b && forallb is_token_char (c :: v)) eqn:E.
  - apply andb_prop in E. destruct E as [_ T]. destruct (exists_last (l := c :: v) ltac:(discriminate)) as [m [z Ez]].
    exists z, m. split; [exact Ez|]. rewrite Ez, forallb_app in T. apply andb_prop in T. destruct T as [_ T]. cbn [forallb] in T.
    apply andb_prop in T. destruct T as [T _]. destruct (token_char_facts z T) as (_ & _ & Q & W & _). split; assumption.
  - exists DQ, (DQ :: escape_q (c :: v)). repeat split.
Qed.

Lemma qitem_shape q kv : key_ok (fst kv) = true ->
  exists c z m, qitem q kv = c :: m ++ [z] /\ uni_ws c = false /\ uni_ws z = false /\ (z =? EQ) = false /\ In EQ (qitem q kv).
Proof.
  intro Hk. destruct (key_first _ Hk) as (c & r & Ek & Hc & _). destruct (token_char_facts c Hc) as (_ & _ & _ & Wc & _).
  destruct kv as [k v]. cbn [fst snd] in *. subst k. unfold qitem. cbn [fst snd].
  destruct (quote_shape (q (c :: r)) v) as (z & m & E & Wz & Zq). rewrite E.
  exists c, z, (r ++ [EQ] ++ m). split; [cbn [app]; f_equal; rewrite <- !app_assoc; reflexivity|]. repeat split; try assumption.
  apply in_or_app. right. left. reflexivity.
Qed.

Lemma join_shape (l : list str) :
  l <> [] -> (forall x, In x l -> exists c z m, x = c :: m ++ [z] /\ uni_ws c = false /\ uni_ws z = false /\ (z =? EQ) = false /\ In EQ x) ->
  exists c z m, join COMMA_SP l = c :: m ++ [z] /\ uni_ws c = false /\ uni_ws z = false /\ (z =? EQ) = false /\ In EQ (join COMMA_SP l).
Proof.
  induction l as [|x l IH]; intros Hne H; [contradiction|].
  destruct (H x (or_introl eq_refl)) as (c & z & m & Ex & Wc & Wz & Zq & Ie).
  destruct l as [|y l].
  - cbn [join]. exists c, z, m. repeat split; assumption.
  - destruct (IH ltac:(discriminate) (fun a Ha => H a (or_intror Ha))) as (c2 & z2 & m2 & E2 & _ & Wz2 & Zq2 & _).
    change (join COMMA_SP (x :: y :: l)) with (x ++ COMMA_SP ++ join COMMA_SP (y :: l)). rewrite E2, Ex.
    exists c, z2, (m ++ [z] ++ COMMA_SP ++ c2 :: m2). split; [cbn [app]; f_equal; rewrite <- !app_assoc; reflexivity|].
    repeat split; try assumption. rewrite <- Ex. apply in_or_app. left. exact Ie.
Qed.

Lemma wa_header_text ty d : ty_ok ty = true -> pdom d ->
  wa_to_header {| wa_type := ty; wa_params := some_params d; wa_token := None |}
  = title ty ++ SP :: join COMMA_SP (map (qitem (wa_q ty)) d).
Proof.
  intros _ [_ HF]. unfold wa_to_header, wa_q. cbn [wa_token wa_type wa_params]. destruct (list_eqb ty DIGEST) eqn:E.
  - apply list_eqb_eq in E. subst ty. change (title DIGEST) with [68; 105; 103; 101; 115; 116]. cbn [app]. do 7 f_equal.
    unfold some_params. rewrite map_map. reflexivity.
  - change (title ty ++ [SP] ++ dump_dict (some_params d)) with (title ty ++ SP :: dump_dict (some_params d)). do 2 f_equal.
    unfold dump_dict, some_params. rewrite map_map. f_equal. apply map_ext_in. intros [k v] Hin.
    rewrite Forall_forall in HF. specialize (HF _ Hin). cbn [fst] in HF. unfold key_ok in HF. apply andb_prop in HF. destruct HF as [_ Hs].
    apply negb_true_iff in Hs. unfold dump_dict_item, qitem. cbn [fst snd]. rewrite Hs. reflexivity.
Qed.

Theorem wa_params_roundtrip ty d :
  ty_ok ty = true -> pdom d -> d <> [] ->
  wa_from_header (Some (wa_to_header {| wa_type := ty; wa_params := some_params d; wa_token := None |}))
  = Some (Some {| wa_type := ty; wa_params := some_params d; wa_token := None |}).
Proof.
  intros Hty Hd Hne. rewrite (wa_header_text ty d Hty Hd).
  pose proof Hty as Hty2. unfold ty_ok in Hty2. apply andb_prop in Hty2. destruct Hty2 as [Hn Hc].
  destruct (title_go_props false ty Hc) as [L P]. fold (title ty) in L, P.
  set (text := join COMMA_SP (map (qitem (wa_q ty)) d)).
  destruct (join_shape (map (qitem (wa_q ty)) d)) as (c & z & m & Et & Wc & Wz & Zq & Ie).
  { destruct d; [contradiction|discriminate]. }
  { intros x Hx. apply in_map_iff in Hx. destruct Hx as [kv [Ex Hkv]]. subst x. apply qitem_shape.
    destruct Hd as [_ HF]. rewrite Forall_forall in HF. apply HF. exact Hkv. }
  fold text in Et, Ie. unfold wa_from_header.
  destruct (title ty ++ SP :: text) as [|x y] eqn:E0.
  { destruct ty; [discriminate|]. unfold title in E0. cbn [title_go app] in E0. discriminate. }
  rewrite <- E0. rewrite (partition1_app_stop SP (title ty) text P).
  assert (Hs : strip uni_ws text = text) by (rewrite Et; apply (strip_keep _ c z m (or_introl eq_refl) Wc Wz)).
  rewrite Hs.
  assert (Hr : rstrip (fun c0 => c0 =? EQ) text = text).
  { rewrite Et. change (c :: m ++ [z]) with ((c :: m) ++ [z]). apply rstrip_last. exact Zq. }
  rewrite Hr.
  assert (Hm : mem EQ text = true).
  { unfold mem. apply existsb_exists. exists EQ. split; [exact Ie|apply N.eqb_refl]. }
  rewrite Hm. unfold text. rewrite (qdict_roundtrip (wa_q ty) d Hd Hne), L. reflexivity.
Qed.
