(* C16 proofs, part 5: WWW-Authenticate codec on its domain, and the attribute routing table. *)
From Coq Require Import ZArith Lia ZifyBool ZifyN.
From Wz Require Import lib.Bytes lib.BytesFacts C08.LibStr C08.LibStrFacts C08.Gen C08.Model C08.Spec C08.Proofs
  C16.Base C16.Gen C16.Model C16.ProofsCodec C16.Proofs.
Open Scope N_scope.

(* scheme names in normal form: lower-case letters, digits and hyphen *)
Definition ty_char (c : N) : bool := is_lower c || is_digit c || (c =? 45).
Definition ty_ok (ty : str) : bool := nonempty ty && forallb ty_char ty.

Lemma title_go_props (b : bool) s : forallb ty_char s = true ->
  lower (title_go b s) = s /\ forallb (fun c => negb (SP =? c)) (title_go b s) = true.
Proof.
  revert b. induction s as [|c s IH]; intros b H; [split; reflexivity|].
  cbn [forallb] in H. apply andb_prop in H. destruct H as [Hc Hs]. cbn [title_go]. destruct (IH (is_alpha c) Hs) as [A B].
  unfold lower in *. cbn [map forallb]. rewrite A, B. split.
  - f_equal. unfold ty_char, is_lower, is_digit in Hc. unfold is_alpha, is_upper, is_lower, ascii_lower, ascii_upper, is_upper, is_lower.
    destruct b; repeat match goal with |- context [if ?x then _ else _] => destruct x eqn:? end; lia.
  - rewrite andb_true_r. apply negb_true_iff. apply N.eqb_neq.
    unfold ty_char, is_lower, is_digit in Hc. unfold is_alpha, is_upper, is_lower, ascii_lower, ascii_upper, is_upper, is_lower, SP.
    destruct b; repeat match goal with |- context [if ?x then _ else _] => destruct x eqn:? end; lia.
Qed.

(* a token: non-empty, no surrounding white space, no equals sign other than trailing ones *)
Definition wtoken_ok (t : str) : bool :=
  match t with
  | [] => false
  | a :: r => negb (uni_ws a) && negb (uni_ws (last r a)) && negb (mem EQ (rstrip (fun c => c =? EQ) t))
  end.

Lemma wtoken_strip t : wtoken_ok t = true -> strip uni_ws t = t.
Proof.
  unfold wtoken_ok. destruct t as [|a r]; [discriminate|]. intro H. apply andb_prop in H. destruct H as [H _].
  apply andb_prop in H. destruct H as [Wa Wz]. apply negb_true_iff in Wa. apply negb_true_iff in Wz.
  destruct r as [|b r'] eqn:Er.
  - apply (strip_keep [a] a a [] (or_intror (conj eq_refl eq_refl)) Wa Wa).
  - assert (Hne : r <> []) by (subst; discriminate). rewrite <- Er in *.
    destruct (exists_last Hne) as [m [z Ez]]. rewrite Ez in Wz. rewrite last_last in Wz. rewrite Ez.
    apply (strip_keep (a :: m ++ [z]) a z m (or_introl eq_refl) Wa Wz).
Qed.

Theorem wa_token_roundtrip ty t :
  ty_ok ty = true -> wtoken_ok t = true ->
  wa_from_header (Some (wa_to_header {| wa_type := ty; wa_params := []; wa_token := Some t |}))
  = Some (Some {| wa_type := ty; wa_params := []; wa_token := Some t |}).
Proof.
  intros Hty Ht. unfold ty_ok in Hty. apply andb_prop in Hty. destruct Hty as [Hn Hc].
  destruct (title_go_props false ty Hc) as [L P]. fold (title ty) in L, P.
  unfold wa_to_header. cbn [wa_token wa_type]. unfold wa_from_header.
  destruct (title ty ++ [SP] ++ t) as [|x y] eqn:E.
  { destruct ty; [discriminate|]. unfold title in E. cbn [title_go app] in E. discriminate. }
  rewrite <- E. change (title ty ++ [SP] ++ t) with (title ty ++ SP :: t). rewrite (partition1_app_stop SP (title ty) t P).
  rewrite (wtoken_strip t Ht). unfold wtoken_ok in Ht. destruct t as [|a r]; [discriminate|].
  apply andb_prop in Ht. destruct Ht as [_ Hm]. apply negb_true_iff in Hm. rewrite Hm. rewrite L. reflexivity.
Qed.

(* the public attribute names with setters are routed to them, not to the parameter dict (regenerated table) *)
Theorem wa_routing :
  forallb (fun n => smem n wa_direct_attrs)
    [[116; 121; 112; 101]; [116; 111; 107; 101; 110]; [112; 97; 114; 97; 109; 101; 116; 101; 114; 115]] = true.
Proof. vm_compute. reflexivity. Qed.

(* assigning the token / the scheme / the parameter dict changes exactly that, and notifies *)
Theorem wa_setters w :
  (forall t, wa_step w (WASetToken t) = ({| wa_type := wa_type w; wa_params := wa_params w; wa_token := t |}, Ok ONone, true)) /\
  (forall s, wa_step w (WASetType s) = ({| wa_type := s; wa_params := wa_params w; wa_token := wa_token w |}, Ok ONone, true)) /\
  (forall d, wa_step w (WASetParams d) = ({| wa_type := wa_type w; wa_params := d; wa_token := wa_token w |}, Ok ONone, true)).
Proof. repeat split. Qed.

(* after a notifying step the header is the serialisation of the view *)
Theorem wa_step_serial h w o :
  snd (wa_step w o) = true -> has_newline (wa_to_header (fst (fst (wa_step w o)))) = false ->
  hd_get_key (fst (fst (war_step (h, w) o))) WWW_AUTH = Some (wa_to_header (fst (fst (wa_step w o)))) /\
  snd (fst (war_step (h, w) o)) = fst (fst (wa_step w o)).
Proof.
  intros F N. cbn [war_step]. destruct (wa_step w o) as [[w' r] fired]. cbn [fst snd] in *. subst fired.
  unfold hd_set, str_header_value. rewrite N. cbn [fst snd]. split; [|reflexivity].
  apply hd_get_after_set. apply ci_eqb_refl.
Qed.
