(* C16 property theorems.  Statements only, each closed by exact <lemma>, Print Assumptions beneath.
   Models: C16/Model.v (on C08/Model.v); generated decisions and tables: C16/Gen.v, C08/Gen.v. *)
From Coq Require Import ZArith.
From Wz Require Import lib.Bytes C08.LibStr C08.Gen C08.Model C08.Spec C08.Proofs
  C16.Base C16.Gen C16.Model C16.ProofsCodec C16.Proofs C16.ProofsCSP C16.ProofsCR C16.ProofsWA C16.ProofsMisc.
Open Scope N_scope.

(* ---------------------------------------------------------------- the codecs the views are written and read with *)
Theorem C16_list_roundtrip : forall l, parse_list_header (dump_list l) = l.
Proof. exact list_roundtrip. Qed.
Print Assumptions C16_list_roundtrip.

(* keys: non-empty tokens not ending in an asterisk, pairwise distinct; values: absent or any string *)
Theorem C16_dict_roundtrip : forall d, cc_dom d -> parse_dict_header (dump_dict d) = Some d.
Proof. exact dict_roundtrip. Qed.
Print Assumptions C16_dict_roundtrip.

Example C16_dict_roundtrip_example :
  let d := [([109; 97; 120; 45; 97; 103; 101], Some [51; 54; 48; 48]); ([112; 114; 105; 118; 97; 116; 101], None);
            ([120], Some [97; 44; 32; 34; 98; 92])] in
  cc_dom d /\ parse_dict_header (dump_dict d) = Some d.
Proof.
  split; [|vm_compute; reflexivity]. split.
  - repeat constructor; cbn [In]; intros H; repeat (destruct H as [H|H]; try discriminate); exact H.
  - repeat constructor.
Qed.
Print Assumptions C16_dict_roundtrip_example.

(* ---------------------------------------------------------------- vary / allow / content_language *)
(* one operation on the live view: unless the header store refuses the serialisation (an item with CR or LF),
   re-reading the property gives an equal view; if the operation notified, the header text is the view's
   serialisation (absent when the view is empty); if it did not, nothing changed *)
Theorem C16_coherent_set_view_step : forall name h v op,
  sv_coh name (h, v) -> setitem_ok (abs v) op = true ->
  snd (sv_step name (h, v) (SVOp op)) = Err ValueError \/
  (sv_coh name (fst (sv_step name (h, v) (SVOp op))) /\
   (snd (hs_step v op) = true -> sv_serial name (fst (sv_step name (h, v) (SVOp op)))) /\
   (snd (hs_step v op) = false -> fst (sv_step name (h, v) (SVOp op)) = (h, v))).
Proof. exact sv_step_coherent. Qed.
Print Assumptions C16_coherent_set_view_step.

(* every sequence of view operations, from any response whose header parses to a duplicate-free set *)
Theorem C16_coherent_set_view_partial : forall name h ops st',
  RI (sv_parse h name) -> sv_ops_ok name (h, sv_parse h name) ops = true ->
  sv_exec name (h, sv_parse h name) ops = Some st' ->
  sv_coh name st' /\ (sv_serial name st' \/ st' = (h, sv_parse h name)).
Proof.
  intros name h ops st' HRI Hok He. apply (sv_seq_coherent name ops (h, sv_parse h name) st'); [|exact Hok|exact He].
  split; [exact HRI|split; [reflexivity|intro x; reflexivity]].
Qed.
Print Assumptions C16_coherent_set_view_partial.

Example C16_coherent_set_view_example :
  let name := [86; 97; 114; 121] in
  let h := [(name, [97; 44; 98]); ([88], [49])] in
  let ops := [HAdd [65; 99; 99; 101; 112; 116]; HRemove [65]; HUpdate [[66]; [120; 32; 121]]; HDiscard [98]] in
  sv_ops_ok name (h, sv_parse h name) ops = true /\
  option_map (fun st => hd_get_key (fst st) name) (sv_exec name (h, sv_parse h name) ops)
    = Some (Some [65; 99; 99; 101; 112; 116; 44; 32; 34; 120; 32; 121; 34]).
Proof. vm_compute. split; reflexivity. Qed.
Print Assumptions C16_coherent_set_view_example.

(* the unguarded statement is false: a header text with two items equal up to case drifts on remove *)
Theorem C16_coherent_set_view_refuted :
  exists name h op,
    let st' := fst (sv_step name (h, sv_parse h name) (SVOp op)) in
    hs_headers (sv_parse (fst st') name) <> hs_headers (snd st').
Proof.
  exists [86; 97; 114; 121], [([86; 97; 114; 121], [97; 44; 32; 65])], (HRemove [97]). vm_compute. discriminate.
Qed.
Print Assumptions C16_coherent_set_view_refuted.

(* response.vary = [items] *)
Theorem C16_set_view_assign : forall name h v l,
  l <> [] -> has_newline (dump_list l) = false ->
  let st' := fst (sv_step name (h, v) (SVAssignList l)) in
  hd_get_key (fst st') name = Some (dump_list l) /\ hs_headers (snd st') = l /\ (ci_nodup l -> RI (snd st')).
Proof. exact sv_assign_list. Qed.
Print Assumptions C16_set_view_assign.

(* ---------------------------------------------------------------- cache_control *)
Theorem C16_coherent_cache_control_step : forall h d o,
  cc_coh (h, d) -> ccop_ok o = true ->
  let d' := fst (fst (cc_step d o)) in
  has_newline (dump_dict d') = true \/
  (cc_coh (fst (ccr_step (h, d) o)) /\
   (snd (cc_step d o) = true -> cc_serial (fst (ccr_step (h, d) o))) /\
   (snd (cc_step d o) = false -> fst (ccr_step (h, d) o) = (h, d))).
Proof. exact cc_step_coherent. Qed.
Print Assumptions C16_coherent_cache_control_step.

Theorem C16_coherent_cache_control : forall ops st st',
  cc_coh st -> forallb ccop_ok ops = true -> cc_exec st ops = Some st' ->
  cc_coh st' /\ (cc_serial st' \/ st' = st).
Proof. exact cc_seq_coherent. Qed.
Print Assumptions C16_coherent_cache_control.

Example C16_coherent_cache_control_example :
  let ops := [CCSetAttr [109; 97; 120; 95; 97; 103; 101] (CVInt 3600%Z); CCSetAttr [112; 114; 105; 118; 97; 116; 101] CVTrue;
              CCDict (DSetItem [120] (Some [97; 32; 98])); CCSetAttr [109; 97; 120; 95; 97; 103; 101] CVNone] in
  forallb ccop_ok ops = true /\
  option_map (fun st => hd_get_key (fst st) cache_control_lc) (cc_exec ([], []) ops)
    = Some (Some [112; 114; 105; 118; 97; 116; 101; 44; 32; 120; 61; 34; 97; 32; 98; 34]).
Proof. vm_compute. split; reflexivity. Qed.
Print Assumptions C16_coherent_cache_control_example.

(* assigning a typed directive and reading it back gives the value in normal form *)
Theorem C16_cache_control_assign_read : forall d attr key e ty v,
  prop_lookup attr cache_control_props = Some (key, (e, ty)) ->
  snd (fst (cc_step d (CCSetAttr attr v))) = Ok ONone ->
  cc_get (fst (fst (cc_step d (CCSetAttr attr v)))) attr = cc_normal e ty v.
Proof. exact cc_assign_read. Qed.
Print Assumptions C16_cache_control_assign_read.

(* the regenerated tables: directive keys are in the codec's domain; every dict mutator notifies *)
Theorem C16_tables :
  forallb (fun p => key_ok (fst (snd p))) cache_control_props = true /\
  forallb (fun m => smem m update_dict_always || smem m update_dict_if_modified) dict_mutators = true.
Proof. split; [exact prop_keys_ok|exact notification_tables]. Qed.
Print Assumptions C16_tables.

(* ---------------------------------------------------------------- integer scalar properties *)
Theorem C16_int_assign_read : forall h name z, int_prop_get (int_prop_set h name z) name = OInt z.
Proof. exact int_prop_roundtrip. Qed.
Print Assumptions C16_int_assign_read.

(* ---------------------------------------------------------------- content_security_policy *)
(* the CSP codec on its domain: directive names without white space or semicolon; values non-empty, without
   semicolon or surrounding white space (empty values and values with a semicolon do not re-parse) *)
Theorem C16_csp_roundtrip : forall d, csp_dom d -> parse_csp (dump_csp d) = d.
Proof. exact csp_roundtrip. Qed.
Print Assumptions C16_csp_roundtrip.

Theorem C16_csp_roundtrip_domain_refuted :
  exists d, NoDup (map fst d) /\ parse_csp (dump_csp d) <> d.
Proof. exact csp_roundtrip_refuted. Qed.
Print Assumptions C16_csp_roundtrip_domain_refuted.

Theorem C16_coherent_csp_step : forall h d o,
  csp_coh (h, d) -> cspop_ok o = true ->
  let d' := fst (fst (csp_step d o)) in
  has_newline (dump_csp d') = true \/
  (csp_coh (fst (cspr_step (h, d) o)) /\
   (snd (csp_step d o) = true -> csp_serial (fst (cspr_step (h, d) o))) /\
   (snd (csp_step d o) = false -> fst (cspr_step (h, d) o) = (h, d))).
Proof. exact csp_step_coherent. Qed.
Print Assumptions C16_coherent_csp_step.

(* ---------------------------------------------------------------- content_range *)
(* Content-Range codec on its domain: units non-empty without white space, a range is_byte_range_valid accepts *)
Theorem C16_content_range_roundtrip : forall c u,
  cr_dom c -> cr_units c = Some u ->
  exists text, cr_to_header c = Ok text /\ parse_content_range (Some text) = Some c.
Proof. exact cr_roundtrip. Qed.
Print Assumptions C16_content_range_roundtrip.

(* set / unset / attribute assignment leaving a valid range: the header is the serialisation of the view (absent
   when units is None) and re-reading the property gives an equal view *)
Theorem C16_coherent_content_range_step : forall h c o c',
  cr_apply c o = Some c' -> cr_dom c' ->
  let st' := fst (crr_step (h, c) o) in
  snd st' = c' /\ cr_serial st' /\ (cr_units c' <> None -> snd (cr_read (fst st')) = c').
Proof. exact cr_step_coherent. Qed.
Print Assumptions C16_coherent_content_range_step.

Example C16_content_range_example :
  let c := {| cr_units := Some [98; 121; 116; 101; 115]; cr_start := Some 0%Z; cr_stop := Some 10%Z; cr_length := Some 100%Z |} in
  cr_dom c /\ cr_to_header c = Ok [98; 121; 116; 101; 115; 32; 48; 45; 57; 47; 49; 48; 48].
Proof. split; [split; reflexivity|reflexivity]. Qed.
Print Assumptions C16_content_range_example.

(* ---------------------------------------------------------------- www_authenticate *)
(* type, token and parameters are routed to their setters (regenerated table), and each setter changes exactly
   its own field and notifies *)
Theorem C16_www_authenticate_routing :
  forallb (fun n => smem n wa_direct_attrs)
    [[116; 121; 112; 101]; [116; 111; 107; 101; 110]; [112; 97; 114; 97; 109; 101; 116; 101; 114; 115]] = true.
Proof. exact wa_routing. Qed.
Print Assumptions C16_www_authenticate_routing.

Theorem C16_www_authenticate_setters : forall w,
  (forall t, wa_step w (WASetToken t) = ({| wa_type := wa_type w; wa_params := wa_params w; wa_token := t |}, Ok ONone, true)) /\
  (forall s, wa_step w (WASetType s) = ({| wa_type := s; wa_params := wa_params w; wa_token := wa_token w |}, Ok ONone, true)) /\
  (forall d, wa_step w (WASetParams d) = ({| wa_type := wa_type w; wa_params := d; wa_token := wa_token w |}, Ok ONone, true)).
Proof. exact wa_setters. Qed.
Print Assumptions C16_www_authenticate_setters.

(* every notifying operation leaves the header equal to the serialisation of the view *)
Theorem C16_www_authenticate_serial : forall h w o,
  snd (wa_step w o) = true -> has_newline (wa_to_header (fst (fst (wa_step w o)))) = false ->
  hd_get_key (fst (fst (war_step (h, w) o))) WWW_AUTH = Some (wa_to_header (fst (fst (wa_step w o)))) /\
  snd (fst (war_step (h, w) o)) = fst (fst (wa_step w o)).
Proof. exact wa_step_serial. Qed.
Print Assumptions C16_www_authenticate_serial.

(* token schemes re-read equal: scheme in normal form (lower case), token without inner equals sign or
   surrounding white space.  (Parameter schemes: covered by the correspondence and the harness oracle only.) *)
Theorem C16_www_authenticate_token_roundtrip_partial : forall ty t,
  ty_ok ty = true -> wtoken_ok t = true ->
  wa_from_header (Some (wa_to_header {| wa_type := ty; wa_params := []; wa_token := Some t |}))
  = Some (Some {| wa_type := ty; wa_params := []; wa_token := Some t |}).
Proof. exact wa_token_roundtrip. Qed.
Print Assumptions C16_www_authenticate_token_roundtrip_partial.

Example C16_www_authenticate_example :
  ty_ok [98; 101; 97; 114; 101; 114] = true /\ wtoken_ok [97; 98; 99; 61; 61] = true /\
  wa_to_header {| wa_type := [98; 101; 97; 114; 101; 114]; wa_params := []; wa_token := Some [97; 98; 99; 61; 61] |}
    = [66; 101; 97; 114; 101; 114; 32; 97; 98; 99; 61; 61].
Proof. vm_compute. repeat split. Qed.
Print Assumptions C16_www_authenticate_example.

(* parameter schemes (Basic realm=..., Digest with its always-quoted keys, any other scheme): the dict codec with the
   allow_token choice made per key round-trips, and re-reading the property gives an equal view.  Domain: scheme in
   normal form, at least one parameter, distinct token keys not ending in an asterisk, every parameter with a value *)
Theorem C16_qdict_roundtrip : forall q d, pdom d -> d <> [] ->
  parse_dict_header (join COMMA_SP (map (qitem q) d)) = Some (map (fun kv => (fst kv, Some (snd kv))) d).
Proof. exact qdict_roundtrip. Qed.
Print Assumptions C16_qdict_roundtrip.

Theorem C16_www_authenticate_params_roundtrip : forall ty d,
  ty_ok ty = true -> pdom d -> d <> [] ->
  wa_from_header (Some (wa_to_header {| wa_type := ty; wa_params := some_params d; wa_token := None |}))
  = Some (Some {| wa_type := ty; wa_params := some_params d; wa_token := None |}).
Proof. exact wa_params_roundtrip. Qed.
Print Assumptions C16_www_authenticate_params_roundtrip.

Example C16_www_authenticate_params_example :
  let d := [([114; 101; 97; 108; 109], [97; 32; 98]); ([115; 116; 97; 108; 101], [120])] in
  ty_ok DIGEST = true /\ d <> [] /\
  wa_to_header {| wa_type := DIGEST; wa_params := some_params d; wa_token := None |}
    = [68; 105; 103; 101; 115; 116; 32; 114; 101; 97; 108; 109; 61; 34; 97; 32; 98; 34; 44; 32; 115; 116; 97; 108; 101; 61; 120].
Proof. split; [reflexivity|split; [discriminate|vm_compute; reflexivity]]. Qed.
Print Assumptions C16_www_authenticate_params_example.

(* www_authenticate = [a; b; ...]: one header line per item, in order *)
Theorem C16_www_authenticate_list_assign : forall h w ws,
  existsb has_newline (map wa_to_header (w :: ws)) = false ->
  snd (wa_assign_list h (w :: ws)) = None /\
  hd_getlist (fst (wa_assign_list h (w :: ws))) WWW_AUTH = map wa_to_header (w :: ws).
Proof. exact wa_list_assign. Qed.
Print Assumptions C16_www_authenticate_list_assign.

(* ---------------------------------------------------------------- date-valued scalar properties *)
(* date / expires / last_modified / retry_after: for every dump / load pair that satisfies the date contract
   (http_date text free of CR / LF, parse_date (http_date t) = t at one-second resolution in UTC; validated against
   email.utils / datetime by the harness over naive, UTC, fixed-offset, zero-offset non-singleton and ZoneInfo
   zones), assigning t and reading back returns t at one-second resolution *)
Theorem C16_date_assign_read : forall (instant : Type) (http_date : instant -> str) (parse_date : str -> option instant)
    (second : instant -> instant),
  (forall t, parse_date (http_date t) = Some (second t)) -> (forall t, has_newline (http_date t) = false) ->
  forall h name t,
    snd (date_prop_set instant http_date h name t) = None /\
    hd_get_key (fst (date_prop_set instant http_date h name t)) name = Some (http_date t) /\
    date_prop_get instant parse_date (fst (date_prop_set instant http_date h name t)) name = Some (second t).
Proof. exact date_assign_read. Qed.
Print Assumptions C16_date_assign_read.

(* ---------------------------------------------------------------- mimetype_params: a held view *)
(* whatever happened to the Content-Type header since the view was taken, a notifying operation on the held view
   writes its parameters next to the media type the response has at that moment, and keeps that media type *)
Theorem C16_coherent_mimetype_params_step : forall h d o mt,
  mimetype_of h = Some mt -> cval_ok mt = true ->
  snd (d_step OStr d o) = true ->
  has_newline (dump_options (Some mt) (fst (fst (d_step OStr d o)))) = false ->
  let st' := fst (mp_step (h, d) o) in
  snd st' = fst (fst (d_step OStr d o)) /\
  hd_get_key (fst st') CONTENT_TYPE = Some (dump_options (Some mt) (snd st')) /\
  mimetype_of (fst st') = Some mt.
Proof. exact mp_step_coherent. Qed.
Print Assumptions C16_coherent_mimetype_params_step.

(* ... and re-reading the property gives the held view's parameters, for every parse_options_header that inverts
   dump_options_header on a domain of parameter dicts (the round trip of property C06, here a contract) *)
Theorem C16_mimetype_params_reread : forall (parse_options : str -> str * sdict) (opt_dom : sdict -> Prop),
  (forall mt d, cval_ok mt = true -> opt_dom d -> parse_options (dump_options (Some mt) d) = (mt, d)) ->
  forall h d o mt,
    mimetype_of h = Some mt -> cval_ok mt = true -> snd (d_step OStr d o) = true ->
    has_newline (dump_options (Some mt) (fst (fst (d_step OStr d o)))) = false ->
    opt_dom (fst (fst (d_step OStr d o))) ->
    let st' := fst (mp_step (h, d) o) in
    option_map parse_options (hd_get_key (fst st') CONTENT_TYPE) = Some (mt, snd st').
Proof. exact mp_reread. Qed.
Print Assumptions C16_mimetype_params_reread.

Example C16_mimetype_params_example :
  let h := [(CONTENT_TYPE, [116; 101; 120; 116; 47; 99; 115; 118; 59; 32; 99; 104; 97; 114; 115; 101; 116; 61; 117])] in
  mimetype_of h = Some [116; 101; 120; 116; 47; 99; 115; 118] /\ cval_ok [116; 101; 120; 116; 47; 99; 115; 118] = true /\
  hd_get_key (fst (fst (mp_step (h, [([120], [49])]) (DSetItem [121] [97; 32; 98])))) CONTENT_TYPE
    = Some [116; 101; 120; 116; 47; 99; 115; 118; 59; 32; 120; 61; 49; 59; 32; 121; 61; 34; 97; 32; 98; 34].
Proof. vm_compute. repeat split. Qed.
Print Assumptions C16_mimetype_params_example.

(* ------------------------------------------------------------------ scalar header properties, over the regenerated table *)
(* For EVERY row (attribute, header name, codec) of the table regenerated from the header_property(...) assignments of
   sansio/response.py whose codec is str, int, age or set-like: assigning a value the codec accepts, whose dumped text has no
   newline, leaves exactly the dumped text under the header name, reads back as the value in normal form, and deleting the
   attribute removes the header and reads back as None *)
Theorem C16_header_property_assign_read : forall h attr name c v text,
  prop_lookup attr header_props = Some (name, c) -> hp_dump c v = Some text -> has_newline text = false ->
  snd (hp_set h attr v) = None /\
  hp_text (fst (hp_set h attr v)) attr = OStr text /\
  hp_get (fst (hp_set h attr v)) attr = hp_normal c v /\
  hp_get (hp_del (fst (hp_set h attr v)) attr) attr = ONone /\ hp_text (hp_del (fst (hp_set h attr v)) attr) attr = ONone.
Proof. exact hp_assign_read. Qed.
Print Assumptions C16_header_property_assign_read.

(* the rows the theorem above does not speak about are exactly date, expires, last_modified (C16_date_assign_read) and
   cross_origin_opener_policy, cross_origin_embedder_policy (harness only) *)
Theorem C16_header_property_coverage :
  map (fun p => fst p) (filter (fun p => negb (codec_modelled (snd (snd p)))) header_props)
  = [[100; 97; 116; 101]; [101; 120; 112; 105; 114; 101; 115]; [108; 97; 115; 116; 95; 109; 111; 100; 105; 102; 105; 101; 100];
     [99; 114; 111; 115; 115; 95; 111; 114; 105; 103; 105; 110; 95; 111; 112; 101; 110; 101; 114; 95; 112; 111; 108; 105; 99; 121];
     [99; 114; 111; 115; 115; 95; 111; 114; 105; 103; 105; 110; 95; 101; 109; 98; 101; 100; 100; 101; 114; 95; 112; 111; 108; 105; 99; 121]]
  /\ forallb (fun p => match snd (snd p) with CDate | CEnum => true | c => codec_modelled c end) header_props = true.
Proof. exact hp_table_coverage. Qed.
Print Assumptions C16_header_property_coverage.

(* access_control_allow_methods = [GET, POST] on a response that already carries the header *)
Example C16_header_property_example :
  let attr := [97; 99; 99; 101; 115; 115; 95; 99; 111; 110; 116; 114; 111; 108; 95; 97; 108; 108; 111; 119; 95; 109; 101; 116; 104; 111; 100; 115] in
  let st := hp_set [([65; 99; 99; 101; 115; 115; 45; 67; 111; 110; 116; 114; 111; 108; 45; 65; 108; 108; 111; 119; 45; 77; 101; 116; 104; 111; 100; 115], [80; 85; 84])]
              attr (PList [[71; 69; 84]; [80; 79; 83; 84]]) in
  hp_text (fst st) attr = OStr [71; 69; 84; 44; 32; 80; 79; 83; 84] /\ hp_get (fst st) attr = OList [[71; 69; 84]; [80; 79; 83; 84]].
Proof. vm_compute. split; reflexivity. Qed.
Print Assumptions C16_header_property_example.
