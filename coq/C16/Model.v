(* C16: executable models of the live header views of werkzeug.sansio.response.Response, with the on_update
   wiring of each property made explicit.  Definitions only.
   Headers / HeaderSet / quote_header_value come from C08/Model.v; the callback decisions, the typed-property
   tables and the _set_cache_value decision chain come from C16/Gen.v (regenerated from /repo on every run). *)
From Coq Require Import ZArith.
From Wz Require Import lib.Bytes C08.LibStr C08.Gen C08.Model C16.Base C16.Gen.
Open Scope N_scope.

Definition COMMA : N := 44.
Definition EQ : N := 61.
Definition SP : N := 32.
Definition SEMI : N := 59.
Definition STAR : N := 42.

(* ================================================================== header codecs *)

(* urllib.request.parse_http_list: split at commas outside quotes; inside quotes a backslash escapes the next
   character (the backslash is dropped); parts are stripped; an empty last part is not appended *)
Fixpoint phl_go (s : str) (res : list str) (part : str) (esc quote : bool) : list str :=
  match s with
  | [] => match part with [] => res | _ => res ++ [part] end
  | c :: r =>
      if esc then phl_go r res (part ++ [c]) false quote
      else if quote then
        if c =? BS then phl_go r res part true quote
        else if c =? DQ then phl_go r res (part ++ [c]) false false
        else phl_go r res (part ++ [c]) false quote
      else if c =? COMMA then phl_go r (res ++ [part]) [] false false
      else if c =? DQ then phl_go r res (part ++ [c]) false true
      else phl_go r res (part ++ [c]) false false
  end.
Definition parse_http_list (s : str) : list str := map (strip uni_ws) (phl_go s [] [] false false).

(* if the item has at least two characters and starts and ends with a double quote: drop both *)
Definition strip_outer_quotes (s : str) : str :=
  match s with
  | c :: r =>
      if c =? DQ then
        match rev r with
        | l :: m => if l =? DQ then rev m else s
        | [] => s
        end
      else s
  | [] => s
  end.
Definition parse_list_header (s : str) : list str := map strip_outer_quotes (parse_http_list s).
Definition dump_list (l : list str) : str := join COMMA_SP (map (quote_header_value true) l).

(* insertion-ordered dict with string keys *)
Section Dict.
  Context {V : Type}.
  Fixpoint ad_get (k : str) (d : list (str * V)) : option V :=
    match d with
    | [] => None
    | (k', v) :: r => if list_eqb k k' then Some v else ad_get k r
    end.
  Fixpoint ad_set (k : str) (v : V) (d : list (str * V)) : list (str * V) :=
    match d with
    | [] => [(k, v)]
    | (k', v') :: r => if list_eqb k k' then (k', v) :: r else (k', v') :: ad_set k v r
    end.
  Definition ad_del (k : str) (d : list (str * V)) : list (str * V) :=
    filter (fun kv => negb (list_eqb k (fst kv))) d.
  Definition ad_mem (k : str) (d : list (str * V)) : bool :=
    match ad_get k d with Some _ => true | None => false end.
End Dict.

Definition cdict := list (str * option str).

Definition ends_with_star (k : str) : bool := match rev k with c :: _ => c =? STAR | [] => false end.
Definition dump_dict_item (kv : str * option str) : str :=
  match snd kv with
  | None => fst kv
  | Some v => if ends_with_star (fst kv) then fst kv ++ [EQ] ++ v
              else fst kv ++ [EQ] ++ quote_header_value true v
  end.
Definition dump_dict (d : cdict) : str := join COMMA_SP (map dump_dict_item d).

(* parse_dict_header; None = an item whose key ends in an asterisk (RFC 2231 branch, not modelled) *)
Fixpoint pd_go (items : list str) (acc : cdict) : option cdict :=
  match items with
  | [] => Some acc
  | item :: r =>
      let '(k, v) := partition1 EQ item in
      let key := strip uni_ws k in
      match key with
      | [] => pd_go r acc
      | _ =>
          match v with
          | None => pd_go r (ad_set key None acc)
          | Some value =>
              if ends_with_star key then None
              else pd_go r (ad_set key (Some (strip_outer_quotes (strip uni_ws value))) acc)
          end
      end
  end.
Definition parse_dict_header (s : str) : option cdict := pd_go (parse_list_header s) [].

(* ================================================================== callbacks *)
Definition apply_cb (act : cb_action) (h : headers) (name text : str) : hstat :=
  match act with
  | CbDel => (hd_del_key h name, None)
  | CbSet => hd_set h name (VStr text)
  | CbNone => (h, None)
  end.

Definition header_text (h : headers) (name : str) : out :=
  match hd_get_key h name with Some s => OStr s | None => ONone end.

(* ================================================================== HeaderSet views: vary, allow, content_language *)
Definition sv_parse (h : headers) (name : str) : hset :=
  match hd_get_key h name with
  | None | Some [] => hs_init []
  | Some s => hs_init (parse_list_header s)
  end.

Inductive svop :=
| SVOp (o : hsop)                      (* an operation on the live view object *)
| SVAssignNone | SVAssignStr (s : str) | SVAssignList (l : list str)   (* response.vary = value *)
| SVHeaderSet (s : str) | SVHeaderDel.  (* direct edit of response.headers; the view is fetched again *)

Definition sv_after (name : str) (a : hstat) : (headers * hset) * res out :=
  match a with
  | (h', None) => ((h', sv_parse h' name), Ok ONone)
  | (h', Some e) => ((h', sv_parse h' name), Err e)
  end.

Definition sv_step (name : str) (st : headers * hset) (o : svop) : (headers * hset) * res out :=
  let '(h, v) := st in
  match o with
  | SVOp op =>
      let '(v', r, fired) := hs_step v op in
      if fired then
        match apply_cb (set_view_cb (hs_bool v') (hd_contains h name)) h name (hs_to_header v') with
        | (h', None) => ((h', v'), r)
        | (h', Some e) => ((h', v'), Err e)
        end
      else ((h, v'), r)
  | SVAssignNone | SVAssignStr [] | SVAssignList [] | SVHeaderDel => sv_after name (hd_del_key h name, None)
  | SVAssignStr s | SVHeaderSet s => sv_after name (hd_set h name (VStr s))
  | SVAssignList l => sv_after name (hd_set h name (VStr (dump_list l)))
  end.

Definition sv_obs (name : str) (st : headers * hset) : list out :=
  let '(h, v) := st in
  [header_text h name; OPairs h; OList (hs_headers v); OList (hs_set v); OInt (Z.of_nat (hs_len v));
   OList (hs_headers (sv_parse h name)); OList (hs_set (sv_parse h name))].

Fixpoint sv_run (name : str) (st : headers * hset) (ops : list svop) : list (list out) :=
  match ops with
  | [] => []
  | o :: r => let '(st', rs) := sv_step name st o in (out_of_res rs :: sv_obs name st') :: sv_run name st' r
  end.

(* ================================================================== CallbackDict (UpdateDictMixin) *)
Inductive dop (V : Type) :=
| DSetItem (k : str) (v : V) | DDelItem (k : str) | DPop (k : str) | DPopD (k : str) (dflt : V) | DClear
| DSetDefault (k : str) (v : V) | DPopItem | DUpdate (l : list (str * V)).
Arguments DSetItem {V}. Arguments DDelItem {V}. Arguments DPop {V}. Arguments DPopD {V}. Arguments DClear {V}.
Arguments DSetDefault {V}. Arguments DPopItem {V}. Arguments DUpdate {V}.

Section DictStep.
  Context {V : Type} (ov : V -> out).
  (* (dict, result, on_update called) *)
  Definition d_step (d : list (str * V)) (o : dop V) : list (str * V) * res out * bool :=
    match o with
    | DSetItem k v => (ad_set k v d, Ok ONone, true)
    | DDelItem k => if ad_mem k d then (ad_del k d, Ok ONone, true) else (d, Err KeyError, false)
    | DPop k =>
        match ad_get k d with
        | Some v => (ad_del k d, Ok (ov v), true)
        | None => (d, Err KeyError, false)
        end
    | DPopD k dflt =>
        match ad_get k d with
        | Some v => (ad_del k d, Ok (ov v), true)
        | None => (d, Ok (ov dflt), false)
        end
    | DClear => ([], Ok ONone, true)
    | DSetDefault k v =>
        match ad_get k d with
        | Some x => (d, Ok (ov x), false)
        | None => (d ++ [(k, v)], Ok (ov v), true)
        end
    | DPopItem =>
        match rev d with
        | [] => (d, Err KeyError, false)
        | (k, v) :: _ => (removelast d, Ok (OKList k [match ov v with OStr s => s | _ => [] end]), true)
        end
    | DUpdate l => (fold_left (fun d kv => ad_set (fst kv) (snd kv) d) l d, Ok ONone, true)
    end.
End DictStep.

(* ================================================================== ResponseCacheControl *)
Definition ov_opt (v : option str) : out := match v with Some s => OStr s | None => ONone end.

Fixpoint prop_lookup {A} (attr : str) (t : list (str * A)) : option A :=
  match t with
  | [] => None
  | (a, x) :: r => if list_eqb attr a then Some x else prop_lookup attr r
  end.

(* the text stored by the final branch of _set_cache_value: str(type(value)) *)
Definition cc_store_text (ty : cctype) (v : ccval) : res str :=
  match ty, v with
  | TInt, CVInt z => Ok (dec_of_Z z)
  | TInt, CVStr s => match parse_dec s with Some z => Ok (dec_of_Z z) | None => Err ValueError end
  | _, CVInt z => Ok (dec_of_Z z)
  | _, CVStr s => Ok s
  | _, CVTrue => Ok [84; 114; 117; 101]
  | _, CVFalse => Ok [70; 97; 108; 115; 101]
  | _, CVNone => Ok [78; 111; 110; 101]
  end.

Inductive ccop :=
| CCSetAttr (attr : str) (v : ccval) | CCDelAttr (attr : str)
| CCDict (o : dop (option str)).

Definition cc_step (d : cdict) (o : ccop) : cdict * res out * bool :=
  match o with
  | CCDict o => d_step ov_opt d o
  | CCDelAttr attr =>
      match prop_lookup attr cache_control_props with
      | None => (d, Err TypeError, false)
      | Some (key, _) => if ad_mem key d then (ad_del key d, Ok ONone, true) else (d, Ok ONone, false)
      end
  | CCSetAttr attr v =>
      match prop_lookup attr cache_control_props with
      | None => (d, Err TypeError, false)
      | Some (key, (_, ty)) =>
          match cc_set_action ty v with
          | CSetNone => (ad_set key None d, Ok ONone, true)
          | CPop => if ad_mem key d then (ad_del key d, Ok ONone, true) else (d, Ok ONone, false)
          | CStore =>
              match cc_store_text ty v with
              | Ok s => (ad_set key (Some s) d, Ok ONone, true)
              | Err e => (d, Err e, false)
              end
          end
      end
  end.

(* _get_cache_value *)
Definition cc_get (d : cdict) (attr : str) : out :=
  match prop_lookup attr cache_control_props with
  | None => OErr TypeError
  | Some (key, (empty_true, ty)) =>
      match ty with
      | TBool => OBool (ad_mem key d)
      | _ =>
          match ad_get key d with
          | None => ONone
          | Some None => if empty_true then OBool true else ONone
          | Some (Some s) =>
              match ty with
              | TInt => match parse_dec s with Some z => OInt z | None => ONone end
              | _ => OStr s
              end
          end
      end
  end.

Definition CACHE_CONTROL : str := [67; 97; 99; 104; 101; 45; 67; 111; 110; 116; 114; 111; 108].
Definition cache_control_lc : str := lower CACHE_CONTROL.

Definition cc_parse (h : headers) : option cdict :=
  match hd_get_key h cache_control_lc with
  | None | Some [] => Some []
  | Some s => parse_dict_header s
  end.

Definition nonempty {A} (l : list A) : bool := match l with [] => false | _ => true end.

Definition ccr_step (st : headers * cdict) (o : ccop) : (headers * cdict) * res out :=
  let '(h, d) := st in
  let '(d', r, fired) := cc_step d o in
  if fired then
    match apply_cb (cache_control_cb (nonempty d') (hd_contains h cache_control_lc)) h
                   (match cache_control_cb (nonempty d') (hd_contains h cache_control_lc) with CbDel => cache_control_lc | _ => CACHE_CONTROL end)
                   (dump_dict d') with
    | (h', None) => ((h', d'), r)
    | (h', Some e) => ((h', d'), Err e)
    end
  else ((h, d'), r).

Definition out_of_cdict (d : cdict) : out :=
  OPairs (map (fun kv => (fst kv, match snd kv with Some s => 61 :: s | None => [] end)) d).

Definition ccr_obs (st : headers * cdict) : list out :=
  let '(h, d) := st in
  [header_text h cache_control_lc; OPairs h; out_of_cdict d;
   match cc_parse h with Some d2 => out_of_cdict d2 | None => OErr TypeError end]
  ++ map (fun p => cc_get d (fst p)) cache_control_props.

Fixpoint ccr_run (st : headers * cdict) (ops : list ccop) : list (list out) :=
  match ops with
  | [] => []
  | o :: r => let '(st', rs) := ccr_step st o in (out_of_res rs :: ccr_obs st') :: ccr_run st' r
  end.

(* ================================================================== ContentSecurityPolicy *)
Definition sdict := list (str * str).

(* dump_csp_header *)
Definition dump_csp (d : sdict) : str := join [SEMI; SP] (map (fun kv => fst kv ++ [SP] ++ snd kv) d).

Fixpoint split_on (sep : N) (s : str) : list str :=
  match s with
  | [] => [[]]
  | c :: r =>
      if c =? sep then [] :: split_on sep r
      else match split_on sep r with x :: t => (c :: x) :: t | [] => [[c]] end
  end.

(* parse_csp_header: policies without a space are ignored; later duplicates win (dict(items)) *)
Definition csp_add_policy (d : sdict) (policy : str) : sdict :=
  match partition1 SP (strip uni_ws policy) with
  | (k, Some v) => ad_set (strip uni_ws k) (strip uni_ws v) d
  | (_, None) => d
  end.
Definition parse_csp (s : str) : sdict := fold_left csp_add_policy (split_on SEMI s) [].

Inductive cspop :=
| CSetAttr (attr : str) (v : option str) | CDelAttr (attr : str) | CDict (o : dop str).

Definition csp_step (d : sdict) (o : cspop) : sdict * res out * bool :=
  match o with
  | CDict o => d_step OStr d o
  | CSetAttr attr v =>
      match prop_lookup attr csp_props with
      | None => (d, Err TypeError, false)
      | Some key =>
          match v with
          | None => if ad_mem key d then (ad_del key d, Ok ONone, true) else (d, Ok ONone, false)
          | Some s => (ad_set key s d, Ok ONone, true)
          end
      end
  | CDelAttr attr =>
      match prop_lookup attr csp_props with
      | None => (d, Err TypeError, false)
      | Some key => if ad_mem key d then (ad_del key d, Ok ONone, true) else (d, Ok ONone, false)
      end
  end.

Definition CSP_NAME : str :=
  [67; 111; 110; 116; 101; 110; 116; 45; 83; 101; 99; 117; 114; 105; 116; 121; 45; 80; 111; 108; 105; 99; 121].
Definition csp_parse_h (h : headers) : sdict :=
  match hd_get_key h CSP_NAME with None => [] | Some s => parse_csp s end.

Definition cspr_step (st : headers * sdict) (o : cspop) : (headers * sdict) * res out :=
  let '(h, d) := st in
  let '(d', r, fired) := csp_step d o in
  if fired then
    match apply_cb (csp_cb (nonempty d') true) h CSP_NAME (dump_csp d') with
    | (h', None) => ((h', d'), r)
    | (h', Some e) => ((h', d'), Err e)
    end
  else ((h, d'), r).

Definition cspr_obs (st : headers * sdict) : list out :=
  let '(h, d) := st in
  [header_text h CSP_NAME; OPairs h; OPairs d; OPairs (csp_parse_h h)]
  ++ map (fun p => match ad_get (snd p) d with Some s => OStr s | None => ONone end) csp_props.

Fixpoint cspr_run (st : headers * sdict) (ops : list cspop) : list (list out) :=
  match ops with
  | [] => []
  | o :: r => let '(st', rs) := cspr_step st o in (out_of_res rs :: cspr_obs st') :: cspr_run st' r
  end.

(* ================================================================== integer-valued header_property pairs *)
(* content_length / access_control_max_age: dump = str, load = int (ValueError -> default None) *)
Definition int_prop_set (h : headers) (name : str) (z : Z) : headers := hd_set_str h name (dec_of_Z z).
Definition int_prop_get (h : headers) (name : str) : out :=
  match hd_get_key h name with
  | None => ONone
  | Some s => match parse_dec s with Some z => OInt z | None => ONone end
  end.

(* ================================================================== ContentRange *)
Record crange := { cr_units : option str; cr_start : option Z; cr_stop : option Z; cr_length : option Z }.
Definition cr_none : crange := {| cr_units := None; cr_start := None; cr_stop := None; cr_length := None |}.

(* http.is_byte_range_valid *)
Definition byte_range_valid (start stop length : option Z) : bool :=
  match start, stop with
  | None, Some _ | Some _, None => false
  | None, None => match length with None => true | Some l => (0 <=? l)%Z end
  | Some s, Some e =>
      match length with
      | None => (0 <=? s)%Z && (s <? e)%Z
      | Some l => if (e <=? s)%Z then false else (0 <=? s)%Z && (s <? l)%Z
      end
  end.

Definition SLASH : N := 47.
Definition DASH : N := 45.
(* ContentRange.to_header; a start without a stop makes the f-string raise TypeError *)
Definition cr_to_header (c : crange) : res str :=
  match cr_units c with
  | None => Ok []
  | Some u =>
      let len := match cr_length c with None => [STAR] | Some l => dec_of_Z l end in
      match cr_start c with
      | None => Ok (u ++ [SP; STAR; SLASH] ++ len)
      | Some s =>
          match cr_stop c with
          | None => Err TypeError
          | Some e => Ok (u ++ [SP] ++ dec_of_Z s ++ [DASH] ++ dec_of_Z (e - 1) ++ [SLASH] ++ len)
          end
      end
  end.

(* _internal._plain_int: strip, then ASCII digits with an optional minus sign *)
Definition plain_int (s : str) : option Z := parse_dec (strip uni_ws s).

(* str.split(None, 1) of a stripped string into exactly two parts *)
Definition split_ws1 (s : str) : option (str * str) :=
  let a := take_while (fun c => negb (uni_ws c)) s in
  let r := drop_while uni_ws (drop_while (fun c => negb (uni_ws c)) s) in
  match a, r with
  | [], _ | _, [] => None
  | _, _ => Some (a, r)
  end.

(* http.parse_content_range_header; None = the function returns None *)
Definition parse_content_range (value : option str) : option crange :=
  match value with
  | None => None
  | Some v =>
      match split_ws1 (strip uni_ws v) with
      | None => None
      | Some (units, rangedef) =>
          match partition1 SLASH rangedef with
          | (_, None) => None
          | (rng, Some length_str) =>
              let length_r :=
                if list_eqb length_str [STAR] then Some None
                else match plain_int length_str with Some l => Some (Some l) | None => None end in
              match length_r with
              | None => None
              | Some length =>
                  if list_eqb rng [STAR] then
                    if byte_range_valid None None length
                    then Some {| cr_units := Some units; cr_start := None; cr_stop := None; cr_length := length |}
                    else None
                  else
                    match partition1 DASH rng with
                    | (_, None) => None
                    | (start_str, Some stop_str) =>
                        match plain_int start_str, plain_int stop_str with
                        | Some s, Some e0 =>
                            if byte_range_valid (Some s) (Some (e0 + 1)%Z) length
                            then Some {| cr_units := Some units; cr_start := Some s; cr_stop := Some (e0 + 1)%Z; cr_length := length |}
                            else None
                        | _, _ => None
                        end
                    end
              end
          end
      end
  end.

Definition CONTENT_RANGE : str := [67; 111; 110; 116; 101; 110; 116; 45; 82; 97; 110; 103; 101].

Inductive crattr := CRUnits | CRStart | CRStop | CRLength.
Inductive crop :=
| CRSet (start stop length : option Z) (units : option str)
| CRUnset
| CRAttrUnits (u : option str)
| CRAttrInt (a : crattr) (v : option Z).

(* the new view; None = set() refuses an invalid range (AssertionError) *)
Definition cr_apply (c : crange) (o : crop) : option crange :=
  match o with
  | CRSet s e l u => if byte_range_valid s e l then Some {| cr_units := u; cr_start := s; cr_stop := e; cr_length := l |} else None
  | CRUnset => Some cr_none
  | CRAttrUnits u => Some {| cr_units := u; cr_start := cr_start c; cr_stop := cr_stop c; cr_length := cr_length c |}
  | CRAttrInt CRStart v => Some {| cr_units := cr_units c; cr_start := v; cr_stop := cr_stop c; cr_length := cr_length c |}
  | CRAttrInt CRStop v => Some {| cr_units := cr_units c; cr_start := cr_start c; cr_stop := v; cr_length := cr_length c |}
  | CRAttrInt _ v => Some {| cr_units := cr_units c; cr_start := cr_start c; cr_stop := cr_stop c; cr_length := v |}
  end.

(* the on_update callback of Response.content_range *)
Definition cr_notify (h : headers) (c : crange) : headers * res out :=
  match content_range_cb (match cr_units c with Some _ => true | None => false end) true with
  | CbDel => (hd_del_key h CONTENT_RANGE, Ok ONone)
  | CbSet =>
      match cr_to_header c with
      | Err e => (h, Err e)
      | Ok text => match hd_set h CONTENT_RANGE (VStr text) with
                   | (h', None) => (h', Ok ONone)
                   | (h', Some e) => (h', Err e)
                   end
      end
  | CbNone => (h, Ok ONone)
  end.

(* reading response.content_range: the ContentRange constructor calls set(), which notifies, so the getter itself
   rewrites the header in normal form, or deletes a Content-Range header that does not parse *)
Definition cr_read (h : headers) : headers * crange :=
  let c := match parse_content_range (hd_get_key h CONTENT_RANGE) with Some c => c | None => cr_none end in
  (fst (cr_notify h c), c).
Definition cr_parse_h (h : headers) : crange := snd (cr_read h).

Definition crr_step (st : headers * crange) (o : crop) : (headers * crange) * res out :=
  let '(h, c) := st in
  match cr_apply c o with
  | None => ((h, c), Err ValueError)
  | Some c' => let '(h', r) := cr_notify h c' in ((h', c'), r)
  end.

Definition out_oz (z : option Z) : out := match z with Some x => OInt x | None => ONone end.
Definition out_os (s : option str) : out := match s with Some x => OStr x | None => ONone end.
Definition cr_fields (c : crange) : list out :=
  [out_os (cr_units c); out_oz (cr_start c); out_oz (cr_stop c); out_oz (cr_length c)].
Definition crr_obs (st : headers * crange) : list out :=
  let '(h, c) := st in
  [header_text h CONTENT_RANGE; OPairs h] ++ cr_fields c ++ cr_fields (cr_parse_h h).
(* the observation re-reads the property, and the re-read has the side effect described above *)
Definition crr_after_obs (st : headers * crange) : headers * crange := (fst (cr_read (fst st)), snd st).
Fixpoint crr_run (st : headers * crange) (ops : list crop) : list (list out) :=
  match ops with
  | [] => []
  | o :: r => let '(st', rs) := crr_step st o in (out_of_res rs :: crr_obs st') :: crr_run (crr_after_obs st') r
  end.

(* ================================================================== WWWAuthenticate *)
Record wauth := { wa_type : str; wa_params : cdict; wa_token : option str }.
Definition BASIC : str := [98; 97; 115; 105; 99].
Definition DIGEST : str := [100; 105; 103; 101; 115; 116].
Definition wa_default : wauth := {| wa_type := BASIC; wa_params := []; wa_token := None |}.
Definition NONE_TXT : str := [78; 111; 110; 101].

Definition wa_digest_item (kv : str * option str) : str :=
  let v := match snd kv with Some v => v | None => NONE_TXT end in     (* quote_header_value(None) is the text None *)
  fst kv ++ [EQ] ++ quote_header_value (negb (smem (fst kv) wa_digest_quoted)) v.

Definition wa_to_header (w : wauth) : str :=
  match wa_token w with
  | Some t => title (wa_type w) ++ [SP] ++ t
  | None =>
      if list_eqb (wa_type w) DIGEST
      then [68; 105; 103; 101; 115; 116; 32] ++ join COMMA_SP (map wa_digest_item (wa_params w))
      else title (wa_type w) ++ [SP] ++ dump_dict (wa_params w)
  end.

(* from_header; the outer None = returns None, the inner None = a parameter key in RFC 2231 form (not modelled) *)
Definition wa_from_header (value : option str) : option (option wauth) :=
  match value with
  | None | Some [] => None
  | Some v =>
      let '(scheme, rest0) := partition1 SP v in
      let rest := strip uni_ws (match rest0 with Some r => r | None => [] end) in
      if mem EQ (rstrip (fun c => c =? EQ) rest)
      then match parse_dict_header rest with
           | Some d => Some (Some {| wa_type := lower scheme; wa_params := d; wa_token := None |})
           | None => Some None
           end
      else Some (Some {| wa_type := lower scheme; wa_params := []; wa_token := Some rest |})
  end.

Definition WWW_AUTH : str := [87; 87; 87; 45; 65; 117; 116; 104; 101; 110; 116; 105; 99; 97; 116; 101].
Definition wa_read (h : headers) : option wauth :=
  match wa_from_header (hd_get_key h WWW_AUTH) with
  | None => Some wa_default
  | Some w => w
  end.

Inductive waop :=
| WASetItem (k : str) (v : option str) | WADelItem (k : str)
| WASetAttr (name : str) (v : option str)         (* auth.name = v for a name that is not type / token / parameters *)
| WASetType (s : str) | WASetToken (t : option str) | WASetParams (d : cdict)
| WAParams (o : dop (option str)).                 (* an operation on auth.parameters *)

Definition wa_with_params (w : wauth) (d : cdict) : wauth := {| wa_type := wa_type w; wa_params := d; wa_token := wa_token w |}.

(* (view, result, notified) *)
Definition wa_step (w : wauth) (o : waop) : wauth * res out * bool :=
  match o with
  | WASetItem k v | WASetAttr k v =>
      if match o with WASetAttr _ _ => smem k wa_direct_attrs | _ => false end then (w, Err TypeError, false)
      else match v with
           | None => (wa_with_params w (ad_del k (wa_params w)), Ok ONone, true)
           | Some s => (wa_with_params w (ad_set k (Some s) (wa_params w)), Ok ONone, true)
           end
  | WADelItem k => if ad_mem k (wa_params w) then (wa_with_params w (ad_del k (wa_params w)), Ok ONone, true) else (w, Ok ONone, false)
  | WASetType s => ({| wa_type := s; wa_params := wa_params w; wa_token := wa_token w |}, Ok ONone, true)
  | WASetToken t => ({| wa_type := wa_type w; wa_params := wa_params w; wa_token := t |}, Ok ONone, true)
  | WASetParams d => (wa_with_params w d, Ok ONone, true)
  | WAParams o => let '(d', r, f) := d_step ov_opt (wa_params w) o in (wa_with_params w d', r, f)
  end.

Definition war_step (st : headers * wauth) (o : waop) : (headers * wauth) * res out :=
  let '(h, w) := st in
  let '(w', r, fired) := wa_step w o in
  if fired then
    match hd_set h WWW_AUTH (VStr (wa_to_header w')) with
    | (h', None) => ((h', w'), r)
    | (h', Some e) => ((h', w'), Err e)
    end
  else ((h, w'), r).

Definition wa_fields (w : option wauth) : list out :=
  match w with
  | Some w => [OStr (wa_type w); out_os (wa_token w); out_of_cdict (wa_params w)]
  | None => [OErr TypeError; OErr TypeError; OErr TypeError]
  end.
Definition war_obs (st : headers * wauth) : list out :=
  let '(h, w) := st in
  [header_text h WWW_AUTH; OPairs h] ++ wa_fields (Some w) ++ wa_fields (wa_read h).
Fixpoint war_run (st : headers * wauth) (ops : list waop) : list (list out) :=
  match ops with
  | [] => []
  | o :: r => let '(st', rs) := war_step st o in (out_of_res rs :: war_obs st') :: war_run st' r
  end.

(* www_authenticate = [a; b; ...]: the first item replaces the header, the others are added as further lines *)
Definition wa_assign_list (h : headers) (ws : list wauth) : hstat :=
  match ws with
  | [] => (hd_del_key h WWW_AUTH, None)
  | w :: r => hseq (hd_set h WWW_AUTH (VStr (wa_to_header w)))
                   (fun h1 => hd_add_all h1 WWW_AUTH (map (fun x => VStr (wa_to_header x)) r))
  end.

(* ================================================================== date-valued header_property pairs *)
(* date / expires / last_modified (and retry_after given a datetime): dump = http.http_date, load = http.parse_date.
   Both are parameters (email.utils / datetime are not modelled); the contract is stated where they are used. *)
Section DateProps.
  Variable instant : Type.
  Variable http_date : instant -> str.
  Variable parse_date : str -> option instant.
  Definition date_prop_set (h : headers) (name : str) (t : instant) : hstat := hd_set h name (VStr (http_date t)).
  Definition date_prop_get (h : headers) (name : str) : option instant :=
    match hd_get_key h name with None => None | Some s => parse_date s end.
End DateProps.

(* ================================================================== mimetype_params *)
Definition CONTENT_TYPE : str := [67; 111; 110; 116; 101; 110; 116; 45; 84; 121; 112; 101].
(* Response.mimetype: the text before the first semicolon, stripped; None when the header is absent or empty *)
Definition mimetype_of (h : headers) : option str :=
  match hd_get_key h CONTENT_TYPE with
  | None | Some [] => None
  | Some ct => Some (strip uni_ws (hd [] (split_on SEMI ct)))
  end.
Definition options_item (kv : str * str) : str :=
  if ends_with_star (fst kv) then fst kv ++ [EQ] ++ snd kv else fst kv ++ [EQ] ++ quote_header_value true (snd kv).
(* http.dump_options_header *)
Definition dump_options (mt : option str) (d : sdict) : str :=
  join [SEMI; SP] ((match mt with Some m => [m] | None => [] end) ++ map options_item d).

(* an operation on the (possibly long-held) mimetype_params view: the callback writes the parameters next to the
   media type the response has at that moment *)
Definition mp_step (st : headers * sdict) (o : dop str) : (headers * sdict) * res out :=
  let '(h, d) := st in
  let '(d', r, fired) := d_step OStr d o in
  if fired then
    match hd_set h CONTENT_TYPE (VStr (dump_options (mimetype_of h) d')) with
    | (h', None) => ((h', d'), r)
    | (h', Some e) => ((h', d'), Err e)
    end
  else ((h, d'), r).
Definition mp_obs (st : headers * sdict) : list out :=
  let '(h, d) := st in [header_text h CONTENT_TYPE; OPairs h; OPairs d; out_os (mimetype_of h)].

(* ================================================================== header_property pairs, over the regenerated table *)
Inductive pval := PStr (s : str) | PInt (z : Z) | PList (l : list str).

(* dump_func(value); None = the value does not fit the codec, or the codec is not modelled (dates: C16_date_assign_read,
   enums: oracle only) *)
Definition hp_dump (c : hcodec) (v : pval) : option str :=
  match c, v with
  | CStr, PStr s => Some s
  | CInt, PInt z => Some (dec_of_Z z)
  | CAge, PInt z => if (z <? 0)%Z then None else Some (dec_of_Z z)
  | CSet, PList l => Some (dump_list l)
  | _, _ => None
  end.
(* load_func(text); a ValueError / TypeError of the loader gives the default None *)
Definition hp_load (c : hcodec) (s : str) : out :=
  match c with
  | CStr => OStr s
  | CInt => match parse_dec s with Some z => OInt z | None => ONone end
  | CAge => match s with
            | [] => ONone
            | _ => match parse_dec s with Some z => if (z <? 0)%Z then ONone else OInt z | None => ONone end
            end
  | CSet => OList (hs_headers (match s with [] => hs_init [] | _ => hs_init (parse_list_header s) end))
  | _ => OErr TypeError
  end.
Definition hp_set (h : headers) (attr : str) (v : pval) : hstat :=
  match prop_lookup attr header_props with
  | None => (h, Some TypeError)
  | Some (name, c) => match hp_dump c v with Some text => hd_set h name (VStr text) | None => (h, Some TypeError) end
  end.
Definition hp_get (h : headers) (attr : str) : out :=
  match prop_lookup attr header_props with
  | None => OErr TypeError
  | Some (name, c) => match hd_get_key h name with None => ONone | Some s => hp_load c s end
  end.
Definition hp_del (h : headers) (attr : str) : headers :=
  match prop_lookup attr header_props with None => h | Some (name, _) => hd_del_key h name end.
Definition hp_text (h : headers) (attr : str) : out :=
  match prop_lookup attr header_props with None => OErr TypeError | Some (name, _) => header_text h name end.
