(* C16 proofs, part 2: coherence of the HeaderSet views and of the cache-control view with the header text. *)
From Coq Require Import ZArith Lia ZifyBool ZifyN.
From Wz Require Import lib.Bytes lib.BytesFacts C08.LibStr C08.LibStrFacts C08.Gen C08.Model C08.Spec C08.Proofs
  C16.Base C16.Gen C16.Model C16.ProofsCodec.
Open Scope N_scope.

(* ------------------------------------------------------------------ header lookups after the callback's edits *)
Lemma hd_get_after_del h k k' : ci_eqb k k' = true -> hd_get_key (hd_del_key h k) k' = None.
Proof. intro H. rewrite hd_get_is_head, hd_del_law, H. reflexivity. Qed.

Lemma hd_get_after_set h k s k' : ci_eqb k k' = true -> hd_get_key (hd_set_str h k s) k' = Some s.
Proof.
  intro H. rewrite hd_get_is_head. rewrite <- (hd_getlist_ci _ k k' H).
  destruct (hd_set_law h k s) as [A _]. rewrite A. reflexivity.
Qed.

Lemma hd_get_absent h k : hd_contains h k = false -> hd_get_key h k = None.
Proof. unfold hd_contains. destruct (hd_get_key h k); [discriminate|reflexivity]. Qed.

(* ------------------------------------------------------------------ an operation that does not notify changes nothing *)
Lemma update_go_true l : forall hs st, snd (hs_update_go l hs st true) = true.
Proof.
  induction l as [|h l IH]; intros hs st; cbn [hs_update_go]; [reflexivity|].
  destruct (hs_update_new h st); apply IH.
Qed.

Lemma update_go_unfired l : forall hs st hs' st',
  hs_update_go l hs st false = (hs', st', false) -> hs' = hs /\ st' = st.
Proof.
  induction l as [|h l IH]; intros hs st hs' st' E; cbn [hs_update_go] in E.
  - inversion E. split; reflexivity.
  - destruct (hs_update_new h st).
    + pose proof (update_go_true l (hs ++ [hs_update_item h]) (set_add (hs_update_key h) st)) as T.
      rewrite E in T. discriminate.
    + apply IH. exact E.
Qed.

Lemma hs_step_unfired v op : RI v -> snd (hs_step v op) = false -> fst (fst (hs_step v op)) = v.
Proof.
  intros HRI. destruct v as [hs st]. destruct op as [h|h|l|h| |i|i x]; cbn [hs_step].
  - unfold hs_update. cbn [hs_headers hs_set]. destruct (hs_update_go [h] hs st false) as [[hs' st'] ins] eqn:E.
    cbn [fst snd]. intro F. subst ins. destruct (update_go_unfired _ _ _ _ _ E). subst. reflexivity.
  - unfold hs_remove. destruct (hs_remove_missing h _); [reflexivity|]. destruct (negb _); [reflexivity|discriminate].
  - unfold hs_update. cbn [hs_headers hs_set]. destruct (hs_update_go l hs st false) as [[hs' st'] ins] eqn:E.
    cbn [fst snd]. intro F. subst ins. destruct (update_go_unfired _ _ _ _ _ E). subst. reflexivity.
  - unfold hs_remove. destruct (hs_remove_missing h _); [reflexivity|]. destruct (negb _); [reflexivity|discriminate].
  - discriminate.
  - cbn [hs_headers hs_set]. destruct (norm_index (length hs) i) as [n|] eqn:En; [|reflexivity].
    pose proof (norm_index_lt _ _ _ En) as Hn. unfold hs_delitem_key.
    assert (Hin : smem (lower (nth n hs [])) st = true).
    { apply smem_In. apply HRI. cbn [hs_headers]. apply nth_lower_In. exact Hn. }
    rewrite Hin. discriminate.
  - cbn [hs_headers hs_set]. destruct (norm_index (length hs) i) as [n|]; [|reflexivity].
    destruct (smem _ st); [discriminate|reflexivity].
Qed.

(* ------------------------------------------------------------------ HeaderSet views *)
Definition view_eq (a b : hset) : Prop :=
  hs_headers a = hs_headers b /\ (forall x, In x (hs_set a) <-> In x (hs_set b)).

(* re-reading the property parses an equal view *)
Definition sv_coh (name : str) (st : headers * hset) : Prop :=
  RI (snd st) /\ view_eq (sv_parse (fst st) name) (snd st).
(* the header text is the serialisation of the view, absent when the view is empty *)
Definition sv_serial (name : str) (st : headers * hset) : Prop :=
  hd_get_key (fst st) name = if hs_bool (snd st) then Some (hs_to_header (snd st)) else None.

Lemma RI_bool_false v : RI v -> hs_bool v = false -> hs_headers v = [] /\ hs_set v = [].
Proof.
  intros H Hb. unfold hs_bool in Hb. apply negb_false_iff in Hb. apply Nat.eqb_eq in Hb.
  pose proof (RI_len v H) as L. rewrite Hb in L.
  split; [destruct (hs_headers v); [reflexivity|discriminate]|destruct (hs_set v); [reflexivity|discriminate]].
Qed.

Lemma RI_bool_true v : RI v -> hs_bool v = true -> hs_headers v <> [].
Proof.
  intros H Hb E. unfold hs_bool in Hb. apply negb_true_iff in Hb. apply Nat.eqb_neq in Hb.
  pose proof (RI_len v H) as L. rewrite E in L. cbn [length] in L. contradiction.
Qed.

Lemma view_eq_init v : RI v -> view_eq (hs_init (hs_headers v)) v.
Proof.
  intros (N1 & N2 & I). unfold view_eq, hs_init. cbn [hs_headers hs_set]. split; [reflexivity|].
  intro x. unfold set_of_list. destruct (set_of_list_spec (map hs_init_key (hs_headers v)) [] (NoDup_nil _)) as [_ J].
  rewrite J. cbn [In]. unfold hs_init_key. rewrite I. intuition.
Qed.

Lemma sv_parse_of_text h name v :
  RI v -> hs_headers v <> [] -> hd_get_key h name = Some (hs_to_header v) -> view_eq (sv_parse h name) v.
Proof.
  intros HRI Hne Hg. unfold sv_parse. rewrite Hg.
  change (hs_to_header v) with (dump_list (hs_headers v)).
  destruct (dump_list (hs_headers v)) as [|c s] eqn:E; [exfalso; apply (dump_list_nonempty _ Hne); exact E|].
  rewrite <- E, list_roundtrip. apply view_eq_init. exact HRI.
Qed.

Theorem sv_step_coherent name h v op :
  sv_coh name (h, v) -> setitem_ok (abs v) op = true ->
  snd (sv_step name (h, v) (SVOp op)) = Err ValueError \/
  (sv_coh name (fst (sv_step name (h, v) (SVOp op))) /\
   (snd (hs_step v op) = true -> sv_serial name (fst (sv_step name (h, v) (SVOp op)))) /\
   (snd (hs_step v op) = false -> fst (sv_step name (h, v) (SVOp op)) = (h, v))).
Proof.
  intros [HRI Hve] Hok. cbn [fst snd] in HRI, Hve. cbn [sv_step].
  destruct (hs_step_refines v op HRI Hok) as (_ & _ & _ & HRI').
  pose proof (hs_step_unfired v op HRI) as Hun.
  destruct (hs_step v op) as [[v' r] fired]. cbn [fst snd] in *. destruct fired.
  - unfold apply_cb, set_view_cb. destruct (hs_bool v') eqn:Hb; cbn [negb andb].
    + (* non-empty view: the header is set to its serialisation *)
      unfold hd_set, str_header_value. destruct (has_newline (hs_to_header v')); cbn [fst snd]; [left; reflexivity|].
      right. assert (G : hd_get_key (hd_set_str h name (hs_to_header v')) name = Some (hs_to_header v'))
        by (apply hd_get_after_set; apply ci_eqb_refl).
      split; [|split; [|discriminate]].
      * split; [exact HRI'|]. cbn [fst snd]. apply sv_parse_of_text; [exact HRI'|apply RI_bool_true; assumption|exact G].
      * intros _. unfold sv_serial. cbn [fst snd]. rewrite Hb. exact G.
    + (* empty view: the header is removed if it was there *)
      destruct (RI_bool_false v' HRI' Hb) as [E1 E2].
      assert (G : hd_get_key (if hd_contains h name then hd_del_key h name else h) name = None).
      { destruct (hd_contains h name) eqn:C; [apply hd_get_after_del; apply ci_eqb_refl|apply hd_get_absent; exact C]. }
      right. destruct (hd_contains h name) eqn:C; cbn [fst snd];
        (split; [|split; [|discriminate]];
         [split; [exact HRI'|]; cbn [fst snd]; unfold sv_parse; rewrite G; unfold view_eq, hs_init; cbn [hs_headers hs_set map];
          rewrite E1, E2; split; [reflexivity|intro x; unfold set_of_list; cbn [fold_left]; intuition]
         |intros _; unfold sv_serial; cbn [fst snd]; rewrite Hb; exact G]).
  - right. rewrite (Hun eq_refl). cbn [fst snd]. split; [split; [exact HRI|exact Hve]|]. split; [discriminate|reflexivity].
Qed.

(* lifted to every sequence of view operations *)
Fixpoint sv_exec (name : str) (st : headers * hset) (ops : list hsop) : option (headers * hset) :=
  match ops with
  | [] => Some st
  | o :: r =>
      match snd (sv_step name st (SVOp o)) with
      | Err ValueError => None      (* the header store refused the serialisation (an item with CR or LF) *)
      | _ => sv_exec name (fst (sv_step name st (SVOp o))) r
      end
  end.
Fixpoint sv_ops_ok (name : str) (st : headers * hset) (ops : list hsop) : bool :=
  match ops with
  | [] => true
  | o :: r => setitem_ok (abs (snd st)) o && sv_ops_ok name (fst (sv_step name st (SVOp o))) r
  end.

Theorem sv_seq_coherent name ops : forall st st',
  sv_coh name st -> sv_ops_ok name st ops = true -> sv_exec name st ops = Some st' ->
  sv_coh name st' /\ (sv_serial name st' \/ st' = st).
Proof.
  induction ops as [|o ops IH]; intros st st' Hc Hok He; cbn [sv_exec sv_ops_ok] in *.
  - inversion He; subst. split; [exact Hc|right; reflexivity].
  - apply andb_prop in Hok. destruct Hok as [Ho Hr]. destruct st as [h v]. cbn [snd] in Ho.
    destruct (sv_step_coherent name h v o Hc Ho) as [E|(C1 & F1 & F2)].
    + rewrite E in He. discriminate.
    + assert (He2 : sv_exec name (fst (sv_step name (h, v) (SVOp o))) ops = Some st').
      { destruct (snd (sv_step name (h, v) (SVOp o))) as [?|[]]; try exact He. discriminate. }
      destruct (IH _ _ C1 Hr He2) as [C2 [S|S]].
      * split; [exact C2|left; exact S].
      * split; [exact C2|]. destruct (snd (hs_step v o)) eqn:Fd.
        -- left. rewrite S. apply F1. reflexivity.
        -- right. rewrite S. apply F2. reflexivity.
Qed.

(* whole-property assignment of a list: the header is its serialisation and reading the property back gives
   the list (when it is free of case-insensitive duplicates, else see C08_headerset_RI_refuted) *)
Theorem sv_assign_list name h v l :
  l <> [] -> has_newline (dump_list l) = false ->
  let st' := fst (sv_step name (h, v) (SVAssignList l)) in
  hd_get_key (fst st') name = Some (dump_list l) /\ hs_headers (snd st') = l /\
  (ci_nodup l -> RI (snd st')).
Proof.
  intros Hne Hnl. destruct l as [|x l]; [contradiction|]. cbn [sv_step]. unfold hd_set, str_header_value.
  rewrite Hnl. cbn [sv_after fst snd].
  assert (G : hd_get_key (hd_set_str h name (dump_list (x :: l))) name = Some (dump_list (x :: l)))
    by (apply hd_get_after_set; apply ci_eqb_refl).
  split; [exact G|]. unfold sv_parse. rewrite G.
  destruct (dump_list (x :: l)) as [|c s] eqn:E; [exfalso; apply (dump_list_nonempty (x :: l)); [discriminate|exact E]|].
  rewrite <- E, list_roundtrip. split; [reflexivity|apply RI_init].
Qed.

(* ================================================================== cache_control *)
Lemma ad_get_In {V} k (v : V) d : ad_get k d = Some v -> In (k, v) d.
Proof.
  induction d as [|[k0 v0] d IH]; cbn [ad_get]; [discriminate|]. destruct (list_eqb k k0) eqn:E.
  - intro H. inversion H; subst. apply list_eqb_eq in E. subst. left. reflexivity.
  - intro H. right. apply IH. exact H.
Qed.

Lemma ad_get_None {V} k (d : list (str * V)) : ad_get k d = None <-> ~ In k (map fst d).
Proof.
  induction d as [|[k0 v0] d IH]; cbn [ad_get map fst In]; [intuition|]. destruct (list_eqb k k0) eqn:E.
  - apply list_eqb_eq in E. subst. split; [discriminate|]. intro H. exfalso. apply H. left. reflexivity.
  - apply list_eqb_neq in E. rewrite IH. split; [intros H [A|A]; [congruence|contradiction]|intros H A; apply H; right; exact A].
Qed.

Lemma ad_set_keys {V} k (v : V) d : map fst (ad_set k v d) = if ad_mem k d then map fst d else map fst d ++ [k].
Proof.
  unfold ad_mem. induction d as [|[k0 v0] d IH]; cbn [ad_set ad_get map fst]; [reflexivity|].
  destruct (list_eqb k k0) eqn:E; cbn [map fst]; [reflexivity|]. rewrite IH. destruct (ad_get k d); reflexivity.
Qed.

Lemma ad_set_In {V} k (v : V) d x : In x (ad_set k v d) -> fst x = k \/ In x d.
Proof.
  induction d as [|[k0 v0] d IH]; cbn [ad_set In].
  - intros [A|[]]. left. subst. reflexivity.
  - destruct (list_eqb k k0) eqn:E; cbn [In].
    + apply list_eqb_eq in E. subst k0. intros [A|A]; [left; subst; reflexivity|right; right; exact A].
    + intros [A|A]; [right; left; exact A|]. destruct (IH A) as [B|B]; [left; exact B|right; right; exact B].
Qed.

Lemma cc_dom_set k v d : key_ok k = true -> cc_dom d -> cc_dom (ad_set k v d).
Proof.
  intros Hk [N F]. split.
  - rewrite ad_set_keys. unfold ad_mem. destruct (ad_get k d) eqn:E; [exact N|].
    apply NoDup_app_one; [exact N|apply ad_get_None; exact E].
  - apply Forall_forall. intros x Hx. destruct (ad_set_In _ _ _ _ Hx) as [A|A]; [rewrite A; exact Hk|].
    rewrite Forall_forall in F. apply F. exact A.
Qed.

Lemma cc_dom_filter (p : str * option str -> bool) d : cc_dom d -> cc_dom (filter p d).
Proof.
  intros [N F]. split.
  - clear F. induction d as [|a d IH]; cbn [filter map]; [constructor|]. inversion N; subst.
    destruct (p a); cbn [map]; [|apply IH; assumption]. constructor; [|apply IH; assumption].
    intro A. apply in_map_iff in A. destruct A as [x [E Hx]]. apply filter_In in Hx. destruct Hx as [Hx _].
    apply H1. rewrite <- E. apply in_map. exact Hx.
  - apply Forall_forall. intros x Hx. apply filter_In in Hx. rewrite Forall_forall in F. apply F. apply Hx.
Qed.

Lemma cc_dom_del k d : cc_dom d -> cc_dom (ad_del k d).
Proof. apply cc_dom_filter. Qed.

Lemma cc_dom_removelast d : cc_dom d -> cc_dom (removelast d).
Proof.
  intros [N F]. destruct d as [|a d] using rev_ind; [split; constructor|].
  rewrite removelast_last. rewrite map_app in N. split.
  - cbn [map] in N. apply NoDup_remove_1 in N. rewrite app_nil_r in N. exact N.
  - apply Forall_app in F. apply F.
Qed.

Lemma cc_dom_update l : forall d, Forall (fun kv => key_ok (fst kv) = true) l -> cc_dom d ->
  cc_dom (fold_left (fun d kv => ad_set (fst kv) (snd kv) d) l d).
Proof.
  induction l as [|[k v] l IH]; intros d F D; cbn [fold_left fst snd]; [exact D|].
  inversion F; subst. apply IH; [assumption|]. apply cc_dom_set; assumption.
Qed.

Lemma cc_dom_nil : cc_dom [].
Proof. split; constructor. Qed.

(* the keys of the typed properties (regenerated table) are in the codec's domain *)
Lemma prop_keys_ok : forallb (fun p => key_ok (fst (snd p))) cache_control_props = true.
Proof. vm_compute. reflexivity. Qed.

Lemma prop_lookup_In {A} attr (t : list (str * A)) x : prop_lookup attr t = Some x -> In (attr, x) t.
Proof.
  induction t as [|[a y] t IH]; cbn [prop_lookup]; [discriminate|]. destruct (list_eqb attr a) eqn:E.
  - intro H. inversion H; subst. apply list_eqb_eq in E. subst. left. reflexivity.
  - intro H. right. apply IH. exact H.
Qed.

Lemma prop_key_ok attr key e ty : prop_lookup attr cache_control_props = Some (key, (e, ty)) -> key_ok key = true.
Proof.
  intro H. apply prop_lookup_In in H. pose proof prop_keys_ok as P. rewrite forallb_forall in P.
  apply (P _ H).
Qed.

(* dict-level operations are in the domain when their keys are *)
Definition dop_ok (o : dop (option str)) : bool :=
  match o with
  | DSetItem k _ | DSetDefault k _ => key_ok k
  | DUpdate l => forallb (fun kv => key_ok (fst kv)) l
  | _ => true
  end.
Definition ccop_ok (o : ccop) : bool := match o with CCDict o => dop_ok o | _ => true end.

Lemma cc_step_dom d o : cc_dom d -> ccop_ok o = true ->
  cc_dom (fst (fst (cc_step d o))) /\ (snd (cc_step d o) = false -> fst (fst (cc_step d o)) = d).
Proof.
  intros D Hok. destruct o as [attr v|attr|o]; cbn [cc_step].
  - destruct (prop_lookup attr cache_control_props) as [[key [e ty]]|] eqn:L; [|split; [exact D|reflexivity]].
    pose proof (prop_key_ok _ _ _ _ L) as Hk. destruct (cc_set_action ty v).
    + cbn [fst snd]. split; [apply cc_dom_set; assumption|discriminate].
    + destruct (ad_mem key d); cbn [fst snd]; split; try (apply cc_dom_del; exact D); try exact D; try discriminate; reflexivity.
    + destruct (cc_store_text ty v); cbn [fst snd]; split; try (apply cc_dom_set; assumption); try exact D; try discriminate; reflexivity.
  - destruct (prop_lookup attr cache_control_props) as [[key [e ty]]|]; [|split; [exact D|reflexivity]].
    destruct (ad_mem key d); cbn [fst snd]; split; try (apply cc_dom_del; exact D); try exact D; try discriminate; reflexivity.
  - cbn [ccop_ok] in Hok. destruct o as [k v|k|k|k dv| |k v| |l]; cbn [d_step dop_ok] in *.
    + split; [apply cc_dom_set; assumption|discriminate].
    + destruct (ad_mem k d); cbn [fst snd]; split; try (apply cc_dom_del; exact D); try exact D; try discriminate; reflexivity.
    + destruct (ad_get k d); cbn [fst snd]; split; try (apply cc_dom_del; exact D); try exact D; try discriminate; reflexivity.
    + destruct (ad_get k d); cbn [fst snd]; split; try (apply cc_dom_del; exact D); try exact D; try discriminate; reflexivity.
    + split; [apply cc_dom_nil|discriminate].
    + destruct (ad_get k d) eqn:E; cbn [fst snd]; split; try exact D; try discriminate; try reflexivity.
      rewrite <- (ad_set_fresh k v d) by (apply ad_get_None; exact E). apply cc_dom_set; assumption.
    + destruct (rev d) as [|[k v] ?]; cbn [fst snd]; split; try (apply cc_dom_removelast; exact D); try exact D; try discriminate; reflexivity.
    + split; [|discriminate]. apply cc_dom_update; [|exact D]. apply Forall_forall. intros x Hx.
      rewrite forallb_forall in Hok. apply Hok. exact Hx.
Qed.

Definition cc_coh (st : headers * cdict) : Prop := cc_dom (snd st) /\ cc_parse (fst st) = Some (snd st).
Definition cc_serial (st : headers * cdict) : Prop :=
  hd_get_key (fst st) cache_control_lc = if nonempty (snd st) then Some (dump_dict (snd st)) else None.

Lemma cc_names_ci : ci_eqb CACHE_CONTROL cache_control_lc = true /\ ci_eqb cache_control_lc cache_control_lc = true.
Proof. split; vm_compute; reflexivity. Qed.

Theorem cc_step_coherent h d o :
  cc_coh (h, d) -> ccop_ok o = true ->
  let d' := fst (fst (cc_step d o)) in
  has_newline (dump_dict d') = true \/
  (cc_coh (fst (ccr_step (h, d) o)) /\
   (snd (cc_step d o) = true -> cc_serial (fst (ccr_step (h, d) o))) /\
   (snd (cc_step d o) = false -> fst (ccr_step (h, d) o) = (h, d))).
Proof.
  intros [D P] Hok. cbn [fst snd] in D, P. cbv zeta. cbn [ccr_step].
  destruct (cc_step_dom d o D Hok) as [D' Hun].
  destruct (cc_step d o) as [[d' r] fired]. cbn [fst snd] in *.
  destruct (has_newline (dump_dict d')) eqn:Hn; [left; reflexivity|right].
  destruct fired.
  - unfold cache_control_cb, apply_cb. destruct (nonempty d') eqn:Hb; cbn [negb andb].
    + unfold hd_set, str_header_value. rewrite Hn. cbn [fst snd].
      assert (G : hd_get_key (hd_set_str h CACHE_CONTROL (dump_dict d')) cache_control_lc = Some (dump_dict d'))
        by (apply hd_get_after_set; apply cc_names_ci).
      destruct (hd_contains h cache_control_lc); cbn [fst snd];
        (split; [|split; [|discriminate]];
         [split; [exact D'|]; cbn [fst snd]; unfold cc_parse; rewrite G;
          destruct (dump_dict d') as [|c s] eqn:E;
            [exfalso; apply (dump_dict_nonempty d'); [destruct d'; [discriminate|discriminate]|apply D'|exact E]|];
          rewrite <- E; apply dict_roundtrip; exact D'
         |intros _; unfold cc_serial; cbn [fst snd]; rewrite Hb; exact G]).
    + destruct d' as [|? ?]; [|discriminate].
      assert (G : hd_get_key (if hd_contains h cache_control_lc then hd_del_key h cache_control_lc else h) cache_control_lc = None).
      { destruct (hd_contains h cache_control_lc) eqn:C; [apply hd_get_after_del; apply cc_names_ci|apply hd_get_absent; exact C]. }
      destruct (hd_contains h cache_control_lc) eqn:C; cbn [fst snd];
        (split; [|split; [|discriminate]];
         [split; [exact D'|]; cbn [fst snd]; unfold cc_parse; rewrite G; reflexivity
         |intros _; unfold cc_serial; cbn [fst snd nonempty]; exact G]).
  - rewrite (Hun eq_refl). cbn [fst snd]. split; [split; [exact D|exact P]|]. split; [discriminate|reflexivity].
Qed.

(* lifted to sequences *)
Fixpoint cc_exec (st : headers * cdict) (ops : list ccop) : option (headers * cdict) :=
  match ops with
  | [] => Some st
  | o :: r => if has_newline (dump_dict (fst (fst (cc_step (snd st) o)))) then None
              else cc_exec (fst (ccr_step st o)) r
  end.

Theorem cc_seq_coherent ops : forall st st',
  cc_coh st -> forallb ccop_ok ops = true -> cc_exec st ops = Some st' ->
  cc_coh st' /\ (cc_serial st' \/ st' = st).
Proof.
  induction ops as [|o ops IH]; intros st st' Hc Hok He; cbn [cc_exec forallb] in *.
  - inversion He; subst. split; [exact Hc|right; reflexivity].
  - apply andb_prop in Hok. destruct Hok as [Ho Hr]. destruct st as [h d]. cbn [snd] in He.
    destruct (cc_step_coherent h d o Hc Ho) as [E|(C1 & F1 & F2)]; cbv zeta in *.
    + rewrite E in He. discriminate.
    + destruct (has_newline (dump_dict (fst (fst (cc_step d o))))); [discriminate|].
      destruct (IH _ _ C1 Hr He) as [C2 [S|S]].
      * split; [exact C2|left; exact S].
      * split; [exact C2|]. destruct (snd (cc_step d o)) eqn:Fd.
        -- left. rewrite S. apply F1. reflexivity.
        -- right. rewrite S. apply F2. reflexivity.
Qed.

(* ================================================================== typed properties: assign, then read back *)
Lemma ad_get_set {V} k (v : V) k' d : ad_get k' (ad_set k v d) = if list_eqb k k' then Some v else ad_get k' d.
Proof.
  induction d as [|[k0 v0] d IH]; cbn [ad_set ad_get].
  - rewrite (list_eqb_sym k' k). destruct (list_eqb k k'); reflexivity.
  - destruct (list_eqb k k0) eqn:E; cbn [ad_get].
    + apply list_eqb_eq in E. subst k0. rewrite (list_eqb_sym k' k). destruct (list_eqb k k'); reflexivity.
    + destruct (list_eqb k' k0) eqn:E2; [|exact IH]. apply list_eqb_eq in E2. subst k0. rewrite E. reflexivity.
Qed.

Lemma ad_get_del {V} k k' (d : list (str * V)) : ad_get k' (ad_del k d) = if list_eqb k k' then None else ad_get k' d.
Proof.
  unfold ad_del. induction d as [|[k0 v0] d IH]; cbn [filter ad_get fst]; [destruct (list_eqb k k'); reflexivity|].
  destruct (list_eqb k k0) eqn:E; cbn [negb ad_get].
  - rewrite IH. apply list_eqb_eq in E. subst k0. rewrite (list_eqb_sym k' k). destruct (list_eqb k k'); reflexivity.
  - destruct (list_eqb k' k0) eqn:E2; [|exact IH]. apply list_eqb_eq in E2. subst k0. rewrite E. reflexivity.
Qed.

(* the value read back after assigning v to a typed property, in its documented normal form *)
Definition cc_normal (empty_true : bool) (ty : cctype) (v : ccval) : out :=
  match ty with
  | TBool => OBool (ccv_truthy v)
  | _ =>
      match v with
      | CVNone | CVFalse => ONone
      | CVTrue => if empty_true then OBool true else ONone
      | CVInt z => match ty with TInt => OInt z | _ => OStr (dec_of_Z z) end
      | CVStr s => match ty with
                   | TInt => match parse_dec s with Some z => OInt z | None => ONone end
                   | _ => OStr s
                   end
      end
  end.

Theorem cc_assign_read d attr key e ty v :
  prop_lookup attr cache_control_props = Some (key, (e, ty)) ->
  snd (fst (cc_step d (CCSetAttr attr v))) = Ok ONone ->
  cc_get (fst (fst (cc_step d (CCSetAttr attr v)))) attr = cc_normal e ty v.
Proof.
  intros L. unfold cc_get. cbn [cc_step]. rewrite L.
  assert (Hdel : forall d0 : cdict, ad_get key (ad_del key d0) = None /\ ad_mem key (ad_del key d0) = false).
  { intro d0. unfold ad_mem. rewrite ad_get_del, list_eqb_refl. split; reflexivity. }
  assert (Hset : forall (x : option str) (d0 : cdict), ad_get key (ad_set key x d0) = Some x /\ ad_mem key (ad_set key x d0) = true).
  { intros x d0. unfold ad_mem. rewrite ad_get_set, list_eqb_refl. split; reflexivity. }
  destruct ty; destruct v as [| | |z|s]; cbn [cc_set_action cct_is_bool ccv_truthy ccv_is_none ccv_is_false ccv_is_true orb cc_normal];
    unfold cc_set_action; cbn [cct_is_bool ccv_truthy ccv_is_none ccv_is_false ccv_is_true orb];
    try (destruct (ad_mem key d) eqn:M; cbn [fst snd]; intros _;
         [try rewrite (proj1 (Hdel d)); try rewrite (proj2 (Hdel d)); reflexivity
         |unfold ad_mem in M |- *; destruct (ad_get key d); [discriminate|reflexivity]]);
    try (cbn [fst snd]; intros _; try rewrite (proj1 (Hset _ d)); try rewrite (proj2 (Hset _ d)); destruct e; reflexivity).
  - destruct (negb (z =? 0)%Z); cbn [fst snd].
    + intros _. rewrite (proj2 (Hset _ d)). reflexivity.
    + destruct (ad_mem key d) eqn:M; cbn [fst snd]; intros _; [rewrite (proj2 (Hdel d)); reflexivity|rewrite M; reflexivity].
  - destruct s; cbn [fst snd].
    + destruct (ad_mem key d) eqn:M; cbn [fst snd]; intros _; [rewrite (proj2 (Hdel d)); reflexivity|rewrite M; reflexivity].
    + intros _. rewrite (proj2 (Hset _ d)). reflexivity.
  - cbn [cc_store_text fst snd]. intros _. rewrite (proj1 (Hset _ d)), parse_dec_of_Z. reflexivity.
  - cbn [cc_store_text]. destruct (parse_dec s) as [z|] eqn:P; cbn [fst snd]; [|discriminate].
    intros _. rewrite (proj1 (Hset _ d)), parse_dec_of_Z. reflexivity.
  - cbn [cc_store_text fst snd]. intros _. rewrite (proj1 (Hset _ d)). reflexivity.
  - cbn [cc_store_text fst snd]. intros _. rewrite (proj1 (Hset _ d)). reflexivity.
Qed.

(* integer header_property pairs (content_length, access_control_max_age): str on the way in, int on the way out *)
Theorem int_prop_roundtrip h name z : int_prop_get (int_prop_set h name z) name = OInt z.
Proof.
  unfold int_prop_get, int_prop_set. rewrite hd_get_after_set by apply ci_eqb_refl. rewrite parse_dec_of_Z. reflexivity.
Qed.

(* every dict mutator notifies: always, or whenever it modified the dict (regenerated tables) *)
Theorem notification_tables :
  forallb (fun m => smem m update_dict_always || smem m update_dict_if_modified) dict_mutators = true.
Proof. vm_compute. reflexivity. Qed.
