(* C16 proofs, part 6: date-valued scalar properties over a date contract; www_authenticate list assignment. *)
From Coq Require Import ZArith Lia.
From Wz Require Import lib.Bytes lib.BytesFacts C08.LibStr C08.LibStrFacts C08.Gen C08.Model C08.Spec C08.Proofs
  C16.Base C16.Gen C16.Model C16.ProofsCodec C16.Proofs C16.ProofsCSP.
Open Scope N_scope.

Section DateContract.
  Variable instant : Type.
  Variable http_date : instant -> str.
  Variable parse_date : str -> option instant.
  (* the same instant at one-second resolution, as a timezone-aware UTC value *)
  Variable second : instant -> instant.
  (* contract of email.utils.format_datetime / parsedate_to_datetime and datetime's time-zone arithmetic, validated
     against the real functions by the harness: the text has no CR / LF and parses back to the instant truncated
     to the second *)
  Hypothesis date_roundtrip : forall t, parse_date (http_date t) = Some (second t).
  Hypothesis date_clean : forall t, has_newline (http_date t) = false.

  Theorem date_assign_read h name t :
    snd (date_prop_set instant http_date h name t) = None /\
    hd_get_key (fst (date_prop_set instant http_date h name t)) name = Some (http_date t) /\
    date_prop_get instant parse_date (fst (date_prop_set instant http_date h name t)) name = Some (second t).
  Proof.
    unfold date_prop_set, date_prop_get, hd_set, str_header_value. rewrite date_clean. cbn [fst snd].
    rewrite hd_get_after_set by apply ci_eqb_refl. split; [reflexivity|]. split; [reflexivity|apply date_roundtrip].
  Qed.
End DateContract.

(* ------------------------------------------------------------------ www_authenticate list assignment *)
Lemma hd_add_all_strs k : forall vs h,
  existsb has_newline vs = false -> hd_add_all h k (map VStr vs) = (h ++ map (fun v => (k, v)) vs, None).
Proof.
  induction vs as [|v vs IH]; intros h H; cbn [map hd_add_all]; [rewrite app_nil_r; reflexivity|].
  cbn [existsb] in H. apply orb_false_iff in H. destruct H as [Hv Hr].
  unfold hd_add, str_header_value. rewrite Hv. cbn [hseq]. rewrite (IH _ Hr), <- app_assoc. reflexivity.
Qed.

Theorem wa_list_assign h w ws :
  existsb has_newline (map wa_to_header (w :: ws)) = false ->
  snd (wa_assign_list h (w :: ws)) = None /\
  hd_getlist (fst (wa_assign_list h (w :: ws))) WWW_AUTH = map wa_to_header (w :: ws).
Proof.
  cbn [map existsb]. intro H. apply orb_false_iff in H. destruct H as [Hw Hr].
  cbn [wa_assign_list]. unfold hd_set, str_header_value. rewrite Hw. cbn [hseq].
  rewrite <- (map_map wa_to_header VStr ws), (hd_add_all_strs WWW_AUTH _ _ Hr). cbn [fst snd]. split; [reflexivity|].
  rewrite hd_getlist_app. destruct (hd_set_law h WWW_AUTH (wa_to_header w)) as (A & _). rewrite A.
  cbn [app]. f_equal. apply hd_getlist_same_key.
Qed.

(* ------------------------------------------------------------------ mimetype_params: a held view *)
(* the media type of a Content-Type text written by dump_options_header is the media type it was given *)
Lemma mimetype_of_dump h mt d :
  cval_ok mt = true -> hd_get_key h CONTENT_TYPE = Some (dump_options (Some mt) d) -> mimetype_of h = Some mt.
Proof.
  intros Hm G. unfold mimetype_of. rewrite G. pose proof (strip_val mt Hm) as Hs.
  assert (Hn : forallb (fun c => negb (c =? SEMI)) mt = true).
  { unfold cval_ok in Hm. destruct mt as [|a r]; [discriminate|]. apply andb_prop in Hm. apply Hm. }
  unfold dump_options. cbn [app]. destruct (map options_item d) as [|x l] eqn:E.
  - cbn [join]. destruct mt as [|a r] eqn:Em; [discriminate|]. rewrite <- Em in *. rewrite (split_on_nosep SEMI mt Hn). cbn [hd].
    rewrite Hs. destruct mt; [discriminate|reflexivity].
  - change (join [SEMI; SP] (mt :: x :: l)) with (mt ++ [SEMI; SP] ++ join [SEMI; SP] (x :: l)).
    destruct (mt ++ [SEMI; SP] ++ join [SEMI; SP] (x :: l)) as [|c0 t0] eqn:E0; [destruct mt; discriminate|]. rewrite <- E0.
    change (mt ++ [SEMI; SP] ++ join [SEMI; SP] (x :: l)) with (mt ++ SEMI :: (SP :: join [SEMI; SP] (x :: l))).
    rewrite (split_on_app SEMI mt _ Hn). cbn [hd]. rewrite Hs. reflexivity.
Qed.

(* whatever happened to the Content-Type header since the view was taken (response.mimetype = ..., response.content_type
   = ..., a direct edit), a notifying operation on the held view writes its parameters next to the media type the
   response has at that moment, and keeps that media type *)
Theorem mp_step_coherent h d o mt :
  mimetype_of h = Some mt -> cval_ok mt = true ->
  snd (d_step OStr d o) = true ->
  has_newline (dump_options (Some mt) (fst (fst (d_step OStr d o)))) = false ->
  let st' := fst (mp_step (h, d) o) in
  snd st' = fst (fst (d_step OStr d o)) /\
  hd_get_key (fst st') CONTENT_TYPE = Some (dump_options (Some mt) (snd st')) /\
  mimetype_of (fst st') = Some mt.
Proof.
  intros Hm Hok F N. cbv zeta. cbn [mp_step]. destruct (d_step OStr d o) as [[d' r] fired]. cbn [fst snd] in *. subst fired.
  rewrite Hm. unfold hd_set, str_header_value. rewrite N. cbn [fst snd].
  assert (G : hd_get_key (hd_set_str h CONTENT_TYPE (dump_options (Some mt) d')) CONTENT_TYPE = Some (dump_options (Some mt) d'))
    by (apply hd_get_after_set; apply ci_eqb_refl).
  split; [reflexivity|]. split; [exact G|]. apply (mimetype_of_dump _ mt d' Hok G).
Qed.

(* re-reading the property: http.parse_options_header is a parameter with the round-trip contract of property C06
   on a domain of parameter dicts; under it the re-read parameters are the held view's *)
Section OptionsContract.
  Variable parse_options : str -> str * sdict.
  Variable opt_dom : sdict -> Prop.
  Hypothesis options_roundtrip : forall mt d, cval_ok mt = true -> opt_dom d -> parse_options (dump_options (Some mt) d) = (mt, d).

  Theorem mp_reread h d o mt :
    mimetype_of h = Some mt -> cval_ok mt = true -> snd (d_step OStr d o) = true ->
    has_newline (dump_options (Some mt) (fst (fst (d_step OStr d o)))) = false ->
    opt_dom (fst (fst (d_step OStr d o))) ->
    let st' := fst (mp_step (h, d) o) in
    option_map parse_options (hd_get_key (fst st') CONTENT_TYPE) = Some (mt, snd st').
  Proof.
    intros Hm Hok F N D. cbv zeta. destruct (mp_step_coherent h d o mt Hm Hok F N) as (A & B & _).
    rewrite B. cbn [option_map]. rewrite A, options_roundtrip by assumption. reflexivity.
  Qed.
End OptionsContract.

(* ------------------------------------------------------------------ header_property pairs over the regenerated table *)
(* the value read back after assigning v, in its normal form *)
Definition hp_normal (c : hcodec) (v : pval) : out :=
  match c, v with
  | CStr, PStr s => OStr s
  | CInt, PInt z | CAge, PInt z => OInt z
  | CSet, PList l => OList l
  | _, _ => OErr TypeError
  end.

Theorem hp_assign_read h attr name c v text :
  prop_lookup attr header_props = Some (name, c) -> hp_dump c v = Some text -> has_newline text = false ->
  snd (hp_set h attr v) = None /\
  hp_text (fst (hp_set h attr v)) attr = OStr text /\
  hp_get (fst (hp_set h attr v)) attr = hp_normal c v /\
  hp_get (hp_del (fst (hp_set h attr v)) attr) attr = ONone /\ hp_text (hp_del (fst (hp_set h attr v)) attr) attr = ONone.
Proof.
  intros L D N. unfold hp_set, hp_get, hp_del, hp_text, header_text. rewrite L, D. unfold hd_set, str_header_value. rewrite N. cbn [fst snd].
  rewrite hd_get_after_set by apply ci_eqb_refl. rewrite hd_get_after_del by apply ci_eqb_refl.
  split; [reflexivity|]. split; [reflexivity|]. split; [|split; reflexivity].
  destruct c; destruct v as [s|z|l]; cbn [hp_dump] in D; try discriminate; cbn [hp_load hp_normal].
  - inversion D; subst. reflexivity.
  - inversion D; subst. rewrite parse_dec_of_Z. reflexivity.
  - destruct (z <? 0)%Z eqn:Z0; [discriminate|]. inversion D; subst. pose proof (parse_dec_of_Z z) as P.
    destruct (dec_of_Z z) as [|c0 r] eqn:E; [cbn in P; discriminate|]. rewrite P, Z0. reflexivity.
  - inversion D; subst. destruct (dump_list l) as [|c0 r] eqn:E.
    + destruct l as [|x l']; [reflexivity|]. exfalso. apply (dump_list_nonempty (x :: l')); [discriminate|exact E].
    + rewrite <- E, list_roundtrip. reflexivity.
Qed.

(* which entries of the regenerated table the theorem covers: every str / int / age / set-valued property; the
   date-valued ones are covered by C16_date_assign_read, the enum-valued ones are judged by the harness only *)
Definition codec_modelled (c : hcodec) : bool := match c with CStr | CInt | CAge | CSet => true | _ => false end.
Theorem hp_table_coverage :
  map (fun p => fst p) (filter (fun p => negb (codec_modelled (snd (snd p)))) header_props)
  = [[100; 97; 116; 101]; [101; 120; 112; 105; 114; 101; 115]; [108; 97; 115; 116; 95; 109; 111; 100; 105; 102; 105; 101; 100];
     [99; 114; 111; 115; 115; 95; 111; 114; 105; 103; 105; 110; 95; 111; 112; 101; 110; 101; 114; 95; 112; 111; 108; 105; 99; 121];
     [99; 114; 111; 115; 115; 95; 111; 114; 105; 103; 105; 110; 95; 101; 109; 98; 101; 100; 100; 101; 114; 95; 112; 111; 108; 105; 99; 121]]
  /\ forallb (fun p => match snd (snd p) with CDate | CEnum => true | c => codec_modelled c end) header_props = true.
Proof. split; vm_compute; reflexivity. Qed.
