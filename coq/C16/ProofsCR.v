(* C16 proofs, part 4: Content-Range codec and view coherence. *)
From Coq Require Import ZArith Lia ZifyBool ZifyN.
From Wz Require Import lib.Bytes lib.BytesFacts C08.LibStr C08.LibStrFacts C08.Gen C08.Model C08.Spec C08.Proofs
  C16.Base C16.Gen C16.Model C16.ProofsCodec C16.Proofs.
Open Scope N_scope.

(* ------------------------------------------------------------------ decimal text of a non-negative integer *)
Definition all_digits (s : str) : bool := forallb is_digit s.

Lemma dec_go_digits_only f : forall n acc, all_digits acc = true -> all_digits (dec_go f n acc) = true.
Proof.
  induction f as [|f IH]; intros n acc Ha; cbn [dec_go]; [exact Ha|].
  assert (Hm : n mod 10 < 10) by (apply N.mod_lt; lia).
  assert (Ha' : all_digits ((48 + n mod 10) :: acc) = true).
  { unfold all_digits in *. cbn [forallb]. rewrite Ha. unfold is_digit. lia. }
  destruct (n / 10 =? 0); [exact Ha'|apply IH; exact Ha'].
Qed.

Lemma dec_nonneg z : (0 <= z)%Z -> all_digits (dec_of_Z z) = true /\ dec_of_Z z <> [].
Proof.
  intro H. assert (E : dec_of_Z z = dec_of_N (Z.to_N z)) by (destruct z; [reflexivity|reflexivity|lia]).
  rewrite E. split; [apply dec_go_digits_only; reflexivity|].
  pose proof (dec_of_N_head (Z.to_N z)) as Hh. destruct (dec_of_N (Z.to_N z)); [contradiction|discriminate].
Qed.

Lemma digit_facts c : is_digit c = true ->
  uni_ws c = false /\ (SLASH =? c) = false /\ (DASH =? c) = false /\ (c =? STAR) = false.
Proof. unfold is_digit, uni_ws, SLASH, DASH, STAR. intro H. repeat split; lia. Qed.

Lemma digits_forall (P : N -> bool) s : (forall c, is_digit c = true -> P c = true) -> all_digits s = true -> forallb P s = true.
Proof. intros HP H. apply (forallb_impl is_digit); assumption. Qed.

Lemma digits_strip s : all_digits s = true -> strip uni_ws s = s.
Proof.
  intro H. apply strip_none. apply (digits_forall _ s); [|exact H]. intros c Hc.
  destruct (digit_facts c Hc) as [W _]. rewrite W. reflexivity.
Qed.

Lemma plain_int_dec z : (0 <= z)%Z -> plain_int (dec_of_Z z) = Some z.
Proof.
  intro H. unfold plain_int. destruct (dec_nonneg z H) as [D _]. rewrite (digits_strip _ D). apply parse_dec_of_Z.
Qed.

Lemma digits_not_star s : all_digits s = true -> s <> [] -> list_eqb s [STAR] = false.
Proof.
  intros H Hn. destruct s as [|c r]; [contradiction|]. cbn [all_digits forallb] in H. apply andb_prop in H. destruct H as [Hc _].
  destruct (digit_facts c Hc) as (_ & _ & _ & S). cbn [list_eqb]. rewrite S. reflexivity.
Qed.

(* ------------------------------------------------------------------ the domain of the codec *)
Definition units_ok (u : str) : bool := nonempty u && forallb (fun c => negb (uni_ws c)) u.
Definition cr_dom (c : crange) : Prop :=
  match cr_units c with
  | None => True
  | Some u => units_ok u = true /\ byte_range_valid (cr_start c) (cr_stop c) (cr_length c) = true
  end.

Definition len_text (l : option Z) : str := match l with None => [STAR] | Some x => dec_of_Z x end.

Lemma len_parse l : (match l with Some x => (0 <= x)%Z | None => True end) ->
  (if list_eqb (len_text l) [STAR] then Some None
   else match plain_int (len_text l) with Some x => Some (Some x) | None => None end) = Some l.
Proof.
  destruct l as [x|]; cbn [len_text]; intro H; [|reflexivity].
  destruct (dec_nonneg x H) as [D N]. rewrite (digits_not_star _ D N), (plain_int_dec x H). reflexivity.
Qed.

Lemma len_text_facts l : (match l with Some x => (0 <= x)%Z | None => True end) ->
  forallb (fun c => negb (uni_ws c)) (len_text l) = true /\ len_text l <> [].
Proof.
  destruct l as [x|]; cbn [len_text]; intro H; [|split; [reflexivity|discriminate]].
  destruct (dec_nonneg x H) as [D N]. split; [|exact N]. apply (digits_forall _ _); [|exact D].
  intros c Hc. destruct (digit_facts c Hc) as [W _]. rewrite W. reflexivity.
Qed.

(* splitting units-space-rest where units has no white space and rest neither starts nor ends with one *)
Lemma split_units u rest :
  units_ok u = true -> rest <> [] -> forallb (fun c => negb (uni_ws c)) rest = true ->
  split_ws1 (strip uni_ws (u ++ SP :: rest)) = Some (u, rest).
Proof.
  intros Hu Hr Hw. unfold units_ok in Hu. apply andb_prop in Hu. destruct Hu as [Hn Hu].
  assert (Hs : strip uni_ws (u ++ SP :: rest) = u ++ SP :: rest).
  { destruct u as [|a u']; [discriminate|]. destruct (exists_last Hr) as [m [z Ez]].
    cbn [forallb] in Hu. apply andb_prop in Hu. destruct Hu as [Wa _]. apply negb_true_iff in Wa.
    rewrite Ez in Hw. rewrite forallb_app in Hw. apply andb_prop in Hw. destruct Hw as [_ Wz]. cbn [forallb] in Wz.
    apply andb_prop in Wz. destruct Wz as [Wz _]. apply negb_true_iff in Wz.
    rewrite Ez. replace ((a :: u') ++ SP :: m ++ [z]) with (a :: (u' ++ SP :: m) ++ [z]) by (cbn [app]; rewrite <- app_assoc; reflexivity).
    apply strip_ends; assumption. }
  rewrite Hs. unfold split_ws1.
  rewrite (take_while_app_stop (fun c => negb (uni_ws c)) u SP rest Hu eq_refl).
  rewrite (drop_while_app_stop (fun c => negb (uni_ws c)) u SP rest Hu eq_refl).
  cbn [drop_while]. change (uni_ws SP) with true. cbv iota.
  destruct rest as [|b rest']; [contradiction|]. cbn [forallb] in Hw. apply andb_prop in Hw. destruct Hw as [Wb _].
  apply negb_true_iff in Wb. cbn [drop_while]. rewrite Wb. destruct u; [discriminate|reflexivity].
Qed.

Theorem cr_roundtrip c u :
  cr_dom c -> cr_units c = Some u ->
  exists text, cr_to_header c = Ok text /\ parse_content_range (Some text) = Some c.
Proof.
  unfold cr_dom. intros D Eu. rewrite Eu in D. destruct D as [Hu Hv]. destruct c as [cu cs ce cl]. cbn [cr_units cr_start cr_stop cr_length] in *. subst cu.
  unfold cr_to_header. cbn [cr_units cr_start cr_stop cr_length]. fold (len_text cl).
  destruct cs as [s|]; destruct ce as [e|]; try discriminate.
  - (* a range *)
    assert (Hs : (0 <= s)%Z /\ (s < e)%Z /\ match cl with Some x => (0 <= x)%Z | None => True end).
    { unfold byte_range_valid in Hv. destruct cl as [l|]; [destruct (e <=? s)%Z eqn:E; [discriminate|]|]; lia. }
    destruct Hs as (Hs0 & Hse & Hl).
    destruct (dec_nonneg s Hs0) as [Ds Ns]. destruct (dec_nonneg (e - 1) ltac:(lia)) as [De Ne].
    destruct (len_text_facts cl Hl) as [Wl Nl].
    eexists. split; [reflexivity|]. unfold parse_content_range.
    set (rest := dec_of_Z s ++ [DASH] ++ dec_of_Z (e - 1) ++ [SLASH] ++ len_text cl).
    change (u ++ [SP] ++ rest) with (u ++ SP :: rest).
    assert (Wr : forallb (fun c => negb (uni_ws c)) rest = true).
    { unfold rest. rewrite !forallb_app, Wl. cbn [forallb]. change (uni_ws DASH) with false. change (uni_ws SLASH) with false. cbn [negb andb].
      rewrite (digits_forall (fun c => negb (uni_ws c)) _ ltac:(intros c Hc; destruct (digit_facts c Hc) as [W _]; rewrite W; reflexivity) Ds).
      rewrite (digits_forall (fun c => negb (uni_ws c)) _ ltac:(intros c Hc; destruct (digit_facts c Hc) as [W _]; rewrite W; reflexivity) De).
      reflexivity. }
    rewrite (split_units u rest Hu ltac:(unfold rest; destruct (dec_of_Z s); [contradiction|discriminate]) Wr).
    unfold rest. 
    replace (dec_of_Z s ++ [DASH] ++ dec_of_Z (e - 1) ++ [SLASH] ++ len_text cl)
      with ((dec_of_Z s ++ [DASH] ++ dec_of_Z (e - 1)) ++ SLASH :: len_text cl) by (rewrite <- !app_assoc; reflexivity).
    rewrite partition1_app_stop.
    2:{ rewrite !forallb_app. cbn [forallb]. change (SLASH =? DASH) with false. cbn [negb andb].
        rewrite (digits_forall (fun c => negb (SLASH =? c)) _ ltac:(intros c Hc; destruct (digit_facts c Hc) as (_ & W & _); rewrite W; reflexivity) Ds).
        rewrite (digits_forall (fun c => negb (SLASH =? c)) _ ltac:(intros c Hc; destruct (digit_facts c Hc) as (_ & W & _); rewrite W; reflexivity) De).
        reflexivity. }
    rewrite (len_parse cl Hl).
    assert (Hns : list_eqb (dec_of_Z s ++ [DASH] ++ dec_of_Z (e - 1)) [STAR] = false).
    { destruct (dec_of_Z s) as [|c r] eqn:E; [contradiction|]. cbn [all_digits forallb] in Ds. apply andb_prop in Ds. destruct Ds as [Hc _].
      destruct (digit_facts c Hc) as (_ & _ & _ & S). cbn [app list_eqb]. rewrite S. reflexivity. }
    rewrite Hns. cbn [app]. rewrite partition1_app_stop.
    2:{ apply (digits_forall _ _); [|exact Ds]. intros c Hc. destruct (digit_facts c Hc) as (_ & _ & W & _). rewrite W. reflexivity. }
    rewrite (plain_int_dec s Hs0), (plain_int_dec (e - 1) ltac:(lia)).
    replace (e - 1 + 1)%Z with e by lia. rewrite Hv. reflexivity.
  - (* unsatisfiable range: bytes */length *)
    assert (Hl : match cl with Some x => (0 <= x)%Z | None => True end) by (unfold byte_range_valid in Hv; destruct cl; [lia|exact I]).
    destruct (len_text_facts cl Hl) as [Wl Nl].
    eexists. split; [reflexivity|]. unfold parse_content_range.
    replace (u ++ [SP; STAR; SLASH] ++ len_text cl) with (u ++ SP :: (STAR :: SLASH :: len_text cl)) by reflexivity.
    rewrite (split_units u (STAR :: SLASH :: len_text cl) Hu ltac:(discriminate)) by (cbn [forallb]; rewrite Wl; reflexivity).
    change (STAR :: SLASH :: len_text cl) with ([STAR] ++ SLASH :: len_text cl). rewrite partition1_app_stop by reflexivity.
    rewrite (len_parse cl Hl). change (list_eqb [STAR] [STAR]) with true. cbv iota. rewrite Hv. reflexivity.
Qed.

(* ------------------------------------------------------------------ view coherence *)
Lemma cr_text_clean c text : cr_dom c -> cr_to_header c = Ok text -> has_newline text = false.
Proof.
  intros D E. unfold cr_to_header in E. unfold cr_dom in D. destruct (cr_units c) as [u|]; [|inversion E; reflexivity].
  destruct D as [Hu Hv]. unfold units_ok in Hu. apply andb_prop in Hu. destruct Hu as [_ Hu].
  assert (P : forall c, negb (uni_ws c) = true -> in_ranges c newline_class = false).
  { intros x Hx. destruct (in_ranges x newline_class) eqn:R; [|reflexivity]. exfalso.
    assert (Hb : x < 128) by (apply (in_ranges_bound newline_class 128 x); [vm_compute; reflexivity|exact R]).
    pose proof (sweep128 (fun c => implb (in_ranges c newline_class) (uni_ws c)) ltac:(vm_compute; reflexivity) x Hb) as S.
    cbv beta in S. rewrite R in S. cbn [implb] in S. rewrite S in Hx. discriminate. }
  assert (Q : forall s, forallb (fun c => negb (uni_ws c)) s = true -> has_newline s = false).
  { intros s Hs. unfold has_newline. apply not_true_is_false. intro A. apply existsb_exists in A. destruct A as [x [Hx R]].
    rewrite forallb_forall in Hs. rewrite (P x (Hs x Hx)) in R. discriminate. }
  assert (A : forall a b, has_newline (a ++ b) = has_newline a || has_newline b) by (intros; unfold has_newline; apply existsb_app).
  assert (Dg : forall z, has_newline (dec_of_Z z) = false).
  { intro z. unfold has_newline. apply not_true_is_false. intro X. apply existsb_exists in X. destruct X as [x [Hx R]].
    assert (Hb : x < 128) by (apply (in_ranges_bound newline_class 128 x); [vm_compute; reflexivity|exact R]).
    assert (Hd : x = 45 \/ 48 <= x <= 57).
    { unfold dec_of_Z in Hx. destruct z as [|p|p].
      - right. pose proof (dec_go_digits_only (S (N.size_nat (Z.to_N 0))) (Z.to_N 0) [] eq_refl) as G. unfold all_digits in G.
        rewrite forallb_forall in G. specialize (G x Hx). unfold is_digit in G. lia.
      - right. pose proof (dec_go_digits_only (S (N.size_nat (Z.to_N (Z.pos p)))) (Z.to_N (Z.pos p)) [] eq_refl) as G. unfold all_digits in G.
        rewrite forallb_forall in G. specialize (G x Hx). unfold is_digit in G. lia.
      - destruct Hx as [Hx|Hx]; [left; lia|right].
        pose proof (dec_go_digits_only (S (N.size_nat (N.pos p))) (N.pos p) [] eq_refl) as G. unfold all_digits in G.
        rewrite forallb_forall in G. specialize (G x Hx). unfold is_digit in G. lia. }
    pose proof (sweep128 (fun c => implb (in_ranges c newline_class) (negb ((c =? 45) || ((48 <=? c) && (c <=? 57)))))
                  ltac:(vm_compute; reflexivity) x Hb) as S.
    cbv beta in S. rewrite R in S. cbn [implb] in S. apply negb_true_iff in S. lia. }
  assert (Ln : has_newline (match cr_length c with None => [STAR] | Some l => dec_of_Z l end) = false)
    by (destruct (cr_length c); [apply Dg|reflexivity]).
  assert (Hc : forall x s, has_newline (x :: s) = in_ranges x newline_class || has_newline s) by reflexivity.
  destruct (cr_start c) as [s|].
  - destruct (cr_stop c) as [e|]; [|discriminate]. inversion E; subst.
    repeat (rewrite A || rewrite Hc). rewrite (Q u Hu), !Dg, Ln. reflexivity.
  - inversion E; subst. repeat (rewrite A || rewrite Hc). rewrite (Q u Hu), Ln. reflexivity.
Qed.

Definition cr_serial (st : headers * crange) : Prop :=
  match cr_units (snd st) with
  | None => hd_get_key (fst st) CONTENT_RANGE = None
  | Some _ => exists text, cr_to_header (snd st) = Ok text /\ hd_get_key (fst st) CONTENT_RANGE = Some text
  end.

(* after set / unset / an attribute assignment that leaves a valid range: the header is the serialisation of the
   view (absent when units is None) and re-reading the property gives an equal view *)
Theorem cr_step_coherent h c o c' :
  cr_apply c o = Some c' -> cr_dom c' ->
  let st' := fst (crr_step (h, c) o) in
  snd st' = c' /\ cr_serial st' /\ (cr_units c' <> None -> snd (cr_read (fst st')) = c').
Proof.
  intros Ea D. cbv zeta. cbn [crr_step]. rewrite Ea. unfold cr_notify, content_range_cb.
  destruct (cr_units c') as [u|] eqn:Eu; cbn [negb].
  - destruct (cr_roundtrip c' u D Eu) as (text & Et & Ep). rewrite Et.
    unfold hd_set, str_header_value. rewrite (cr_text_clean c' text D Et). cbn [fst snd].
    assert (G : hd_get_key (hd_set_str h CONTENT_RANGE text) CONTENT_RANGE = Some text)
      by (apply hd_get_after_set; apply ci_eqb_refl).
    split; [reflexivity|]. split.
    + unfold cr_serial. cbn [fst snd]. rewrite Eu. exists text. split; [exact Et|exact G].
    + intros _. unfold cr_read. cbn [snd]. rewrite G, Ep. reflexivity.
  - cbn [fst snd]. split; [reflexivity|]. split; [|intro X; contradiction].
    unfold cr_serial. cbn [fst snd]. rewrite Eu. apply hd_get_after_del. apply ci_eqb_refl.
Qed.
