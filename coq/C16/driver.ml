(* C16 driver: one case per line *)
let sub1 t = String.sub t 1 (String.length t - 1)
let split c t = String.split_on_char c t
let s_of t = nlist_of_csv t
let lst sep t = if t = "~" then [] else List.map s_of (split sep t)
let zi t = z_of_int (int_of_string t)
let kv f t = let i = String.index t '=' in (s_of (String.sub t 0 i), f (String.sub t (i + 1) (String.length t - i - 1)))
let kvs f t = if t = "~" then [] else List.map (kv f) (split '/' t)
let ov t = if t = "n" then None else Some (s_of (sub1 t))
let hsop t = match split ':' t with
  | ["add"; h] -> HAdd (s_of h) | ["remove"; h] -> HRemove (s_of h) | ["update"; l] -> HUpdate (lst '/' l)
  | ["discard"; h] -> HDiscard (s_of h) | ["clear"] -> HClear | ["del"; i] -> HDelItem (zi i)
  | ["set"; i; v] -> HSetItem (zi i, s_of v) | _ -> failwith ("hsop " ^ t)
let svop t =
  if String.length t > 2 && String.sub t 0 2 = "v." then SVOp (hsop (String.sub t 2 (String.length t - 2))) else
  match split ':' t with
  | ["an"] -> SVAssignNone | ["as"; s] -> SVAssignStr (s_of s) | ["al"; l] -> SVAssignList (lst '/' l)
  | ["hs"; s] -> SVHeaderSet (s_of s) | ["hd"] -> SVHeaderDel | _ -> failwith ("svop " ^ t)
let ccval t = match t.[0] with
  | 'n' -> CVNone | 't' -> CVTrue | 'f' -> CVFalse | 'i' -> CVInt (zi (sub1 t)) | 's' -> CVStr (s_of (sub1 t)) | _ -> failwith "ccval"
let dop f t = match split ':' t with
  | ["si"; k; v] -> DSetItem (s_of k, f v) | ["di"; k] -> DDelItem (s_of k) | ["pop"; k] -> DPop (s_of k)
  | ["popd"; k; v] -> DPopD (s_of k, f v) | ["clear"] -> DClear | ["sd"; k; v] -> DSetDefault (s_of k, f v)
  | ["popitem"] -> DPopItem | ["up"; l] -> DUpdate (kvs f l) | _ -> failwith ("dop " ^ t)
let ccop t = match split ':' t with
  | ["sa"; a; v] -> CCSetAttr (s_of a, ccval v) | ["da"; a] -> CCDelAttr (s_of a) | _ -> CCDict (dop ov t)
let cspop t = match split ':' t with
  | ["sa"; a; v] -> CSetAttr (s_of a, ov v) | ["da"; a] -> CDelAttr (s_of a) | _ -> CDict (dop (fun x -> s_of (sub1 x)) t)
let ozi t = if t = "n" then None else Some (zi t)
let crop t = match split ':' t with
  | ["set"; s; e; l; u] -> CRSet (ozi s, ozi e, ozi l, ov u) | ["unset"] -> CRUnset
  | ["units"; u] -> CRAttrUnits (ov u) | ["start"; v] -> CRAttrInt (CRStart, ozi v) | ["stop"; v] -> CRAttrInt (CRStop, ozi v)
  | ["length"; v] -> CRAttrInt (CRLength, ozi v) | _ -> failwith ("crop " ^ t)
let waop t = match split ':' t with
  | ["item"; k; v] -> WASetItem (s_of k, ov v) | ["delitem"; k] -> WADelItem (s_of k) | ["attr"; k; v] -> WASetAttr (s_of k, ov v)
  | ["type"; v] -> WASetType (s_of v) | ["token"; v] -> WASetToken (ov v) | ["params"; d] -> WASetParams (kvs ov d)
  | "p" :: rest -> WAParams (dop ov (String.concat ":" rest)) | _ -> failwith ("waop " ^ t)
let ps s = csv_of_nlist s
let pl sep l = if l = [] then "~" else String.concat sep (List.map ps l)
let cat sep f l = if l = [] then "~" else String.concat sep (List.map f l)
let pout = function
  | ONone -> "N" | OBool b -> if b then "B1" else "B0" | OInt z -> "I" ^ string_of_int (int_of_z z)
  | OStr s -> "S" ^ ps s | OList l -> "L" ^ pl "/" l | OPair (k, v) -> "P" ^ ps k ^ "=" ^ ps v
  | OPairs l -> "Q" ^ cat "/" (fun (k, v) -> ps k ^ "=" ^ ps v) l
  | OKList (k, l) -> "K" ^ ps k ^ "=" ^ pl "+" l
  | OLists l -> "M" ^ cat "/" (fun (k, l) -> ps k ^ "=" ^ pl "+" l) l
  | OErr e -> "E" ^ (match e with KeyError -> "KeyError" | IndexError -> "IndexError" | TypeError -> "TypeError" | ValueError -> "ValueError")
(* a direct edit of response.headers while the view object is kept: the header changes, the held view does not *)
let held name t = match split ':' t with
  | ["hh"; v] -> Some (fun h -> fst (hd_set h name (VStr (s_of v))))
  | ["hhd"] -> Some (fun h -> hd_del_key h name)
  | _ -> None
let rec run_held name step obs after parse st ops = match ops with
  | [] -> []
  | o :: r ->
      (match held name o with
       | Some f -> let st' = (f (fst st), snd st) in (ONone :: obs st') :: run_held name step obs after parse (after st') r
       | None -> let (st', rs) = step st (parse o) in
                 ((match rs with Ok x -> x | Err e -> OErr e) :: obs st') :: run_held name step obs after parse (after st') r)
let id x = x
let pstep l = String.concat "|" (List.map pout l)
let pruns first l = String.concat " " (pstep first :: List.map pstep l)
let pcd d = cat "/" (fun (k, v) -> ps k ^ "=" ^ (match v with None -> "n" | Some s -> "s" ^ ps s)) d
let () = iter_lines (fun line ->
  match fields line with
  | "sv" :: name :: init :: ops ->
      let n = s_of name and h = kvs s_of init in let st = (h, sv_parse h n) in
      pruns (sv_obs n st) (run_held n (sv_step n) (sv_obs n) id svop st ops)
  | "cc" :: init :: ops ->
      let h = kvs s_of init in
      (match cc_parse h with
       | None -> "unsupported"
       | Some d -> pruns (ccr_obs (h, d)) (run_held cACHE_CONTROL ccr_step ccr_obs id ccop (h, d) ops))
  | "csp" :: init :: ops ->
      let h = kvs s_of init in let st = (h, csp_parse_h h) in
      pruns (cspr_obs st) (run_held cSP_NAME cspr_step cspr_obs id cspop st ops)
  | "cr" :: init :: ops ->
      let h = kvs s_of init in let st = cr_read h in
      pruns (crr_obs st) (run_held cONTENT_RANGE crr_step crr_obs crr_after_obs crop (crr_after_obs st) ops)
  | "wa" :: init :: ops ->
      let h = kvs s_of init in
      (match wa_read h with
       | None -> "unsupported"
       | Some w -> pruns (war_obs (h, w)) (run_held wWW_AUTH war_step war_obs id waop (h, w) ops))
  | "mp" :: init :: d0 :: ops ->
      let st = (kvs s_of init, kvs s_of d0) in
      pruns (mp_obs st) (run_held cONTENT_TYPE mp_step mp_obs id (dop (fun x -> s_of (sub1 x))) st ops)
  | "walist" :: init :: items ->
      let item t = (match split ';' t with
        | [ty; tok; ps] -> { wa_type = s_of ty; wa_token = ov tok; wa_params = kvs ov ps } | _ -> failwith "walist") in
      (match wa_assign_list (kvs s_of init) (List.map item items) with
       | (h, None) -> pout (OPairs h) | (_, Some e) -> pout (OErr e))
  | ["hp"; init; attr; v] ->
      let h = kvs s_of init and a = s_of attr in
      let pv = (match v.[0] with 's' -> PStr (s_of (sub1 v)) | 'i' -> PInt (zi (sub1 v)) | 'l' -> PList (lst '/' (sub1 v)) | _ -> failwith "pval") in
      (match hp_set h a pv with
       | (_, Some e) -> pout (OErr e)
       | (h1, None) -> pstep [hp_text h1 a; hp_get h1 a; hp_get (hp_del h1 a) a; hp_text (hp_del h1 a) a])
  | ["hpg"; init; attr] -> pout (hp_get (kvs s_of init) (s_of attr))
  | ["pl"; s] -> "L" ^ pl "/" (parse_list_header (s_of s))
  | ["pd"; s] -> (match parse_dict_header (s_of s) with None -> "unsupported" | Some d -> pcd d)
  | ["dl"; l] -> "S" ^ ps (dump_list (lst '/' l))
  | ["dd"; d] -> "S" ^ ps (dump_dict (kvs ov d))
  | ["pcsp"; s] -> pout (OPairs (parse_csp (s_of s)))
  | ["dcsp"; d] -> "S" ^ ps (dump_csp (kvs s_of d))
  | ["int"; s] -> (match parse_dec (s_of s) with None -> "N" | Some z -> "I" ^ string_of_int (int_of_z z))
  | _ -> "bad-command")
