(* C16 proofs, part 1: parse_list_header / parse_dict_header invert dump_header. *)
From Coq Require Import ZArith Lia ZifyBool ZifyN.
From Wz Require Import lib.Bytes lib.BytesFacts C08.LibStr C08.LibStrFacts C08.Gen C08.Model C08.Spec C08.Proofs
  C16.Base C16.Gen C16.Model.
Open Scope N_scope.

(* ------------------------------------------------------------------ token characters (regenerated table) *)
Lemma token_char_facts c : is_token_char c = true ->
  (c =? COMMA) = false /\ (c =? DQ) = false /\ (c =? EQ) = false /\ uni_ws c = false /\ (c =? BS) = false.
Proof.
  intro H. unfold is_token_char in H.
  assert (Hc : c < 128) by (apply (in_ranges_bound token_chars 128 c); [vm_compute; reflexivity|exact H]).
  pose proof (sweep128 (fun c => implb (in_ranges c token_chars)
                 (negb (c =? COMMA) && negb (c =? DQ) && negb (c =? EQ) && negb (uni_ws c) && negb (c =? BS)))
                ltac:(vm_compute; reflexivity) c Hc) as S.
  cbv beta in S. rewrite H in S. cbn [implb] in S.
  repeat (apply andb_prop in S; destruct S as [S ?]).
  repeat split; apply negb_true_iff; assumption.
Qed.

(* ------------------------------------------------------------------ scanning *)
(* a character that is neither a comma nor a quote is appended outside quotes *)
Lemma phl_plain v : forall r res part,
  forallb (fun c => negb (c =? COMMA) && negb (c =? DQ)) v = true ->
  phl_go (v ++ r) res part false false = phl_go r res (part ++ v) false false.
Proof.
  induction v as [|c v IH]; intros r res part H; cbn [app]; [rewrite app_nil_r; reflexivity|].
  cbn [forallb] in H. apply andb_prop in H. destruct H as [Hc Hv]. apply andb_prop in Hc. destruct Hc as [H1 H2].
  apply negb_true_iff in H1. apply negb_true_iff in H2. cbn [phl_go]. rewrite H1, H2.
  rewrite IH by exact Hv. rewrite <- app_assoc. reflexivity.
Qed.

Lemma phl_quoted_body v : forall r res part,
  phl_go (escape_q v ++ r) res part false true = phl_go r res (part ++ v) false true.
Proof.
  induction v as [|c v IH]; intros r res part; cbn [escape_q flat_map app]; [rewrite app_nil_r; reflexivity|].
  fold (escape_q v). destruct ((c =? BS) || (c =? DQ)) eqn:E.
  - cbn [app phl_go]. rewrite N.eqb_refl. cbn [phl_go]. rewrite IH, <- app_assoc. reflexivity.
  - apply orb_false_iff in E. destruct E as [E1 E2]. cbn [app phl_go]. rewrite E1, E2.
    rewrite IH, <- app_assoc. reflexivity.
Qed.

Lemma phl_quoted v r res part :
  phl_go (DQ :: escape_q v ++ DQ :: r) res part false false = phl_go r res (part ++ DQ :: v ++ [DQ]) false false.
Proof.
  cbn [phl_go]. change (DQ =? COMMA) with false. rewrite N.eqb_refl. cbv iota.
  rewrite phl_quoted_body. cbn [phl_go]. change (DQ =? BS) with false. rewrite N.eqb_refl. cbv iota.
  rewrite <- !app_assoc. reflexivity.
Qed.

(* what parse_http_list collects for one quoted-or-token item *)
Definition raw (v : str) : str :=
  match v with
  | [] => [DQ; DQ]
  | _ => if forallb is_token_char v then v else DQ :: v ++ [DQ]
  end.

Lemma raw_nonempty v : raw v <> [].
Proof.
  unfold raw. destruct v as [|c v]; [discriminate|]. destruct (forallb is_token_char (c :: v)); discriminate.
Qed.

Lemma token_plain v : forallb is_token_char v = true ->
  forallb (fun c => negb (c =? COMMA) && negb (c =? DQ)) v = true.
Proof.
  intro H. apply (forallb_impl is_token_char); [|exact H]. intros c Hc.
  destruct (token_char_facts c Hc) as (A & B & _). rewrite A, B. reflexivity.
Qed.

Lemma phl_item v r res part :
  phl_go (quote_header_value true v ++ r) res part false false = phl_go r res (part ++ raw v) false false.
Proof.
  unfold quote_header_value, raw. destruct v as [|c v].
  - change ([DQ; DQ] ++ r) with (DQ :: escape_q [] ++ DQ :: r). rewrite phl_quoted. reflexivity.
  - cbn [andb]. destruct (forallb is_token_char (c :: v)) eqn:E.
    + apply phl_plain. apply token_plain. exact E.
    + change ((DQ :: escape_q (c :: v) ++ [DQ]) ++ r) with (DQ :: (escape_q (c :: v) ++ [DQ]) ++ r).
      rewrite <- app_assoc. cbn [app]. apply phl_quoted.
Qed.

(* the parts collected for a comma-space separated list of items *)
Fixpoint expect (part : str) (l : list str) : list str :=
  match l with
  | [] => []
  | [v] => [part ++ raw v]
  | v :: l' => (part ++ raw v) :: expect [SP] l'
  end.

Lemma phl_join (f : str -> str) (g : str -> str) :
  (forall v r res part, phl_go (f v ++ r) res part false false = phl_go r res (part ++ g v) false false) ->
  (forall v, g v <> []) ->
  forall l res part, l <> [] ->
  phl_go (join COMMA_SP (map f l)) res part false false =
  res ++ (fix ex (part : str) (l : list str) : list str :=
            match l with [] => [] | [v] => [part ++ g v] | v :: l' => (part ++ g v) :: ex [SP] l' end) part l.
Proof.
  intros Hf Hg. induction l as [|v l IH]; intros res part Hne; [contradiction|].
  destruct l as [|w l].
  - cbn [map join]. rewrite <- (app_nil_r (f v)), Hf. cbn [phl_go].
    destruct (part ++ g v) eqn:E; [|reflexivity].
    apply app_eq_nil in E. destruct E as [_ E]. exfalso. apply (Hg v). exact E.
  - change (join COMMA_SP (map f (v :: w :: l))) with (f v ++ COMMA_SP ++ join COMMA_SP (map f (w :: l))).
    rewrite Hf. unfold COMMA_SP at 1. cbn [app phl_go]. change (44 =? COMMA) with true. cbv iota.
    change (32 =? COMMA) with false. change (32 =? DQ) with false. cbv iota. cbn [app].
    rewrite IH by discriminate. rewrite <- app_assoc. reflexivity.
Qed.

(* ------------------------------------------------------------------ strip *)
Lemma strip_keep (s : str) a z m :
  s = a :: m ++ [z] \/ (s = [a] /\ z = a) -> uni_ws a = false -> uni_ws z = false ->
  strip uni_ws s = s /\ strip uni_ws (SP :: s) = s.
Proof.
  intros [E|[E Ez]] Ha Hz; subst.
  - split; [apply strip_ends; assumption|].
    unfold strip. cbn [drop_while]. change (uni_ws SP) with true. cbv iota. rewrite Ha.
    change (a :: m ++ [z]) with ((a :: m) ++ [z]). apply rstrip_last. exact Hz.
  - split.
    + unfold strip. cbn [drop_while rstrip]. rewrite Ha. cbn [rstrip]. rewrite Ha. reflexivity.
    + unfold strip. cbn [drop_while]. change (uni_ws SP) with true. cbv iota. rewrite Ha. cbn [rstrip]. rewrite Ha. reflexivity.
Qed.

Lemma raw_ends v : exists a z m, (raw v = a :: m ++ [z] \/ (raw v = [a] /\ z = a)) /\ uni_ws a = false /\ uni_ws z = false.
Proof.
  unfold raw. destruct v as [|c v].
  - exists DQ, DQ, []. split; [left; reflexivity|split; reflexivity].
  - destruct (forallb is_token_char (c :: v)) eqn:E.
    + cbn [forallb] in E. apply andb_prop in E. destruct E as [Hc Hv].
      destruct (token_char_facts c Hc) as (_ & _ & _ & Wc & _).
      destruct v as [|d v'] eqn:Ev.
      * exists c, c, []. split; [right; split; reflexivity|split; assumption].
      * assert (Hne : v <> []) by (subst; discriminate). rewrite <- Ev in *.
        destruct (exists_last Hne) as [m [z Ez]]. exists c, z, m. split; [left; rewrite Ez; reflexivity|].
        split; [exact Wc|]. rewrite Ez in Hv. rewrite forallb_app in Hv. apply andb_prop in Hv. destruct Hv as [_ Hz].
        cbn [forallb] in Hz. apply andb_prop in Hz. destruct Hz as [Hz _].
        destruct (token_char_facts z Hz) as (_ & _ & _ & Wz & _). exact Wz.
    + exists DQ, DQ, (c :: v). split; [left; reflexivity|split; reflexivity].
Qed.

Lemma strip_raw v : strip uni_ws (raw v) = raw v /\ strip uni_ws (SP :: raw v) = raw v.
Proof. destruct (raw_ends v) as (a & z & m & E & Ha & Hz). apply (strip_keep (raw v) a z m E Ha Hz). Qed.

Lemma strip_outer_quotes_raw v : strip_outer_quotes (raw v) = v.
Proof.
  unfold raw. destruct v as [|c v]; [reflexivity|].
  destruct (forallb is_token_char (c :: v)) eqn:E.
  - cbn [forallb] in E. apply andb_prop in E. destruct E as [Hc _].
    destruct (token_char_facts c Hc) as (_ & B & _). unfold strip_outer_quotes. rewrite B. reflexivity.
  - unfold strip_outer_quotes. rewrite N.eqb_refl. rewrite rev_app_distr. cbn [rev app]. rewrite N.eqb_refl.
    change (rev v ++ [c]) with (rev (c :: v)). apply rev_involutive.
Qed.

(* ------------------------------------------------------------------ list round trip *)
Lemma map_strip_expect l : forall part, (part = [] \/ part = [SP]) ->
  map strip_outer_quotes (map (strip uni_ws) (expect part l)) = l.
Proof.
  induction l as [|v l IH]; intros part Hp; [reflexivity|].
  assert (Hs : strip uni_ws (part ++ raw v) = raw v)
    by (destruct Hp; subst part; cbn [app]; apply strip_raw).
  destruct l as [|w l].
  - cbn [expect map]. rewrite Hs, strip_outer_quotes_raw. reflexivity.
  - change (expect part (v :: w :: l)) with ((part ++ raw v) :: expect [SP] (w :: l)).
    cbn [map]. rewrite Hs, strip_outer_quotes_raw. f_equal. apply (IH [SP]). right. reflexivity.
Qed.

Theorem list_roundtrip l : parse_list_header (dump_list l) = l.
Proof.
  unfold parse_list_header, parse_http_list, dump_list. destruct l as [|v l]; [reflexivity|].
  rewrite (phl_join (quote_header_value true) raw phl_item raw_nonempty) by discriminate.
  cbn [app]. apply (map_strip_expect (v :: l) []). left. reflexivity.
Qed.

Lemma dump_list_nonempty l : l <> [] -> dump_list l <> [].
Proof.
  unfold dump_list. destruct l as [|v l]; [contradiction|]. intros _.
  assert (Q : quote_header_value true v <> []).
  { unfold quote_header_value. destruct v as [|c v]; [discriminate|]. destruct (true && forallb is_token_char (c :: v)); discriminate. }
  destruct l as [|w l]; cbn [map join]; [exact Q|]. intro E. apply app_eq_nil in E. destruct E. contradiction.
Qed.

(* ------------------------------------------------------------------ dict round trip *)
(* the keys on which dump_header / parse_dict_header are mutually inverse: non-empty tokens not ending in an asterisk *)
Definition key_ok (k : str) : bool :=
  nonempty k && forallb is_token_char k && negb (ends_with_star k).
Definition cc_dom (d : cdict) : Prop := NoDup (map fst d) /\ Forall (fun kv => key_ok (fst kv) = true) d.

Definition raw_item (kv : str * option str) : str :=
  match snd kv with None => fst kv | Some v => fst kv ++ [EQ] ++ raw v end.

Lemma phl_dict_item kv r res part :
  key_ok (fst kv) = true ->
  phl_go (dump_dict_item kv ++ r) res part false false = phl_go r res (part ++ raw_item kv) false false.
Proof.
  destruct kv as [k [v|]]; unfold key_ok, dump_dict_item, raw_item; cbn [fst snd]; intro H;
    apply andb_prop in H; destruct H as [H Hs]; apply andb_prop in H; destruct H as [Hn Ht].
  - apply negb_true_iff in Hs. rewrite Hs. rewrite <- !app_assoc.
    rewrite (phl_plain k) by (apply token_plain; exact Ht).
    cbn [app phl_go]. change (EQ =? COMMA) with false. change (EQ =? DQ) with false. cbv iota.
    rewrite phl_item. rewrite <- !app_assoc. reflexivity.
  - apply phl_plain. apply token_plain. exact Ht.
Qed.

Lemma raw_item_nonempty kv : key_ok (fst kv) = true -> raw_item kv <> [].
Proof.
  destruct kv as [k [v|]]; unfold key_ok, raw_item; cbn [fst snd]; intro H;
    apply andb_prop in H; destruct H as [H _]; apply andb_prop in H; destruct H as [Hn _];
    destruct k; try discriminate.
Qed.

(* the scanning lemma needs the key condition for every element: a variant of phl_join over a list with a
   per-element hypothesis *)
Fixpoint expect_d (part : str) (l : cdict) : list str :=
  match l with
  | [] => []
  | [kv] => [part ++ raw_item kv]
  | kv :: l' => (part ++ raw_item kv) :: expect_d [SP] l'
  end.

Lemma phl_join_dict : forall l res part, l <> [] -> Forall (fun kv => key_ok (fst kv) = true) l ->
  phl_go (join COMMA_SP (map dump_dict_item l)) res part false false = res ++ expect_d part l.
Proof.
  induction l as [|kv l IH]; intros res part Hne HF; [contradiction|]. inversion HF as [|? ? Hk Hl]; subst.
  destruct l as [|w l].
  - cbn [map join expect_d]. rewrite <- (app_nil_r (dump_dict_item kv)), phl_dict_item by exact Hk. cbn [phl_go].
    destruct (part ++ raw_item kv) eqn:E; [|reflexivity].
    apply app_eq_nil in E. destruct E as [_ E]. exfalso. apply (raw_item_nonempty kv Hk). exact E.
  - change (join COMMA_SP (map dump_dict_item (kv :: w :: l))) with
      (dump_dict_item kv ++ COMMA_SP ++ join COMMA_SP (map dump_dict_item (w :: l))).
    rewrite phl_dict_item by exact Hk. unfold COMMA_SP at 1. cbn [app phl_go]. change (44 =? COMMA) with true. cbv iota.
    change (32 =? COMMA) with false. change (32 =? DQ) with false. cbv iota. cbn [app].
    rewrite IH by (try discriminate; exact Hl). rewrite <- app_assoc. reflexivity.
Qed.

Lemma key_first k : key_ok k = true -> exists c r, k = c :: r /\ is_token_char c = true /\ forallb is_token_char r = true.
Proof.
  unfold key_ok. intro H. apply andb_prop in H. destruct H as [H _]. apply andb_prop in H. destruct H as [Hn Ht].
  destruct k as [|c r]; [discriminate|]. cbn [forallb] in Ht. apply andb_prop in Ht. destruct Ht. exists c, r. repeat split; assumption.
Qed.

Lemma last_exists (s : str) : s <> [] -> exists m z, s = m ++ [z].
Proof. intro H. destruct (exists_last H) as [m [z E]]. exists m, z. exact E. Qed.

(* a stripped raw item is itself: it starts with a token character and ends with a token character or a quote *)
Lemma strip_raw_item kv : key_ok (fst kv) = true ->
  strip uni_ws (raw_item kv) = raw_item kv /\ strip uni_ws (SP :: raw_item kv) = raw_item kv.
Proof.
  intro Hk. destruct (key_first _ Hk) as (c & r & Ek & Hc & Hr).
  destruct (token_char_facts c Hc) as (_ & _ & _ & Wc & _).
  assert (exists z m, (raw_item kv = c :: m ++ [z] \/ (raw_item kv = [c] /\ z = c)) /\ uni_ws z = false) as (z & m & E & Wz).
  { destruct kv as [k [v|]]; unfold raw_item; cbn [fst snd] in *; subst k.
    - destruct (raw_ends v) as (a & z & m & E & _ & Wz). exists z.
      destruct E as [E|[E Ez]].
      + exists (r ++ [EQ] ++ a :: m). split; [left|exact Wz]. rewrite E. cbn [app]. f_equal. rewrite <- !app_assoc. reflexivity.
      + exists (r ++ [EQ]). split; [left|exact Wz]. rewrite E. subst z. cbn [app]. f_equal. rewrite <- !app_assoc. reflexivity.
    - destruct r as [|d r'] eqn:Er.
      + exists c, []. split; [right; split; reflexivity|exact Wc].
      + assert (Hne : r <> []) by (subst; discriminate). rewrite <- Er in *.
        destruct (last_exists r Hne) as [m [z Ez]]. exists z, m. split; [left; rewrite Ez; reflexivity|].
        rewrite Ez in Hr. rewrite forallb_app in Hr. apply andb_prop in Hr. destruct Hr as [_ Hz].
        cbn [forallb] in Hz. apply andb_prop in Hz. destruct Hz as [Hz _].
        destruct (token_char_facts z Hz) as (_ & _ & _ & Wz & _). exact Wz. }
  apply (strip_keep (raw_item kv) c z m E Wc Wz).
Qed.

Lemma strip_outer_quotes_item kv : key_ok (fst kv) = true -> strip_outer_quotes (raw_item kv) = raw_item kv.
Proof.
  intro Hk. destruct (key_first _ Hk) as (c & r & Ek & Hc & _).
  destruct (token_char_facts c Hc) as (_ & B & _).
  destruct kv as [k [v|]]; unfold raw_item; cbn [fst snd] in *; subst k; cbn [app strip_outer_quotes]; rewrite B; reflexivity.
Qed.

Lemma map_strip_expect_d l : forall part, (part = [] \/ part = [SP]) ->
  Forall (fun kv => key_ok (fst kv) = true) l ->
  map strip_outer_quotes (map (strip uni_ws) (expect_d part l)) = map raw_item l.
Proof.
  induction l as [|kv l IH]; intros part Hp HF; [reflexivity|]. inversion HF as [|? ? Hk Hl]; subst.
  assert (Hs : strip uni_ws (part ++ raw_item kv) = raw_item kv)
    by (destruct Hp; subst part; cbn [app]; apply strip_raw_item; exact Hk).
  destruct l as [|w l].
  - cbn [expect_d map]. rewrite Hs, strip_outer_quotes_item by exact Hk. reflexivity.
  - change (expect_d part (kv :: w :: l)) with ((part ++ raw_item kv) :: expect_d [SP] (w :: l)).
    cbn [map]. rewrite Hs, strip_outer_quotes_item by exact Hk. f_equal. apply (IH [SP]); [right; reflexivity|exact Hl].
Qed.

Lemma partition1_token k rest : forallb is_token_char k = true -> partition1 EQ (k ++ EQ :: rest) = (k, Some rest).
Proof.
  intro H. apply partition1_app_stop. apply (forallb_impl is_token_char); [|exact H].
  intros c Hc. destruct (token_char_facts c Hc) as (_ & _ & E & _). rewrite N.eqb_sym. rewrite E. reflexivity.
Qed.

Lemma partition1_none k : forallb is_token_char k = true -> partition1 EQ k = (k, None).
Proof.
  induction k as [|c k IH]; cbn [forallb partition1]; intro H; [reflexivity|].
  apply andb_prop in H. destruct H as [Hc Hk]. destruct (token_char_facts c Hc) as (_ & _ & E & _).
  rewrite N.eqb_sym, E, IH by exact Hk. reflexivity.
Qed.

Lemma strip_token k : forallb is_token_char k = true -> strip uni_ws k = k.
Proof.
  intro H. apply strip_none. apply (forallb_impl is_token_char); [|exact H].
  intros c Hc. destruct (token_char_facts c Hc) as (_ & _ & _ & W & _). rewrite W. reflexivity.
Qed.

Lemma ad_set_fresh {V} k (v : V) d : ~ In k (map fst d) -> ad_set k v d = d ++ [(k, v)].
Proof.
  induction d as [|[k0 v0] d IH]; cbn [ad_set map fst In app]; intro H; [reflexivity|].
  destruct (list_eqb k k0) eqn:E.
  - apply list_eqb_eq in E. subst. exfalso. apply H. left. reflexivity.
  - f_equal. apply IH. intro A. apply H. right. exact A.
Qed.

Lemma pd_go_items l : forall acc,
  Forall (fun kv => key_ok (fst kv) = true) l -> NoDup (map fst (acc ++ l)) ->
  pd_go (map raw_item l) acc = Some (acc ++ l).
Proof.
  induction l as [|[k ov] l IH]; intros acc HF HN; cbn [map pd_go]; [rewrite app_nil_r; reflexivity|].
  inversion HF as [|? ? Hk Hl]; subst. cbn [fst] in Hk.
  pose proof Hk as Hk2. unfold key_ok in Hk2. apply andb_prop in Hk2. destruct Hk2 as [Hk2 Hstar].
  apply andb_prop in Hk2. destruct Hk2 as [Hne Htok]. apply negb_true_iff in Hstar.
  assert (Hfresh : ~ In k (map fst acc)).
  { rewrite map_app in HN. cbn [map fst] in HN. apply NoDup_remove_2 in HN. intro A. apply HN. apply in_or_app. left. exact A. }
  assert (HN2 : NoDup (map fst ((acc ++ [(k, ov)]) ++ l))) by (rewrite <- app_assoc; exact HN).
  destruct ov as [v|]; unfold raw_item at 1; cbn [fst snd].
  - cbn [app]. rewrite (partition1_token k (raw v) Htok). rewrite (strip_token k Htok).
    destruct k as [|c k']; [discriminate|]. rewrite Hstar.
    rewrite (proj1 (strip_raw v)), strip_outer_quotes_raw. rewrite ad_set_fresh by exact Hfresh.
    rewrite (IH _ Hl HN2). rewrite <- app_assoc. reflexivity.
  - rewrite (partition1_none k Htok). rewrite (strip_token k Htok).
    destruct k as [|c k']; [discriminate|]. rewrite ad_set_fresh by exact Hfresh.
    rewrite (IH _ Hl HN2). rewrite <- app_assoc. reflexivity.
Qed.

Theorem dict_roundtrip d : cc_dom d -> parse_dict_header (dump_dict d) = Some d.
Proof.
  intros [HN HF]. unfold parse_dict_header, parse_list_header, parse_http_list, dump_dict.
  destruct d as [|kv d]; [reflexivity|].
  rewrite phl_join_dict by (try discriminate; exact HF). cbn [app].
  rewrite (map_strip_expect_d (kv :: d) []) by (try (left; reflexivity); exact HF).
  apply (pd_go_items (kv :: d) []); [exact HF|exact HN].
Qed.

Lemma dump_dict_nonempty d : d <> [] -> Forall (fun kv => key_ok (fst kv) = true) d -> dump_dict d <> [].
Proof.
  unfold dump_dict. destruct d as [|kv d]; [contradiction|]. intros _ HF. inversion HF as [|? ? Hk _]; subst.
  assert (Q : dump_dict_item kv <> []).
  { destruct (key_first _ Hk) as (c & r & Ek & _). destruct kv as [k [v|]]; unfold dump_dict_item; cbn [fst snd] in *; subst k.
    - destruct (ends_with_star (c :: r)); discriminate.
    - discriminate. }
  destruct d as [|w d]; cbn [map join]; [exact Q|]. intro E. apply app_eq_nil in E. destruct E. contradiction.
Qed.
