(* C16 proofs, part 3: Content-Security-Policy codec and view coherence. *)
From Coq Require Import ZArith Lia ZifyBool ZifyN.
From Wz Require Import lib.Bytes lib.BytesFacts C08.LibStr C08.LibStrFacts C08.Gen C08.Model C08.Spec C08.Proofs
  C16.Base C16.Gen C16.Model C16.ProofsCodec C16.Proofs.
Open Scope N_scope.

(* directive names: non-empty, no white space, no semicolon; values: non-empty, no semicolon, no surrounding white space *)
Definition ckey_ok (k : str) : bool := nonempty k && forallb (fun c => negb (uni_ws c) && negb (c =? SEMI)) k.
Definition cval_ok (v : str) : bool :=
  match v with
  | [] => false
  | a :: r => negb (uni_ws a) && negb (uni_ws (last r a)) && forallb (fun c => negb (c =? SEMI)) v
  end.
Definition centry_ok (kv : str * str) : bool := ckey_ok (fst kv) && cval_ok (snd kv).
Definition csp_dom (d : sdict) : Prop := NoDup (map fst d) /\ Forall (fun kv => centry_ok kv = true) d.

Definition csp_item (kv : str * str) : str := fst kv ++ [SP] ++ snd kv.

Lemma split_on_nosep sep s : forallb (fun c => negb (c =? sep)) s = true -> split_on sep s = [s].
Proof.
  induction s as [|c s IH]; cbn [forallb split_on]; intro H; [reflexivity|].
  apply andb_prop in H. destruct H as [Hc Hs]. apply negb_true_iff in Hc. rewrite Hc, (IH Hs). reflexivity.
Qed.

Lemma split_on_app sep a r : forallb (fun c => negb (c =? sep)) a = true ->
  split_on sep (a ++ sep :: r) = a :: split_on sep r.
Proof.
  induction a as [|c a IH]; cbn [forallb app split_on]; intro H.
  - rewrite N.eqb_refl. reflexivity.
  - apply andb_prop in H. destruct H as [Hc Hs]. apply negb_true_iff in Hc. rewrite Hc, (IH Hs). reflexivity.
Qed.

Lemma csp_item_nosemi kv : centry_ok kv = true -> forallb (fun c => negb (c =? SEMI)) (csp_item kv) = true.
Proof.
  unfold centry_ok, ckey_ok, cval_ok, csp_item. destruct kv as [k v]. cbn [fst snd]. intro H.
  apply andb_prop in H. destruct H as [Hk Hv]. apply andb_prop in Hk. destruct Hk as [_ Hk].
  rewrite !forallb_app. cbn [forallb]. change (SP =? SEMI) with false. cbn [negb andb].
  rewrite (forallb_impl (fun c => negb (uni_ws c) && negb (c =? SEMI)) (fun c => negb (c =? SEMI)) k
             ltac:(intros c Hc; apply andb_prop in Hc; apply Hc) Hk).
  destruct v as [|a r]; [discriminate|]. apply andb_prop in Hv. destruct Hv as [_ Hv]. rewrite Hv. reflexivity.
Qed.

Fixpoint csp_pieces (first : bool) (d : sdict) : list str :=
  match d with
  | [] => []
  | kv :: r => (if first then csp_item kv else SP :: csp_item kv) :: csp_pieces false r
  end.

Lemma split_dump d : d <> [] -> Forall (fun kv => centry_ok kv = true) d ->
  forall first : bool, split_on SEMI ((if first then [] else [SP]) ++ join [SEMI; SP] (map csp_item d)) = csp_pieces first d.
Proof.
  induction d as [|kv d IH]; intros Hne HF first; [contradiction|]. inversion HF as [|? ? Hk Hl]; subst.
  pose proof (csp_item_nosemi kv Hk) as Hns.
  assert (Hp : forallb (fun c => negb (c =? SEMI)) ((if first then [] else [SP]) ++ csp_item kv) = true).
  { rewrite forallb_app, Hns. destruct first; reflexivity. }
  destruct d as [|w d].
  - cbn [map join csp_pieces]. rewrite split_on_nosep by exact Hp. destruct first; reflexivity.
  - change (join [SEMI; SP] (map csp_item (kv :: w :: d))) with (csp_item kv ++ [SEMI; SP] ++ join [SEMI; SP] (map csp_item (w :: d))).
    rewrite app_assoc. cbn [app]. rewrite split_on_app by exact Hp.
    change (SP :: join [SEMI; SP] (map csp_item (w :: d))) with ((if false then [] else [SP]) ++ join [SEMI; SP] (map csp_item (w :: d))).
    rewrite IH by (try discriminate; exact Hl). cbn [csp_pieces]. destruct first; reflexivity.
Qed.

Lemma val_ends v : cval_ok v = true ->
  exists a z m, (v = a :: m ++ [z] \/ (v = [a] /\ z = a)) /\ uni_ws a = false /\ uni_ws z = false.
Proof.
  unfold cval_ok. destruct v as [|a r]; [discriminate|]. intro H. apply andb_prop in H. destruct H as [H _].
  apply andb_prop in H. destruct H as [Ha Hz]. apply negb_true_iff in Ha. apply negb_true_iff in Hz.
  destruct r as [|b r'] eqn:Er.
  - exists a, a, []. split; [right; split; reflexivity|split; assumption].
  - assert (Hne : r <> []) by (subst; discriminate). rewrite <- Er in *.
    destruct (exists_last Hne) as [m [z Ez]]. exists a, z, m. split; [left; rewrite Ez; reflexivity|].
    split; [exact Ha|]. rewrite Ez in Hz. rewrite last_last in Hz. exact Hz.
Qed.

Lemma key_nows k : ckey_ok k = true ->
  forallb (fun c => negb (uni_ws c)) k = true /\ forallb (fun c => negb (SP =? c)) k = true /\ k <> [].
Proof.
  unfold ckey_ok. intro H. apply andb_prop in H. destruct H as [Hn Hk]. split; [|split].
  - apply (forallb_impl (fun c => negb (uni_ws c) && negb (c =? SEMI))); [|exact Hk].
    intros c Hc. apply andb_prop in Hc. apply Hc.
  - apply (forallb_impl (fun c => negb (uni_ws c) && negb (c =? SEMI))); [|exact Hk].
    intros c Hc. apply andb_prop in Hc. destruct Hc as [Hc _].
    destruct (SP =? c) eqn:E; [|reflexivity]. apply N.eqb_eq in E. subst c. discriminate.
  - destruct k; [discriminate|discriminate].
Qed.

Lemma strip_piece kv : centry_ok kv = true ->
  strip uni_ws (csp_item kv) = csp_item kv /\ strip uni_ws (SP :: csp_item kv) = csp_item kv.
Proof.
  intro H. unfold centry_ok in H. apply andb_prop in H. destruct H as [Hk Hv].
  destruct (key_nows _ Hk) as (Hw & _ & Hne). destruct (val_ends _ Hv) as (a & z & m & E & Wa & Wz).
  destruct kv as [k v]. cbn [fst snd] in *. destruct k as [|c k]; [contradiction|].
  cbn [forallb] in Hw. apply andb_prop in Hw. destruct Hw as [Wc _]. apply negb_true_iff in Wc.
  assert (exists m2, csp_item (c :: k, v) = c :: m2 ++ [z]) as [m2 E2].
  { unfold csp_item. cbn [fst snd app]. destruct E as [E|[E Ez]]; subst v.
    - exists (k ++ SP :: a :: m). rewrite <- !app_assoc. reflexivity.
    - subst z. exists (k ++ [SP]). rewrite <- !app_assoc. reflexivity. }
  apply (strip_keep _ c z m2 (or_introl E2) Wc Wz).
Qed.

Lemma strip_val v : cval_ok v = true -> strip uni_ws v = v.
Proof.
  intro Hv. destruct (val_ends _ Hv) as (a & z & m & E & Wa & Wz). apply (strip_keep v a z m E Wa Wz).
Qed.

Lemma add_policy_piece (k v : str) (first : bool) (acc : sdict) :
  centry_ok (k, v) = true -> ~ In k (map fst acc) ->
  csp_add_policy acc (if first then csp_item (k, v) else SP :: csp_item (k, v)) = acc ++ [(k, v)].
Proof.
  intros Hk Hfresh. unfold csp_add_policy. destruct (strip_piece (k, v) Hk) as [S1 S2].
  pose proof Hk as Hk2. unfold centry_ok in Hk2. cbn [fst snd] in Hk2. apply andb_prop in Hk2. destruct Hk2 as [Hkk Hvv].
  destruct (key_nows _ Hkk) as (Hw & Hsp & _).
  destruct first; [rewrite S1|rewrite S2];
    unfold csp_item; cbn [fst snd app]; rewrite (partition1_app_stop SP k v Hsp);
    rewrite (strip_none uni_ws k Hw), (strip_val v Hvv); apply ad_set_fresh; exact Hfresh.
Qed.

Lemma parse_pieces d : forall (first : bool) acc,
  Forall (fun kv => centry_ok kv = true) d -> NoDup (map fst (acc ++ d)) ->
  fold_left csp_add_policy (csp_pieces first d) acc = acc ++ d.
Proof.
  induction d as [|[k v] d IH]; intros first acc HF HN; cbn [csp_pieces fold_left]; [rewrite app_nil_r; reflexivity|].
  inversion HF as [|? ? Hk Hl]; subst.
  assert (Hfresh : ~ In k (map fst acc)).
  { rewrite map_app in HN. cbn [map fst] in HN. apply NoDup_remove_2 in HN. intro A. apply HN. apply in_or_app. left. exact A. }
  rewrite (add_policy_piece k v first acc Hk Hfresh).
  rewrite (IH false (acc ++ [(k, v)]) Hl) by (rewrite <- app_assoc; exact HN). rewrite <- app_assoc. reflexivity.
Qed.

Theorem csp_roundtrip d : csp_dom d -> parse_csp (dump_csp d) = d.
Proof.
  intros [HN HF]. unfold parse_csp, dump_csp. destruct d as [|kv d]; [reflexivity|].
  pose proof (split_dump (kv :: d) ltac:(discriminate) HF true) as S. cbn [app] in S.
  change (fold_left csp_add_policy (split_on SEMI (join [SEMI; SP] (map csp_item (kv :: d)))) [] = kv :: d).
  rewrite S. apply (parse_pieces (kv :: d) true [] HF HN).
Qed.

Theorem csp_roundtrip_refuted : exists d, NoDup (map fst d) /\ parse_csp (dump_csp d) <> d.
Proof.
  exists [([105; 109; 103; 45; 115; 114; 99], [])]. split; [repeat constructor; intros []|]. vm_compute. discriminate.
Qed.

Lemma dump_csp_nonempty d : d <> [] -> Forall (fun kv => centry_ok kv = true) d -> dump_csp d <> [].
Proof.
  unfold dump_csp. destruct d as [|kv d]; [contradiction|]. intros _ HF. inversion HF as [|? ? Hk _]; subst.
  unfold centry_ok in Hk. apply andb_prop in Hk. destruct Hk as [Hk _]. destruct (key_nows _ Hk) as (_ & _ & Hne).
  assert (Q : fst kv ++ [SP] ++ snd kv <> []) by (destruct (fst kv); [contradiction|discriminate]).
  destruct d as [|w d]; cbn [map join]; [exact Q|]. intro E. apply app_eq_nil in E. destruct E. contradiction.
Qed.

(* ------------------------------------------------------------------ domain preservation *)
Lemma csp_dom_set k v d : centry_ok (k, v) = true -> csp_dom d -> csp_dom (ad_set k v d).
Proof.
  intros Hk [N F]. split.
  - rewrite ad_set_keys. unfold ad_mem. destruct (ad_get k d) eqn:E; [exact N|].
    apply NoDup_app_one; [exact N|apply ad_get_None; exact E].
  - apply Forall_forall. intros x Hx. rewrite Forall_forall in F.
    assert (G : forall d0, Forall (fun kv => centry_ok kv = true) d0 -> Forall (fun kv => centry_ok kv = true) (ad_set k v d0)).
    { induction d0 as [|[k0 v0] d0 IH]; intro F0; cbn [ad_set]; [constructor; [exact Hk|constructor]|].
      inversion F0; subst. destruct (list_eqb k k0) eqn:E.
      - apply list_eqb_eq in E. subst k0. constructor; [|assumption].
        unfold centry_ok in *. cbn [fst snd] in *. exact Hk.
      - constructor; [assumption|apply IH; assumption]. }
    assert (F' : Forall (fun kv => centry_ok kv = true) d) by (apply Forall_forall; exact F).
    specialize (G d F'). rewrite Forall_forall in G. apply G. exact Hx.
Qed.

Lemma csp_dom_filter (p : str * str -> bool) d : csp_dom d -> csp_dom (filter p d).
Proof.
  intros [N F]. split.
  - clear F. induction d as [|a d IH]; cbn [filter map]; [constructor|]. inversion N; subst.
    destruct (p a); cbn [map]; [|apply IH; assumption]. constructor; [|apply IH; assumption].
    intro A. apply in_map_iff in A. destruct A as [x [E Hx]]. apply filter_In in Hx. destruct Hx as [Hx _].
    apply H1. rewrite <- E. apply in_map. exact Hx.
  - apply Forall_forall. intros x Hx. apply filter_In in Hx. rewrite Forall_forall in F. apply F. apply Hx.
Qed.

Lemma csp_dom_removelast d : csp_dom d -> csp_dom (removelast d).
Proof.
  intros [N F]. destruct d as [|a d] using rev_ind; [split; constructor|].
  rewrite removelast_last. rewrite map_app in N. split.
  - cbn [map] in N. apply NoDup_remove_1 in N. rewrite app_nil_r in N. exact N.
  - apply Forall_app in F. apply F.
Qed.

Lemma csp_dom_update l : forall d, Forall (fun kv => centry_ok kv = true) l -> csp_dom d ->
  csp_dom (fold_left (fun d kv => ad_set (fst kv) (snd kv) d) l d).
Proof.
  induction l as [|[k v] l IH]; intros d F D; cbn [fold_left fst snd]; [exact D|].
  inversion F; subst. apply IH; [assumption|]. apply csp_dom_set; assumption.
Qed.

Lemma csp_keys_ok : forallb (fun p => ckey_ok (snd p)) csp_props = true.
Proof. vm_compute. reflexivity. Qed.

Lemma csp_key_ok attr key : prop_lookup attr csp_props = Some key -> ckey_ok key = true.
Proof.
  intro H. apply prop_lookup_In in H. pose proof csp_keys_ok as P. rewrite forallb_forall in P. apply (P _ H).
Qed.

Definition sdop_ok (o : dop str) : bool :=
  match o with
  | DSetItem k v | DSetDefault k v => centry_ok (k, v)
  | DUpdate l => forallb centry_ok l
  | _ => true
  end.
Definition cspop_ok (o : cspop) : bool :=
  match o with
  | CDict o => sdop_ok o
  | CSetAttr _ (Some v) => cval_ok v
  | _ => true
  end.

Lemma csp_step_dom d o : csp_dom d -> cspop_ok o = true ->
  csp_dom (fst (fst (csp_step d o))) /\ (snd (csp_step d o) = false -> fst (fst (csp_step d o)) = d).
Proof.
  intros D Hok. destruct o as [attr v|attr|o]; cbn [csp_step].
  - destruct (prop_lookup attr csp_props) as [key|] eqn:L; [|split; [exact D|reflexivity]].
    pose proof (csp_key_ok _ _ L) as Hk. destruct v as [v|].
    + cbn [fst snd cspop_ok] in *. split; [|discriminate]. apply csp_dom_set; [|exact D].
      unfold centry_ok. cbn [fst snd]. rewrite Hk, Hok. reflexivity.
    + destruct (ad_mem key d); cbn [fst snd]; split; try (apply csp_dom_filter; exact D); try exact D; try discriminate; reflexivity.
  - destruct (prop_lookup attr csp_props) as [key|]; [|split; [exact D|reflexivity]].
    destruct (ad_mem key d); cbn [fst snd]; split; try (apply csp_dom_filter; exact D); try exact D; try discriminate; reflexivity.
  - cbn [cspop_ok] in Hok. destruct o as [k v|k|k|k dv| |k v| |l]; cbn [d_step sdop_ok] in *.
    + split; [apply csp_dom_set; assumption|discriminate].
    + destruct (ad_mem k d); cbn [fst snd]; split; try (apply csp_dom_filter; exact D); try exact D; try discriminate; reflexivity.
    + destruct (ad_get k d); cbn [fst snd]; split; try (apply csp_dom_filter; exact D); try exact D; try discriminate; reflexivity.
    + destruct (ad_get k d); cbn [fst snd]; split; try (apply csp_dom_filter; exact D); try exact D; try discriminate; reflexivity.
    + split; [split; constructor|discriminate].
    + destruct (ad_get k d) eqn:E; cbn [fst snd]; split; try exact D; try discriminate; try reflexivity.
      rewrite <- (ad_set_fresh k v d) by (apply ad_get_None; exact E). apply csp_dom_set; assumption.
    + destruct (rev d) as [|[k v] ?]; cbn [fst snd]; split; try (apply csp_dom_removelast; exact D); try exact D; try discriminate; reflexivity.
    + split; [|discriminate]. apply csp_dom_update; [|exact D]. apply Forall_forall. intros x Hx.
      rewrite forallb_forall in Hok. apply Hok. exact Hx.
Qed.

Definition csp_coh (st : headers * sdict) : Prop := csp_dom (snd st) /\ csp_parse_h (fst st) = snd st.
Definition csp_serial (st : headers * sdict) : Prop :=
  hd_get_key (fst st) CSP_NAME = if nonempty (snd st) then Some (dump_csp (snd st)) else None.

Theorem csp_step_coherent h d o :
  csp_coh (h, d) -> cspop_ok o = true ->
  let d' := fst (fst (csp_step d o)) in
  has_newline (dump_csp d') = true \/
  (csp_coh (fst (cspr_step (h, d) o)) /\
   (snd (csp_step d o) = true -> csp_serial (fst (cspr_step (h, d) o))) /\
   (snd (csp_step d o) = false -> fst (cspr_step (h, d) o) = (h, d))).
Proof.
  intros [D P] Hok. cbn [fst snd] in D, P. cbv zeta. cbn [cspr_step].
  destruct (csp_step_dom d o D Hok) as [D' Hun].
  destruct (csp_step d o) as [[d' r] fired]. cbn [fst snd] in *.
  destruct (has_newline (dump_csp d')) eqn:Hn; [left; reflexivity|right].
  destruct fired.
  - unfold csp_cb, apply_cb. destruct (nonempty d') eqn:Hb; cbn [negb andb].
    + unfold hd_set, str_header_value. rewrite Hn. cbn [fst snd].
      assert (G : hd_get_key (hd_set_str h CSP_NAME (dump_csp d')) CSP_NAME = Some (dump_csp d'))
        by (apply hd_get_after_set; apply ci_eqb_refl).
      split; [|split; [|discriminate]].
      * split; [exact D'|]. cbn [fst snd]. unfold csp_parse_h. rewrite G. apply csp_roundtrip. exact D'.
      * intros _. unfold csp_serial. cbn [fst snd]. rewrite Hb. exact G.
    + destruct d' as [|? ?]; [|discriminate].
      assert (G : hd_get_key (hd_del_key h CSP_NAME) CSP_NAME = None) by (apply hd_get_after_del; apply ci_eqb_refl).
      cbn [fst snd]. split; [|split; [|discriminate]].
      * split; [exact D'|]. cbn [fst snd]. unfold csp_parse_h. rewrite G. reflexivity.
      * intros _. unfold csp_serial. cbn [fst snd nonempty]. exact G.
  - rewrite (Hun eq_refl). cbn [fst snd]. split; [split; [exact D|exact P]|]. split; [discriminate|reflexivity].
Qed.
