(* C05 proofs: header hygiene over every mutator sequence, Content-Length / body-less rules, status, close chaining. *)
From Coq Require Import ZArith Lia ZifyBool ZifyN.
From Wz Require Import lib.Bytes lib.BytesFacts lib.Utf8 C08.LibStr C08.LibStrFacts C08.Gen C08.Model C08.Spec C08.Proofs
  C05.Base C05.Gen C05.Model.
Open Scope N_scope.

(* ================================================================== header hygiene *)
(* clean h (C08/Proofs.v): no stored value contains CR or LF *)
Definition dirty (v : hval) : bool := match str_header_value v with Ok _ => false | Err _ => true end.

Lemma str_header_value_ok v s : str_header_value v = Ok s -> has_newline s = false.
Proof.
  unfold str_header_value. destruct v as [x|z].
  - destruct (has_newline x) eqn:E; [discriminate|]. intro H. inversion H; subst. exact E.
  - destruct (has_newline (dec_of_Z z)) eqn:E; [discriminate|]. intro H. inversion H; subst. exact E.
Qed.

Lemma str_header_value_err v e : str_header_value v = Err e -> e = ValueError.
Proof. unfold str_header_value. destruct (has_newline _); [intro H; inversion H; reflexivity|discriminate]. Qed.

Lemma clean_nil : clean [].
Proof. intros k v []. Qed.

Lemma clean_app h1 h2 : clean h1 -> clean h2 -> clean (h1 ++ h2).
Proof. intros A B k v H. apply in_app_or in H. destruct H; [apply (A k v)|apply (B k v)]; assumption. Qed.

Lemma clean_one k s : has_newline s = false -> clean [(k, s)].
Proof. intros H k' v [E|[]]. inversion E; subst. exact H. Qed.

Lemma clean_incl h1 h2 : (forall x, In x h2 -> In x h1) -> clean h1 -> clean h2.
Proof. intros I C k v H. apply (C k v). apply I. exact H. Qed.

Lemma clean_filter (p : str * str -> bool) h : clean h -> clean (filter p h).
Proof. apply clean_incl. intros x H. apply filter_In in H. apply H. Qed.

Lemma clean_cons kv h : clean (kv :: h) <-> has_newline (snd kv) = false /\ clean h.
Proof.
  split.
  - intro C. split; [destruct kv as [k v]; apply (C k v); left; reflexivity|].
    intros k v H. apply (C k v). right. exact H.
  - intros [A B] k v [E|H]; [subst kv; exact A|apply (B k v); exact H].
Qed.

(* an hstat is fine when its state is clean and the only exception it can carry is ValueError *)
Definition fine (a : hstat) : Prop := clean (fst a) /\ (forall e, snd a = Some e -> e = ValueError).

Lemma fine_ret h : clean h -> fine (h, None).
Proof. intro C. split; [exact C|discriminate]. Qed.

Lemma fine_hseq a f : fine a -> (forall h, clean h -> fine (f h)) -> fine (hseq a f).
Proof.
  intros [C E] F. destruct a as [h [e|]]; cbn [hseq fst snd] in *.
  - split; [exact C|intros e' H; inversion H; subst; apply E; reflexivity].
  - apply F. exact C.
Qed.

Lemma fine_add h k v : clean h -> fine (hd_add h k v).
Proof.
  intro C. unfold hd_add. destruct (str_header_value v) as [s|e] eqn:E.
  - apply fine_ret. apply clean_app; [exact C|apply clean_one; apply (str_header_value_ok v s E)].
  - split; [exact C|]. cbn [snd]. intros e' H. inversion H; subst. apply (str_header_value_err v _ E).
Qed.

Lemma clean_set_str h k s : clean h -> has_newline s = false -> clean (hd_set_str h k s).
Proof.
  intros C Hs. unfold hd_set_str.
  assert (G : forall h0, clean h0 -> match hd_set_go h0 k s with Some h' => clean h' | None => True end).
  { induction h0 as [|[a v] h0 IH]; intro C0; cbn [hd_set_go]; [exact I|].
    apply clean_cons in C0. destruct C0 as [Hv C0]. destruct (hd_set_match a k).
    - apply clean_cons. split; [exact Hs|apply clean_filter; exact C0].
    - specialize (IH C0). destruct (hd_set_go h0 k s); cbn [option_map]; [|exact I].
      apply clean_cons. split; assumption. }
  specialize (G h C). destruct (hd_set_go h k s); [exact G|]. apply clean_app; [exact C|apply clean_one; exact Hs].
Qed.

Lemma fine_set h k v : clean h -> fine (hd_set h k v).
Proof.
  intro C. unfold hd_set. destruct (str_header_value v) as [s|e] eqn:E.
  - apply fine_ret. apply clean_set_str; [exact C|apply (str_header_value_ok v s E)].
  - split; [exact C|]. cbn [snd]. intros e' H. inversion H; subst. apply (str_header_value_err v _ E).
Qed.

Lemma fine_add_all k vs : forall h, clean h -> fine (hd_add_all h k vs).
Proof.
  induction vs as [|v vs IH]; intros h C; cbn [hd_add_all]; [apply fine_ret; exact C|].
  apply fine_hseq; [apply fine_add; exact C|exact IH].
Qed.

Lemma clean_del h k : clean h -> clean (hd_del_key h k).
Proof. apply clean_filter. Qed.

Lemma fine_setlist h k vs : clean h -> fine (hd_setlist h k vs).
Proof.
  intro C. destruct vs as [|v vs]; cbn [hd_setlist]; [apply fine_ret; apply clean_del; exact C|].
  apply fine_hseq; [apply fine_set; exact C|apply fine_add_all].
Qed.

Lemma fine_extend_items l : forall h, clean h -> fine (hd_extend_items h l).
Proof.
  induction l as [|[k v] l IH]; intros h C; cbn [hd_extend_items]; [apply fine_ret; exact C|].
  apply fine_hseq; [apply fine_add; exact C|exact IH].
Qed.

Lemma fine_update_sets l : forall h, clean h -> fine (hd_update_sets h l).
Proof.
  induction l as [|[k v] l IH]; intros h C; cbn [hd_update_sets]; [apply fine_ret; exact C|].
  apply fine_hseq; [apply fine_set; exact C|exact IH].
Qed.

Lemma fine_update_dict l : forall h, clean h -> fine (hd_update_dict h l).
Proof.
  induction l as [|[k [v|vs]] l IH]; intros h C; cbn [hd_update_dict]; [apply fine_ret; exact C| |];
    (apply fine_hseq; [first [apply fine_set|apply fine_setlist]; exact C|exact IH]).
Qed.

Lemma fine_update_lists l : forall h, clean h -> fine (hd_update_lists h l).
Proof.
  induction l as [|[k vs] l IH]; intros h C; cbn [hd_update_lists]; [apply fine_ret; exact C|].
  apply fine_hseq; [apply fine_setlist; exact C|exact IH].
Qed.

Lemma fine_update h a : clean h -> fine (hd_update h a).
Proof.
  intro C. destruct a; cbn [hd_update];
    [apply fine_update_sets|apply fine_update_dict|apply fine_update_lists|apply fine_update_lists]; exact C.
Qed.

Lemma str_pairs_ok l new : hd_str_pairs l = Ok new -> clean new.
Proof.
  revert new. induction l as [|[k v] l IH]; intros new H; cbn [hd_str_pairs] in H.
  - inversion H. apply clean_nil.
  - destruct (str_header_value v) as [s|e] eqn:E; [|discriminate].
    destruct (hd_str_pairs l) as [t|e]; [|discriminate]. inversion H; subst.
    apply clean_cons. split; [apply (str_header_value_ok v s E)|apply IH; reflexivity].
Qed.

Lemma str_pairs_err l e : hd_str_pairs l = Err e -> e = ValueError.
Proof.
  induction l as [|[k v] l IH]; cbn [hd_str_pairs]; [discriminate|].
  destruct (str_header_value v) as [s|e'] eqn:E.
  - destruct (hd_str_pairs l) as [t|e']; [discriminate|]. intro H. inversion H; subst. apply IH. reflexivity.
  - intro H. inversion H; subst. apply (str_header_value_err v _ E).
Qed.

Lemma clean_firstn n h : clean h -> clean (firstn n h).
Proof.
  apply clean_incl. intros x H. rewrite <- (firstn_skipn n h). apply in_or_app. left. exact H.
Qed.
Lemma clean_skipn n h : clean h -> clean (skipn n h).
Proof.
  apply clean_incl. intros x H. rewrite <- (firstn_skipn n h). apply in_or_app. right. exact H.
Qed.

Lemma clean_slice_set h a b new : clean h -> clean new -> clean (slice_set h a b new).
Proof.
  intros C N. unfold slice_set. apply clean_app; [apply clean_firstn; exact C|].
  apply clean_app; [exact N|apply clean_skipn; exact C].
Qed.

Lemma clean_remove_nth n h : clean h -> clean (remove_nth n h).
Proof.
  revert n. induction h as [|x h IH]; intros n C; destruct n; cbn [remove_nth]; try exact C.
  - apply clean_cons in C. apply C.
  - apply clean_cons in C. destruct C. apply clean_cons. split; [assumption|apply IH; assumption].
Qed.

Lemma clean_set_nth n k s h : clean h -> has_newline s = false -> clean (set_nth n (k, s) h).
Proof.
  revert n. induction h as [|x h IH]; intros n C Hs; destruct n; cbn [set_nth]; try exact C.
  - apply clean_cons in C. destruct C. apply clean_cons. split; assumption.
  - apply clean_cons in C. destruct C. apply clean_cons. split; [assumption|apply IH; assumption].
Qed.

Lemma clean_removelast h : clean h -> clean (removelast h).
Proof.
  apply clean_incl. intros x H. induction h as [|a h IH]; cbn [removelast] in H; [destruct H|].
  destruct h; [destruct H|]. destruct H as [H|H]; [left; exact H|right; apply IH; exact H].
Qed.

(* every mutator keeps the headers clean, whatever it is given *)
Theorem hd_step_clean h o : clean h -> clean (fst (hd_step h o)).
Proof.
  intro C. destruct o; cbn [hd_step].
  - destruct (fine_add h k v C) as [A _]. destruct (hd_add h k v) as [h' [e|]]; exact A.
  - destruct (fine_set h k v C) as [A _]. destruct (hd_set h k v) as [h' [e|]]; exact A.
  - destruct (fine_setlist h k vs C) as [A _]. destruct (hd_setlist h k vs) as [h' [e|]]; exact A.
  - destruct (hd_get_key h k); [exact C|]. destruct (fine_set h k v C) as [A _]. destruct (hd_set h k v) as [h' [e|]]; exact A.
  - destruct (hd_contains h k); [exact C|]. destruct (fine_setlist h k vs C) as [A _].
    destruct (hd_setlist h k vs) as [h' [e|]]; exact A.
  - destruct (fine_extend_items (harg_items a) h C) as [A _]. unfold hd_extend. destruct (hd_extend_items h (harg_items a)) as [h' [e|]]; exact A.
  - destruct (fine_update h a C) as [A _]. destruct (hd_update h a) as [h' [e|]]; exact A.
  - destruct (fine_update h a C) as [A _]. destruct (hd_update h a) as [h' [e|]]; exact A.
  - apply clean_del. exact C.
  - destruct (norm_index (length h) i); [apply clean_remove_nth|]; exact C.
  - apply clean_slice_set; [exact C|apply clean_nil].
  - apply clean_del. exact C.
  - destruct (rev h) as [|[k v] ?]; [exact C|apply clean_removelast; exact C].
  - destruct (norm_index (length h) i); [apply clean_remove_nth|]; exact C.
  - destruct (hd_get_key h k); [apply clean_del|]; exact C.
  - destruct (rev h) as [|[k v] ?]; [exact C|apply clean_removelast; exact C].
  - apply clean_nil.
  - destruct (fine_set h k v C) as [A _]. destruct (hd_set h k v) as [h' [e|]]; exact A.
  - destruct (str_header_value v) as [s|e] eqn:E; [|exact C].
    destruct (norm_index (length h) i); [|exact C]. apply clean_set_nth; [exact C|apply (str_header_value_ok v s E)].
  - destruct (hd_str_pairs l) as [new|e] eqn:E; [|exact C]. apply clean_slice_set; [exact C|apply (str_pairs_ok l new E)].
Qed.

(* lifted to every sequence of mutators, starting from any constructor input *)
Definition hd_exec (h : headers) (ops : list hop) : headers := fold_left (fun h o => fst (hd_step h o)) ops h.

Theorem no_newline_in_values ops : forall h, clean h -> clean (hd_exec h ops).
Proof.
  unfold hd_exec. induction ops as [|o ops IH]; intros h C; cbn [fold_left]; [exact C|].
  apply IH. apply hd_step_clean. exact C.
Qed.

Theorem hd_init_clean a : clean (fst (hd_init a)).
Proof.
  destruct a as [a|]; cbn [hd_init]; [|apply clean_nil].
  destruct (fine_extend_items (harg_items a) [] clean_nil) as [A _]. exact A.
Qed.

(* ------------------------------------------------------------------ refusal *)
Definition hop_values (o : hop) : list hval :=
  match o with
  | HdAdd _ v | HdSet _ v | HdSetItemKey _ v | HdSetDefault _ v | HdSetItemIdx _ _ v => [v]
  | HdSetList _ vs | HdSetListDefault _ vs => vs
  | HdExtend a | HdUpdate a | HdIor a => map snd (harg_items a)
  | HdSetItemSlice _ _ l => map snd l
  | _ => []
  end.
(* setdefault / setlistdefault return the existing value without looking at the default when the key is present *)
Definition hop_validates (h : headers) (o : hop) : bool :=
  match o with
  | HdSetDefault k _ | HdSetListDefault k _ => negb (hd_contains h k)
  | _ => true
  end.
Definition hop_atomic (o : hop) : bool :=
  match o with
  | HdAdd _ _ | HdSet _ _ | HdSetItemKey _ _ | HdSetDefault _ _ | HdSetItemIdx _ _ _ | HdSetItemSlice _ _ _ => true
  | _ => false
  end.

Definition all_ok (vs : list hval) : Prop := existsb dirty vs = false.

Lemma add_none h k v h' : hd_add h k v = (h', None) -> dirty v = false.
Proof. unfold hd_add, dirty. destruct (str_header_value v); [reflexivity|discriminate]. Qed.
Lemma set_none h k v h' : hd_set h k v = (h', None) -> dirty v = false.
Proof. unfold hd_set, dirty. destruct (str_header_value v); [reflexivity|discriminate]. Qed.

Lemma hseq_none a f h' : hseq a f = (h', None) -> exists h1, a = (h1, None) /\ f h1 = (h', None).
Proof. destruct a as [h1 [e|]]; cbn [hseq]; [discriminate|]. intro H. exists h1. split; [reflexivity|exact H]. Qed.

Lemma add_all_none k vs : forall h h', hd_add_all h k vs = (h', None) -> all_ok vs.
Proof.
  unfold all_ok. induction vs as [|v vs IH]; intros h h' H; cbn [hd_add_all existsb] in *; [reflexivity|].
  apply hseq_none in H. destruct H as (h1 & A & B). rewrite (add_none _ _ _ _ A). apply (IH _ _ B).
Qed.

Lemma setlist_none h k vs h' : hd_setlist h k vs = (h', None) -> all_ok vs.
Proof.
  unfold all_ok. destruct vs as [|v vs]; cbn [hd_setlist existsb]; [reflexivity|]. intro H.
  apply hseq_none in H. destruct H as (h1 & A & B). rewrite (set_none _ _ _ _ A). apply (add_all_none _ _ _ _ B).
Qed.

Lemma extend_items_none l : forall h h', hd_extend_items h l = (h', None) -> all_ok (map snd l).
Proof.
  unfold all_ok. induction l as [|[k v] l IH]; intros h h' H; cbn [hd_extend_items map snd existsb] in *; [reflexivity|].
  apply hseq_none in H. destruct H as (h1 & A & B). rewrite (add_none _ _ _ _ A). apply (IH _ _ B).
Qed.

Lemma update_sets_none l : forall h h', hd_update_sets h l = (h', None) -> all_ok (map snd l).
Proof.
  unfold all_ok. induction l as [|[k v] l IH]; intros h h' H; cbn [hd_update_sets map snd existsb] in *; [reflexivity|].
  apply hseq_none in H. destruct H as (h1 & A & B). rewrite (set_none _ _ _ _ A). apply (IH _ _ B).
Qed.

Lemma existsb_app_false {A} (p : A -> bool) l1 l2 : existsb p l1 = false -> existsb p l2 = false -> existsb p (l1 ++ l2) = false.
Proof. intros A1 A2. rewrite existsb_app, A1, A2. reflexivity. Qed.

Lemma update_dict_none l : forall h h', hd_update_dict h l = (h', None) -> all_ok (map snd (hflatten l)).
Proof.
  unfold all_ok, hflatten. induction l as [|[k [v|vs]] l IH]; intros h h' H; cbn [hd_update_dict flat_map fst snd] in *; [reflexivity| |].
  - apply hseq_none in H. destruct H as (h1 & A & B). cbn [app map snd existsb]. rewrite (set_none _ _ _ _ A). apply (IH _ _ B).
  - apply hseq_none in H. destruct H as (h1 & A & B). rewrite map_app. apply existsb_app_false; [|apply (IH _ _ B)].
    rewrite map_map. cbn [snd]. rewrite map_id. apply (setlist_none _ _ _ _ A).
Qed.

Lemma update_lists_none l : forall h h', hd_update_lists h l = (h', None) ->
  existsb dirty (map VStr (flat_map snd l)) = false.
Proof.
  induction l as [|[k vs] l IH]; intros h h' H; cbn [hd_update_lists flat_map snd] in *; [reflexivity|].
  apply hseq_none in H. destruct H as (h1 & A & B). rewrite map_app. apply existsb_app_false; [apply (setlist_none _ _ _ _ A)|apply (IH _ _ B)].
Qed.

Lemma str_pairs_all l new : hd_str_pairs l = Ok new -> all_ok (map snd l).
Proof.
  unfold all_ok. revert new. induction l as [|[k v] l IH]; intros new H; cbn [hd_str_pairs map snd existsb] in *; [reflexivity|].
  unfold dirty at 1. destruct (str_header_value v); [|discriminate]. destruct (hd_str_pairs l) as [t|]; [|discriminate].
  apply (IH t). reflexivity.
Qed.

Lemma existsb_map_VStr_snd (l : list (str * str)) :
  existsb dirty (map snd (map (fun kv => (fst kv, VStr (snd kv))) l)) = existsb dirty (map VStr (map snd l)).
Proof. rewrite !map_map. reflexivity. Qed.

(* a dirty value among the values of a header row shows up in the flattened rows *)
Lemma dirty_in_rows (h2 : headers) :
  existsb dirty (map VStr (map snd h2)) = true ->
  existsb dirty (map VStr (flat_map snd (map (fun kv => (fst kv, hd_getlist h2 (fst kv))) h2))) = true.
Proof.
  intro H. apply existsb_exists in H. destruct H as [x [Hx Dx]]. apply in_map_iff in Hx. destruct Hx as [s [Es Hs]].
  apply in_map_iff in Hs. destruct Hs as [[k v] [Ev Hkv]]. cbn [snd] in Ev. subst s x.
  apply existsb_exists. exists (VStr v). split; [|exact Dx]. apply in_map. apply in_flat_map.
  exists (k, hd_getlist h2 k). split; [apply (in_map (fun kv => (fst kv, hd_getlist h2 (fst kv))) h2 (k, v) Hkv)|].
  cbn [snd]. unfold hd_getlist. apply in_map_iff. exists (k, v). split; [reflexivity|]. apply filter_In. split; [exact Hkv|].
  cbn [fst]. unfold hd_getlist_match. apply list_eqb_refl.
Qed.

Lemma update_none h a h' : hd_update h a = (h', None) -> all_ok (map snd (harg_items a)).
Proof.
  unfold all_ok. destruct a as [l|l|d|h2]; cbn [hd_update harg_items]; intro H.
  - apply (update_sets_none _ _ _ H).
  - apply (update_dict_none _ _ _ H).
  - apply update_lists_none in H. unfold md_items_multi. rewrite map_map. cbn [snd].
    rewrite <- H. f_equal. clear. induction d as [|[k vs] d IH]; cbn [flat_map map snd]; [reflexivity|].
    rewrite !map_app, IH. f_equal. rewrite !map_map. reflexivity.
  - apply update_lists_none in H. rewrite existsb_map_VStr_snd.
    destruct (existsb dirty (map VStr (map snd h2))) eqn:E; [|reflexivity].
    apply dirty_in_rows in E. congruence.
Qed.

Lemma hfin_err a o e : snd a = Some e -> snd (hfin a o) = Err e.
Proof. destruct a as [h [x|]]; cbn [snd hfin]; intro H; [inversion H; reflexivity|discriminate]. Qed.

Lemma not_none_some {A} (x : option A) : x <> None -> exists e, x = Some e.
Proof. destruct x; [intros _; eexists; reflexivity|contradiction]. Qed.

(* a step is refused with ValueError whenever one of the values it carries contains CR or LF *)
Theorem newline_refused h o :
  clean h -> existsb dirty (hop_values o) = true -> hop_validates h o = true ->
  snd (hd_step h o) = Err ValueError.
Proof.
  intros C D V.
  assert (K : forall (a : hstat) out, fine a -> (forall h', a = (h', None) -> existsb dirty (hop_values o) = false) ->
              snd (hfin a out) = Err ValueError).
  { intros a out [_ F] N. destruct a as [h' [e|]].
    - cbn [hfin snd]. rewrite (F e eq_refl). reflexivity.
    - rewrite (N h' eq_refl) in D. discriminate. }
  destruct o; cbn [hop_values hop_validates] in *; try discriminate; cbn [hd_step].
  - apply K; [apply fine_add; exact C|]. intros h' E. cbn [existsb]. rewrite (add_none _ _ _ _ E). reflexivity.
  - apply K; [apply fine_set; exact C|]. intros h' E. cbn [existsb]. rewrite (set_none _ _ _ _ E). reflexivity.
  - apply K; [apply fine_setlist; exact C|]. intros h' E. apply (setlist_none _ _ _ _ E).
  - apply negb_true_iff in V. unfold hd_contains in V. destruct (hd_get_key h k); [discriminate|].
    destruct (fine_set h k v C) as [_ F]. destruct (hd_set h k v) as [h' [e|]] eqn:E.
    + cbn [snd]. rewrite (F e eq_refl). reflexivity.
    + cbn [existsb] in D. rewrite (set_none _ _ _ _ E) in D. discriminate.
  - apply negb_true_iff in V. rewrite V.
    destruct (fine_setlist h k vs C) as [_ F]. destruct (hd_setlist h k vs) as [h' [e|]] eqn:E.
    + cbn [snd]. rewrite (F e eq_refl). reflexivity.
    + rewrite (setlist_none _ _ _ _ E) in D. discriminate.
  - apply K; [apply fine_extend_items; exact C|]. intros h' E. apply (extend_items_none _ _ _ E).
  - apply K; [apply fine_update; exact C|]. intros h' E. apply (update_none _ _ _ E).
  - apply K; [apply fine_update; exact C|]. intros h' E. apply (update_none _ _ _ E).
  - apply K; [apply fine_set; exact C|]. intros h' E. cbn [existsb]. rewrite (set_none _ _ _ _ E). reflexivity.
  - cbn [existsb] in D. rewrite orb_false_r in D. unfold dirty in D.
    destruct (str_header_value v) as [s|e] eqn:E; [discriminate|]. cbn [snd]. rewrite (str_header_value_err v e E). reflexivity.
  - destruct (hd_str_pairs l) as [new|e] eqn:E.
    + rewrite (str_pairs_all l new E) in D. discriminate.
    + cbn [snd]. rewrite (str_pairs_err l e E). reflexivity.
Qed.

(* the single-value mutators leave the headers unchanged when they refuse *)
Theorem atomic_unchanged h o : hop_atomic o = true -> snd (hd_step h o) = Err ValueError -> fst (hd_step h o) = h.
Proof.
  destruct o; cbn [hop_atomic]; try discriminate; intros _; cbn [hd_step].
  - unfold hd_add. destruct (str_header_value v); cbn [hfin fst snd]; [discriminate|reflexivity].
  - unfold hd_set. destruct (str_header_value v); cbn [hfin fst snd]; [discriminate|reflexivity].
  - destruct (hd_get_key h k); [discriminate|]. unfold hd_set. destruct (str_header_value v); cbn [fst snd]; [|reflexivity].
    destruct (hd_get_key (hd_set_str h k a) k); discriminate.
  - unfold hd_set. destruct (str_header_value v); cbn [hfin fst snd]; [discriminate|reflexivity].
  - destruct (str_header_value v); [|reflexivity]. destruct (norm_index (length h) i); cbn [fst snd]; [discriminate|reflexivity].
  - destruct (hd_str_pairs l); cbn [fst snd]; [discriminate|reflexivity].
Qed.

(* ================================================================== status *)
Theorem clean_status_shape v line code :
  clean_status v = Ok (line, code) ->
  exists cs rest, line = cs ++ SP :: rest /\ parse_dec cs = Some code.
Proof.
  destruct v as [z|s]; cbn [clean_status].
  - intro H. inversion H; subst. exists (dec_of_Z code), (status_phrase code). split; [reflexivity|apply parse_dec_of_Z].
  - destruct (strip uni_ws s) as [|c value] eqn:Ev; [discriminate|].
    destruct (partition1 SP (c :: value)) as [code_str rest] eqn:Ep.
    destruct (parse_dec code_str) as [z|] eqn:Ed.
    + destruct rest as [r|].
      * intro H. inversion H; subst. exists code_str, r. split; [|exact Ed].
        clear -Ep. revert code_str r Ep. generalize (c :: value) as l. induction l as [|x l IH]; intros cs r Ep; cbn [partition1] in Ep; [discriminate|].
        destruct (SP =? x) eqn:E.
        -- apply N.eqb_eq in E. inversion Ep; subst. reflexivity.
        -- destruct (partition1 SP l) as [a b]. inversion Ep; subst. cbn [app]. f_equal. apply IH. reflexivity.
      * intro H. inversion H; subst. exists (dec_of_Z code), (status_phrase code). split; [reflexivity|apply parse_dec_of_Z].
    + intro H. inversion H; subst. exists [48], (c :: value). split; [reflexivity|reflexivity].
Qed.

Theorem clean_status_int z : clean_status (SInt z) = Ok (dec_of_Z z ++ SP :: status_phrase z, z).
Proof. reflexivity. Qed.

(* ================================================================== Content-Length and body-less responses *)
Lemma dec_go_chars f : forall n acc, (forall c, In c acc -> 48 <= c <= 57) -> forall c, In c (dec_go f n acc) -> 48 <= c <= 57.
Proof.
  induction f as [|f IH]; intros n acc Ha c Hc; cbn [dec_go] in Hc; [apply Ha; exact Hc|].
  assert (Hm : n mod 10 < 10) by (apply N.mod_lt; lia).
  assert (Ha' : forall c, In c ((48 + n mod 10) :: acc) -> 48 <= c <= 57) by (intros x [E|E]; [lia|apply Ha; exact E]).
  destruct (n / 10 =? 0); [apply Ha'; exact Hc|apply (IH _ _ Ha' c Hc)].
Qed.

Lemma dec_of_Z_no_newline z : has_newline (dec_of_Z z) = false.
Proof.
  unfold has_newline. apply not_true_is_false. intro H. apply existsb_exists in H. destruct H as [c [Hc Hn]].
  assert (Hr : c = 45 \/ 48 <= c <= 57).
  { unfold dec_of_Z in Hc. destruct z as [|p|p].
    - right. apply (dec_go_chars _ _ [] ltac:(intros ? []) c Hc).
    - right. apply (dec_go_chars _ _ [] ltac:(intros ? []) c Hc).
    - destruct Hc as [E|Hc]; [left; lia|right; apply (dec_go_chars _ _ [] ltac:(intros ? []) c Hc)]. }
  assert (Hb : c < 128) by lia.
  pose proof (sweep128 (fun c => implb (in_ranges c newline_class) (negb ((c =? 45) || ((48 <=? c) && (c <=? 57)))))
                ltac:(vm_compute; reflexivity) c Hb) as S.
  cbv beta in S. rewrite Hn in S. cbn [implb] in S. apply negb_true_iff in S. lia.
Qed.

Lemma copy_clean h : clean h -> hd_extend_items [] (map (fun kv => (fst kv, VStr (snd kv))) h) = (h, None).
Proof.
  intro C. assert (G : forall acc, hd_extend_items acc (map (fun kv => (fst kv, VStr (snd kv))) h) = (acc ++ h, None)).
  { induction h as [|[k v] h IH]; intro acc; cbn [map hd_extend_items fst snd]; [rewrite app_nil_r; reflexivity|].
    apply clean_cons in C. destruct C as [Hv C]. cbn [snd] in Hv. unfold hd_add, str_header_value. rewrite Hv. cbn [hseq].
    rewrite (IH C). rewrite <- app_assoc. reflexivity. }
  apply (G []).
Qed.

(* the property's own reading of body-less: HEAD, 1xx, 204, 304 *)
Definition bodyless (is_head : bool) (code : Z) : bool :=
  is_head || ((100 <=? code)%Z && (code <? 200)%Z) || (code =? 204)%Z || (code =? 304)%Z.
Definition no_cl_status (code : Z) : bool := ((100 <=? code)%Z && (code <? 200)%Z) || (code =? 204)%Z.

Lemma flat_map_encode_map l : flat_map encode_item (map (fun i => IBytes (encode_item i)) l) = flat_map encode_item l.
Proof. induction l as [|i l IH]; cbn [map flat_map encode_item]; [reflexivity|]. rewrite IH. reflexivity. Qed.

Theorem served_bytes r is_head :
  chunk_bytes (s_chunks (serve r is_head)) = if bodyless is_head (r_code r) then [] else body_bytes r.
Proof.
  unfold serve, app_iter_kind, bodyless, chunk_bytes, body_bytes, zmem. cbn [existsb].
  destruct is_head; cbn [orb]; [reflexivity|].
  destruct ((100 <=? r_code r)%Z && (r_code r <? 200)%Z); cbn [orb]; [reflexivity|].
  destruct (r_code r =? 204)%Z; cbn [orb]; [reflexivity|].
  destruct (r_code r =? 304)%Z; cbn [orb]; [reflexivity|].
  destruct (r_passthrough r); cbn [s_chunks]; [reflexivity|apply flat_map_encode_map].
Qed.

Lemma opt_set_other (f : str -> str) h name v h' k' :
  opt_set h name v f = (h', None) -> ci_eqb name k' = false -> hd_getlist h' k' = hd_getlist h k'.
Proof.
  unfold opt_set. destruct v as [x|]; [|intro H; inversion H; reflexivity].
  unfold hd_set. destruct (str_header_value (VStr (f x))) as [s|]; [|discriminate].
  intros H Hk. inversion H; subst. destruct (hd_set_law h name s) as (_ & B & _). apply B. exact Hk.
Qed.

Theorem wsgi_content_length iri join cur r h :
  clean (r_headers r) -> get_wsgi_headers iri join cur r = (h, None) ->
  (no_cl_status (r_code r) = true -> hd_getlist h CONTENT_LENGTH = []) /\
  (last_value (r_headers r) CONTENT_LENGTH = None -> r_auto_cl r = true -> r_is_seq r = true ->
   bodyless false (r_code r) = false ->
   hd_getlist h CONTENT_LENGTH = [dec_of_Z (Z.of_nat (length (body_bytes r)))]).
Proof.
  intros C H. unfold get_wsgi_headers, hd_init, hd_extend, harg_items in H. rewrite (copy_clean _ C) in H. cbn [hseq] in H.
  apply hseq_none in H. destruct H as (h1 & H1 & H). apply hseq_none in H. destruct H as (h2 & H2 & H).
  apply hseq_none in H. destruct H as (h3 & H3 & H4).
  assert (L1 : ci_eqb LOCATION CONTENT_LENGTH = false) by (vm_compute; reflexivity).
  assert (L2 : ci_eqb CONTENT_LOCATION CONTENT_LENGTH = false) by (vm_compute; reflexivity).
  assert (G2 : hd_getlist h2 CONTENT_LENGTH = hd_getlist (r_headers r) CONTENT_LENGTH).
  { rewrite (opt_set_other _ _ _ _ _ _ H2 L2). apply (opt_set_other _ _ _ _ _ _ H1 L1). }
  unfold no_cl_status, bodyless. cbn [orb]. split.
  - intro Hs. unfold wsgi_strip_cl in H3. rewrite Hs in H3. inversion H3; subst h3.
    unfold wsgi_auto_cl, zmem in H4. cbn [existsb] in H4.
    assert (Hf : negb ((r_code r =? 204)%Z || ((r_code r =? 304)%Z || false)) && negb ((100 <=? r_code r)%Z && (r_code r <? 200)%Z) = false) by lia.
    rewrite <- !andb_assoc in H4. rewrite Hf in H4. rewrite !andb_false_r in H4. inversion H4; subst h.
    rewrite hd_del_law, ci_eqb_refl. reflexivity.
  - intros Hl Ha Hq Hb.
    assert (Hs1 : wsgi_strip_cl (r_code r) = false) by (unfold wsgi_strip_cl; lia).
    assert (Hs2 : wsgi_strip_entity (r_code r) = false) by (unfold wsgi_strip_entity; lia).
    rewrite Hs1, Hs2 in H3. inversion H3; subst h3.
    rewrite Hl, Ha, Hq in H4. unfold wsgi_auto_cl, zmem in H4. cbn [existsb andb] in H4.
    assert (Ht : negb ((r_code r =? 204)%Z || ((r_code r =? 304)%Z || false)) && negb ((100 <=? r_code r)%Z && (r_code r <? 200)%Z) = true) by lia.
    rewrite Ht in H4. unfold hd_set, str_header_value in H4. rewrite dec_of_Z_no_newline in H4. inversion H4; subst h.
    destruct (hd_set_law h2 CONTENT_LENGTH (dec_of_Z (Z.of_nat (length (body_bytes r))))) as (A & _). exact A.
Qed.

(* what reaches the server is clean *)
Theorem wsgi_headers_clean iri join cur r : clean (r_headers r) -> clean (fst (get_wsgi_headers iri join cur r)).
Proof.
  intro C. unfold get_wsgi_headers, hd_init, hd_extend, harg_items. rewrite (copy_clean _ C). cbn [hseq].
  assert (Fo : forall h name v f, clean h -> fine (opt_set h name v f))
    by (intros h name v f Ch; unfold opt_set; destruct v; [apply fine_set|apply fine_ret]; exact Ch).
  assert (F : fine (hseq (opt_set (r_headers r) LOCATION (last_value (r_headers r) LOCATION) (location_final iri join cur r)) (fun h1 =>
              hseq (opt_set h1 CONTENT_LOCATION (last_value (r_headers r) CONTENT_LOCATION) iri) (fun h2 =>
              hseq (if wsgi_strip_cl (r_code r) then (hd_del_key h2 CONTENT_LENGTH, None)
                    else if wsgi_strip_entity (r_code r)
                         then match hd_str_pairs (map (fun kv => (fst kv, VStr (snd kv))) (filter (fun kv => entity_keep (fst kv)) h2)) with
                              | Ok new => (slice_set h2 None None new, None)
                              | Err e => (h2, Some e)
                              end
                         else (h2, None)) (fun h3 =>
              if wsgi_auto_cl (r_auto_cl r) (r_is_seq r) (match last_value (r_headers r) CONTENT_LENGTH with None => true | Some _ => false end) (r_code r)
              then hd_set h3 CONTENT_LENGTH (VInt (Z.of_nat (length (body_bytes r))))
              else (h3, None)))))).
  { apply fine_hseq; [apply Fo; exact C|]. intros h1 C1. apply fine_hseq; [apply Fo; exact C1|]. intros h2 C2.
    apply fine_hseq.
    - destruct (wsgi_strip_cl (r_code r)); [apply fine_ret; apply clean_del; exact C2|].
      destruct (wsgi_strip_entity (r_code r)); [|apply fine_ret; exact C2].
      destruct (hd_str_pairs _) as [new|e] eqn:E.
      + apply fine_ret. apply clean_slice_set; [exact C2|apply (str_pairs_ok _ _ E)].
      + split; [exact C2|]. cbn [snd]. intros e' He. inversion He; subst. apply (str_pairs_err _ _ E).
    - intros h3 C3. destruct (wsgi_auto_cl _ _ _ _); [apply fine_set|apply fine_ret]; exact C3. }
  apply F.
Qed.

(* ================================================================== Location *)
Definition is_ascii (s : str) : bool := forallb (fun c => c <? 128) s.

(* the scan keeps the last value; whatever is found is replaced by its finalised form, and nothing after that
   touches the Location rows *)
Theorem location_ascii iri join cur r h :
  (forall s, is_ascii (iri s) = true) ->
  (forall a b, is_ascii a = true -> is_ascii b = true -> is_ascii (join a b) = true) ->
  clean (r_headers r) -> get_wsgi_headers iri join cur r = (h, None) ->
  forall v, In v (hd_getlist h LOCATION) -> is_ascii v = true.
Proof.
  intros Hi Hj C H. unfold get_wsgi_headers, hd_init, hd_extend, harg_items in H. rewrite (copy_clean _ C) in H. cbn [hseq] in H.
  apply hseq_none in H. destruct H as (h1 & H1 & H). apply hseq_none in H. destruct H as (h2 & H2 & H).
  apply hseq_none in H. destruct H as (h3 & H3 & H4).
  assert (L2 : ci_eqb CONTENT_LOCATION LOCATION = false) by (vm_compute; reflexivity).
  assert (L3 : ci_eqb CONTENT_LENGTH LOCATION = false) by (vm_compute; reflexivity).
  (* after the Location step every Location value is ASCII *)
  assert (A1 : forall v, In v (hd_getlist h1 LOCATION) -> is_ascii v = true).
  { unfold opt_set in H1. unfold last_value in H1. destruct (hd_error (rev (hd_getlist (r_headers r) LOCATION))) as [loc|] eqn:E.
    - unfold hd_set in H1. destruct (str_header_value (VStr (location_final iri join cur r loc))) as [s|] eqn:Es; [|discriminate].
      inversion H1; subst h1. destruct (hd_set_law (r_headers r) LOCATION s) as (G & _). rewrite G. intros v [Ev|[]]. subst v.
      unfold str_header_value in Es. destruct (has_newline _); [discriminate|]. inversion Es; subst s.
      unfold location_final. destruct (r_autocorrect r); [apply Hj; apply Hi|apply Hi].
    - inversion H1; subst h1. destruct (hd_getlist (r_headers r) LOCATION) as [|x l] eqn:G; [intros v []|].
      exfalso. destruct (rev (x :: l)) eqn:R; [|discriminate].
      assert (X : length (rev (x :: l)) = 0%nat) by (rewrite R; reflexivity). rewrite rev_length in X. discriminate. }
  assert (A2 : hd_getlist h2 LOCATION = hd_getlist h1 LOCATION) by (apply (opt_set_other _ _ _ _ _ _ H2 L2)).
  assert (A3 : forall v, In v (hd_getlist h3 LOCATION) -> In v (hd_getlist h2 LOCATION)).
  { destruct (wsgi_strip_cl (r_code r)).
    - inversion H3; subst h3. rewrite hd_del_law, L3. intros v Hv. exact Hv.
    - destruct (wsgi_strip_entity (r_code r)); [|inversion H3; subst h3; intros v Hv; exact Hv].
      destruct (hd_str_pairs _) as [new|e] eqn:E; [|discriminate]. inversion H3; subst h3.
      assert (Enew : new = filter (fun kv => entity_keep (fst kv)) h2).
      { clear -E. revert new E. generalize (filter (fun kv : str * str => entity_keep (fst kv)) h2) as l.
        induction l as [|[k x] l IH]; intros new E; cbn [map hd_str_pairs fst snd] in E; [inversion E; reflexivity|].
        unfold str_header_value in E. destruct (has_newline x); [discriminate|].
        destruct (hd_str_pairs (map (fun kv => (fst kv, VStr (snd kv))) l)) as [t|] eqn:Et; [|discriminate].
        inversion E; subst. f_equal. apply IH. reflexivity. }
      subst new. unfold slice_set, clamp. cbn [firstn app]. rewrite Nat.max_r by lia. rewrite skipn_all. rewrite app_nil_r.
      intros v Hv. unfold hd_getlist in *. apply in_map_iff in Hv. destruct Hv as [kv [Ekv Hkv]]. apply filter_In in Hkv.
      destruct Hkv as [Hkv M]. apply filter_In in Hkv. destruct Hkv as [Hkv _].
      apply in_map_iff. exists kv. split; [exact Ekv|]. apply filter_In. split; assumption. }
  assert (A4 : hd_getlist h LOCATION = hd_getlist h3 LOCATION).
  { destruct (wsgi_auto_cl _ _ _ _); [|inversion H4; reflexivity].
    unfold hd_set in H4. destruct (str_header_value _) as [s|]; [|discriminate]. inversion H4; subst h.
    destruct (hd_set_law h3 CONTENT_LENGTH s) as (_ & B & _). apply B. exact L3. }
  intros v Hv. rewrite A4 in Hv. apply A3 in Hv. rewrite A2 in Hv. apply A1. exact Hv.
Qed.

(* ================================================================== close exactly once, in order *)
Definition user_events (t : list event) : list nat :=
  flat_map (fun e => match e with EUser i => [i] | _ => [] end) t.
Definition wrapped_closes (t : list event) : nat :=
  length (filter (fun e => match e with EWrapped => true | _ => false end) t).
Definition user_ids (cbs : list cbk) : list nat := flat_map (fun c => match c with CbUser i => [i] | CbWrapped => [] end) cbs.
Definition wrapped_cbs (cbs : list cbk) : nat := length (filter (fun c => match c with CbWrapped => true | _ => false end) cbs).

Lemma response_close_events r :
  user_events (response_close r) = user_ids (r_callbacks r) /\
  wrapped_closes (response_close r) = ((if r_closable r then 1 else 0) + wrapped_cbs (r_callbacks r))%nat.
Proof.
  unfold response_close, user_events, wrapped_closes, user_ids, wrapped_cbs.
  rewrite flat_map_app, filter_app, app_length. split.
  - replace (flat_map _ (if r_closable r then [EWrapped] else [])) with (@nil nat) by (destruct (r_closable r); reflexivity).
    cbn [app]. induction (r_callbacks r) as [|[i|] l IH]; cbn [map flat_map app]; [reflexivity|f_equal; exact IH|exact IH].
  - f_equal; [destruct (r_closable r); reflexivity|].
    induction (r_callbacks r) as [|[i|] l IH]; cbn [map filter length]; [reflexivity|exact IH|f_equal; exact IH].
Qed.

Lemma cb_events_no_iter (l : list cbk) :
  filter (fun e => match e with EIterClose => false | _ => true end)
    (map (fun c => match c with CbUser i => EUser i | CbWrapped => EWrapped end) l)
  = map (fun c => match c with CbUser i => EUser i | CbWrapped => EWrapped end) l.
Proof. induction l as [|[i|] l IH]; cbn [map filter]; [reflexivity| |]; rewrite IH; reflexivity. Qed.

(* not in direct passthrough: the trace of the server's close is the generator close (if any) followed by exactly
   Response.close; so every registered callback ran exactly once, in registration order *)
Theorem close_once r is_head :
  r_passthrough r = false ->
  filter (fun e => match e with EIterClose => false | _ => true end) (s_trace (serve r is_head)) = response_close r /\
  user_events (s_trace (serve r is_head)) = user_ids (r_callbacks r) /\
  wrapped_closes (s_trace (serve r is_head)) = ((if r_closable r then 1 else 0) + wrapped_cbs (r_callbacks r))%nat.
Proof.
  intro P. unfold serve. rewrite P. destruct (response_close_events r) as [U W].
  assert (F : filter (fun e => match e with EIterClose => false | _ => true end) (response_close r) = response_close r).
  { unfold response_close. rewrite filter_app. f_equal; [destruct (r_closable r); reflexivity|]. apply cb_events_no_iter. }
  destruct (app_iter_kind is_head (r_code r) false) eqn:K.
  - cbn [s_trace ci_callbacks app flat_map run_act]. rewrite app_nil_r. split; [exact F|split; [exact U|exact W]].
  - unfold app_iter_kind in K. destruct (is_head || _ || _); discriminate.
  - cbn [s_trace ci_callbacks app flat_map run_act filter]. rewrite app_nil_r. split; [exact F|].
    split; [exact U|exact W].
Qed.

(* with or without an earlier make_sequence: each application callback once and in order, the consumed iterable
   closed exactly once if it can be closed *)
Theorem close_once_make_sequence r is_head (pre : bool) :
  r_passthrough r = false -> wrapped_cbs (r_callbacks r) = 0%nat -> (r_is_seq r = true -> r_closable r = false) ->
  let r' := if pre then make_sequence r else r in
  user_events (s_trace (serve r' is_head)) = user_ids (r_callbacks r) /\
  wrapped_closes (s_trace (serve r' is_head)) = (if r_closable r then 1 else 0)%nat.
Proof.
  intros P W Q. cbv zeta. destruct pre.
  - unfold make_sequence. destruct (r_is_seq r) eqn:Es.
    + destruct (close_once r is_head P) as (_ & A & B). rewrite A, B, W, (Q eq_refl). split; reflexivity.
    + match goal with |- context [serve ?x is_head] => destruct (close_once x is_head P) as (_ & A & B) end.
      rewrite A, B. cbn [r_closable r_callbacks]. unfold user_ids, wrapped_cbs in *. rewrite flat_map_app, filter_app, app_length, W.
      destruct (r_closable r); cbn; rewrite ?app_nil_r; split; reflexivity.
  - destruct (close_once r is_head P) as (_ & A & B). rewrite A, B, W. split; [reflexivity|]. destruct (r_closable r); reflexivity.
Qed.

Theorem close_once_refuted :
  exists r is_head, r_callbacks r = [CbUser 0] /\ user_events (s_trace (serve r is_head)) = [].
Proof.
  exists {| r_headers := []; r_code := 200%Z; r_line := []; r_body := [IBytes [120]]; r_is_seq := false; r_closable := true;
            r_passthrough := true; r_auto_cl := true; r_autocorrect := false; r_callbacks := [CbUser 0] |}, false.
  split; reflexivity.
Qed.

(* the regenerated newline class is the one of the property statement: CR and LF *)
Theorem newline_class_crlf s : has_newline s = false -> mem 10 s = false /\ mem 13 s = false.
Proof.
  unfold has_newline, mem. intro H. split; apply not_true_is_false; intro A; apply existsb_exists in A;
    destruct A as [c [Hc E]]; apply N.eqb_eq in E; subst c;
    assert (X : existsb (fun c => in_ranges c newline_class) s = true)
      by (apply existsb_exists; eexists; split; [exact Hc|vm_compute; reflexivity]); congruence.
Qed.

(* ================================================================== the close trace, exactly, per configuration *)
(* what runs when the server closes the returned iterable, in every configuration: this is the tightest true form
   of the close clause.  In direct passthrough with a body (the known finding) exactly the wrapped iterable's own
   close runs and NO entry of _on_close; in every other configuration exactly Response.close runs (after the close
   of the encoding generator when there is one) *)
Theorem close_trace_exact r is_head :
  s_trace (serve r is_head) =
    if bodyless is_head (r_code r) then response_close r
    else if r_passthrough r then (if r_closable r then [EWrapped] else [])
    else EIterClose :: response_close r.
Proof.
  unfold serve, app_iter_kind, bodyless, zmem. cbn [existsb].
  destruct is_head; cbn [orb]; [cbn; apply app_nil_r|].
  destruct ((100 <=? r_code r)%Z && (r_code r <? 200)%Z); cbn [orb]; [cbn; apply app_nil_r|].
  destruct (r_code r =? 204)%Z; cbn [orb]; [cbn; apply app_nil_r|].
  destruct (r_code r =? 304)%Z; cbn [orb]; [cbn; apply app_nil_r|].
  destruct (r_passthrough r); [reflexivity|]. cbn. rewrite app_nil_r. reflexivity.
Qed.

(* ================================================================== body accessors and Content-Length *)
Lemma body_bytes_encoded l : flat_map encode_item (map (fun i => IBytes (encode_item i)) l) = flat_map encode_item l.
Proof. apply flat_map_encode_map. Qed.

Theorem make_sequence_body r : body_bytes (make_sequence r) = body_bytes r /\ r_headers (make_sequence r) = r_headers r.
Proof.
  unfold make_sequence, body_bytes. destruct (r_is_seq r); [split; reflexivity|]. cbn [r_body r_headers].
  split; [apply body_bytes_encoded|reflexivity].
Qed.

Theorem set_data_agrees r v :
  body_bytes (set_data r v) = encode_item v /\
  (r_auto_cl r = true ->
   hd_getlist (r_headers (set_data r v)) CONTENT_LENGTH = [dec_of_Z (Z.of_nat (length (body_bytes (set_data r v))))]).
Proof.
  unfold set_data, body_bytes, with_body. cbn [r_body r_headers flat_map encode_item]. rewrite app_nil_r.
  split; [reflexivity|]. intro A. rewrite A. destruct (hd_set_law (r_headers r) CONTENT_LENGTH (dec_of_Z (Z.of_nat (length (encode_item v))))) as (G & _).
  exact G.
Qed.

Theorem freeze_agrees etag r :
  let r' := fst (freeze etag r) in
  body_bytes r' = body_bytes r /\ r_is_seq r' = true /\ r_callbacks r' = r_callbacks r /\
  hd_getlist (r_headers r') CONTENT_LENGTH = [dec_of_Z (Z.of_nat (length (body_bytes r')))] /\
  snd (freeze etag r) = r_closable r.
Proof.
  cbv zeta. unfold freeze, with_body. cbn [fst snd r_body r_is_seq r_callbacks r_headers].
  assert (B : body_bytes {| r_headers := []; r_code := 0; r_line := []; r_body := map (fun i => IBytes (encode_item i)) (r_body r);
                           r_is_seq := true; r_closable := false; r_passthrough := false; r_auto_cl := false; r_autocorrect := false;
                           r_callbacks := [] |} = body_bytes r) by (unfold body_bytes; cbn [r_body]; apply body_bytes_encoded).
  unfold body_bytes in *. cbn [r_body] in *. split; [exact B|]. split; [reflexivity|]. split; [reflexivity|]. split; [|reflexivity].
  rewrite B. set (cl := dec_of_Z (Z.of_nat (length (flat_map encode_item (r_body r))))).
  destruct (hd_set_law (r_headers r) CONTENT_LENGTH cl) as (G & _).
  destruct (hd_contains (hd_set_str (r_headers r) CONTENT_LENGTH cl) ETAG); [exact G|].
  destruct (hd_set_law (hd_set_str (r_headers r) CONTENT_LENGTH cl) ETAG etag) as (_ & O & _).
  rewrite O by (vm_compute; reflexivity). exact G.
Qed.

Theorem accessors_agree r :
  match ensure_sequence r with
  | Some r' =>
      body_bytes r' = body_bytes r /\ r_headers r' = r_headers r /\
      snd (calculate_content_length r) = Some (length (body_bytes r)) /\ snd (get_data r) = Some (body_bytes r)
  | None =>
      r_passthrough r = true /\ r_is_seq r = false /\ snd (calculate_content_length r) = None /\ snd (get_data r) = None
  end.
Proof.
  unfold calculate_content_length, get_data, ensure_sequence. destruct (r_is_seq r) eqn:S.
  - repeat split.
  - destruct (r_passthrough r) eqn:P; [repeat split|]. destruct (make_sequence_body r) as [B H]. rewrite B. repeat split; assumption.
Qed.

(* a Content-Length that werkzeug stored itself (set_data, freeze) reaches the server unchanged for every status
   that may carry one *)
Theorem stored_content_length_kept iri join cur r h x :
  clean (r_headers r) -> get_wsgi_headers iri join cur r = (h, None) ->
  hd_getlist (r_headers r) CONTENT_LENGTH = [x] -> bodyless false (r_code r) = false ->
  hd_getlist h CONTENT_LENGTH = [x].
Proof.
  intros C H Hx Hb. unfold get_wsgi_headers, hd_init, hd_extend, harg_items in H. rewrite (copy_clean _ C) in H. cbn [hseq] in H.
  apply hseq_none in H. destruct H as (h1 & H1 & H). apply hseq_none in H. destruct H as (h2 & H2 & H).
  apply hseq_none in H. destruct H as (h3 & H3 & H4).
  assert (L1 : ci_eqb LOCATION CONTENT_LENGTH = false) by (vm_compute; reflexivity).
  assert (L2 : ci_eqb CONTENT_LOCATION CONTENT_LENGTH = false) by (vm_compute; reflexivity).
  assert (G2 : hd_getlist h2 CONTENT_LENGTH = [x]).
  { rewrite (opt_set_other _ _ _ _ _ _ H2 L2), (opt_set_other _ _ _ _ _ _ H1 L1). exact Hx. }
  unfold bodyless in Hb. cbn [orb] in Hb.
  assert (Hs1 : wsgi_strip_cl (r_code r) = false) by (unfold wsgi_strip_cl; lia).
  assert (Hs2 : wsgi_strip_entity (r_code r) = false) by (unfold wsgi_strip_entity; lia).
  rewrite Hs1, Hs2 in H3. inversion H3; subst h3.
  unfold last_value in H4. rewrite Hx in H4. cbn [rev app hd_error] in H4.
  unfold wsgi_auto_cl in H4. rewrite !andb_false_r in H4. cbn [andb] in H4.
  replace (r_auto_cl r && r_is_seq r && false) with false in H4 by (destruct (r_auto_cl r), (r_is_seq r); reflexivity).
  cbn [andb] in H4. inversion H4; subst h. exact G2.
Qed.

(* ------------------------------------------------------------------ Response.stream *)
Theorem stream_write_drops_length r v r' :
  stream_write r v = Some r' ->
  hd_getlist (r_headers r') CONTENT_LENGTH = [] /\ last_value (r_headers r') CONTENT_LENGTH = None /\
  body_bytes r' = body_bytes r ++ encode_item v /\ r_is_seq r' = true /\
  (forall k, ci_eqb CONTENT_LENGTH k = false -> hd_getlist (r_headers r') k = hd_getlist (r_headers r) k).
Proof.
  unfold stream_write. destruct (ensure_sequence r) as [r0|] eqn:E; [|discriminate]. intros H; inversion H; subst r'; clear H.
  assert (B : body_bytes r0 = body_bytes r /\ r_headers r0 = r_headers r).
  { unfold ensure_sequence in E. destruct (r_is_seq r); [inversion E; subst; split; reflexivity|].
    destruct (r_passthrough r); [discriminate|]. inversion E; subst. apply make_sequence_body. }
  destruct B as [B1 B2]. cbn [with_body r_headers r_body r_is_seq].
  assert (G : hd_getlist (hd_del_key (r_headers r0) CONTENT_LENGTH) CONTENT_LENGTH = []).
  { rewrite hd_del_law, ci_eqb_refl. reflexivity. }
  split; [exact G|]. split; [unfold last_value; rewrite G; reflexivity|]. split; [|split; [reflexivity|]].
  - unfold body_bytes, with_body in *. cbn [r_body]. rewrite flat_map_app. cbn [flat_map]. rewrite app_nil_r, B1. reflexivity.
  - intros k Hk. rewrite hd_del_law, Hk, B2. reflexivity.
Qed.

Theorem stream_write_refusal r v : stream_write r v = None <-> (r_is_seq r = false /\ r_passthrough r = true).
Proof.
  unfold stream_write, ensure_sequence. destruct (r_is_seq r), (r_passthrough r); split; intros H; try discriminate; try (destruct H; discriminate); auto.
Qed.

(* ... so the length the server is told after a write is the length of the body as it now stands *)
Theorem stream_write_served_length iri join cur r v r' h :
  clean (r_headers r) -> stream_write r v = Some r' -> r_auto_cl r = true -> bodyless false (r_code r) = false ->
  get_wsgi_headers iri join cur r' = (h, None) ->
  hd_getlist h CONTENT_LENGTH = [dec_of_Z (Z.of_nat (length (body_bytes r ++ encode_item v)))].
Proof.
  intros C W A NB G. destruct (stream_write_drops_length r v r' W) as (_ & L & B & S & _).
  assert (P : clean (r_headers r') /\ r_auto_cl r' = r_auto_cl r /\ r_code r' = r_code r).
  { unfold stream_write in W. destruct (ensure_sequence r) as [r0|] eqn:E; [|discriminate]. inversion W; subst r'; clear W.
    cbn [with_body r_headers r_auto_cl r_code].
    assert (r_headers r0 = r_headers r /\ r_auto_cl r0 = r_auto_cl r /\ r_code r0 = r_code r) as (H1 & H2 & H3).
    { unfold ensure_sequence in E. destruct (r_is_seq r) eqn:Q; [inversion E; subst; repeat split|].
      destruct (r_passthrough r); [discriminate|]. inversion E; subst. unfold make_sequence. rewrite Q. repeat split. }
    rewrite H1, H2, H3. split; [apply clean_del; exact C|split; reflexivity]. }
  destruct P as (C' & A' & K'). rewrite <- B.
  destruct (wsgi_content_length iri join cur r' h C' G) as [_ X]. apply X; [exact L|rewrite A'; exact A|exact S|rewrite K'; exact NB].
Qed.
