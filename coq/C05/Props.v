(* C05 property theorems.  Statements only, each closed by exact <lemma>, Print Assumptions beneath.
   Models: C05/Model.v and the Headers model of C08/Model.v; generated conditions and tables: C05/Gen.v, C08/Gen.v. *)
From Coq Require Import ZArith.
From Wz Require Import lib.Bytes lib.Utf8 C08.LibStr C08.Gen C08.Model C08.Spec C08.Proofs C05.Base C05.Gen C05.Model C05.Proofs.
Open Scope N_scope.

(* ---------------------------------------------------------------- header hygiene *)
(* no stored value ever contains CR or LF: invariant over every sequence of mutators (add, set, setlist,
   setdefault, setlistdefault, extend, update, |=, item / index / slice assignment and deletion, pop, popitem,
   remove, clear) from every constructor input *)
Theorem C05_no_newline_in_values : forall ops h, clean h -> clean (hd_exec h ops).
Proof. exact no_newline_in_values. Qed.
Print Assumptions C05_no_newline_in_values.

Theorem C05_no_newline_constructor : forall a, clean (fst (hd_init a)).
Proof. exact hd_init_clean. Qed.
Print Assumptions C05_no_newline_constructor.

(* clean means what the property says: no CR and no LF (the class is regenerated from _newline_re) *)
Theorem C05_clean_means_no_crlf : forall s, has_newline s = false -> mem 10 s = false /\ mem 13 s = false.
Proof. exact newline_class_crlf. Qed.
Print Assumptions C05_clean_means_no_crlf.

(* a mutator given a value with CR or LF is refused with ValueError (setdefault / setlistdefault look at their
   default only when the key is absent) *)
Theorem C05_newline_refused : forall h o,
  clean h -> existsb dirty (hop_values o) = true -> hop_validates h o = true ->
  snd (hd_step h o) = Err ValueError.
Proof. exact newline_refused. Qed.
Print Assumptions C05_newline_refused.

Example C05_newline_refused_example :
  let o := HdSetList [97] [VStr [49]; VStr [120; 10; 121]] in
  existsb dirty (hop_values o) = true /\ hop_validates [([97], [48])] o = true /\
  hd_step [([97], [48])] o = ([([97], [49])], Err ValueError).
Proof. vm_compute. repeat split. Qed.
Print Assumptions C05_newline_refused_example.

(* ... and the state is unchanged for the single-value mutators; the multi-value ones (setlist, extend, update)
   keep what they stored before the refused value, as the example above shows: the full state-unchanged
   statement is false for them *)
Theorem C05_refused_unchanged_partial : forall h o,
  hop_atomic o = true -> snd (hd_step h o) = Err ValueError -> fst (hd_step h o) = h.
Proof. exact atomic_unchanged. Qed.
Print Assumptions C05_refused_unchanged_partial.

Theorem C05_refused_unchanged_refuted :
  exists h o, snd (hd_step h o) = Err ValueError /\ fst (hd_step h o) <> h.
Proof.
  exists [([97], [48])], (HdSetList [97] [VStr [49]; VStr [120; 10; 121]]). vm_compute. split; [reflexivity|discriminate].
Qed.
Print Assumptions C05_refused_unchanged_refuted.

(* what get_wsgi_headers hands to the server is clean too, whatever iri_to_uri returns *)
Theorem C05_wsgi_headers_clean : forall iri join cur r, clean (r_headers r) -> clean (fst (get_wsgi_headers iri join cur r)).
Proof. exact wsgi_headers_clean. Qed.
Print Assumptions C05_wsgi_headers_clean.

(* ---------------------------------------------------------------- body and Content-Length *)
(* the bytes produced are the encoded body, or none for HEAD / 1xx / 204 / 304 (the property's own reading of
   the condition, proved against the condition regenerated from get_app_iter) *)
Theorem C05_body_bytes : forall r is_head,
  chunk_bytes (s_chunks (serve r is_head)) = if bodyless is_head (r_code r) then [] else body_bytes r.
Proof. exact served_bytes. Qed.
Print Assumptions C05_body_bytes.

(* no Content-Length for 1xx / 204; the Content-Length werkzeug computes is the number of body bytes *)
Theorem C05_content_length : forall iri join cur r h,
  clean (r_headers r) -> get_wsgi_headers iri join cur r = (h, None) ->
  (no_cl_status (r_code r) = true -> hd_getlist h CONTENT_LENGTH = []) /\
  (last_value (r_headers r) CONTENT_LENGTH = None -> r_auto_cl r = true -> r_is_seq r = true ->
   bodyless false (r_code r) = false ->
   hd_getlist h CONTENT_LENGTH = [dec_of_Z (Z.of_nat (length (body_bytes r)))]).
Proof. exact wsgi_content_length. Qed.
Print Assumptions C05_content_length.

Example C05_content_length_example :
  let r := {| r_headers := [([67; 111; 110; 116; 101; 110; 116; 45; 84; 121; 112; 101], [120])]; r_code := 200%Z; r_line := [];
              r_body := [IStr [104; 233]; IBytes [1; 2]]; r_is_seq := true; r_closable := false; r_passthrough := false;
              r_auto_cl := true; r_autocorrect := false; r_callbacks := [] |} in
  option_map (fun x => hd_getlist (snd x) CONTENT_LENGTH) (match wsgi_response (fun s => s) (fun _ l => l) [] r false with Ok x => Some x | Err _ => None end)
    = Some [[53]] /\
  chunk_bytes (s_chunks (serve r false)) = [104; 195; 169; 1; 2].
Proof. vm_compute. split; reflexivity. Qed.
Print Assumptions C05_content_length_example.

(* ---------------------------------------------------------------- status *)
(* int / HTTPStatus: the line is the decimal code, a space and the upper-cased phrase (UNKNOWN if none) *)
Theorem C05_status_int : forall z, clean_status (SInt z) = Ok (dec_of_Z z ++ SP :: status_phrase z, z).
Proof. exact clean_status_int. Qed.
Print Assumptions C05_status_int.

(* every accepted status: the first space-delimited token of the status line reads as the status code *)
Theorem C05_status : forall v line code,
  clean_status v = Ok (line, code) -> exists cs rest, line = cs ++ SP :: rest /\ parse_dec cs = Some code.
Proof. exact clean_status_shape. Qed.
Print Assumptions C05_status.

(* ---------------------------------------------------------------- Location *)
(* whatever Location the response holds, what get_wsgi_headers hands to the server under that name is ASCII:
   iri_to_uri is a parameter with the contract that its result is ASCII (percent-encoding part: C15_uri_ascii;
   IDNA host: the codec's contract), urljoin (autocorrect_location_header) a parameter that maps ASCII to ASCII *)
Theorem C05_location_ascii : forall iri join cur r h,
  (forall s, is_ascii (iri s) = true) ->
  (forall a b, is_ascii a = true -> is_ascii b = true -> is_ascii (join a b) = true) ->
  clean (r_headers r) -> get_wsgi_headers iri join cur r = (h, None) ->
  forall v, In v (hd_getlist h LOCATION) -> is_ascii v = true.
Proof. exact location_ascii. Qed.
Print Assumptions C05_location_ascii.

(* ---------------------------------------------------------------- close exactly once, in order *)
(* false for direct passthrough (known finding): the callbacks never run *)
Theorem C05_close_once_refuted :
  exists r is_head, r_callbacks r = [CbUser 0] /\ user_events (s_trace (serve r is_head)) = [].
Proof. exact close_once_refuted. Qed.
Print Assumptions C05_close_once_refuted.

(* direct_passthrough = false: what runs when the server closes the returned iterable is, after the close of the
   encoding generator, exactly Response.close: the wrapped iterable's close (if it has one) and then every entry of
   _on_close once, in registration order *)
Theorem C05_close_chain : forall r is_head,
  r_passthrough r = false ->
  filter (fun e => match e with EIterClose => false | _ => true end) (s_trace (serve r is_head)) = response_close r /\
  user_events (s_trace (serve r is_head)) = user_ids (r_callbacks r) /\
  wrapped_closes (s_trace (serve r is_head)) = ((if r_closable r then 1 else 0) + wrapped_cbs (r_callbacks r))%nat.
Proof. exact close_once. Qed.
Print Assumptions C05_close_chain.

(* with or without an earlier make_sequence: every application callback ran exactly once, in order, and the
   consumed iterable was closed exactly once if it can be closed *)
Theorem C05_close_once_partial : forall r is_head (pre : bool),
  r_passthrough r = false -> wrapped_cbs (r_callbacks r) = 0%nat -> (r_is_seq r = true -> r_closable r = false) ->
  let r' := if pre then make_sequence r else r in
  user_events (s_trace (serve r' is_head)) = user_ids (r_callbacks r) /\
  wrapped_closes (s_trace (serve r' is_head)) = (if r_closable r then 1 else 0)%nat.
Proof. exact close_once_make_sequence. Qed.
Print Assumptions C05_close_once_partial.

Example C05_close_chain_example :
  let r := {| r_headers := []; r_code := 200%Z; r_line := []; r_body := [IBytes [120]]; r_is_seq := false; r_closable := true;
              r_passthrough := false; r_auto_cl := true; r_autocorrect := false; r_callbacks := [CbUser 0; CbUser 1; CbUser 2] |} in
  s_trace (serve (make_sequence r) false) = [EIterClose; EUser 0; EUser 1; EUser 2; EWrapped] /\
  s_trace (serve r false) = [EIterClose; EWrapped; EUser 0; EUser 1; EUser 2].
Proof. split; reflexivity. Qed.
Print Assumptions C05_close_chain_example.

(* ---------------------------------------------------------------- the close trace in every configuration *)
(* the tightest true form of the close clause: what runs, in order, when the server closes the returned iterable.
   Direct passthrough with a body (known finding direct-passthrough-callbacks): exactly the wrapped iterable's own
   close and no entry of _on_close.  Everything else: exactly Response.close (the wrapped iterable's close, then every
   entry of _on_close once in registration order), after the close of the encoding generator when there is one.
   A change that loses or repeats any single callback in any configuration contradicts this equation *)
Theorem C05_close_trace_exact : forall r is_head,
  s_trace (serve r is_head) =
    if bodyless is_head (r_code r) then response_close r
    else if r_passthrough r then (if r_closable r then [EWrapped] else [])
    else EIterClose :: response_close r.
Proof. exact close_trace_exact. Qed.
Print Assumptions C05_close_trace_exact.

(* ---------------------------------------------------------------- body accessors agree on the body and its length *)
Theorem C05_make_sequence_body : forall r,
  body_bytes (make_sequence r) = body_bytes r /\ r_headers (make_sequence r) = r_headers r.
Proof. exact make_sequence_body. Qed.
Print Assumptions C05_make_sequence_body.

(* set_data: the body is the encoded value and the stored Content-Length its number of bytes *)
Theorem C05_set_data_length : forall r v,
  body_bytes (set_data r v) = encode_item v /\
  (r_auto_cl r = true ->
   hd_getlist (r_headers (set_data r v)) CONTENT_LENGTH = [dec_of_Z (Z.of_nat (length (body_bytes (set_data r v))))]).
Proof. exact set_data_agrees. Qed.
Print Assumptions C05_set_data_length.

(* freeze: same body bytes, buffered; Content-Length is their number; the callbacks are kept; the consumed iterable
   is closed on the spot exactly when it can be closed (fix 17f1c6d) *)
Theorem C05_freeze_length : forall etag r,
  let r' := fst (freeze etag r) in
  body_bytes r' = body_bytes r /\ r_is_seq r' = true /\ r_callbacks r' = r_callbacks r /\
  hd_getlist (r_headers r') CONTENT_LENGTH = [dec_of_Z (Z.of_nat (length (body_bytes r')))] /\
  snd (freeze etag r) = r_closable r.
Proof. exact freeze_agrees. Qed.
Print Assumptions C05_freeze_length.

(* get_data / calculate_content_length (through _ensure_sequence / make_sequence / iter_encoded): the body bytes and
   their number, or a refusal exactly for an unbuffered body in direct passthrough; headers untouched *)
Theorem C05_accessors_agree : forall r,
  match ensure_sequence r with
  | Some r' =>
      body_bytes r' = body_bytes r /\ r_headers r' = r_headers r /\
      snd (calculate_content_length r) = Some (length (body_bytes r)) /\ snd (get_data r) = Some (body_bytes r)
  | None =>
      r_passthrough r = true /\ r_is_seq r = false /\ snd (calculate_content_length r) = None /\ snd (get_data r) = None
  end.
Proof. exact accessors_agree. Qed.
Print Assumptions C05_accessors_agree.

(* a Content-Length stored by set_data / freeze reaches the server unchanged for every status that may carry one *)
Theorem C05_stored_content_length_kept : forall iri join cur r h x,
  clean (r_headers r) -> get_wsgi_headers iri join cur r = (h, None) ->
  hd_getlist (r_headers r) CONTENT_LENGTH = [x] -> bodyless false (r_code r) = false ->
  hd_getlist h CONTENT_LENGTH = [x].
Proof. exact stored_content_length_kept. Qed.
Print Assumptions C05_stored_content_length_kept.

(* ------------------------------------------------------------------ Response.stream *)
(* ResponseStream.write (every write, not only the first): the value is appended to the buffered body, no
   Content-Length header is left, every other header row is untouched *)
Theorem C05_stream_write_drops_length : forall r v r',
  stream_write r v = Some r' ->
  hd_getlist (r_headers r') CONTENT_LENGTH = [] /\ last_value (r_headers r') CONTENT_LENGTH = None /\
  body_bytes r' = body_bytes r ++ encode_item v /\ r_is_seq r' = true /\
  (forall k, ci_eqb CONTENT_LENGTH k = false -> hd_getlist (r_headers r') k = hd_getlist (r_headers r) k).
Proof. exact stream_write_drops_length. Qed.
Print Assumptions C05_stream_write_drops_length.

(* it is refused exactly for an unbuffered body in direct passthrough *)
Theorem C05_stream_write_refusal : forall r v, stream_write r v = None <-> (r_is_seq r = false /\ r_passthrough r = true).
Proof. exact stream_write_refusal. Qed.
Print Assumptions C05_stream_write_refusal.

(* so whatever length was stored or computed before (set_data, freeze, the application), the length the server is told
   after a write is the number of body bytes as the body now stands *)
Theorem C05_stream_write_served_length : forall iri join cur r v r' h,
  clean (r_headers r) -> stream_write r v = Some r' -> r_auto_cl r = true -> bodyless false (r_code r) = false ->
  get_wsgi_headers iri join cur r' = (h, None) ->
  hd_getlist h CONTENT_LENGTH = [dec_of_Z (Z.of_nat (length (body_bytes r ++ encode_item v)))].
Proof. exact stream_write_served_length. Qed.
Print Assumptions C05_stream_write_served_length.

(* write, set_data (length 5 stored), write again: no stale length, the body is the five bytes and the new one *)
Example C05_stream_write_example :
  let r0 := {| r_headers := []; r_code := 200%Z; r_line := []; r_body := [IBytes [97]]; r_is_seq := true; r_closable := false;
               r_passthrough := false; r_auto_cl := true; r_autocorrect := false; r_callbacks := [] |} in
  match stream_write r0 (IBytes [98]) with
  | Some r1 => match stream_write (set_data r1 (IBytes [1; 2; 3; 4; 5])) (IBytes [6]) with
               | Some r2 => hd_getlist (r_headers r2) CONTENT_LENGTH = [] /\ body_bytes r2 = [1; 2; 3; 4; 5; 6]
               | None => False
               end
  | None => False
  end.
Proof. vm_compute. split; reflexivity. Qed.
Print Assumptions C05_stream_write_example.
