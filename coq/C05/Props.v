(* C05 property theorems.  Statements only, each closed by exact <lemma>, Print Assumptions beneath.
   Models: C05/Model.v and the Headers model of C08/Model.v; generated conditions and tables: C05/Gen.v, C08/Gen.v. *)
From Coq Require Import ZArith.
From Wz Require Import lib.Bytes lib.Utf8 C08.LibStr C08.Gen C08.Model C08.Spec C08.Proofs C05.Base C05.Gen C05.Model C05.Proofs.
Open Scope N_scope.

(* ---------------------------------------------------------------- header hygiene *)
(* no stored value ever contains CR or LF: invariant over every sequence of mutators (add, set, setlist,
   setdefault, setlistdefault, extend, update, |=, item / index / slice assignment and deletion, pop, popitem,
   remove, clear) from every constructor input *)
Theorem C05_no_newline_in_values : forall ops h, clean h -> clean (hd_exec h ops).
Proof. exact no_newline_in_values. Qed.
Print Assumptions C05_no_newline_in_values.

Theorem C05_no_newline_constructor : forall a, clean (fst (hd_init a)).
Proof. exact hd_init_clean. Qed.
Print Assumptions C05_no_newline_constructor.

(* clean means what the property says: no CR and no LF (the class is regenerated from _newline_re) *)
Theorem C05_clean_means_no_crlf : forall s, has_newline s = false -> mem 10 s = false /\ mem 13 s = false.
Proof. exact newline_class_crlf. Qed.
Print Assumptions C05_clean_means_no_crlf.

(* a mutator given a value with CR or LF is refused with ValueError (setdefault / setlistdefault look at their
   default only when the key is absent) *)
Theorem C05_newline_refused : forall h o,
  clean h -> existsb dirty (hop_values o) = true -> hop_validates h o = true ->
  snd (hd_step h o) = Err ValueError.
Proof. exact newline_refused. Qed.
Print Assumptions C05_newline_refused.

Example C05_newline_refused_example :
  let o := HdSetList [97] [VStr [49]; VStr [120; 10; 121]] in
  existsb dirty (hop_values o) = true /\ hop_validates [([97], [48])] o = true /\
  hd_step [([97], [48])] o = ([([97], [49])], Err ValueError).
Proof. vm_compute. repeat split. Qed.
Print Assumptions C05_newline_refused_example.

(* ... and the state is unchanged for the single-value mutators; the multi-value ones (setlist, extend, update)
   keep what they stored before the refused value, as the example above shows: the full state-unchanged
   statement is false for them *)
Theorem C05_refused_unchanged_partial : forall h o,
  hop_atomic o = true -> snd (hd_step h o) = Err ValueError -> fst (hd_step h o) = h.
Proof. exact atomic_unchanged. Qed.
Print Assumptions C05_refused_unchanged_partial.

Theorem C05_refused_unchanged_refuted :
  exists h o, snd (hd_step h o) = Err ValueError /\ fst (hd_step h o) <> h.
Proof.
  exists [([97], [48])], (HdSetList [97] [VStr [49]; VStr [120; 10; 121]]). vm_compute. split; [reflexivity|discriminate].
Qed.
Print Assumptions C05_refused_unchanged_refuted.

(* what get_wsgi_headers hands to the server is clean too, whatever iri_to_uri returns *)
Theorem C05_wsgi_headers_clean : forall iri join cur r, clean (r_headers r) -> clean (fst (get_wsgi_headers iri join cur r)).
Proof. exact wsgi_headers_clean. Qed.
Print Assumptions C05_wsgi_headers_clean.

(* ---------------------------------------------------------------- body and Content-Length *)
(* the bytes produced are the encoded body, or none for HEAD / 1xx / 204 / 304 (the property's own reading of
   the condition, proved against the condition regenerated from get_app_iter) *)
Theorem C05_body_bytes : forall r is_head,
  chunk_bytes (s_chunks (serve r is_head)) = if bodyless is_head (r_code r) then [] else body_bytes r.
Proof. exact served_bytes. Qed.
Print Assumptions C05_body_bytes.

(* no Content-Length for 1xx / 204; the Content-Length werkzeug computes is the number of body bytes *)
Theorem C05_content_length : forall iri join cur r h,
  clean (r_headers r) -> get_wsgi_headers iri join cur r = (h, None) ->
  (no_cl_status (r_code r) = true -> hd_getlist h CONTENT_LENGTH = []) /\
  (last_value (r_headers r) CONTENT_LENGTH = None -> r_auto_cl r = true -> r_is_seq r = true ->
   bodyless false (r_code r) = false ->
   hd_getlist h CONTENT_LENGTH = [dec_of_Z (Z.of_nat (length (body_bytes r)))]).
Proof. exact wsgi_content_length. Qed.
Print Assumptions C05_content_length.

Example C05_content_length_example :
  let r := {| r_headers := [([67; 111; 110; 116; 101; 110; 116; 45; 84; 121; 112; 101], [120])]; r_code := 200%Z; r_line := [];
              r_body := [IStr [104; 233]; IBytes [1; 2]]; r_is_seq := true; r_closable := false; r_passthrough := false;
              r_auto_cl := true; r_autocorrect := false; r_callbacks := [] |} in
  option_map (fun x => hd_getlist (snd x) CONTENT_LENGTH) (match wsgi_response (fun s => s) (fun _ l => l) [] r false with Ok x => Some x | Err _ => None end)
    = Some [[53]] /\
  chunk_bytes (s_chunks (serve r false)) = [104; 195; 169; 1; 2].
Proof. vm_compute. split; reflexivity. Qed.
Print Assumptions C05_content_length_example.

(* ---------------------------------------------------------------- status *)
(* int / HTTPStatus: the line is the decimal code, a space and the upper-cased phrase (UNKNOWN if none) *)
Theorem C05_status_int : forall z, clean_status (SInt z) = Ok (dec_of_Z z ++ SP :: status_phrase z, z).
Proof. exact clean_status_int. Qed.
Print Assumptions C05_status_int.

(* every accepted status: the first space-delimited token of the status line reads as the status code *)
Theorem C05_status : forall v line code,
  clean_status v = Ok (line, code) -> exists cs rest, line = cs ++ SP :: rest /\ parse_dec cs = Some code.
Proof. exact clean_status_shape. Qed.
Print Assumptions C05_status.

(* ---------------------------------------------------------------- Location *)
(* whatever Location the response holds, what get_wsgi_headers hands to the server under that name is ASCII:
   iri_to_uri is a parameter with the contract that its result is ASCII (percent-encoding part: C15_uri_ascii;
   IDNA host: the codec's contract), urljoin (autocorrect_location_header) a parameter that maps ASCII to ASCII *)
Theorem C05_location_ascii : forall iri join cur r h,
  (forall s, is_ascii (iri s) = true) ->
  (forall a b, is_ascii a = true -> is_ascii b = true -> is_ascii (join a b) = true) ->
  clean (r_headers r) -> get_wsgi_headers iri join cur r = (h, None) ->
  forall v, In v (hd_getlist h LOCATION) -> is_ascii v = true.
Proof. exact location_ascii. Qed.
Print Assumptions C05_location_ascii.

(* ---------------------------------------------------------------- close exactly once, in order *)
(* false for direct passthrough (known finding): the callbacks never run *)
Theorem C05_close_once_refuted :
  exists r is_head, r_callbacks r = [CbUser 0] /\ user_events (s_trace (serve r is_head)) = [].
Proof. exact close_once_refuted. Qed.
Print Assumptions C05_close_once_refuted.

(* direct_passthrough = false: what runs when the server closes the returned iterable is, after the close of the
   encoding generator, exactly Response.close: the wrapped iterable's close (if it has one) and then every entry of
   _on_close once, in registration order *)
Theorem C05_close_chain : forall r is_head,
  r_passthrough r = false ->
  filter (fun e => match e with EIterClose => false | _ => true end) (s_trace (serve r is_head)) = response_close r /\
  user_events (s_trace (serve r is_head)) = user_ids (r_callbacks r) /\
  wrapped_closes (s_trace (serve r is_head)) = ((if r_closable r then 1 else 0) + wrapped_cbs (r_callbacks r))%nat.
Proof. exact close_once. Qed.
Print Assumptions C05_close_chain.

(* with or without an earlier make_sequence: every application callback ran exactly once, in order, and the
   consumed iterable was closed exactly once if it can be closed *)
Theorem C05_close_once_partial : forall r is_head (pre : bool),
  r_passthrough r = false -> wrapped_cbs (r_callbacks r) = 0%nat -> (r_is_seq r = true -> r_closable r = false) ->
  let r' := if pre then make_sequence r else r in
  user_events (s_trace (serve r' is_head)) = user_ids (r_callbacks r) /\
  wrapped_closes (s_trace (serve r' is_head)) = (if r_closable r then 1 else 0)%nat.
Proof. exact close_once_make_sequence. Qed.
Print Assumptions C05_close_once_partial.

Example C05_close_chain_example :
  let r := {| r_headers := []; r_code := 200%Z; r_line := []; r_body := [IBytes [120]]; r_is_seq := false; r_closable := true;
              r_passthrough := false; r_auto_cl := true; r_autocorrect := false; r_callbacks := [CbUser 0; CbUser 1; CbUser 2] |} in
  s_trace (serve (make_sequence r) false) = [EIterClose; EUser 0; EUser 1; EUser 2; EWrapped] /\
  s_trace (serve r false) = [EIterClose; EWrapped; EUser 0; EUser 1; EUser 2].
Proof. split; reflexivity. Qed.
Print Assumptions C05_close_chain_example.
