(* C05: executable model of what a werkzeug Response hands to the WSGI server: _clean_status, get_wsgi_headers,
   get_app_iter, close / call_on_close / make_sequence and wsgi.ClosingIterator.  Definitions only.
   The Headers mutators and _str_header_value are those of C08/Model.v; the status / method conditions, the
   entity-header table and the status phrases come from C05/Gen.v (regenerated from /repo on every run). *)
From Coq Require Import ZArith.
From Wz Require Import lib.Bytes lib.Utf8 C08.LibStr C08.Gen C08.Model C05.Base C05.Gen.
Open Scope N_scope.

Definition SP : N := 32.

(* ================================================================== _clean_status *)
Inductive status_in := SInt (z : Z) | SStr (s : str).   (* int / HTTPStatus, or a string *)

Fixpoint zassoc (k : Z) (t : list (Z * str)) : option str :=
  match t with
  | [] => None
  | (k', v) :: r => if Z.eqb k k' then Some v else zassoc k r
  end.
Definition UNKNOWN : str := [85; 78; 75; 78; 79; 87; 78].
Definition status_phrase (code : Z) : str :=
  match zassoc code status_codes with Some p => upper p | None => UNKNOWN end.
Definition status_line (code : Z) : str := dec_of_Z code ++ [SP] ++ status_phrase code.

(* int(code_str) is modelled on ASCII decimal digits with an optional minus sign (parse_dec); Python accepts
   a few more spellings (plus sign, underscores, non-ASCII digits), which are outside the modelled domain *)
Definition clean_status (v : status_in) : res (str * Z) :=
  match v with
  | SInt z => Ok (status_line z, z)
  | SStr s =>
      let value := strip uni_ws s in
      match value with
      | [] => Err ValueError
      | _ =>
          let '(code_str, rest) := partition1 SP value in
          match parse_dec code_str with
          | None => Ok ([48; SP] ++ value, 0%Z)
          | Some code =>
              match rest with
              | Some _ => Ok (value, code)
              | None => Ok (status_line code, code)
              end
          end
      end
  end.

(* ================================================================== the response object *)
Inductive item := IStr (s : str) | IBytes (b : bytes).
Definition encode_item (i : item) : bytes := match i with IStr s => utf8_encode s | IBytes b => b end.

(* an entry of Response._on_close: a callback registered by the application, or the close of the iterable that
   make_sequence consumed *)
Inductive cbk := CbUser (id : nat) | CbWrapped.

Record resp := {
  r_headers : headers;
  r_code : Z;               (* status_code *)
  r_line : str;             (* status *)
  r_body : list item;       (* the items self.response yields *)
  r_is_seq : bool;          (* self.response is a list or tuple *)
  r_closable : bool;        (* self.response has a close attribute *)
  r_passthrough : bool;     (* direct_passthrough *)
  r_auto_cl : bool;         (* automatically_set_content_length *)
  r_autocorrect : bool;     (* autocorrect_location_header *)
  r_callbacks : list cbk    (* self._on_close, in registration order *)
}.

Definition body_bytes (r : resp) : bytes := flat_map encode_item (r_body r).

(* make_sequence *)
Definition make_sequence (r : resp) : resp :=
  if r_is_seq r then r
  else {| r_headers := r_headers r; r_code := r_code r; r_line := r_line r;
          r_body := map (fun i => IBytes (encode_item i)) (r_body r); r_is_seq := true; r_closable := false;
          r_passthrough := r_passthrough r; r_auto_cl := r_auto_cl r; r_autocorrect := r_autocorrect r;
          r_callbacks := r_callbacks r ++ (if r_closable r then [CbWrapped] else []) |}.

(* ================================================================== body accessors *)
Definition CONTENT_LENGTH : str := [67; 111; 110; 116; 101; 110; 116; 45; 76; 101; 110; 103; 116; 104].
Definition ETAG : str := [69; 84; 97; 103].

Definition with_body (r : resp) (h : headers) (body : list item) (cbs : list cbk) : resp :=
  {| r_headers := h; r_code := r_code r; r_line := r_line r; r_body := body; r_is_seq := true; r_closable := false;
     r_passthrough := r_passthrough r; r_auto_cl := r_auto_cl r; r_autocorrect := r_autocorrect r; r_callbacks := cbs |}.

(* set_data(value): the body becomes the one encoded value, Content-Length its number of bytes *)
Definition set_data (r : resp) (v : item) : resp :=
  let b := encode_item v in
  with_body r (if r_auto_cl r then hd_set_str (r_headers r) CONTENT_LENGTH (dec_of_Z (Z.of_nat (length b))) else r_headers r)
            [IBytes b] (r_callbacks r).

(* _ensure_sequence: None = RuntimeError (direct passthrough; implicit_sequence_conversion is left at its default) *)
Definition ensure_sequence (r : resp) : option resp :=
  if r_is_seq r then Some r else if r_passthrough r then None else Some (make_sequence r).
(* calculate_content_length / get_data: the response afterwards and the value *)
Definition calculate_content_length (r : resp) : resp * option nat :=
  match ensure_sequence r with Some r' => (r', Some (length (body_bytes r'))) | None => (r, None) end.
Definition get_data (r : resp) : resp * option bytes :=
  match ensure_sequence r with Some r' => (r', Some (body_bytes r')) | None => (r, None) end.

(* freeze(): the body is buffered whatever the flags say, the consumed iterable is closed on the spot (second
   component: did that close run), Content-Length is set, an ETag (a parameter: generate_etag is a hash) is added
   unless one is there *)
Definition freeze (etag : str) (r : resp) : resp * bool :=
  let body := map (fun i => IBytes (encode_item i)) (r_body r) in
  let h1 := hd_set_str (r_headers r) CONTENT_LENGTH (dec_of_Z (Z.of_nat (length (body_bytes r)))) in
  let h2 := if hd_contains h1 ETAG then h1 else hd_set_str h1 ETAG etag in
  (with_body r h2 body (r_callbacks r), r_closable r).

(* Response.stream: ResponseStream.write(value) is _ensure_sequence(mutable=True), response.append(value),
   headers.pop(Content-Length); None = the RuntimeError of _ensure_sequence *)
Definition stream_write (r : resp) (v : item) : option resp :=
  match ensure_sequence r with
  | None => None
  | Some r' => Some (with_body r' (hd_del_key (r_headers r') CONTENT_LENGTH) (r_body r' ++ [v]) (r_callbacks r'))
  end.
(* what an application can do behind the back of the response: response.response.append(value) on a list body, and
   headers[Content-Length] = text *)
Definition raw_append (r : resp) (v : item) : resp :=
  {| r_headers := r_headers r; r_code := r_code r; r_line := r_line r; r_body := r_body r ++ [v]; r_is_seq := r_is_seq r;
     r_closable := r_closable r; r_passthrough := r_passthrough r; r_auto_cl := r_auto_cl r; r_autocorrect := r_autocorrect r;
     r_callbacks := r_callbacks r |}.
Definition set_length_header (r : resp) (text : str) : resp :=
  {| r_headers := hd_set_str (r_headers r) CONTENT_LENGTH text; r_code := r_code r; r_line := r_line r; r_body := r_body r;
     r_is_seq := r_is_seq r; r_closable := r_closable r; r_passthrough := r_passthrough r; r_auto_cl := r_auto_cl r;
     r_autocorrect := r_autocorrect r; r_callbacks := r_callbacks r |}.

(* ================================================================== get_wsgi_headers *)
Definition LOCATION : str := [76; 111; 99; 97; 116; 105; 111; 110].
Definition CONTENT_LOCATION : str := [67; 111; 110; 116; 101; 110; 116; 45; 76; 111; 99; 97; 116; 105; 111; 110].

(* the scan loop keeps the last value of a header *)
Definition last_value (h : headers) (name : str) : option str := hd_error (rev (hd_getlist h name)).

(* remove_entity_headers with the default allowed tuple *)
Definition entity_keep (key : str) : bool :=
  negb (smem (lower key) entity_headers) || smem (lower key) entity_allowed.

Section Wsgi.
  (* urls.iri_to_uri: a parameter (contract: the result is ASCII; its percent-encoding part is C15_uri_ascii, the
     IDNA host part is CPython's codec) *)
  Variable iri : str -> str.
  (* urllib.parse.urljoin and wsgi.get_current_url(environ, strip_querystring=True): parameters *)
  Variable join_url : str -> str -> str.
  Variable current_url : str.

  (* the Location handed to the server *)
  Definition location_final (r : resp) (loc : str) : str :=
    if r_autocorrect r then join_url (iri current_url) (iri loc) else iri loc.

  Definition opt_set (h : headers) (name : str) (v : option str) (f : str -> str) : hstat :=
    match v with
    | None => (h, None)
    | Some x => hd_set h name (VStr (f x))
    end.

  Definition get_wsgi_headers (r : resp) : hstat :=
    hseq (hd_init (Some (HAHeaders (r_headers r)))) (fun h0 =>
      let location := last_value h0 LOCATION in
      let content_location := last_value h0 CONTENT_LOCATION in
      let content_length := last_value h0 CONTENT_LENGTH in
      let status := r_code r in
      hseq (opt_set h0 LOCATION location (location_final r)) (fun h1 =>
      hseq (opt_set h1 CONTENT_LOCATION content_location iri) (fun h2 =>
      hseq (if wsgi_strip_cl status then (hd_del_key h2 CONTENT_LENGTH, None)
            else if wsgi_strip_entity status
                 then match hd_str_pairs (map (fun kv => (fst kv, VStr (snd kv))) (filter (fun kv => entity_keep (fst kv)) h2)) with
                      | Ok new => (slice_set h2 None None new, None)
                      | Err e => (h2, Some e)
                      end
                 else (h2, None)) (fun h3 =>
      if wsgi_auto_cl (r_auto_cl r) (r_is_seq r) (match content_length with None => true | Some _ => false end) status
      then hd_set h3 CONTENT_LENGTH (VInt (Z.of_nat (length (body_bytes r))))
      else (h3, None))))).

  (* ================================================================== get_app_iter, ClosingIterator, close *)
  (* the callbacks a ClosingIterator runs on close, in order *)
  Inductive act := AIterableClose | AResponseClose.
  Definition ci_callbacks (iterable_has_close : bool) : list act :=
    (if iterable_has_close then [AIterableClose] else []) ++ [AResponseClose].

  (* what happens, in order *)
  Inductive event :=
  | EIterClose            (* the _iter_encoded generator is closed (not the wrapped iterable) *)
  | EWrapped              (* the wrapped iterable's own close() *)
  | EUser (id : nat).     (* a callback registered with call_on_close *)

  (* Response.close: the wrapped iterable's close if it has one, then every entry of _on_close in order *)
  Definition response_close (r : resp) : list event :=
    (if r_closable r then [EWrapped] else [])
    ++ map (fun c => match c with CbUser i => EUser i | CbWrapped => EWrapped end) (r_callbacks r).
  Definition run_act (r : resp) (a : act) : list event :=
    match a with
    | AIterableClose => [EIterClose]
    | AResponseClose => response_close r
    end.

  Record served := { s_chunks : list item; s_trace : list event }.

  (* the server iterates the returned iterable to the end, then calls its close() if it has one *)
  Definition serve (r : resp) (is_head : bool) : served :=
    match app_iter_kind is_head (r_code r) (r_passthrough r) with
    | AIEmptyClosing =>
        {| s_chunks := []; s_trace := flat_map (run_act r) (ci_callbacks false) |}
    | AIPassthrough =>
        {| s_chunks := r_body r; s_trace := if r_closable r then [EWrapped] else [] |}
    | AIEncodedClosing =>
        {| s_chunks := map (fun i => IBytes (encode_item i)) (r_body r);
           s_trace := flat_map (run_act r) (ci_callbacks true) |}
    end.

  (* get_wsgi_response followed by the server's iteration and close *)
  Definition wsgi_response (r : resp) (is_head : bool) : res (served * str * headers) :=
    match get_wsgi_headers r with
    | (_, Some e) => Err e
    | (h, None) => Ok (serve r is_head, r_line r, h)
    end.
End Wsgi.

Definition chunk_bytes (c : list item) : bytes := flat_map encode_item c.
