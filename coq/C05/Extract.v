From Coq Require Extraction ExtrOcamlBasic.
From Wz Require Import lib.Bytes lib.Utf8 lib.ExtractBase C08.LibStr C08.Gen C08.Model C05.Base C05.Gen C05.Model.
Extraction Language OCaml.
(* iri_to_uri instantiated with the identity: the correspondence runs use Location values it leaves alone *)
Definition wsgi_response_id (r : resp) (is_head : bool) := wsgi_response (fun s => s) (fun _ l => l) [] r is_head.
Extraction "C05/model_extracted.ml" force_types clean_status make_sequence set_data ensure_sequence freeze stream_write raw_append set_length_header wsgi_response_id.
