(* C05 driver: one case per line *)
let sub1 t = String.sub t 1 (String.length t - 1)
let split c t = String.split_on_char c t
let s_of t = nlist_of_csv t
let kv f t = let i = String.index t '=' in (s_of (String.sub t 0 i), f (String.sub t (i + 1) (String.length t - i - 1)))
let kvs f t = if t = "~" then [] else List.map (kv f) (split '/' t)
let item t = match t.[0] with 's' -> IStr (s_of (sub1 t)) | 'b' -> IBytes (nlist_of_hex (sub1 t)) | _ -> failwith "item"
let items t = if t = "~" then [] else List.map item (split '/' t)
let ps s = csv_of_nlist s
let pitem = function IStr s -> "s" ^ ps s | IBytes b -> "b" ^ hex_of_nlist b
let cat sep f l = if l = [] then "~" else String.concat sep (List.map f l)
let perr = function KeyError -> "EKeyError" | IndexError -> "EIndexError" | TypeError -> "ETypeError" | ValueError -> "EValueError"
let b t = t = "1"
let () = iter_lines (fun line ->
  match fields line with
  | ["st"; v] ->
      (match clean_status (if v.[0] = 'i' then SInt (z_of_int (int_of_string (sub1 v))) else SStr (s_of (sub1 v))) with
       | Ok (l, c) -> "ok " ^ ps l ^ " " ^ string_of_int (int_of_z c) | Err e -> perr e)
  | ["resp"; code; sline; hdrs; body; is_seq; closable; passthrough; auto_cl; ncb; made_seq; is_head] ->
      let r = { r_headers = kvs s_of hdrs; r_code = z_of_int (int_of_string code); r_line = s_of sline; r_body = items body;
                r_is_seq = b is_seq; r_closable = b closable; r_passthrough = b passthrough; r_auto_cl = b auto_cl;
                r_autocorrect = false;
                r_callbacks = List.init (int_of_string ncb) (fun i -> CbUser (nat_of_int i)) } in
      (* what the application did with the body before handing the response over *)
      let step (r, early) tok = (match tok.[0] with
        | '0' -> (r, early) | '1' -> (make_sequence r, early)
        | 'g' -> ((match ensure_sequence r with Some r' -> r' | None -> r), early)
        | 'd' -> (set_data r (item (sub1 tok)), early)
        | 'f' -> let (r', closed) = freeze (s_of (sub1 tok)) r in (r', early @ (if closed then [EWrapped] else []))
        | 'w' -> ((match stream_write r (item (sub1 tok)) with Some r' -> r' | None -> r), early)
        | 'a' -> (raw_append r (item (sub1 tok)), early)
        | 'c' -> (set_length_header r (s_of (sub1 tok)), early)
        | _ -> failwith "pre") in
      let (r, early) = List.fold_left step (r, []) (String.split_on_char ';' made_seq) in
      (match wsgi_response_id r (b is_head) with
       | Err e -> perr e
       | Ok ((s, l), h) ->
           cat "/" pitem s.s_chunks ^ " " ^ ps l ^ " " ^ cat "/" (fun (k, v) -> ps k ^ "=" ^ ps v) h ^ " "
           ^ cat "," (function EWrapped -> "w" | EUser i -> string_of_int (int_of_nat i) | EIterClose -> "g")
               (early @ List.filter (fun e -> e <> EIterClose) s.s_trace))
  | _ -> "bad-command")
