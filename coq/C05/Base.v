(* C05: types shared by the generated definitions (C05/Gen.v) and the model.  Definitions only. *)
From Coq Require Import ZArith.
From Wz Require Import lib.Bytes C08.LibStr.
Open Scope N_scope.

(* what Response.get_app_iter returns *)
Inductive aik :=
| AIEmptyClosing       (* ClosingIterator((), self.close) *)
| AIPassthrough        (* self.response itself *)
| AIEncodedClosing.    (* ClosingIterator(self.iter_encoded(), self.close) *)

Definition zmem (x : Z) (l : list Z) : bool := existsb (Z.eqb x) l.
