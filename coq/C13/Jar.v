(* C13: the test client's jar.  test.Cookie._from_response_header keeps, of a Set-Cookie header, the
   text before the first ';', splits it at the first '=', strips both halves, and sends
   key=value back as the Cookie header.  For a header written by dump_cookie that is again the dumped
   pair, so the application reads the value it set. *)
From Coq Require Import ZArith Lia ZifyBool ZifyN.
From Wz Require Import lib.Bytes lib.BytesFacts lib.Utf8 lib.Utf8Facts C13.Gen C13.Model C13.Proofs C13.Attrs.
Open Scope N_scope.

Lemma partition1_absent x s : forallb (fun c => negb (x =? c)) s = true -> partition1 x s = (s, None).
Proof.
  induction s as [|a s IH]; cbn [partition1 forallb]; intro H; [reflexivity|].
  apply andb_prop in H. destruct H as [Ha Hs]. destruct (x =? a); [discriminate|].
  rewrite IH by exact Hs. reflexivity.
Qed.

Lemma no_semi_forallb s : no_semi s = true -> forallb (fun c => negb (SEMI =? c)) s = true.
Proof.
  unfold no_semi. apply forallb_impl. intros c Hc. rewrite N.eqb_sym. exact Hc.
Qed.

Lemma first_piece pair pieces :
  no_semi pair = true -> fst (partition1 SEMI (join_semi (pair :: pieces))) = pair.
Proof.
  intro H. destruct pieces as [|p r].
  - cbn [join_semi]. rewrite partition1_absent by (apply no_semi_forallb; exact H). reflexivity.
  - change (join_semi (pair :: p :: r)) with (pair ++ SEMI :: SP :: join_semi (p :: r)).
    rewrite partition1_app_stop by (apply no_semi_forallb; exact H). reflexivity.
Qed.

Lemma value_of_strip v : valid_text v = true -> strip uni_ws (value_of v) = value_of v.
Proof.
  intro Hv. unfold value_of. destruct (no_quote_ok v) eqn:Hnq.
  - apply strip_none. eapply forallb_impl; [|apply no_quote_octets; exact Hnq].
    intros c Hc. apply octet_facts in Hc. destruct Hc as [_ [Hc _]]. rewrite Hc. reflexivity.
  - unfold quoted_form. apply strip_ends; reflexivity.
Qed.

Theorem client_jar_roundtrip k v a :
  token k = true -> valid_text v = true ->
  exists hdr, dump_cookie k v a = Some hdr /\ parse_cookie_environ (jar_request_header hdr) = EOk [(k, v)].
Proof.
  intros Hk Hv.
  destruct (roundtrip_environ k v Hk Hv) as [pair [Hpair Hparse]].
  assert (Hp : pair = k ++ EQ :: value_of v).
  { unfold dump_pair in Hpair. rewrite dump_value_spec in Hpair by exact Hv. cbn [option_map] in Hpair.
    unfold wsgi_encoding_dance, latin1_decode in Hpair.
    rewrite utf8_encode_ascii in Hpair by (apply token_ascii; exact Hk). unfold value_of. congruence. }
  assert (Hns : no_semi pair = true).
  { destruct (value_no_injection v Hv) as [out [Hd [_ [_ [Hsemi _]]]]].
    rewrite dump_value_spec in Hd by exact Hv. assert (Ho : out = value_of v) by (unfold value_of; congruence). subst out.
    rewrite Hp. rewrite no_semi_app. unfold no_semi at 2. cbn [forallb].
    replace (negb (EQ =? SEMI)) with true by reflexivity. cbn [andb]. rewrite andb_true_iff. split.
    - unfold no_semi. unfold token in Hk. destruct k; [discriminate|].
      eapply forallb_impl; [|exact Hk]. intros c Hc. apply token_char_facts in Hc. unfold not_eq_semi, SEMI in *. lia.
    - unfold no_semi. unfold mem in Hsemi. clear - Hsemi. induction (value_of v) as [|c out IH]; [reflexivity|].
      cbn [existsb forallb] in *. apply orb_false_iff in Hsemi. destruct Hsemi as [H1 H2].
      rewrite IH by exact H2. rewrite N.eqb_sym, H1. reflexivity. }
  eexists. split.
  - unfold dump_cookie. rewrite Hpair. reflexivity.
  - unfold jar_request_header. rewrite first_piece by exact Hns. rewrite Hp.
    rewrite partition1_app_stop.
    2:{ unfold token in Hk. destruct k; [discriminate|]. eapply forallb_impl; [|exact Hk].
        intros c Hc. apply token_char_facts in Hc. unfold not_eq_semi, EQ in *. lia. }
    cbn [fst snd]. destruct (token_strip k Hk) as [Hsk _]. rewrite Hsk.
    rewrite value_of_strip by exact Hv. rewrite <- Hp. exact Hparse.
Qed.
