(* C13 property theorems.  Nothing but statements, each closed by `exact <lemma>.`, with
   Print Assumptions beneath.  Definitions: C13/Model.v (tables: C13/Gen.v, regenerated). *)
From Wz Require Import lib.Bytes lib.Utf8 C13.Gen C13.Model C13.Proofs C13.Attrs C13.Jar C13.JarMatchModel C13.JarMatch.
Open Scope N_scope.

(* every byte outside the cookie-octet set is escaped (SP is kept literal inside the quotes) *)
Theorem C13_escape_table : forall b, b < 256 ->
  exists e, escape_byte b = Some e /\
    (if cookie_octet b || (b =? SP) then e = [b] else good_escape b e = true).
Proof. exact escape_table. Qed.
Print Assumptions C13_escape_table.

(* any text value set under a token key comes back unchanged from the sans-io parser *)
Theorem C13_roundtrip_sansio : forall k v, token k = true -> valid_text v = true ->
  exists hdr, dump_pair k v = Some hdr /\ parse_cookie_sansio hdr = POk [(k, v)].
Proof. exact roundtrip_sansio. Qed.
Print Assumptions C13_roundtrip_sansio.

(* ... and from the environ-level parser (latin-1 / UTF-8 step included) *)
Theorem C13_roundtrip_environ : forall k v, token k = true -> valid_text v = true ->
  exists hdr, dump_pair k v = Some hdr /\ parse_cookie_environ hdr = EOk [(k, v)].
Proof. exact roundtrip_environ. Qed.
Print Assumptions C13_roundtrip_environ.

(* the emitted value is ASCII, has no semicolon, only cookie-octets / SP / escapes, and a quoted
   value read as a quoted-string ends exactly at its final quote, whatever follows *)
Theorem C13_no_injection : forall v, valid_text v = true ->
  exists out, dump_value v = Some out /\
    forallb (fun c => c <? 128) out = true /\
    forallb quoted_char out = true /\
    mem SEMI out = false /\
    (forallb cookie_octet out = true
     \/ exists e, out = DQ :: e ++ [DQ] /\ forall rest, scan_quoted (e ++ DQ :: rest) = Some (e, rest)).
Proof. exact value_no_injection. Qed.
Print Assumptions C13_no_injection.

(* the pattern texts the hand-written matchers stand for, and the attribute names and order,
   are those of the current source *)
Theorem C13_patterns_pinned :
  list_eqb cookie_re_text pinned_cookie_re && (cookie_re_flags =? 320)
  && list_eqb cookie_unslash_re_text [92; 92; 40; 91; 48; 45; 51; 93; 91; 48; 45; 55; 93; 123; 50; 125; 124; 46; 41]
  && (cookie_unslash_re_flags =? 0) = true.
Proof. exact cookie_re_pinned. Qed.
Print Assumptions C13_patterns_pinned.

Theorem C13_attribute_order :
  list_eqb name_Domain [68; 111; 109; 97; 105; 110]
  && list_eqb name_Expires [69; 120; 112; 105; 114; 101; 115]
  && list_eqb name_MaxAge [77; 97; 120; 45; 65; 103; 101]
  && list_eqb name_Secure [83; 101; 99; 117; 114; 101]
  && list_eqb name_HttpOnly [72; 116; 116; 112; 79; 110; 108; 121]
  && list_eqb name_Path [80; 97; 116; 104]
  && list_eqb name_SameSite [83; 97; 109; 101; 83; 105; 116; 101]
  && list_eqb name_Partitioned [80; 97; 114; 116; 105; 116; 105; 111; 110; 101; 100]
  && (N.of_nat (length attr_order) =? 8) = true.
Proof. exact attr_names_pinned. Qed.
Print Assumptions C13_attribute_order.

(* the header carries exactly the requested attributes, canonically spelled, in fixed order:
   split at ';' as a user agent does, it is the cookie pair followed by exactly the attribute list
   (attribute values as rendered: no ';' in them - Domain after IDNA, Path after quote, dates, digits) *)
Theorem C13_attributes_exact : forall k v a,
  token k = true -> valid_text v = true -> attrs_clean a = true ->
  exists pair hdr,
    dump_pair k v = Some pair /\ dump_cookie k v a = Some hdr /\
    split_semi hdr [] = pair :: attr_pieces a.
Proof. exact attributes_exact. Qed.
Print Assumptions C13_attributes_exact.

(* the test client's jar: what the client sends back for a Set-Cookie header written by dump_cookie
   (any attributes) is read by the application as the value that was set *)
Theorem C13_client_jar_roundtrip : forall k v a,
  token k = true -> valid_text v = true ->
  exists hdr, dump_cookie k v a = Some hdr /\ parse_cookie_environ (jar_request_header hdr) = EOk [(k, v)].
Proof. exact client_jar_roundtrip. Qed.
Print Assumptions C13_client_jar_roundtrip.

(* which stored cookies the jar sends (test.Cookie._matches_request): its path test is exactly RFC 6265
   5.1.4 path-match - identical, or the cookie path is a prefix that ends in "/" or is followed by "/" *)
Theorem C13_jar_path_match : forall cpath path,
  jar_path_matches cpath path = true <->
  path = cpath \/ exists rest, path = cpath ++ rest /\ (last_is SLASH cpath = true \/ exists r, rest = SLASH :: r).
Proof. exact jar_path_is_rfc_path_match. Qed.
Print Assumptions C13_jar_path_match.

(* ... and its domain test RFC 6265 5.1.3 domain-match: identical, or - only for a cookie that carried
   a Domain attribute - a suffix of the server name preceded by "." *)
Theorem C13_jar_domain_match : forall origin_only domain server,
  jar_domain_matches origin_only domain server = true <->
  server = domain \/ (origin_only = false /\ exists p, server = p ++ DOT :: domain).
Proof. exact jar_domain_is_rfc_domain_match. Qed.
Print Assumptions C13_jar_domain_match.

Example C13_jar_match_example :
  jar_path_matches [47; 115; 47] [47; 115; 47; 99] = true /\
  jar_path_matches [47; 115] [47; 115; 47; 99] = true /\
  jar_path_matches [47; 115] [47; 115; 120] = false /\
  jar_path_matches [47] [47; 97] = true /\
  jar_domain_matches false [97; 46; 98] [120; 46; 97; 46; 98] = true /\
  jar_domain_matches true [97; 46; 98] [120; 46; 97; 46; 98] = false /\
  jar_domain_matches false [97; 46; 98] [120; 97; 46; 98] = false.
Proof. exact jar_match_example. Qed.
Print Assumptions C13_jar_match_example.
