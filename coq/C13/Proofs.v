(* C13 proofs.  The sweeps at the top are re-proved against the regenerated tables of Gen.v. *)
From Coq Require Import ZArith Lia ZifyBool ZifyN.
From Wz Require Import lib.Bytes lib.BytesFacts lib.Utf8 lib.Utf8Facts C13.Gen C13.Model.
Open Scope N_scope.
Ltac Zify.zify_post_hook ::= Z.to_euclidean_division_equations.

(* ------------------------------------------------------------------ pattern pins *)
(* the hand-written matchers of Model.v model exactly these pattern texts *)
Definition pinned_cookie_re : list N :=
  [10; 32; 32; 32; 32; 40; 91; 94; 61; 59; 93; 42; 41; 10; 32; 32; 32; 32; 40; 63; 58; 92; 115; 42; 61;
   92; 115; 42; 10; 32; 32; 32; 32; 32; 32; 40; 10; 32; 32; 32; 32; 32; 32; 32; 32; 34; 40; 63; 58; 91;
   94; 92; 92; 34; 93; 124; 92; 92; 46; 41; 42; 34; 10; 32; 32; 32; 32; 32; 32; 124; 10; 32; 32; 32; 32;
   32; 32; 32; 32; 46; 42; 63; 10; 32; 32; 32; 32; 32; 32; 41; 10; 32; 32; 32; 32; 41; 63; 10; 32; 32;
   32; 32; 92; 115; 42; 59; 92; 115; 42; 10; 32; 32; 32; 32].
Lemma cookie_re_pinned :
  list_eqb cookie_re_text pinned_cookie_re && (cookie_re_flags =? 320)
  && list_eqb cookie_unslash_re_text [92; 92; 40; 91; 48; 45; 51; 93; 91; 48; 45; 55; 93; 123; 50; 125; 124; 46; 41]
  && (cookie_unslash_re_flags =? 0) = true.
Proof. vm_compute. reflexivity. Qed.

(* ------------------------------------------------------------------ table sweeps *)

(* the exact escaping every byte must get *)
Definition esc_spec (b : N) : bytes :=
  if cookie_octet b || (b =? SP) then [b]
  else if (b =? DQ) || (b =? BS) then [BS; b]
  else octal_escape_of b.

Definition opt_eqb (o : option bytes) (l : bytes) : bool :=
  match o with Some x => list_eqb x l | None => false end.

Lemma list_eqb_eq a b : list_eqb a b = true -> a = b.
Proof.
  revert b. induction a as [|x a IH]; destruct b as [|y b]; cbn [list_eqb]; intro H;
    try discriminate; [reflexivity|].
  apply andb_prop in H. destruct H as [Hx Hab]. apply N.eqb_eq in Hx. subst y.
  f_equal. apply IH. exact Hab.
Qed.

Lemma escape_table_sweep :
  forallb (fun b => opt_eqb (escape_byte b) (esc_spec b)) all_bytes = true.
Proof. vm_compute. reflexivity. Qed.

Lemma escape_byte_spec b : b < 256 -> escape_byte b = Some (esc_spec b).
Proof.
  intro Hb. pose proof (sweep256 _ escape_table_sweep b Hb) as H. cbv beta in H.
  unfold opt_eqb in H. destruct (escape_byte b) as [e|]; [|discriminate].
  apply list_eqb_eq in H. subst e. reflexivity.
Qed.

Lemma no_quote_bound : forallb (fun r => snd r <? 128) cookie_no_quote_class = true.
Proof. vm_compute. reflexivity. Qed.

Lemma no_quote_sweep :
  forallb (fun c => Bool.eqb (in_ranges c cookie_no_quote_class) (cookie_octet c)) (nat_range 128) = true.
Proof. vm_compute. reflexivity. Qed.

Lemma no_quote_is_octet c : in_ranges c cookie_no_quote_class = true -> cookie_octet c = true.
Proof.
  intro H. pose proof (in_ranges_bound _ 128 c no_quote_bound H) as Hb.
  pose proof (sweep128 _ no_quote_sweep c Hb) as Hs. cbv beta in Hs.
  rewrite H in Hs. destruct (cookie_octet c); [reflexivity|discriminate].
Qed.

Lemma octet_is_no_quote c : cookie_octet c = true -> in_ranges c cookie_no_quote_class = true.
Proof.
  intro H. assert (Hb : c < 128) by (unfold cookie_octet in H; lia).
  pose proof (sweep128 _ no_quote_sweep c Hb) as Hs. cbv beta in Hs.
  rewrite H in Hs. destruct (in_ranges c cookie_no_quote_class); [reflexivity|discriminate].
Qed.

(* ------------------------------------------------------------------ escaping facts *)

Lemma escape_bytes_spec bs :
  Forall (fun b => b < 256) bs -> escape_bytes bs = Some (flat_map esc_spec bs).
Proof.
  induction 1 as [|b bs Hb _ IH]; [reflexivity|].
  cbn [escape_bytes flat_map]. rewrite (escape_byte_spec b Hb), IH. reflexivity.
Qed.

Lemma esc_spec_cases b :
  b < 256 ->
  (esc_spec b = [b] /\ b <> DQ /\ b <> BS /\ (cookie_octet b || (b =? SP)) = true)
  \/ (esc_spec b = [BS; b] /\ (b = DQ \/ b = BS))
  \/ (exists d1 d2 d3, esc_spec b = [BS; d1; d2; d3] /\ is03 d1 = true /\ is_octal d2 = true
        /\ is_octal d3 = true /\ (d1 - 48) * 64 + (d2 - 48) * 8 + (d3 - 48) = b).
Proof.
  intro Hb. unfold esc_spec.
  destruct (cookie_octet b || (b =? SP)) eqn:H1.
  { left. unfold cookie_octet, SP, DQ, BS in *. repeat split; try reflexivity; lia. }
  destruct ((b =? DQ) || (b =? BS)) eqn:H2.
  { right; left. split; [reflexivity|]. unfold DQ, BS in *. lia. }
  right; right. unfold octal_escape_of.
  exists (48 + b / 64), (48 + (b / 8) mod 8), (48 + b mod 8).
  split; [reflexivity|]. unfold is03, is_octal. repeat split; lia.
Qed.

Lemma esc_spec_ascii b : b < 256 -> forallb (fun c => c <? 128) (esc_spec b) = true.
Proof.
  intro Hb. destruct (esc_spec_cases b Hb) as [[E [_ [_ H]]]|[[E H]|[d1 [d2 [d3 [E [H1 [H2 [H3 _]]]]]]]]];
    rewrite E; cbn [forallb]; unfold cookie_octet, SP, DQ, BS, is03, is_octal in *; lia.
Qed.

Lemma esc_spec_quoted_char b : b < 256 -> forallb quoted_char (esc_spec b) = true.
Proof.
  intro Hb. destruct (esc_spec_cases b Hb) as [[E [_ [_ H]]]|[[E H]|[d1 [d2 [d3 [E [H1 [H2 [H3 _]]]]]]]]];
    rewrite E; cbn [forallb]; unfold quoted_char, cookie_octet, SP, DQ, BS, is03, is_octal in *; lia.
Qed.

Definition prepend (e : bytes) (o : option (str * str)) : option (str * str) :=
  match o with Some (a, r) => Some (e ++ a, r) | None => None end.

Lemma scan_quoted_esc b X :
  b < 256 -> scan_quoted (esc_spec b ++ X) = prepend (esc_spec b) (scan_quoted X).
Proof.
  intro Hb. destruct (esc_spec_cases b Hb) as [[E [Hd [Hs _]]]|[[E H]|[d1 [d2 [d3 [E [H1 [H2 [H3 _]]]]]]]]];
    rewrite E.
  - cbn [app scan_quoted].
    replace (b =? DQ) with false by (unfold DQ in *; lia).
    replace (b =? BS) with false by (unfold BS in *; lia).
    unfold prepend. destruct (scan_quoted X) as [[a r]|]; reflexivity.
  - cbn [app scan_quoted]. replace (BS =? DQ) with false by reflexivity.
    rewrite N.eqb_refl. replace (b =? LF) with false by (unfold DQ, BS, LF in *; lia).
    unfold prepend. destruct (scan_quoted X) as [[a r]|]; reflexivity.
  - cbn [app scan_quoted]. replace (BS =? DQ) with false by reflexivity. rewrite N.eqb_refl.
    unfold is03, is_octal in *.
    replace (d1 =? LF) with false by (unfold LF; lia).
    replace (d2 =? DQ) with false by (unfold DQ; lia).
    replace (d2 =? BS) with false by (unfold BS; lia).
    replace (d3 =? DQ) with false by (unfold DQ; lia).
    replace (d3 =? BS) with false by (unfold BS; lia).
    unfold prepend. destruct (scan_quoted X) as [[a r]|]; reflexivity.
Qed.

Lemma scan_quoted_escaped bs rest :
  Forall (fun b => b < 256) bs ->
  scan_quoted (flat_map esc_spec bs ++ DQ :: rest) = Some (flat_map esc_spec bs, rest).
Proof.
  induction 1 as [|b bs Hb _ IH].
  - cbn [flat_map app scan_quoted]. rewrite N.eqb_refl. reflexivity.
  - cbn [flat_map]. rewrite <- app_assoc, scan_quoted_esc by exact Hb. rewrite IH. reflexivity.
Qed.

Lemma unslash_esc b X : b < 256 -> unslash (esc_spec b ++ X) = b :: unslash X.
Proof.
  intro Hb. destruct (esc_spec_cases b Hb) as [[E [Hd [Hs _]]]|[[E H]|[d1 [d2 [d3 [E [H1 [H2 [H3 Hv]]]]]]]]];
    rewrite E.
  - cbn [app unslash]. replace (b =? BS) with false by (unfold BS in *; lia). reflexivity.
  - cbn [app unslash]. rewrite N.eqb_refl.
    replace (b =? LF) with false by (unfold DQ, BS, LF in *; lia).
    replace (is03 b) with false by (unfold is03, DQ, BS in *; lia).
    destruct X as [|x2 [|x3 X3]]; reflexivity.
  - cbn [app unslash]. rewrite N.eqb_refl. rewrite H1, H2, H3. cbn [andb]. rewrite Hv. reflexivity.
Qed.

Lemma unslash_escaped bs : Forall (fun b => b < 256) bs -> unslash (flat_map esc_spec bs) = bs.
Proof.
  induction 1 as [|b bs Hb _ IH]; [reflexivity|].
  cbn [flat_map]. rewrite unslash_esc by exact Hb. rewrite IH. reflexivity.
Qed.

Lemma utf8_bytes_256 v : valid_text v = true -> Forall (fun b => b < 256) (utf8_encode v).
Proof. intro H. apply Forall_forall. intros b Hb. eapply utf8_encode_bytes; eassumption. Qed.

(* ------------------------------------------------------------------ dump_value *)

Definition quoted_form (v : str) : str := DQ :: flat_map esc_spec (utf8_encode v) ++ [DQ].

Lemma dump_value_spec v :
  valid_text v = true ->
  dump_value v = Some (if no_quote_ok v then v else quoted_form v).
Proof.
  intro Hv. unfold dump_value. destruct (no_quote_ok v); [reflexivity|].
  rewrite escape_bytes_spec by (apply utf8_bytes_256; exact Hv).
  replace (forallb (fun c => c <? 128) (flat_map esc_spec (utf8_encode v))) with true; [reflexivity|].
  symmetry. apply forallb_flat_map. intros c Hc. apply esc_spec_ascii.
  eapply utf8_encode_bytes; eassumption.
Qed.

(* ------------------------------------------------------------------ token facts *)

Lemma token_char_facts c :
  token_char c = true ->
  c < 128 /\ not_eq_semi c = true /\ uni_ws c = false /\ ascii_ws c = false.
Proof.
  unfold token_char, is_digit, is_alpha, is_upper, is_lower, mem, not_eq_semi, uni_ws, ascii_ws, EQ, SEMI.
  cbn [existsb]. lia.
Qed.

Lemma octet_facts c :
  cookie_octet c = true ->
  c < 128 /\ uni_ws c = false /\ ascii_ws c = false /\ c <> SEMI /\ c <> DQ /\ c <> LF.
Proof. unfold cookie_octet, uni_ws, ascii_ws, SEMI, DQ, LF. lia. Qed.

Lemma utf8_decode_replace_ascii s : forallb (fun c => c <? 128) s = true -> utf8_decode_replace s = s.
Proof.
  induction s as [|c s IH]; cbn [forallb utf8_decode_replace]; intro H; [reflexivity|].
  apply andb_prop in H. destruct H as [Hc Hs]. rewrite Hc, IH by exact Hs. reflexivity.
Qed.

(* ------------------------------------------------------------------ the parser on  k=value; *)

Lemma find_pairs_one n k val :
  token k = true ->
  (  (* unquoted: cookie-octets only *)
     forallb cookie_octet val = true
   \/ (* quoted with escaped content *)
     exists bs, Forall (fun b => b < 256) bs /\ val = DQ :: flat_map esc_spec bs ++ [DQ]) ->
  find_pairs (S (S n)) (k ++ EQ :: val ++ [SEMI]) = POk [(k, val)].
Proof.
  intros Hk Hval.
  assert (Hkall : forallb not_eq_semi k = true).
  { unfold token in Hk. destruct k; [discriminate|].
    eapply forallb_impl; [|exact Hk]. intros c Hc. apply token_char_facts in Hc. tauto. }
  cbn [find_pairs].
  rewrite take_while_app_stop, drop_while_app_stop by (try exact Hkall; reflexivity).
  replace (EQ =? SEMI) with false by reflexivity.
  destruct Hval as [Hplain|[bs [Hbs ->]]].
  - (* unquoted *)
    assert (Hnows : forallb (fun c => negb (ascii_ws c)) val = true).
    { eapply forallb_impl; [|exact Hplain]. intros c Hc. apply octet_facts in Hc.
      destruct Hc as [_ [_ [Hc _]]]. rewrite Hc. reflexivity. }
    assert (Hnosemi : forallb (fun c => negb (SEMI =? c)) val = true).
    { eapply forallb_impl; [|exact Hplain]. intros c Hc. apply octet_facts in Hc. unfold SEMI in *. lia. }
    assert (Hnolf : forallb (fun c => negb (LF =? c)) val = true).
    { eapply forallb_impl; [|exact Hplain]. intros c Hc. apply octet_facts in Hc. unfold LF in *. lia. }
    assert (Hdrop : drop_while ascii_ws (val ++ [SEMI]) = val ++ [SEMI]).
    { apply drop_while_none. destruct val as [|x r]; [reflexivity|].
      cbn [app forallb] in *. apply andb_prop in Hnows. destruct Hnows as [Hx _].
      destruct (ascii_ws x); [discriminate|reflexivity]. }
    rewrite Hdrop.
    assert (Hlazy : scan_lazy (val ++ [SEMI]) = Some (val, [])).
    { unfold scan_lazy. rewrite partition1_app_stop by exact Hnosemi.
      rewrite rstrip_none by exact Hnows. rewrite mem_false_forall by exact Hnolf. reflexivity. }
    rewrite Hlazy.
    destruct val as [|x r].
    + cbn [app]. replace (SEMI =? DQ) with false by reflexivity. cbn [drop_while find_pairs take_while].
      reflexivity.
    + cbn [app]. cbn [forallb] in Hplain. apply andb_prop in Hplain. destruct Hplain as [Hx _].
      apply octet_facts in Hx. replace (x =? DQ) with false by (unfold DQ in *; lia).
      cbn [drop_while find_pairs take_while]. reflexivity.
  - (* quoted *)
    cbn [app drop_while]. replace (ascii_ws DQ) with false by reflexivity.
    rewrite N.eqb_refl. rewrite <- app_assoc. cbn [app].
    rewrite scan_quoted_escaped by exact Hbs.
    cbn [drop_while]. replace (ascii_ws SEMI) with false by reflexivity.
    rewrite N.eqb_refl. cbn [drop_while find_pairs take_while]. reflexivity.
Qed.

Lemma post_value_plain v : forallb cookie_octet v = true -> post_value v = v.
Proof.
  intro H. unfold post_value.
  rewrite strip_none.
  2:{ eapply forallb_impl; [|exact H]. intros c Hc. apply octet_facts in Hc.
      destruct Hc as [_ [Hc _]]. rewrite Hc. reflexivity. }
  destruct v as [|x r]; [reflexivity|].
  cbn [forallb] in H. apply andb_prop in H. destruct H as [Hx _]. apply octet_facts in Hx.
  replace (x =? DQ) with false by (unfold DQ in *; lia).
  rewrite andb_false_r. reflexivity.
Qed.

Lemma post_value_quoted v :
  valid_text v = true -> post_value (quoted_form v) = v.
Proof.
  intro Hv. unfold post_value, quoted_form.
  rewrite strip_ends by reflexivity.
  set (e := flat_map esc_spec (utf8_encode v)).
  replace (2 <=? N.of_nat (length (DQ :: e ++ [DQ]))) with true.
  2:{ cbn [length]. rewrite app_length. cbn [length]. lia. }
  rewrite N.eqb_refl.
  replace (last_is DQ (DQ :: e ++ [DQ])) with true.
  2:{ unfold last_is. change (DQ :: e ++ [DQ]) with ((DQ :: e) ++ [DQ]). rewrite rev_unit.
      rewrite N.eqb_refl. reflexivity. }
  cbn [andb]. unfold inner. cbn [tl]. rewrite removelast_app_one.
  assert (He : forallb (fun c => c <? 128) e = true).
  { apply forallb_flat_map. intros c Hc. apply esc_spec_ascii. eapply utf8_encode_bytes; eassumption. }
  rewrite utf8_encode_ascii by exact He.
  unfold e. rewrite unslash_escaped by (apply utf8_bytes_256; exact Hv).
  apply utf8_decode_replace_encode. exact Hv.
Qed.

Lemma token_ascii k : token k = true -> forallb (fun c => c <? 128) k = true.
Proof.
  unfold token. destruct k; [discriminate|]. intro H.
  eapply forallb_impl; [|exact H]. intros c Hc. apply token_char_facts in Hc. lia.
Qed.

Lemma token_strip k : token k = true -> strip uni_ws k = k /\ k <> [].
Proof.
  intro H. split.
  - apply strip_none. unfold token in H. destruct k; [discriminate|].
    eapply forallb_impl; [|exact H]. intros c Hc. apply token_char_facts in Hc.
    destruct Hc as [_ [_ [Hc _]]]. rewrite Hc. reflexivity.
  - destruct k; [discriminate|discriminate].
Qed.

(* the value part of the Set-Cookie header *)
Definition value_of (v : str) : str := if no_quote_ok v then v else quoted_form v.

Lemma no_quote_octets v : no_quote_ok v = true -> forallb cookie_octet v = true.
Proof. unfold no_quote_ok. apply forallb_impl. apply no_quote_is_octet. Qed.

Theorem roundtrip_sansio k v :
  token k = true -> valid_text v = true ->
  exists hdr, dump_pair k v = Some hdr /\ parse_cookie_sansio hdr = POk [(k, v)].
Proof.
  intros Hk Hv. exists (k ++ EQ :: value_of v). split.
  - unfold dump_pair. rewrite dump_value_spec by exact Hv. cbn [option_map].
    unfold wsgi_encoding_dance, latin1_decode. rewrite utf8_encode_ascii by (apply token_ascii; exact Hk).
    reflexivity.
  - unfold parse_cookie_sansio.
    destruct (k ++ EQ :: value_of v) eqn:E; [destruct k; discriminate|]. rewrite <- E. clear E.
    replace ((k ++ EQ :: value_of v) ++ [SEMI]) with (k ++ EQ :: value_of v ++ [SEMI])
      by (rewrite <- app_assoc; reflexivity).
    destruct (token_strip k Hk) as [Hstrip Hne].
    unfold value_of. destruct (no_quote_ok v) eqn:Hnq.
    + rewrite find_pairs_one; [|exact Hk|left; apply no_quote_octets; exact Hnq].
      cbn [post_pairs]. rewrite Hstrip. destruct k; [congruence|].
      rewrite post_value_plain by (apply no_quote_octets; exact Hnq). reflexivity.
    + rewrite find_pairs_one; [|exact Hk|right; exists (utf8_encode v); split;
                                       [apply utf8_bytes_256; exact Hv|reflexivity]].
      cbn [post_pairs]. rewrite Hstrip. destruct k; [congruence|].
      change (DQ :: flat_map esc_spec (utf8_encode v) ++ [DQ]) with (quoted_form v).
      rewrite post_value_quoted by exact Hv. reflexivity.
Qed.

Lemma value_of_ascii v : valid_text v = true -> forallb (fun c => c <? 128) (value_of v) = true.
Proof.
  intro Hv. unfold value_of. destruct (no_quote_ok v) eqn:Hnq.
  - eapply forallb_impl; [|apply no_quote_octets; exact Hnq]. intros c Hc. apply octet_facts in Hc. lia.
  - unfold quoted_form. cbn [forallb]. rewrite forallb_app. cbn [forallb].
    replace (DQ <? 128) with true by reflexivity. rewrite andb_true_r. cbn [andb].
    apply forallb_flat_map. intros c Hc. apply esc_spec_ascii. eapply utf8_encode_bytes; eassumption.
Qed.

Theorem roundtrip_environ k v :
  token k = true -> valid_text v = true ->
  exists hdr, dump_pair k v = Some hdr /\ parse_cookie_environ hdr = EOk [(k, v)].
Proof.
  intros Hk Hv. destruct (roundtrip_sansio k v Hk Hv) as [hdr [Hd Hp]]. exists hdr. split; [exact Hd|].
  assert (Hhdr : hdr = k ++ EQ :: value_of v).
  { unfold dump_pair in Hd. rewrite dump_value_spec in Hd by exact Hv. cbn [option_map] in Hd.
    unfold wsgi_encoding_dance, latin1_decode in Hd.
    rewrite utf8_encode_ascii in Hd by (apply token_ascii; exact Hk). unfold value_of. congruence. }
  assert (Hascii : forallb (fun c => c <? 128) hdr = true).
  { subst hdr. rewrite forallb_app. rewrite token_ascii by exact Hk. cbn [forallb andb].
    replace (EQ <? 128) with true by reflexivity. apply value_of_ascii. exact Hv. }
  unfold parse_cookie_environ. destruct hdr as [|h0 hr] eqn:Eh; [destruct k; discriminate|]. rewrite <- Eh in *.
  unfold latin1_encode.
  replace (forallb (fun c => c <? 256) hdr) with true.
  2:{ symmetry. eapply forallb_impl; [|exact Hascii]. intros c Hc. cbv beta in *. lia. }
  rewrite utf8_decode_replace_ascii by exact Hascii. rewrite Hp. reflexivity.
Qed.

(* ------------------------------------------------------------------ the emitted value cannot
   end the pair: ASCII, cookie-octets only when unquoted; when quoted, the content is made of
   cookie-octets, SP and escapes, and scanning it as a quoted-string ends exactly at the final quote *)
Theorem value_no_injection v :
  valid_text v = true ->
  exists out, dump_value v = Some out /\
    forallb (fun c => c <? 128) out = true /\
    forallb quoted_char out = true /\
    mem SEMI out = false /\
    (forallb cookie_octet out = true
     \/ exists e, out = DQ :: e ++ [DQ] /\ forall rest, scan_quoted (e ++ DQ :: rest) = Some (e, rest)).
Proof.
  intro Hv. exists (value_of v). split; [apply dump_value_spec; exact Hv|].
  split; [apply value_of_ascii; exact Hv|].
  assert (Hq : forallb quoted_char (value_of v) = true).
  { unfold value_of. destruct (no_quote_ok v) eqn:Hnq.
    - eapply forallb_impl; [|apply no_quote_octets; exact Hnq]. intros c Hc. unfold quoted_char. rewrite Hc. reflexivity.
    - unfold quoted_form. cbn [forallb]. rewrite forallb_app. cbn [forallb].
      replace (quoted_char DQ) with true by reflexivity. rewrite andb_true_r. cbn [andb].
      apply forallb_flat_map. intros c Hc. apply esc_spec_quoted_char. eapply utf8_encode_bytes; eassumption. }
  split; [exact Hq|]. split.
  { apply mem_false_forall. eapply forallb_impl; [|exact Hq]. intros c Hc.
    unfold quoted_char, cookie_octet, SP, BS, DQ, SEMI in *. lia. }
  unfold value_of. destruct (no_quote_ok v) eqn:Hnq.
  - left. apply no_quote_octets. exact Hnq.
  - right. exists (flat_map esc_spec (utf8_encode v)). split; [reflexivity|].
    intro rest. apply scan_quoted_escaped. apply utf8_bytes_256. exact Hv.
Qed.

(* the escape table, as the property states it: every byte outside the cookie-octet set (SP aside,
   kept literal inside the quotes as in http.cookies) is replaced by BS ooo or BS DQ / BS BS *)
Theorem escape_table b :
  b < 256 ->
  exists e, escape_byte b = Some e /\
    (if cookie_octet b || (b =? SP) then e = [b] else good_escape b e = true).
Proof.
  intro Hb. exists (esc_spec b). split; [apply escape_byte_spec; exact Hb|].
  unfold esc_spec. destruct (cookie_octet b || (b =? SP)); [reflexivity|].
  unfold good_escape. destruct ((b =? DQ) || (b =? BS)) eqn:E.
  - cbn [list_eqb andb]. rewrite !N.eqb_refl. cbn [andb]. apply orb_true_r.
  - assert (Hrefl : forall l, list_eqb l l = true).
    { induction l as [|x l IH]; cbn [list_eqb]; [reflexivity|]. rewrite N.eqb_refl, IH. reflexivity. }
    rewrite Hrefl. reflexivity.
Qed.

(* attribute assembly: the header is  pair; A1; A2; ...  with the attributes in the fixed order
   Domain, Expires, Max-Age, Secure, HttpOnly, Path, SameSite, Partitioned (names from Gen.v) *)
Lemma attr_names_pinned :
  list_eqb name_Domain [68; 111; 109; 97; 105; 110]
  && list_eqb name_Expires [69; 120; 112; 105; 114; 101; 115]
  && list_eqb name_MaxAge [77; 97; 120; 45; 65; 103; 101]
  && list_eqb name_Secure [83; 101; 99; 117; 114; 101]
  && list_eqb name_HttpOnly [72; 116; 116; 112; 79; 110; 108; 121]
  && list_eqb name_Path [80; 97; 116; 104]
  && list_eqb name_SameSite [83; 97; 109; 101; 83; 105; 116; 101]
  && list_eqb name_Partitioned [80; 97; 114; 116; 105; 116; 105; 111; 110; 101; 100]
  && (N.of_nat (length attr_order) =? 8) = true.
Proof. vm_compute. reflexivity. Qed.

(* non-vacuity *)
Example token_example : token [107; 45; 49] = true /\ valid_text [34; 59; 26; 233; 128512] = true.
Proof. split; vm_compute; reflexivity. Qed.
Example roundtrip_example :
  match dump_pair [107] [97; 59; 26; 34; 233; 128512] with
  | Some h => parse_cookie_environ h
  | None => EUnicodeError
  end = EOk [([107], [97; 59; 26; 34; 233; 128512])].
Proof. vm_compute. reflexivity. Qed.
