(* C13: executable model of http.dump_cookie (value part and attribute assembly),
   sansio.http.parse_cookie and http.parse_cookie.  Definitions only.
   Tables and pattern texts come from C13/Gen.v, regenerated from /repo on every run. *)
From Wz Require Import lib.Bytes lib.Utf8 C13.Gen.
Open Scope N_scope.

Definition SEMI : N := 59.
Definition EQ : N := 61.
Definition DQ : N := 34.
Definition BS : N := 92.
Definition LF : N := 10.
Definition SP : N := 32.

(* ------------------------------------------------------------------ dump_cookie *)

(* _cookie_no_quote_re.fullmatch(value): one starred class, re.ASCII *)
Definition no_quote_ok (v : str) : bool := forallb (fun c => in_ranges c cookie_no_quote_class) v.

(* _cookie_slash_map[m.group()] : None models KeyError *)
Fixpoint slash_lookup (m : list (N * list N)) (b : N) : option bytes :=
  match m with
  | [] => None
  | (k, v) :: r => if k =? b then Some v else slash_lookup r b
  end.

(* _cookie_slash_re.sub(lambda m: _cookie_slash_map[m.group()], ...) on one byte *)
Definition escape_byte (b : N) : option bytes :=
  if in_ranges b cookie_slash_class then slash_lookup cookie_slash_map b else Some [b].

Fixpoint escape_bytes (bs : bytes) : option bytes :=
  match bs with
  | [] => Some []
  | b :: r => match escape_byte b, escape_bytes r with
              | Some e, Some er => Some (e ++ er)
              | _, _ => None
              end
  end.

(* the value as it appears after "key=" ; None models an exception (KeyError, or
   UnicodeDecodeError from .decode("ascii")) *)
Definition dump_value (v : str) : option str :=
  if no_quote_ok v then Some v
  else match escape_bytes (utf8_encode v) with
       | Some e => if forallb (fun c => c <? 128) e then Some (DQ :: e ++ [DQ]) else None
       | None => None
       end.

(* f-string: key.encode().decode(latin1) = value *)
Definition dump_pair (k v : str) : option str :=
  option_map (fun val => wsgi_encoding_dance k ++ EQ :: val) (dump_value v).

(* attribute assembly: the attributes arrive already rendered (Domain after IDNA, Expires
   after http_date, Path after quote, Max-Age as decimal text), None = absent;
   flags are booleans.  Order and spelling are those of the tuple in dump_cookie. *)
Record attrs := {
  a_domain : option str; a_expires : option str; a_max_age : option str;
  a_secure : bool; a_httponly : bool; a_path : option str;
  a_samesite : option str; a_partitioned : bool }.

Definition s_of (l : list N) := l.
Definition kv (name : str) (v : option str) : list str :=
  match v with Some x => [name ++ EQ :: x] | None => [] end.
Definition flag (name : str) (b : bool) : list str := if b then [name] else [].

Fixpoint join_semi (l : list str) : str :=
  match l with
  | [] => []
  | [x] => x
  | x :: r => x ++ SEMI :: SP :: join_semi r
  end.

Definition dump_cookie (k v : str) (a : attrs) : option str :=
  match dump_pair k v with
  | None => None
  | Some kvp =>
    Some (join_semi (kvp :: kv name_Domain (a_domain a) ++ kv name_Expires (a_expires a)
                     ++ kv name_MaxAge (a_max_age a)
                     ++ flag name_Secure (a_secure a || a_partitioned a)
                     ++ flag name_HttpOnly (a_httponly a)
                     ++ kv name_Path (a_path a) ++ kv name_SameSite (a_samesite a)
                     ++ flag name_Partitioned (a_partitioned a)))
  end.

(* ------------------------------------------------------------------ parse_cookie *)

(* the quoted alternative  DQ (?: [^ BS DQ] | BS . )* DQ  started after the opening quote:
   (content, rest after the closing quote) *)
Fixpoint scan_quoted (s : str) : option (str * str) :=
  match s with
  | [] => None
  | c :: r =>
    if c =? DQ then Some ([], r)
    else if c =? BS then
      match r with
      | d :: r' =>
        if d =? LF then None
        else match scan_quoted r' with
             | Some (a, b) => Some (c :: d :: a, b)
             | None => None
             end
      | [] => None
      end
    else match scan_quoted r with
         | Some (a, b) => Some (c :: a, b)
         | None => None
         end
  end.

Definition not_eq_semi (c : N) : bool := negb (c =? EQ) && negb (c =? SEMI).

(* the lazy alternative  .*?  followed by  \s*;  : (value, rest after the ';') *)
Definition scan_lazy (s : str) : option (str * str) :=
  match partition1 SEMI s with
  | (before, Some after) =>
    let v := rstrip ascii_ws before in
    if mem LF v then None else Some (v, after)
  | (_, None) => None
  end.

Inductive pres := POk (l : list (str * str)) | PUnsupported | POutOfFuel.

(* _cookie_re.findall(cookie + ";") on header text; PUnsupported = a line feed inside an
   unquoted value, where the regex engine would restart elsewhere (outside the modelled domain:
   header text never contains LF) *)
Fixpoint find_pairs (fuel : nat) (s : str) : pres :=
  match fuel with
  | O => POutOfFuel
  | S fuel' =>
    let key := take_while not_eq_semi s in
    match drop_while not_eq_semi s with
    | [] => POk []
    | c :: r =>
      let cont (val after : str) :=
        match find_pairs fuel' (drop_while ascii_ws after) with
        | POk l => POk ((key, val) :: l)
        | e => e
        end in
      if c =? SEMI then cont [] r
      else
        let r1 := drop_while ascii_ws r in
        let lazy :=
          match scan_lazy r1 with
          | Some (v, after) => cont v after
          | None => PUnsupported
          end in
        match r1 with
        | q :: r2 =>
          if q =? DQ then
            match scan_quoted r2 with
            | Some (content, after) =>
              match drop_while ascii_ws after with
              | z :: after' => if z =? SEMI then cont (DQ :: content ++ [DQ]) after' else lazy
              | [] => lazy
              end
            | None => lazy
            end
          else lazy
        | [] => lazy
        end
    end
  end.

Definition is03 (c : N) : bool := (48 <=? c) && (c <=? 51).

(* _cookie_unslash_re.sub(_cookie_unslash_replace, b)  with  BS ( [0-3][0-7]{2} | . )  *)
Fixpoint unslash (b : bytes) : bytes :=
  match b with
  | [] => []
  | c :: r =>
    if c =? BS then
      match r with
      | [] => [c]
      | d1 :: r1 =>
        let single := if d1 =? LF then c :: unslash r else d1 :: unslash r1 in
        match r1 with
        | d2 :: (d3 :: r3) =>
          if is03 d1 && is_octal d2 && is_octal d3
          then ((d1 - 48) * 64 + (d2 - 48) * 8 + (d3 - 48)) :: unslash r3
          else single
        | _ => single
        end
      end
    else c :: unslash r
  end.

Definition last_is (x : N) (s : str) : bool :=
  match rev s with y :: _ => y =? x | [] => false end.

Definition inner (s : str) : str := removelast (tl s).

Definition post_value (cv : str) : str :=
  let cv := strip uni_ws cv in
  if (2 <=? N.of_nat (length cv)) && (match cv with c :: _ => c =? DQ | [] => false end)
     && last_is DQ cv
  then utf8_decode_replace (unslash (utf8_encode (inner cv)))
  else cv.

Fixpoint post_pairs (l : list (str * str)) : list (str * str) :=
  match l with
  | [] => []
  | (ck, cv) :: r =>
    let ck := strip uni_ws ck in
    match ck with
    | [] => post_pairs r
    | _ => (ck, post_value cv) :: post_pairs r
    end
  end.

(* sansio.http.parse_cookie(cookie: str) *)
Definition parse_cookie_sansio (cookie : str) : pres :=
  match cookie with
  | [] => POk []
  | _ => match find_pairs (S (S (length cookie))) (cookie ++ [SEMI]) with
         | POk l => POk (post_pairs l)
         | e => e
         end
  end.

(* http.parse_cookie(header: str): latin-1 encode, then UTF-8 decode with errors=replace *)
Inductive eres := EOk (l : list (str * str)) | EUnicodeError | EUnsupported | EOutOfFuel.
Definition parse_cookie_environ (header : str) : eres :=
  match header with
  | [] => EOk []
  | _ =>
    match latin1_encode header with
    | None => EUnicodeError
    | Some b =>
      (* cookie.encode("latin1").decode(errors="replace") *)
      match parse_cookie_sansio (utf8_decode_replace b) with
      | POk l => EOk l
      | PUnsupported => EUnsupported
      | POutOfFuel => EOutOfFuel
      end
    end
  end.

(* ------------------------------------------------------------------ the test client's jar *)
(* Cookie._from_response_header(...)._to_request_header() *)
Definition jar_request_header (set_cookie : str) : str :=
  let first := fst (partition1 SEMI set_cookie) in
  let kv := partition1 EQ first in
  strip uni_ws (fst kv) ++ EQ :: strip uni_ws (match snd kv with Some x => x | None => [] end).

(* decoded_key, decoded_value = next(parse_cookie(header).items()): StopIteration when the first piece
   yields no pair (the model only needs to know whether that happens) *)
Inductive jres := JOk | JNone | JUnsupported.
Definition jar_decoded (set_cookie : str) : jres :=
  match parse_cookie_environ (fst (partition1 SEMI set_cookie)) with
  | EOk [] => JNone
  | EOk _ => JOk
  | EUnicodeError => JNone
  | _ => JUnsupported
  end.


(* ------------------------------------------------------------------ spec-side predicates *)

(* RFC 6265 cookie-octet: %x21 / %x23-2B / %x2D-3A / %x3C-5B / %x5D-7E *)
Definition cookie_octet (c : N) : bool :=
  (c =? 33) || ((35 <=? c) && (c <=? 43)) || ((45 <=? c) && (c <=? 58))
  || ((60 <=? c) && (c <=? 91)) || ((93 <=? c) && (c <=? 126)).

(* RFC 7230 token characters *)
Definition token_char (c : N) : bool :=
  is_digit c || is_alpha c
  || mem c [33; 35; 36; 37; 38; 39; 42; 43; 45; 46; 94; 95; 96; 124; 126].
Definition token (k : str) : bool :=
  match k with [] => false | _ => forallb token_char k end.

(* the shape every escape must have: BS ooo (three octal digits spelling the byte) or BS DQ or BS BS *)
Definition octal_escape_of (b : N) : bytes := [BS; 48 + b / 64; 48 + (b / 8) mod 8; 48 + b mod 8].
Definition good_escape (b : N) (e : bytes) : bool :=
  list_eqb e (octal_escape_of b) || (((b =? DQ) || (b =? BS)) && list_eqb e [BS; b]).

(* what a quoted value may contain between the quotes: cookie-octets, SP kept literal as in
   http.cookies, and the escape characters backslash / quote (only ever produced in pairs) *)
Definition quoted_char (c : N) : bool := cookie_octet c || (c =? SP) || (c =? BS) || (c =? DQ).
