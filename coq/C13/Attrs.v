(* C13: the Set-Cookie header carries exactly the requested attributes, canonically spelled, in the
   fixed order: splitting it at ';' (as RFC 6265 user agents do) gives back the cookie pair followed
   by exactly the attribute list. *)
From Coq Require Import ZArith Lia ZifyBool ZifyN.
From Wz Require Import lib.Bytes lib.BytesFacts lib.Utf8 lib.Utf8Facts C13.Gen C13.Model C13.Proofs.
Open Scope N_scope.

(* the attribute pieces dump_cookie appends, in order *)
Definition attr_pieces (a : attrs) : list str :=
  kv name_Domain (a_domain a) ++ kv name_Expires (a_expires a) ++ kv name_MaxAge (a_max_age a)
  ++ flag name_Secure (a_secure a || a_partitioned a) ++ flag name_HttpOnly (a_httponly a)
  ++ kv name_Path (a_path a) ++ kv name_SameSite (a_samesite a) ++ flag name_Partitioned (a_partitioned a).

(* a user agent's view: split at every ';' and drop the single space that follows it *)
Fixpoint split_semi (s : str) (cur : str) : list str :=
  match s with
  | [] => [cur]
  | c :: r =>
    if c =? SEMI then cur :: split_semi (match r with d :: r' => if d =? SP then r' else r | [] => r end) []
    else split_semi r (cur ++ [c])
  end.

Definition no_semi (s : str) : bool := forallb (fun c => negb (c =? SEMI)) s.
Definition opt_no_semi (o : option str) : bool := match o with Some s => no_semi s | None => true end.
(* rendered attribute values: Domain after IDNA, Expires after http_date, Max-Age as decimal text,
   Path after quote (';' is not in its safe set), SameSite one of three words *)
Definition attrs_clean (a : attrs) : bool :=
  opt_no_semi (a_domain a) && opt_no_semi (a_expires a) && opt_no_semi (a_max_age a)
  && opt_no_semi (a_path a) && opt_no_semi (a_samesite a).

Lemma split_semi_plain s cur : no_semi s = true -> split_semi s cur = [cur ++ s].
Proof.
  revert cur. induction s as [|c s IH]; intros cur H; cbn [split_semi].
  - rewrite app_nil_r. reflexivity.
  - unfold no_semi in H. cbn [forallb] in H. apply andb_prop in H. destruct H as [Hc Hs].
    destruct (c =? SEMI); [discriminate|]. rewrite IH by exact Hs. rewrite <- app_assoc. reflexivity.
Qed.

Lemma split_semi_app a b cur :
  no_semi a = true -> split_semi (a ++ SEMI :: SP :: b) cur = (cur ++ a) :: split_semi b [].
Proof.
  revert cur. induction a as [|c a IH]; intros cur H; cbn [app split_semi].
  - rewrite N.eqb_refl. rewrite N.eqb_refl. rewrite app_nil_r. reflexivity.
  - unfold no_semi in H. cbn [forallb] in H. apply andb_prop in H. destruct H as [Hc Ha].
    destruct (c =? SEMI); [discriminate|]. rewrite IH by exact Ha. rewrite <- app_assoc. reflexivity.
Qed.

Lemma split_join_semi pieces :
  pieces <> [] -> Forall (fun p => no_semi p = true) pieces -> split_semi (join_semi pieces) [] = pieces.
Proof.
  induction pieces as [|p r IH]; intros Hne Hall; [congruence|].
  inversion Hall as [|? ? Hp Hr]; subst. destruct r as [|q r'].
  - cbn [join_semi]. rewrite split_semi_plain by exact Hp. reflexivity.
  - change (join_semi (p :: q :: r')) with (p ++ SEMI :: SP :: join_semi (q :: r')).
    rewrite split_semi_app by exact Hp. cbn [app]. f_equal. apply IH; [discriminate|exact Hr].
Qed.

Lemma names_no_semi :
  no_semi name_Domain && no_semi name_Expires && no_semi name_MaxAge && no_semi name_Secure
  && no_semi name_HttpOnly && no_semi name_Path && no_semi name_SameSite && no_semi name_Partitioned = true.
Proof. vm_compute. reflexivity. Qed.

Lemma no_semi_app a b : no_semi (a ++ b) = no_semi a && no_semi b.
Proof. unfold no_semi. apply forallb_app. Qed.

Lemma kv_no_semi name v : no_semi name = true -> opt_no_semi v = true ->
  Forall (fun p => no_semi p = true) (kv name v).
Proof.
  intros Hn Hv. destruct v as [x|]; cbn [kv]; [|constructor].
  constructor; [|constructor]. rewrite no_semi_app, Hn. cbn [andb]. unfold no_semi in *. cbn [forallb].
  cbn [opt_no_semi] in Hv. unfold no_semi in Hv. rewrite Hv. reflexivity.
Qed.

Lemma flag_no_semi name b : no_semi name = true -> Forall (fun p => no_semi p = true) (flag name b).
Proof. intro Hn. destruct b; cbn [flag]; [constructor; [exact Hn|constructor]|constructor]. Qed.

Lemma attr_pieces_no_semi a : attrs_clean a = true -> Forall (fun p => no_semi p = true) (attr_pieces a).
Proof.
  intro H. unfold attrs_clean in H. repeat (apply andb_prop in H; destruct H as [H ?]).
  pose proof names_no_semi as N. repeat (apply andb_prop in N; destruct N as [N ?]).
  unfold attr_pieces. repeat (apply Forall_app; split);
    first [apply kv_no_semi; assumption | apply flag_no_semi; assumption].
Qed.

Theorem attributes_exact k v a :
  token k = true -> valid_text v = true -> attrs_clean a = true ->
  exists pair hdr,
    dump_pair k v = Some pair /\ dump_cookie k v a = Some hdr /\
    split_semi hdr [] = pair :: attr_pieces a.
Proof.
  intros Hk Hv Ha.
  destruct (value_no_injection v Hv) as [out [Hd [_ [_ [Hsemi _]]]]].
  exists (k ++ EQ :: out). eexists. split; [|split].
  - unfold dump_pair. rewrite Hd. cbn [option_map]. unfold wsgi_encoding_dance, latin1_decode.
    rewrite utf8_encode_ascii by (apply token_ascii; exact Hk). reflexivity.
  - unfold dump_cookie, dump_pair. rewrite Hd. cbn [option_map]. unfold wsgi_encoding_dance, latin1_decode.
    rewrite utf8_encode_ascii by (apply token_ascii; exact Hk). reflexivity.
  - change (kv name_Domain (a_domain a) ++ kv name_Expires (a_expires a) ++ kv name_MaxAge (a_max_age a)
            ++ flag name_Secure (a_secure a || a_partitioned a) ++ flag name_HttpOnly (a_httponly a)
            ++ kv name_Path (a_path a) ++ kv name_SameSite (a_samesite a) ++ flag name_Partitioned (a_partitioned a))
      with (attr_pieces a).
    apply split_join_semi; [discriminate|]. constructor; [|apply attr_pieces_no_semi; exact Ha].
    rewrite no_semi_app. unfold no_semi at 2. cbn [forallb].
    replace (negb (EQ =? SEMI)) with true by reflexivity. cbn [andb].
    rewrite andb_true_iff. split.
    + unfold no_semi. unfold token in Hk. destruct k; [discriminate|].
      eapply forallb_impl; [|exact Hk]. intros c Hc. apply token_char_facts in Hc.
      unfold not_eq_semi, SEMI in *. lia.
    + unfold no_semi. unfold mem in Hsemi. clear - Hsemi. induction out as [|c out IH]; [reflexivity|].
      cbn [existsb forallb] in *. apply orb_false_iff in Hsemi. destruct Hsemi as [H1 H2].
      rewrite IH by exact H2. rewrite N.eqb_sym, H1. reflexivity.
Qed.

Example attributes_example :
  let a := {| a_domain := Some [101; 46; 99]; a_expires := None; a_max_age := Some [51; 54; 48; 48];
              a_secure := false; a_httponly := true; a_path := Some [47]; a_samesite := Some [76; 97; 120];
              a_partitioned := true |} in
  attrs_clean a = true /\
  match dump_cookie [107] [59; 32; 83; 101; 99; 117; 114; 101] a with
  | Some h => length (split_semi h []) = 8%nat
  | None => False
  end.
Proof. vm_compute. split; reflexivity. Qed.
