From Coq Require Extraction ExtrOcamlBasic.
From Wz Require Import lib.Bytes lib.Utf8 lib.ExtractBase C13.Gen C13.Model C13.JarMatchModel.
Extraction Language OCaml.
Extraction "C13/model_extracted.ml" force_types dump_pair dump_cookie parse_cookie_sansio parse_cookie_environ jar_request_header jar_decoded jar_matches.
