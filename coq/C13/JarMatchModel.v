(* C13: which stored cookies the test client's jar sends with a request
   (test.Cookie._matches_request, statements pinned by tools/pins/c13_cookies.txt).  Definitions only. *)
From Wz Require Import lib.Bytes.
Open Scope N_scope.

Definition SLASH : N := 47.
Definition DOT : N := 46.
Definition last_is (c : N) (s : str) : bool := match rev s with x :: _ => x =? c | [] => false end.
Definition ends_with (suf s : str) : bool := starts_with (rev suf) (rev s).

(* path == self.path or (path.startswith(self.path)
                         and path[len(self.path) - self.path.endswith("/"):].startswith("/")) *)
Definition jar_path_matches (cpath path : str) : bool :=
  list_eqb path cpath ||
  (starts_with cpath path &&
   match skipn (length cpath - (if last_is SLASH cpath then 1 else 0)) path with
   | c :: _ => c =? SLASH
   | [] => false
   end).

(* server_name == self.domain or (not self.origin_only and server_name.endswith(self.domain)
                                  and server_name[:-len(self.domain)].endswith("."))
   (the cookie's domain is never empty: it defaults to the server name) *)
Definition jar_domain_matches (origin_only : bool) (domain server : str) : bool :=
  list_eqb server domain ||
  (negb origin_only && ends_with domain server && last_is DOT (firstn (length server - length domain) server)).

Definition jar_matches (origin_only : bool) (domain cpath server path : str) : bool :=
  jar_domain_matches origin_only domain server && jar_path_matches cpath path.
