let opt s = if s = "~" then None else Some (nlist_of_csv s)
let pairs l = if l = [] then "-" else String.concat "|" (List.map (fun (k, v) -> csv_of_nlist k ^ "=" ^ csv_of_nlist v) l)
let () = iter_lines (fun line ->
  match fields line with
  | ["dump"; k; v] ->
      (match dump_pair (nlist_of_csv k) (nlist_of_csv v) with Some s -> "ok " ^ csv_of_nlist s | None -> "exn")
  | ["dumpc"; k; v; dom; exp; ma; sec; ho; path; ss; part] ->
      let a = { a_domain = opt dom; a_expires = opt exp; a_max_age = opt ma; a_secure = (sec = "1");
                a_httponly = (ho = "1"); a_path = opt path; a_samesite = opt ss; a_partitioned = (part = "1") } in
      (match dump_cookie (nlist_of_csv k) (nlist_of_csv v) a with Some s -> "ok " ^ csv_of_nlist s | None -> "exn")
  | ["psans"; s] ->
      (match parse_cookie_sansio (nlist_of_csv s) with
       | POk l -> "ok " ^ pairs l | PUnsupported -> "unsupported" | POutOfFuel -> "fuel")
  | ["penv"; s] ->
      (match parse_cookie_environ (nlist_of_csv s) with
       | EOk l -> "ok " ^ pairs l | EUnicodeError -> "unicode-error" | EUnsupported -> "unsupported" | EOutOfFuel -> "fuel")
  | ["jar"; s] ->
      (* the implementation calls parse_cookie(first piece) first and fails with StopIteration when it yields nothing *)
      let h = nlist_of_csv s in
      (match jar_decoded h with
       | JNone -> "no-cookie"
       | JUnsupported -> "unsupported"
       | JOk -> "ok " ^ csv_of_nlist (jar_request_header h))
  | ["jmatch"; oo; dom; cpath; server; path] ->
      if jar_matches (oo = "1") (nlist_of_csv dom) (nlist_of_csv cpath) (nlist_of_csv server) (nlist_of_csv path) then "1" else "0"
  | _ -> "bad-command")
