(* C13: the jar's path test is RFC 6265 section 5.1.4 path-match, its domain test section 5.1.3
   domain-match (for host names). *)
From Coq Require Import ZArith Lia.
From Wz Require Import lib.Bytes C13.JarMatchModel.
Open Scope N_scope.

Lemma list_eqb_iff a b : list_eqb a b = true <-> a = b.
Proof.
  revert b. induction a as [|x a IH]; destruct b as [|y b]; cbn [list_eqb]; split; intro H; try discriminate; try reflexivity.
  - apply andb_prop in H. destruct H as [Hx Hab]. apply N.eqb_eq in Hx. subst y. f_equal. apply IH. exact Hab.
  - inversion H; subst. rewrite N.eqb_refl. cbn [andb]. apply IH. reflexivity.
Qed.

Lemma starts_with_iff p s : starts_with p s = true <-> exists r, s = p ++ r.
Proof.
  revert s. induction p as [|x p IH]; intro s; cbn [starts_with].
  - split; [intros _; exists s; reflexivity | intros _; reflexivity].
  - destruct s as [|y s].
    + split; [discriminate | intros [r Hr]; discriminate].
    + split.
      * intro H. apply andb_prop in H. destruct H as [Hx Hs]. apply N.eqb_eq in Hx. subst y.
        apply IH in Hs. destruct Hs as [r Hr]. exists r. rewrite Hr. reflexivity.
      * intros [r Hr]. inversion Hr; subst. rewrite N.eqb_refl. cbn [andb]. apply IH. exists r. reflexivity.
Qed.

Lemma last_is_app_single c s x : last_is c (s ++ [x]) = (x =? c).
Proof. unfold last_is. rewrite rev_app_distr. reflexivity. Qed.

Lemma last_is_split c s : last_is c s = true -> exists s0, s = s0 ++ [c].
Proof.
  unfold last_is. destruct (rev s) as [|x r] eqn:E; [discriminate|]. intro H. apply N.eqb_eq in H. subst x.
  exists (rev r). rewrite <- (rev_involutive s), E. reflexivity.
Qed.

Lemma skipn_app_exact (A : Type) (a b : list A) : skipn (length a) (a ++ b) = b.
Proof. induction a as [|x a IH]; [reflexivity | exact IH]. Qed.

(* RFC 6265 5.1.4: the request path path-matches the cookie path iff they are identical, or the
   cookie path is a prefix of the request path and either ends in "/" or is followed by "/" *)
Theorem jar_path_is_rfc_path_match cpath path :
  jar_path_matches cpath path = true <->
  path = cpath \/ exists rest, path = cpath ++ rest /\ (last_is SLASH cpath = true \/ exists r, rest = SLASH :: r).
Proof.
  unfold jar_path_matches. rewrite orb_true_iff, andb_true_iff, list_eqb_iff, starts_with_iff. split.
  - intros [H|[[rest Hr] Hs]]; [left; exact H|]. right. exists rest. split; [exact Hr|]. subst path.
    destruct (last_is SLASH cpath) eqn:El; [left; reflexivity|]. right.
    rewrite Nat.sub_0_r, skipn_app_exact in Hs. destruct rest as [|c r]; [discriminate|].
    apply N.eqb_eq in Hs. subst c. exists r. reflexivity.
  - intros [H|[rest [Hr Hc]]]; [left; exact H|]. right. split; [exists rest; exact Hr|]. subst path.
    destruct (last_is SLASH cpath) eqn:El.
    + apply last_is_split in El. destruct El as [s0 Hs0]. subst cpath.
      rewrite app_length. cbn [length]. replace (length s0 + 1 - 1)%nat with (length s0) by lia.
      rewrite <- app_assoc. rewrite skipn_app_exact. cbn [app]. apply N.eqb_refl.
    + destruct Hc as [Hc|[r Hr2]]; [discriminate|]. subst rest.
      rewrite Nat.sub_0_r, skipn_app_exact. apply N.eqb_refl.
Qed.

Lemma ends_with_iff suf s : ends_with suf s = true <-> exists p, s = p ++ suf.
Proof.
  unfold ends_with. rewrite starts_with_iff. split.
  - intros [r Hr]. exists (rev r). rewrite <- (rev_involutive s), Hr, rev_app_distr, rev_involutive. reflexivity.
  - intros [p Hp]. exists (rev p). rewrite Hp, rev_app_distr. reflexivity.
Qed.

Lemma firstn_app_exact (A : Type) (a b : list A) : firstn (length (a ++ b) - length b) (a ++ b) = a.
Proof.
  rewrite app_length. replace (length a + length b - length b)%nat with (length a) by lia.
  rewrite firstn_app, Nat.sub_diag, firstn_all. cbn [firstn]. apply app_nil_r.
Qed.

(* RFC 6265 5.1.3: the server name domain-matches the cookie's domain iff they are identical, or
   (the cookie had a Domain attribute and) the domain is a suffix of the server name preceded by "." *)
Theorem jar_domain_is_rfc_domain_match origin_only domain server :
  jar_domain_matches origin_only domain server = true <->
  server = domain \/ (origin_only = false /\ exists p, server = p ++ DOT :: domain).
Proof.
  unfold jar_domain_matches. rewrite orb_true_iff, !andb_true_iff, list_eqb_iff, ends_with_iff, negb_true_iff. split.
  - intros [H|[[Ho [p Hp]] Hl]]; [left; exact H|]. right. split; [exact Ho|]. subst server.
    rewrite firstn_app_exact in Hl. apply last_is_split in Hl. destruct Hl as [p0 Hp0]. subst p.
    exists p0. rewrite <- app_assoc. reflexivity.
  - intros [H|[Ho [p Hp]]]; [left; exact H|]. right. subst server. split; [split; [exact Ho|]|].
    + exists (p ++ [DOT]). rewrite <- app_assoc. reflexivity.
    + change (p ++ DOT :: domain) with (p ++ [DOT] ++ domain). rewrite app_assoc. rewrite firstn_app_exact.
      rewrite last_is_app_single. apply N.eqb_refl.
Qed.

Example jar_match_example :
  jar_path_matches [47; 115; 47] [47; 115; 47; 99] = true /\          (* /s/ and /s/c *)
  jar_path_matches [47; 115] [47; 115; 47; 99] = true /\              (* /s  and /s/c *)
  jar_path_matches [47; 115] [47; 115; 120] = false /\                (* /s  and /sx  *)
  jar_path_matches [47] [47; 97] = true /\
  jar_domain_matches false [97; 46; 98] [120; 46; 97; 46; 98] = true /\   (* a.b and x.a.b *)
  jar_domain_matches true [97; 46; 98] [120; 46; 97; 46; 98] = false /\
  jar_domain_matches false [97; 46; 98] [120; 97; 46; 98] = false.        (* a.b and xa.b *)
Proof. vm_compute. repeat split; reflexivity. Qed.
