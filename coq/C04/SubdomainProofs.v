(* C04: the map-level theorem with a subdomain / host part on the rules.  The domain part of a rule is one
   more piece: a literal, or pre<conv:name>post; it is built into the host name, which is not percent-decoded,
   so its text must be host-safe (quote leaves it unchanged). *)
From Coq Require Import ZArith Lia.
From Wz Require Import lib.Bytes lib.BytesFacts lib.Utf8 lib.Utf8Facts C03.Gen C03.Trie C03.TrieFacts C03.Model C03.Proofs
  C04.Model C04.Proofs C04.MapProofs.
Open Scope N_scope.

Definition nodom (r : rule) : rule :=
  {| r_idx := r_idx r; r_endpoint := r_endpoint r; r_dom := SLit []; r_segs := r_segs r; r_tail := r_tail r;
     r_branch := r_branch r; r_methods := r_methods r; r_strict_opt := r_strict_opt r; r_merge_opt := r_merge_opt r;
     r_websocket := r_websocket r; r_alias := r_alias r; r_defaults := r_defaults r |}.

(* the domain part of the rule is built as the text dt, matched with captures dcaps and values dvs *)
Inductive dom_built (defs vals : list (str * value)) : seg -> str -> list str -> list (str * value) -> Prop :=
| db_lit k : quote safe_literal k = k -> dom_built defs vals (SLit k) k [] []
| db_dyn pre c name post v tv :
    quote safe_literal pre = pre -> quote safe_literal post = post -> conv_isolating c = true ->
    dict_get name defs = None -> dict_get name vals = Some v ->
    to_url c v = BOk tv -> in_lang (lang_of c) tv = true -> to_python c tv = Some (reval v) ->
    dom_built defs vals (SDyn pre c name post) (pre ++ tv ++ post) [tv] [(name, reval v)].

Lemma dom_built_build defs vals s dt dcaps dvs : dom_built defs vals s dt dcaps dvs -> build_seg defs vals s = BOk dt.
Proof.
  intros [k Hk|pre c name post v tv H1 H2 Hiso Hd Hg Hu Hl Hp].
  - cbn [build_seg]. rewrite Hk. reflexivity.
  - cbn [build_seg]. rewrite Hd, Hg, Hu. cbn [bbind]. rewrite H1, H2. reflexivity.
Qed.

Lemma dom_built_walk defs vals s dt dcaps dvs rest_parts restP :
  dom_built defs vals s dt dcaps dvs ->
  cwalk (to_cpart (seg_part s) :: rest_parts) (dt :: restP)
  = match cwalk rest_parts restP with Some (c2, lo) => Some (dcaps ++ c2, lo) | None => None end.
Proof.
  intros [k Hk|pre c name post v tv H1 H2 Hiso Hd Hg Hu Hl Hp].
  - cbn [seg_part to_cpart Trie.walk]. rewrite list_eqb_refl. destruct (cwalk rest_parts restP) as [[c2 lo]|]; reflexivity.
  - cbn [seg_part to_cpart Trie.walk]. rewrite Hiso.
    match goal with |- context [pmatch ?d _ _] =>
      assert (Hpm := pmatch_plain d tv restP); cbn [d_pre d_post d_final d_suffixed d_lang] in Hpm;
      rewrite (Hpm eq_refl eq_refl Hl) end.
    reflexivity.
Qed.

Lemma dom_built_convert defs vals s dt dcaps dvs (cs2 : list (str * conv)) caps2 :
  dom_built defs vals s dt dcaps dvs ->
  convert_all (seg_convs s ++ cs2) (dcaps ++ caps2) = option_map (app dvs) (convert_all cs2 caps2).
Proof.
  intros [k Hk|pre c name post v tv H1 H2 Hiso Hd Hg Hu Hl Hp].
  - cbn [seg_convs app]. destruct (convert_all cs2 caps2); reflexivity.
  - cbn [seg_convs app convert_all]. rewrite Hp. destruct (convert_all cs2 caps2); reflexivity.
Qed.

Lemma build_rule_nodom r vals :
  build_rule r vals
  = bbind (build_seg (r_defaults r) vals (r_dom r)) (fun dt =>
      bbind (build_rule (nodom r) vals) (fun dp => BOk (dt, snd dp))).
Proof.
  unfold build_rule. cbn [nodom r_dom r_segs r_tail r_defaults build_seg bbind].
  change (is_branch (nodom r)) with (is_branch r).
  destruct (build_seg (r_defaults r) vals (r_dom r)) as [dt| |]; cbn [bbind]; try reflexivity.
  destruct (build_segs (r_defaults r) vals _) as [items| |]; reflexivity.
Qed.

Lemma rparts_nodom r : rparts r = to_cpart (seg_part (r_dom r)) :: tl (rparts (nodom r)).
Proof. unfold rparts, rule_parts. cbn [nodom r_dom r_segs r_tail map tl]. change (is_branch (nodom r)) with (is_branch r). reflexivity. Qed.

Lemma rule_convs_nodom r : rule_convs r = seg_convs (r_dom r) ++ rule_convs (nodom r).
Proof. unfold rule_convs. cbn [nodom r_dom r_segs r_tail seg_convs app]. reflexivity. Qed.

(* build, deliver, walk - for a rule with a domain part *)
Theorem rule_build_walk_dom r vals dt dcaps dvs ts caps vs tts restP tcaps tvs k rest :
  dom_built (r_defaults r) vals (r_dom r) dt dcaps dvs -> r_segs r = SLit k :: rest ->
  segs_built (r_defaults r) vals (r_segs r) ts caps vs ->
  tail_built (r_defaults r) vals (is_branch r) (r_tail r) tts restP tcaps tvs ->
  let D := SLASH :: join_slash (ts ++ tts) ++ (if is_branch r then [SLASH] else []) in
  (exists path, build_rule r vals = BOk (dt, path) /\ unquote path = D)
  /\ split_slash (path_part D) = [] :: ts ++ restP
  /\ exists wcaps, cwalk (rparts r) (dt :: [] :: ts ++ restP) = Some (wcaps, []) /\ rconvert r wcaps = Some (dvs ++ vs ++ tvs).
Proof.
  intros Hdb Hsegs Hsb Htb D.
  destruct (rule_build_walk (nodom r) vals ts caps vs tts restP tcaps tvs k rest eq_refl Hsegs Hsb Htb)
    as [(path & Hb & Hu) Hparts (wcaps & Hwalk & Hconv)].
  change (is_branch (nodom r)) with (is_branch r) in *. fold D in Hu, Hparts.
  split; [|split].
  - exists path. split; [|exact Hu]. rewrite build_rule_nodom, (dom_built_build _ _ _ _ _ _ Hdb), Hb. reflexivity.
  - apply (f_equal (@tl (list N))) in Hparts. exact Hparts.
  - exists (dcaps ++ wcaps). split.
    + rewrite rparts_nodom. rewrite (dom_built_walk _ _ _ _ _ _ _ _ Hdb).
      assert (Hn : rparts (nodom r) = PStatic dpart [] :: tl (rparts (nodom r))) by reflexivity.
      rewrite Hn in Hwalk. cbn [Trie.walk list_eqb] in Hwalk. rewrite Hwalk. reflexivity.
    + unfold rconvert. rewrite rule_convs_nodom, (dom_built_convert _ _ _ _ _ _ _ _ Hdb). unfold rconvert in Hconv.
      rewrite Hconv. cbn [option_map]. reflexivity.
Qed.

(* ------------------------------------------------------------------ the other rules *)
Definition dom_isolating (s : seg) : bool := match s with SLit _ => true | SDyn _ c _ _ => conv_isolating c end.
Definition map_distinct_dom (m : rmap) : Prop :=
  (forall r, In r (m_rules m) -> dom_isolating (r_dom r) = true /\ exists k rest, r_segs r = SLit k :: rest /\ k <> [])
  /\ (forall r1 r2, In r1 (m_rules m) -> In r2 (m_rules m) -> first_lit r1 = first_lit r2 -> r1 = r2).

Lemma pmatch_isolating pre c post w p rest :
  conv_isolating c = true ->
  pmatch {| d_pre := pre; d_lang := lang_of c; d_post := post; d_final := negb (conv_isolating c); d_suffixed := false; d_weight := w |} p rest
  = match pmatch {| d_pre := pre; d_lang := lang_of c; d_post := post; d_final := negb (conv_isolating c); d_suffixed := false; d_weight := w |} p [] with
    | Some (g, _) => Some (g, rest) | None => None end.
Proof.
  intro Hiso. unfold pmatch. cbn [d_final d_suffixed d_pre d_post d_lang]. rewrite Hiso. cbn [negb].
  destruct (strip_prefix pre p) as [t1|]; [|reflexivity]. destruct (strip_suffix post t1) as [mid|]; [|reflexivity].
  destruct (in_lang (lang_of c) mid); reflexivity.
Qed.

Lemma walk_other_literal dom' k' X dt k Pmore :
  dom_isolating dom' = true -> k' <> k ->
  cwalk (to_cpart (seg_part dom') :: PStatic dpart [] :: PStatic dpart k' :: X) (dt :: [] :: k :: Pmore) = None.
Proof.
  intros Hiso Hk.
  assert (Hneq : list_eqb k' k = false) by (destruct (list_eqb k' k) eqn:E; [apply list_eqb_eq in E; contradiction|reflexivity]).
  assert (Hrest : cwalk (PStatic dpart [] :: PStatic dpart k' :: X) ([] :: k :: Pmore) = None) by (cbn [Trie.walk list_eqb]; rewrite Hneq; reflexivity).
  destruct dom' as [k0|pre c n post]; cbn [seg_part to_cpart].
  - cbn [Trie.walk]. destruct (list_eqb k0 dt); [|reflexivity]. cbn [Trie.walk list_eqb]. rewrite Hneq. reflexivity.
  - cbn [dom_isolating] in Hiso.
    change (cwalk (PDyn dpart ?d :: ?T) (dt :: ?R)) with
      (match pmatch d dt R with Some (g, rem) => match cwalk T rem with Some (c2, lo) => Some (g ++ c2, lo) | None => None end | None => None end).
    rewrite (pmatch_isolating _ _ _ _ _ _ Hiso).
    match goal with |- context [pmatch ?d dt []] => destruct (pmatch d dt []) as [[g0 r0]|] end; [|reflexivity].
    rewrite Hrest. reflexivity.
Qed.

Lemma other_first_literal_dom m r' k' rest' dt k Pmore :
  dom_isolating (r_dom r') = true -> r_segs r' = SLit k' :: rest' -> k' <> [] -> k' <> k ->
  admits m r' (dt :: [] :: k :: Pmore) = ANo rres.
Proof.
  intros Hiso Hsegs Hne Hk.
  assert (Hparts : exists X, rparts r' = to_cpart (seg_part (r_dom r')) :: PStatic dpart [] :: PStatic dpart k' :: X).
  { unfold rparts, rule_parts. rewrite Hsegs. cbn [seg_part map to_cpart app]. eexists. reflexivity. }
  destruct Hparts as (X & Hp).
  unfold admits, Trie.admits. rewrite Hp, (walk_other_literal _ _ _ _ _ _ Hiso Hk).
  destruct (Trie.strip_last_empty dpart (to_cpart (seg_part (r_dom r')) :: PStatic dpart [] :: PStatic dpart k' :: X)) as [cs'|] eqn:Es; [|reflexivity].
  apply (strip_last_empty_some dpart) in Es.
  assert (Hcs : exists X', cs' = to_cpart (seg_part (r_dom r')) :: PStatic dpart [] :: PStatic dpart k' :: X').
  { destruct cs' as [|c1 cs1]; [discriminate|]. cbn [app] in Es. injection Es as <- Es.
    destruct cs1 as [|c2 cs2]; [discriminate|]. cbn [app] in Es. injection Es as <- Es.
    destruct cs2 as [|c3 cs3].
    - cbn [app] in Es. injection Es as Ek _. exfalso. apply Hne. exact Ek.
    - cbn [app] in Es. injection Es as <- _. eexists. reflexivity. }
  destruct Hcs as (X' & ->). rewrite (walk_other_literal _ _ _ _ _ _ Hiso Hk). reflexivity.
Qed.

(* C04_build_then_match with a subdomain / host part: the request goes to the host dt the rule was built for *)
Theorem build_then_match_dom m r vals dt dcaps dvs ts caps vs tts restP tcaps tvs meth ws :
  map_distinct_dom m -> In r (m_rules m) ->
  dom_built (r_defaults r) vals (r_dom r) dt dcaps dvs ->
  segs_built (r_defaults r) vals (r_segs r) ts caps vs ->
  tail_built (r_defaults r) vals (is_branch r) (r_tail r) tts restP tcaps tvs ->
  rmethod_ok r meth = true -> r_websocket r = ws ->
  exists path, build_rule r vals = BOk (dt, path)
    /\ matcher_run m (trie_of m) dt (path_part (unquote path)) meth ws = MOk rule rres r (dvs ++ vs ++ tvs).
Proof.
  intros [Hshape Hdist] Hin Hdb Hsb Htb Hm Hw.
  destruct (Hshape r Hin) as (Hdiso & k & rest & Hsegs & Hkne).
  destruct (rule_build_walk_dom r vals dt dcaps dvs ts caps vs tts restP tcaps tvs k rest Hdb Hsegs Hsb Htb)
    as ((path & Hb & Hu) & Hparts & (wcaps & Hwalk & Hconv)).
  exists path. split; [exact Hb|]. rewrite Hu.
  set (D := SLASH :: join_slash (ts ++ tts) ++ (if is_branch r then [SLASH] else [])) in *.
  assert (Hts : exists ts1, ts = k :: ts1).
  { rewrite Hsegs in Hsb. inversion Hsb as [|s t c v l ts' cl vl Hs Hl]; subst. inversion Hs; subst. eauto. }
  destruct Hts as (ts1 & ->).
  assert (Hsplit : split_slash (path_part D) = [] :: (k :: ts1) ++ restP) by exact Hparts.
  assert (Hadm : admits m r (dt :: split_slash (path_part D)) = ADirect rres (dvs ++ vs ++ tvs)).
  { rewrite Hsplit. unfold admits, Trie.admits, Trie.convert_adm. rewrite Hwalk, Hconv. reflexivity. }
  assert (Hother : forall r', In r' (m_rules m) -> admits m r' (dt :: split_slash (path_part D)) <> ANo rres -> r' = r).
  { intros r' Hin' Hne. apply Hdist; try assumption. destruct (Hshape r' Hin') as (Hdiso' & k' & rest' & Hsegs' & Hkne').
    unfold first_lit. rewrite Hsegs, Hsegs'. f_equal.
    destruct (list_eq_dec N.eq_dec k' k) as [E|E]; [exact E|]. exfalso. apply Hne. rewrite Hsplit. cbn [app].
    exact (other_first_literal_dom m r' k' rest' dt k _ Hdiso' Hsegs' Hkne' E). }
  assert (Hserves : serves m meth ws r (dt :: split_slash (path_part D))).
  { split; [rewrite Hadm; discriminate|split; assumption]. }
  destruct (matcher_first_pass m dt (path_part D) meth ws r Hin Hserves) as [(r1 & v1 & E)|(E & r2 & Hin2 & Ha2)].
  - rewrite E. destruct (matcher_ok_sound _ _ _ _ _ _ _ E) as (Hin1 & Ha1 & _ & _).
    assert (r1 = r) by (apply Hother; [exact Hin1|intro Hc; pose proof (eq_trans (eq_sym Hc) Ha1) as Hd; discriminate Hd]). subst r1.
    pose proof (eq_trans (eq_sym Hadm) Ha1) as Hd. injection Hd as <-. reflexivity.
  - assert (r2 = r) by (apply Hother; [exact Hin2|intro Hc; pose proof (eq_trans (eq_sym Hc) Ha2) as Hd; discriminate Hd]). subst r2.
    pose proof (eq_trans (eq_sym Hadm) Ha2) as Hd. discriminate Hd.
Qed.

(* an instance: Subdomain('api', [Rule('/users/<int:id>/x-<string:n>')]) next to Rule('/all/') *)
Definition API : str := [97; 112; 105].
Definition ex_users_api : rule :=
  {| r_idx := 0; r_endpoint := 0; r_dom := SLit API; r_segs := r_segs ex_users; r_tail := None; r_branch := false;
     r_methods := None; r_strict_opt := None; r_merge_opt := None; r_websocket := false; r_alias := false; r_defaults := [] |}.
Definition ex_map5 : rmap :=
  {| m_rules := [ex_users_api; ex_all2]; m_strict := true; m_merge := true; m_redirect_defaults := true; m_host_matching := false |}.
Lemma ex_map5_ok :
  map_distinct_dom ex_map5 /\ dom_built [] ex_vals (SLit API) API [] []
  /\ matcher_run ex_map5 (trie_of ex_map5) API
       (path_part (unquote ([47] ++ USERS ++ [47; 52; 50; 47; 120; 45; 37; 67; 51; 37; 65; 57; 37; 50; 48; 37; 50; 53]))) GET false
     = MOk rule rres ex_users_api [([105; 100], VInt 42); ([110], VStr [233; 32; 37])].
Proof.
  split; [|split].
  - split.
    + intros r [<-|[<-|[]]]; (split; [reflexivity|]); eexists; eexists; (split; [reflexivity|discriminate]).
    + intros r1 r2 [<-|[<-|[]]] [<-|[<-|[]]] H; try reflexivity; discriminate H.
  - constructor. vm_compute. reflexivity.
  - vm_compute. reflexivity.
Qed.

(* ------------------------------------------------------------------ rebuilding from the matched values, floats included.
   The matcher hands a float back as float(t) for the matched text t (VFloatRaw t).  For a canonical text
   t = str(x) the float contract (C04_float_roundtrip: float(str x) = x) says that this value IS the float whose
   str() is t, i.e. the model value VFloat t: unraw makes that identification. *)
Definition unraw (v : value) : value := match v with VFloatRaw t => VFloat t | _ => v end.
Definition unraw_all (l : list (str * value)) : list (str * value) := map (fun kv => (fst kv, unraw (snd kv))) l.

Lemma unraw_reval v : is_raw_float v = false -> unraw (reval v) = v.
Proof. destruct v; cbn [is_raw_float reval unraw]; intro H; try reflexivity; discriminate. Qed.
Lemma unraw_keys l : map fst (unraw_all l) = map fst l.
Proof. unfold unraw_all. rewrite map_map. reflexivity. Qed.

Definition no_raw (vals : list (str * value)) : Prop := forall k v, dict_get k vals = Some v -> is_raw_float v = false.

Lemma segs_built_rebuild_u defs vals l ts caps vs extra :
  segs_built defs vals l ts caps vs -> NoDup (flat_map seg_names l) -> no_raw vals ->
  build_segs defs (unraw_all vs ++ extra) l = build_segs defs vals l.
Proof.
  intro H. revert extra. induction H as [|s t c v l ts cl vl Hs Hl IH]; intros extra Hnd Hnr; [reflexivity|].
  cbn [flat_map] in Hnd. pose proof (nodup_app_r _ _ Hnd) as Hnd2.
  unfold unraw_all. rewrite map_app. fold (unraw_all v). fold (unraw_all vl). cbn [build_segs]. rewrite <- app_assoc.
  assert (Hseg : build_seg defs (unraw_all v ++ unraw_all vl ++ extra) s = build_seg defs vals s).
  { inversion Hs as [k Hk Hne|pre c0 name post v0 tv Hp1 Hp2 Hiso Hd Hg Hc Hns]; subst; [reflexivity|].
    cbn [unraw_all map fst snd build_seg app dict_get]. rewrite Hd, list_eqb_refl, Hg, (unraw_reval _ (Hnr _ _ Hg)). reflexivity. }
  rewrite Hseg. destruct (build_seg defs vals s) as [u| |]; cbn [bbind]; try reflexivity.
  assert (Hrest : build_segs defs (unraw_all v ++ unraw_all vl ++ extra) l = build_segs defs vals l).
  { rewrite <- (IH extra Hnd2 Hnr).
    assert (Hext : forall l0, (forall n, In n (flat_map seg_names l0) -> ~ In n (map fst v)) ->
                     build_segs defs (unraw_all v ++ unraw_all vl ++ extra) l0 = build_segs defs (unraw_all vl ++ extra) l0).
    { induction l0 as [|s0 l0 IH0]; intro Hdis; [reflexivity|]. cbn [build_segs].
      assert (Hs0 : build_seg defs (unraw_all v ++ unraw_all vl ++ extra) s0 = build_seg defs (unraw_all vl ++ extra) s0).
      { destruct s0 as [k0|pre0 c0 n0 post0]; [reflexivity|]. cbn [build_seg].
        rewrite (dict_get_app_r n0 (unraw_all v) (unraw_all vl ++ extra)); [reflexivity|]. apply dict_get_none_keys. rewrite unraw_keys.
        apply Hdis. cbn [flat_map seg_names seg_convs map fst app]. left. reflexivity. }
      rewrite Hs0, IH0; [reflexivity|]. intros n Hn. apply Hdis. cbn [flat_map]. apply in_or_app. right. exact Hn. }
    apply Hext. intros n Hn Hin. rewrite (seg_built_keys _ _ _ _ _ _ Hs) in Hin.
    exact (nodup_app_disjoint _ _ Hnd n Hin Hn). }
  rewrite Hrest. reflexivity.
Qed.

Lemma dom_built_keys defs vals s dt dcaps dvs : dom_built defs vals s dt dcaps dvs -> map fst dvs = seg_names s.
Proof. intros [|]; reflexivity. Qed.

Lemma build_segs_skip defs (pre extra : list (str * value)) l :
  (forall n, In n (flat_map seg_names l) -> ~ In n (map fst pre)) ->
  build_segs defs (pre ++ extra) l = build_segs defs extra l.
Proof.
  induction l as [|s0 l0 IH0]; intro Hdis; [reflexivity|]. cbn [build_segs].
  assert (Hs0 : build_seg defs (pre ++ extra) s0 = build_seg defs extra s0).
  { destruct s0 as [k0|pre0 c0 n0 post0]; [reflexivity|]. cbn [build_seg].
    rewrite (dict_get_app_r n0 pre extra); [reflexivity|]. apply dict_get_none_keys.
    apply Hdis. cbn [flat_map seg_names seg_convs map fst app]. left. reflexivity. }
  rewrite Hs0, IH0; [reflexivity|]. intros n Hn. apply Hdis. cbn [flat_map]. apply in_or_app. right. exact Hn.
Qed.

(* the URL (host part and path) built from what the match returned is the URL that was built *)
Theorem rebuild_from_match_dom r vals dt dcaps dvs ts caps vs tts restP tcaps tvs :
  dom_built (r_defaults r) vals (r_dom r) dt dcaps dvs ->
  segs_built (r_defaults r) vals (r_segs r) ts caps vs ->
  tail_built (r_defaults r) vals (is_branch r) (r_tail r) tts restP tcaps tvs ->
  NoDup (seg_names (r_dom r) ++ flat_map seg_names (r_segs r) ++ match r_tail r with Some n => [n] | None => [] end) ->
  no_raw vals ->
  build_rule r (unraw_all (dvs ++ vs ++ tvs)) = build_rule r vals.
Proof.
  intros Hdb Hsb Htb Hnd Hnr. unfold build_rule, unraw_all. rewrite !map_app. fold (unraw_all dvs) (unraw_all vs) (unraw_all tvs).
  pose proof (nodup_app_r _ _ Hnd) as Hnd2.
  assert (Hdom : build_seg (r_defaults r) (unraw_all dvs ++ unraw_all vs ++ unraw_all tvs) (r_dom r)
                 = build_seg (r_defaults r) vals (r_dom r)).
  { inversion Hdb as [k Hk|pre c name post v tv H1 H2 Hiso Hd Hg Hu Hl Hp]; subst; [reflexivity|].
    cbn [unraw_all map fst snd build_seg app dict_get]. rewrite Hd, list_eqb_refl, Hg, (unraw_reval _ (Hnr _ _ Hg)). reflexivity. }
  assert (Hskip : forall l, (forall n, In n (flat_map seg_names l) -> ~ In n (seg_names (r_dom r))) ->
                    build_segs (r_defaults r) (unraw_all dvs ++ unraw_all vs ++ unraw_all tvs) l
                    = build_segs (r_defaults r) (unraw_all vs ++ unraw_all tvs) l).
  { intros l Hdis. apply build_segs_skip. intros n Hn. rewrite unraw_keys, (dom_built_keys _ _ _ _ _ _ Hdb). exact (Hdis n Hn). }
  assert (Hsegs : build_segs (r_defaults r) (unraw_all dvs ++ unraw_all vs ++ unraw_all tvs) (r_segs r)
                  = build_segs (r_defaults r) vals (r_segs r)).
  { rewrite Hskip.
    - apply (segs_built_rebuild_u _ _ _ _ _ _ (unraw_all tvs) Hsb); [exact (nodup_app_l _ _ Hnd2)|exact Hnr].
    - intros n Hn Hin. apply (nodup_app_disjoint _ _ Hnd n Hin). apply in_or_app. left. exact Hn. }
  assert (Htail : build_segs (r_defaults r) (unraw_all dvs ++ unraw_all vs ++ unraw_all tvs)
                    (match r_tail r with Some n => [SDyn [] CPath n []] | None => [] end)
                  = build_segs (r_defaults r) vals (match r_tail r with Some n => [SDyn [] CPath n []] | None => [] end)).
  { inversion Htb as [Ht Hrp|n tp Hd Hg Hv Hl He Ht Hrp]; subst; [reflexivity|].
    rewrite <- Ht in Hnd, Hnd2. rewrite Hskip.
    - cbn [build_segs build_seg]. rewrite Hd, Hg. rewrite dict_get_app_r.
      + cbn [unraw_all map fst snd dict_get unraw]. rewrite list_eqb_refl. reflexivity.
      + apply dict_get_none_keys. rewrite unraw_keys, (segs_built_keys _ _ _ _ _ _ Hsb). intro Hin.
        exact (nodup_app_disjoint _ _ Hnd2 n Hin (or_introl eq_refl)).
    - intros n0 Hn Hin. cbn [flat_map seg_names seg_convs map fst app] in Hn. destruct Hn as [<-|[]].
      apply (nodup_app_disjoint _ _ Hnd n Hin). apply in_or_app. right. left. reflexivity. }
  rewrite Hdom, !build_segs_app_eq, Hsegs, Htail. reflexivity.
Qed.

(* the property, with a domain part and with floats: build, deliver, match, rebuild *)
Theorem build_match_build_dom m r vals dt dcaps dvs ts caps vs tts restP tcaps tvs meth ws :
  map_distinct_dom m -> In r (m_rules m) ->
  dom_built (r_defaults r) vals (r_dom r) dt dcaps dvs ->
  segs_built (r_defaults r) vals (r_segs r) ts caps vs ->
  tail_built (r_defaults r) vals (is_branch r) (r_tail r) tts restP tcaps tvs ->
  NoDup (seg_names (r_dom r) ++ flat_map seg_names (r_segs r) ++ match r_tail r with Some n => [n] | None => [] end) ->
  no_raw vals -> rmethod_ok r meth = true -> r_websocket r = ws ->
  exists path,
    build_rule r vals = BOk (dt, path)
    /\ matcher_run m (trie_of m) dt (path_part (unquote path)) meth ws = MOk rule rres r (dvs ++ vs ++ tvs)
    /\ build_rule r (unraw_all (dvs ++ vs ++ tvs)) = BOk (dt, path).
Proof.
  intros Hmd Hin Hdb Hsb Htb Hnd Hnr Hm Hw.
  destruct (build_then_match_dom m r vals dt dcaps dvs ts caps vs tts restP tcaps tvs meth ws Hmd Hin Hdb Hsb Htb Hm Hw) as (path & Hb & Hmatch).
  exists path. split; [exact Hb|]. split; [exact Hmatch|].
  rewrite (rebuild_from_match_dom r vals dt dcaps dvs ts caps vs tts restP tcaps tvs Hdb Hsb Htb Hnd Hnr). exact Hb.
Qed.

(* float values in the canonical domain: the text str(x) of a positional float (ASCII, in the language) *)
Lemma canon_float sg t :
  in_lang (LFloat sg) t = true -> ascii t = true -> canon (CFloat sg) (VFloat t) t.
Proof.
  intros Hl Ha. apply roundtrip_plain_canon; try assumption; try reflexivity.
  exact (float_lang_no_percent _ _ Hl).
Qed.

Lemma map_distinct_to_dom m : map_distinct m -> map_distinct_dom m.
Proof.
  intros [Hs Hd]. split; [|exact Hd]. intros r Hr. destruct (Hs r Hr) as (Hdom & H). rewrite Hdom. split; [reflexivity|exact H].
Qed.

(* C04_match_then_build without the float exclusion: the value float(t) returned for a float variable is read, through
   the float contract, as the float whose str() is t (unraw) *)
Theorem match_then_build_floats m r vals ts caps vs tts restP tcaps tvs meth ws :
  map_distinct m -> In r (m_rules m) ->
  segs_built (r_defaults r) vals (r_segs r) ts caps vs ->
  tail_built (r_defaults r) vals (is_branch r) (r_tail r) tts restP tcaps tvs ->
  NoDup (flat_map seg_names (r_segs r) ++ match r_tail r with Some n => [n] | None => [] end) ->
  no_raw vals -> rmethod_ok r meth = true -> r_websocket r = ws ->
  exists path,
    build_rule r vals = BOk ([], path)
    /\ matcher_run m (trie_of m) [] (path_part (unquote path)) meth ws = MOk rule rres r (vs ++ tvs)
    /\ build_rule r (unraw_all (vs ++ tvs)) = BOk ([], path).
Proof.
  intros Hmd Hin Hsb Htb Hnd Hnr Hm Hw. destruct (proj1 Hmd r Hin) as (Hdom & _).
  assert (Hdb : dom_built (r_defaults r) vals (r_dom r) [] [] []) by (rewrite Hdom; constructor; reflexivity).
  assert (Hnd' : NoDup (seg_names (r_dom r) ++ flat_map seg_names (r_segs r) ++ match r_tail r with Some n => [n] | None => [] end))
    by (rewrite Hdom; exact Hnd).
  exact (build_match_build_dom m r vals [] [] [] ts caps vs tts restP tcaps tvs meth ws (map_distinct_to_dom m Hmd) Hin Hdb Hsb Htb Hnd' Hnr Hm Hw).
Qed.
