(* C04: rule factories (Submount, Subdomain, EndpointPrefix, RuleTemplate) as functions on the rules of a map,
   and the query string Rule.build(values, append_unknown=True) appends for the values the rule does not
   consume (Rule._encode_query_vars -> werkzeug.urls._urlencode, the model of coq/C02/Model.v).
   Definitions only. *)
From Coq Require Import ZArith.
From Wz Require Import lib.Bytes lib.Utf8 C03.Gen C03.Trie C03.Model C04.Model.
From Wz Require C02.Model.
Open Scope N_scope.

(* ------------------------------------------------------------------ rule factories
   RuleFactory.get_rules(map) yields rule.empty() copies with one attribute rewritten; nested factories
   compose.  A factory is a function rule -> rule, applied with List.map to the rules it wraps. *)

(* Submount(path, rules): rule.rule = path.rstrip("/") + rule.rule.  pre: the pieces of path.
   '/a' + '/' is the branch rule '/a/' *)
Definition submount (pre : list seg) (r : rule) : rule :=
  {| r_idx := r_idx r; r_endpoint := r_endpoint r; r_dom := r_dom r; r_segs := pre ++ r_segs r; r_tail := r_tail r;
     r_branch := match pre with [] => r_branch r | _ => is_branch r end;
     r_methods := r_methods r; r_strict_opt := r_strict_opt r; r_merge_opt := r_merge_opt r;
     r_websocket := r_websocket r; r_alias := r_alias r; r_defaults := r_defaults r |}.

(* Subdomain(subdomain, rules): rule.subdomain = subdomain (whatever the rule said) *)
Definition with_dom (d : seg) (r : rule) : rule :=
  {| r_idx := r_idx r; r_endpoint := r_endpoint r; r_dom := d; r_segs := r_segs r; r_tail := r_tail r;
     r_branch := r_branch r; r_methods := r_methods r; r_strict_opt := r_strict_opt r; r_merge_opt := r_merge_opt r;
     r_websocket := r_websocket r; r_alias := r_alias r; r_defaults := r_defaults r |}.

(* EndpointPrefix(prefix, rules): rule.endpoint = prefix + rule.endpoint; endpoints are numbers here and the
   prefix is the (injective) renaming f *)
Definition with_endpoint (f : N -> N) (r : rule) : rule :=
  {| r_idx := r_idx r; r_endpoint := f (r_endpoint r); r_dom := r_dom r; r_segs := r_segs r; r_tail := r_tail r;
     r_branch := r_branch r; r_methods := r_methods r; r_strict_opt := r_strict_opt r; r_merge_opt := r_merge_opt r;
     r_websocket := r_websocket r; r_alias := r_alias r; r_defaults := r_defaults r |}.

(* RuleTemplate(rules) called with a context: string.Template(rule.rule).substitute(context), likewise the subdomain.
   Modelled: the placeholders ${name} and the escape $$ in the literal text of the rule; the unbraced form
   $name, a missing key and a malformed placeholder are None (outside the model / an exception). *)
Definition DOLLAR : N := 36.
Definition LBRACE : N := 123.
Definition RBRACE : N := 125.
Inductive tstate := TNorm | TDollar | TName (acc : str).
Fixpoint ctx_get (k : str) (ctx : list (str * str)) : option str :=
  match ctx with
  | [] => None
  | (k', v) :: ctx' => if list_eqb k' k then Some v else ctx_get k ctx'
  end.
Fixpoint tsubst (ctx : list (str * str)) (st : tstate) (s : str) : option str :=
  match s with
  | [] => match st with TNorm => Some [] | _ => None end
  | c :: r =>
      match st with
      | TNorm => if c =? DOLLAR then tsubst ctx TDollar r else option_map (cons c) (tsubst ctx TNorm r)
      | TDollar => if c =? DOLLAR then option_map (cons DOLLAR) (tsubst ctx TNorm r)
                   else if c =? LBRACE then tsubst ctx (TName []) r else None
      | TName acc =>
          if c =? RBRACE then
            match ctx_get acc ctx with
            | Some v => option_map (app v) (tsubst ctx TNorm r)
            | None => None
            end
          else tsubst ctx (TName (acc ++ [c])) r
      end
  end.
Definition subst (ctx : list (str * str)) (s : str) : option str := tsubst ctx TNorm s.

(* a literal piece may grow slashes: it is cut again; the text around a variable must stay inside its piece *)
Definition template_seg (ctx : list (str * str)) (s : seg) : option (list seg) :=
  match s with
  | SLit k => option_map (fun t => map SLit (split_slash t)) (subst ctx k)
  | SDyn pre c n post =>
      match subst ctx pre, subst ctx post with
      | Some pre', Some post' => if no_slash pre' && no_slash post' then Some [SDyn pre' c n post'] else None
      | _, _ => None
      end
  end.
Fixpoint template_segs (ctx : list (str * str)) (l : list seg) : option (list seg) :=
  match l with
  | [] => Some []
  | s :: l' => match template_seg ctx s, template_segs ctx l' with
               | Some a, Some b => Some (a ++ b)
               | _, _ => None
               end
  end.
Definition template (ctx : list (str * str)) (r : rule) : option rule :=
  match template_segs ctx (r_segs r),
        (match r_dom r with
         | SLit k => option_map SLit (subst ctx k)
         | SDyn pre c n post => match subst ctx pre, subst ctx post with
                                | Some a, Some b => Some (SDyn a c n b)
                                | _, _ => None
                                end
         end) with
  | Some segs, Some d =>
      Some {| r_idx := r_idx r; r_endpoint := r_endpoint r; r_dom := d; r_segs := segs; r_tail := r_tail r;
              r_branch := r_branch r; r_methods := r_methods r; r_strict_opt := r_strict_opt r; r_merge_opt := r_merge_opt r;
              r_websocket := r_websocket r; r_alias := r_alias r; r_defaults := r_defaults r |}
  | _, _ => None
  end.
Fixpoint template_all (ctx : list (str * str)) (rs : list rule) : option (list rule) :=
  match rs with
  | [] => Some []
  | r :: rs' => match template ctx r, template_all ctx rs' with
                | Some a, Some b => Some (a :: b)
                | _, _ => None
                end
  end.

(* a map through a factory *)
Definition map_rules (m : rmap) (rules : list rule) : rmap :=
  {| m_rules := rules; m_strict := m_strict m; m_merge := m_merge m; m_redirect_defaults := m_redirect_defaults m;
     m_host_matching := m_host_matching m |}.

(* ------------------------------------------------------------------ query extras
   MapAdapter.build drops the values that are None; Rule.build hands the keys that are not arguments of the rule
   to _encode_query_vars: iter_multi_items (a list value is one item per element), sorted when
   Map.sort_parameters, _urlencode (items whose value is None dropped, str() of key and value, quote_plus). *)
Inductive xval := XOne (v : value) | XList (l : list (option value)) | XNone.
(* Map.sort_parameters / sort_key: off, by key (sort_key = itemgetter(0)), or the natural order of the
   (key, value) tuples - modelled for values that are all strings *)
Inductive sorting := SortOff | SortByKey | SortNatural.

Definition items_of (k : str) (x : xval) : list (str * option value) :=
  match x with
  | XOne v => [(k, Some v)]
  | XList l => map (fun o => (k, o)) l
  | XNone => []                       (* dropped by MapAdapter.build *)
  end.
(* the **kwargs of the compiled builder: what is not an argument of the rule, in dict order *)
Definition raw_items (r : rule) (all : list (str * xval)) : list (str * option value) :=
  flat_map (fun kx => if has (fst kx) (rule_arguments r) then [] else items_of (fst kx) (snd kx)) all.

Definition str_lt (a b : str) : bool := lex_lt N.ltb N.eqb a b.
Definition item_le (s : sorting) (a b : str * option value) : bres bool :=
  match s with
  | SortOff => BOk true
  | SortByKey => BOk (negb (str_lt (fst b) (fst a)))
  | SortNatural =>
      match snd a, snd b with
      | Some (VStr x), Some (VStr y) =>
          BOk (str_lt (fst a) (fst b) || (list_eqb (fst a) (fst b) && negb (str_lt y x)))
      | _, _ => BUnsupported
      end
  end.
(* sorted(): stable insertion sort *)
Fixpoint insert_item (s : sorting) (x : str * option value) (l : list (str * option value))
  : bres (list (str * option value)) :=
  match l with
  | [] => BOk [x]
  | y :: l' => bbind (item_le s x y) (fun le =>
                 if le then BOk (x :: l) else bbind (insert_item s x l') (fun t => BOk (y :: t)))
  end.
Fixpoint sort_items (s : sorting) (l : list (str * option value)) : bres (list (str * option value)) :=
  match l with
  | [] => BOk []
  | x :: l' => bbind (sort_items s l') (insert_item s x)
  end.
Definition sorted_items (s : sorting) (l : list (str * option value)) : bres (list (str * option value)) :=
  match s with SortOff => BOk l | _ => sort_items s l end.

(* _urlencode: None dropped, str(value) *)
Fixpoint text_items (l : list (str * option value)) : bres (list (str * str)) :=
  match l with
  | [] => BOk []
  | (k, None) :: l' => text_items l'
  | (k, Some v) :: l' => if is_raw_float v then BUnsupported
                         else bbind (text_items l') (fun t => BOk ((k, value_str v) :: t))
  end.
Definition query_of (s : sorting) (r : rule) (all : list (str * xval)) : bres str :=
  bbind (sorted_items s (raw_items r all)) (fun items =>
  bbind (text_items items) (fun t => BOk (C02.Model.urlencode t))).

Definition with_query (path q : str) : str := if is_nil q then path else path ++ QMARK :: q.
Definition singles (given : list (str * value)) : list (str * xval) := map (fun kv => (fst kv, XOne (snd kv))) given.

(* Rule.build(values, append_unknown=True) for values = given + extras *)
Definition build_rule_q (s : sorting) (r : rule) (given : list (str * value)) (extras : list (str * xval))
  : bres (str * str) :=
  bbind (build_rule r given) (fun dp =>
  bbind (query_of s r (singles given ++ extras)) (fun q => BOk (fst dp, with_query (snd dp) q))).

(* the rule MapAdapter.build settles on (the search of adapter_build) *)
Definition chosen_rule (m : rmap) (a : adapter) (endpoint : N) (vals : list (str * value)) (meth : option str)
  : bres (option rule) :=
  bbind (match meth with
         | Some _ => pbuild m a (rules_for m endpoint) vals meth
         | None =>
             bbind (pbuild m a (rules_for m endpoint) vals (Some GET)) (fun rv =>
               match rv with Some _ => BOk rv | None => pbuild m a (rules_for m endpoint) vals None end)
         end) (fun rv => BOk (option_map (fun x => fst (fst x)) rv)).

(* MapAdapter.build(endpoint, values, method, force_external, append_unknown=True): the path is the tail of
   the URL, so the query string is appended to the URL adapter_build returns *)
Definition adapter_build_q (s : sorting) (m : rmap) (a : adapter) (endpoint : N) (given : list (str * value))
           (extras : list (str * xval)) (meth : option str) (force_external : bool) : bres (option str) :=
  bbind (adapter_build m a endpoint given meth force_external) (fun ou =>
  bbind (chosen_rule m a endpoint given meth) (fun orule =>
    match ou, orule with
    | Some u, Some r => bbind (query_of s r (singles given ++ extras)) (fun q => BOk (Some (with_query u q)))
    | _, _ => BOk None
    end)).

(* what a server does with the request target: the path is what precedes the first '?' *)
Fixpoint split_query (u : str) : str * str :=
  match u with
  | [] => ([], [])
  | c :: r => if c =? QMARK then ([], r) else let pq := split_query r in (c :: fst pq, snd pq)
  end.
