(* C04 property theorems (statements only).  Model: C04/Model.v (to_url, Rule.build, MapAdapter.build,
   unquote) over C03/Model.v (quote, converters, matcher).  roundtrip c v says: to_url builds a text u,
   the delivered text unquote u is in the converter's language, and to_python of it is v. *)
From Coq Require Import ZArith.
From Wz Require Import lib.Bytes lib.Utf8 C03.Gen C03.Trie C03.Model C04.Model C04.Proofs.
Open Scope N_scope.

(* percent-encoding: what quote produces (any safe set without the percent sign) is read back by unquote *)
Theorem C04_unquote_quote : forall safe s,
  mem PERCENT safe = false -> valid_text s = true -> unquote (quote safe s) = s.
Proof. exact unquote_quote. Qed.
Print Assumptions C04_unquote_quote.

(* the safe= strings of the current source do not contain the percent sign *)
Theorem C04_safe_strings :
  mem PERCENT safe_to_url = false /\ mem PERCENT safe_literal = false /\ mem PERCENT safe_redirect = false.
Proof. exact safe_no_percent. Qed.
Print Assumptions C04_safe_strings.

(* int(str(n)) = n on decimal text *)
Theorem C04_decimal : forall n, parse_digits (dec_of_N n) 0 = n.
Proof. exact parse_dec. Qed.
Print Assumptions C04_decimal.

(* string (any length options) and path: every text of the converter's language, with Unicode, spaces,
   reserved characters and percent signs *)
Theorem C04_text_roundtrip : forall c v,
  is_text_conv c = true -> valid_text v = true -> in_lang (lang_of c) v = true -> roundtrip c (VStr v).
Proof. exact text_roundtrip. Qed.
Print Assumptions C04_text_roundtrip.

Example C04_text_example :
  is_text_conv (CStr None 1 None) = true /\ valid_text [97; 32; 233; 37; 59] = true
  /\ in_lang (lang_of (CStr None 1 None)) [97; 32; 233; 37; 59] = true
  /\ to_url (CStr None 1 None) (VStr [97; 32; 233; 37; 59]) = BOk [97; 37; 50; 48; 37; 67; 51; 37; 65; 57; 37; 50; 53; 59].
Proof. repeat split; vm_compute; reflexivity. Qed.
Print Assumptions C04_text_example.

(* int: non-negative or signed values, zero-padded to fixed_digits when they fit, inside min/max *)
Theorem C04_int_roundtrip : forall fixed mn mx sg z,
  int_domain fixed mn mx sg z = true -> roundtrip (CInt fixed mn mx sg) (VInt z).
Proof. exact int_roundtrip. Qed.
Print Assumptions C04_int_roundtrip.

Example C04_int_example :
  int_domain 3 None None true (-5)%Z = true /\ to_url (CInt 3 None None true) (VInt (-5)) = BOk [45; 48; 53].
Proof. split; vm_compute; reflexivity. Qed.
Print Assumptions C04_int_example.

(* any: the listed items (items are emitted unquoted, so an item with a percent sign is outside the domain) *)
Theorem C04_any_roundtrip : forall items s,
  has s items = true -> mem PERCENT s = false -> roundtrip (CAny items) (VStr s).
Proof. exact any_roundtrip. Qed.
Print Assumptions C04_any_roundtrip.

(* uuid: the value is its 32 lower-case hex digits (uuid.UUID.hex) *)
Theorem C04_uuid_roundtrip : forall h, uuid_hex h = true -> roundtrip CUuid (VUuid h).
Proof. exact uuid_roundtrip. Qed.
Print Assumptions C04_uuid_roundtrip.

(* float, over the contract of CPython's float() / str(float): F the floats, fstr = str, fparse = float *)
Theorem C04_float_roundtrip : forall (F : Type) (fstr : F -> str) (fparse : str -> F) (canonical : F -> Prop) (signed : bool),
  (forall x, canonical x -> fparse (fstr x) = x) ->
  (forall x, canonical x -> in_lang (LFloat signed) (fstr x) = true) ->
  forall x, canonical x ->
    exists u, to_url (CFloat signed) (VFloat (fstr x)) = BOk u
      /\ in_lang (lang_of (CFloat signed)) (unquote u) = true
      /\ exists t, to_python (CFloat signed) (unquote u) = Some (VFloat t) /\ fparse t = x.
Proof. exact float_roundtrip. Qed.
Print Assumptions C04_float_roundtrip.
