(* C04 property theorems (statements only).  Model: C04/Model.v (to_url, Rule.build, MapAdapter.build,
   unquote) over C03/Model.v (quote, converters, matcher).  roundtrip c v says: to_url builds a text u,
   the delivered text unquote u is in the converter's language, and to_python of it is v. *)
From Coq Require Import ZArith.
From Coq Require Import Permutation.
From Wz Require Import lib.Bytes lib.Utf8 C03.Gen C03.Trie C03.Model C03.Proofs C04.Model C04.Proofs C04.MapProofs C04.SubdomainProofs
  C04.Factories C04.FactoryProofs.
From Wz Require C02.Model C02.Proofs.
Open Scope N_scope.

(* percent-encoding: what quote produces (any safe set without the percent sign) is read back by unquote *)
Theorem C04_unquote_quote : forall safe s,
  mem PERCENT safe = false -> valid_text s = true -> unquote (quote safe s) = s.
Proof. exact unquote_quote. Qed.
Print Assumptions C04_unquote_quote.

(* the safe= strings of the current source do not contain the percent sign *)
Theorem C04_safe_strings :
  mem PERCENT safe_to_url = false /\ mem PERCENT safe_literal = false /\ mem PERCENT safe_redirect = false.
Proof. exact safe_no_percent. Qed.
Print Assumptions C04_safe_strings.

(* int(str(n)) = n on decimal text *)
Theorem C04_decimal : forall n, parse_digits (dec_of_N n) 0 = n.
Proof. exact parse_dec. Qed.
Print Assumptions C04_decimal.

(* string (any length options) and path: every text of the converter's language, with Unicode, spaces,
   reserved characters and percent signs *)
Theorem C04_text_roundtrip : forall c v,
  is_text_conv c = true -> valid_text v = true -> in_lang (lang_of c) v = true -> roundtrip c (VStr v).
Proof. exact text_roundtrip. Qed.
Print Assumptions C04_text_roundtrip.

Example C04_text_example :
  is_text_conv (CStr None 1 None) = true /\ valid_text [97; 32; 233; 37; 59] = true
  /\ in_lang (lang_of (CStr None 1 None)) [97; 32; 233; 37; 59] = true
  /\ to_url (CStr None 1 None) (VStr [97; 32; 233; 37; 59]) = BOk [97; 37; 50; 48; 37; 67; 51; 37; 65; 57; 37; 50; 53; 59].
Proof. repeat split; vm_compute; reflexivity. Qed.
Print Assumptions C04_text_example.

(* int: non-negative or signed values, zero-padded to fixed_digits when they fit, inside min/max *)
Theorem C04_int_roundtrip : forall fixed mn mx sg z,
  int_domain fixed mn mx sg z = true -> roundtrip (CInt fixed mn mx sg) (VInt z).
Proof. exact int_roundtrip. Qed.
Print Assumptions C04_int_roundtrip.

Example C04_int_example :
  int_domain 3 None None true (-5)%Z = true /\ to_url (CInt 3 None None true) (VInt (-5)) = BOk [45; 48; 53].
Proof. split; vm_compute; reflexivity. Qed.
Print Assumptions C04_int_example.

(* any: the listed items (items are emitted unquoted, so an item with a percent sign is outside the domain) *)
Theorem C04_any_roundtrip : forall items s,
  has s items = true -> mem PERCENT s = false -> roundtrip (CAny items) (VStr s).
Proof. exact any_roundtrip. Qed.
Print Assumptions C04_any_roundtrip.

(* uuid: the value is its 32 lower-case hex digits (uuid.UUID.hex) *)
Theorem C04_uuid_roundtrip : forall h, uuid_hex h = true -> roundtrip CUuid (VUuid h).
Proof. exact uuid_roundtrip. Qed.
Print Assumptions C04_uuid_roundtrip.

(* float, over the contract of CPython's float() / str(float): F the floats, fstr = str, fparse = float *)
Theorem C04_float_roundtrip : forall (F : Type) (fstr : F -> str) (fparse : str -> F) (canonical : F -> Prop) (signed : bool),
  (forall x, canonical x -> fparse (fstr x) = x) ->
  (forall x, canonical x -> in_lang (LFloat signed) (fstr x) = true) ->
  forall x, canonical x ->
    exists u, to_url (CFloat signed) (VFloat (fstr x)) = BOk u
      /\ in_lang (lang_of (CFloat signed)) (unquote u) = true
      /\ exists t, to_python (CFloat signed) (unquote u) = Some (VFloatRaw t) /\ fparse t = x.
Proof. exact float_roundtrip. Qed.
Print Assumptions C04_float_roundtrip.

(* C04_build_then_match, at the level of StateMachineMatcher.match (before the adapter consults the builder
   again for defaults / alias canonicalisation): in a map whose rules have no subdomain part and pairwise
   distinct non-empty literal first segments (map_distinct), for a rule r of the map and values such that
     segs_built: every literal of r is text without a slash, every variable of r has a value in the canonical
                 domain of its converter (canon: to_url builds text that decodes to t, t is in the converter's
                 language and converts back to the value) whose text has no slash, and is not shadowed by a default;
     tail_built: a trailing <path:name> has a text value that does not begin or end with a slash,
   Rule.build succeeds, and the path a server delivers for the built URL (percent-decoded) is matched by r
   itself with exactly these values (floats as float(text)).  canon is inhabited for string/path
   (C04.MapProofs.canon_text), any (canon_any), int (canon_int) and uuid (canon_uuid). *)
Theorem C04_build_then_match : forall m r vals ts caps vs tts restP tcaps tvs meth ws,
  map_distinct m -> In r (m_rules m) ->
  segs_built (r_defaults r) vals (r_segs r) ts caps vs ->
  tail_built (r_defaults r) vals (is_branch r) (r_tail r) tts restP tcaps tvs ->
  rmethod_ok r meth = true -> r_websocket r = ws ->
  exists path, build_rule r vals = BOk ([], path)
    /\ matcher_run m (trie_of m) [] (path_part (unquote path)) meth ws = MOk rule (list (str * value)) r (vs ++ tvs).
Proof. exact build_then_match. Qed.
Print Assumptions C04_build_then_match.

(* the hypotheses are satisfiable: Map([Rule('/users/<int:id>/x-<string:n>'), Rule('/all/')]), id=42, n='\xe9 %' *)
Example C04_build_then_match_example :
  map_distinct ex_map4
  /\ (exists ts caps vs, segs_built (r_defaults ex_users) ex_vals (r_segs ex_users) ts caps vs
        /\ vs = [([105; 100], VInt 42); ([110], VStr [233; 32; 37])])
  /\ build_rule ex_users ex_vals = BOk ([], [47] ++ USERS ++ [47; 52; 50; 47; 120; 45; 37; 67; 51; 37; 65; 57; 37; 50; 48; 37; 50; 53])
  /\ matcher_run ex_map4 (trie_of ex_map4) []
       (path_part (unquote ([47] ++ USERS ++ [47; 52; 50; 47; 120; 45; 37; 67; 51; 37; 65; 57; 37; 50; 48; 37; 50; 53]))) GET false
     = MOk rule (list (str * value)) ex_users [([105; 100], VInt 42); ([110], VStr [233; 32; 37])].
Proof. exact (conj ex_map4_distinct (conj ex_segs_built ex_build_match)). Qed.
Print Assumptions C04_build_then_match_example.

(* C04_match_then_build: ... and the URL built from what that match returned is the URL that was matched
   (variable names of the rule pairwise distinct; not_float: a float comes back as float(text), whose str()
   the model does not compute - floats are covered by the contract theorem C04_float_roundtrip and the harness) *)
Theorem C04_match_then_build : forall m r vals ts caps vs tts restP tcaps tvs meth ws,
  map_distinct m -> In r (m_rules m) ->
  segs_built (r_defaults r) vals (r_segs r) ts caps vs ->
  tail_built (r_defaults r) vals (is_branch r) (r_tail r) tts restP tcaps tvs ->
  NoDup (flat_map seg_names (r_segs r) ++ match r_tail r with Some n => [n] | None => [] end) ->
  Forall (fun kv => not_float (snd kv)) vs ->
  rmethod_ok r meth = true -> r_websocket r = ws ->
  exists path,
    build_rule r vals = BOk ([], path)
    /\ matcher_run m (trie_of m) [] (path_part (unquote path)) meth ws = MOk rule (list (str * value)) r (vs ++ tvs)
    /\ build_rule r (vs ++ tvs) = BOk ([], path).
Proof. exact build_match_build. Qed.
Print Assumptions C04_match_then_build.

(* the canonical domains of int and uuid values, for C04_build_then_match *)
Theorem C04_canon_int : forall fixed mn mx sg z,
  int_domain fixed mn mx sg z = true -> exists t, canon (CInt fixed mn mx sg) (VInt z) t /\ no_slash t = true.
Proof. exact canon_int. Qed.
Print Assumptions C04_canon_int.

Theorem C04_canon_text : forall c s,
  is_text_conv c = true -> valid_text s = true -> in_lang (lang_of c) s = true -> canon c (VStr s) s.
Proof. exact canon_text. Qed.
Print Assumptions C04_canon_text.

(* the same with a subdomain / host part on the rules (dom_built: the rule's domain part is a host-safe literal
   or pre<conv:name>post with a value whose built text is used as is - host names are not percent-decoded;
   map_distinct_dom: any isolating domain part, distinct literal first segments), and with float values:
   the request goes to the host dt the URL was built for, is matched by the building rule with the built
   values, and the URL rebuilt from the match result is the same.  unraw reads float(t) as the float whose
   str() is t, which is what the float contract (C04_float_roundtrip) says for the text of a canonical float. *)
Theorem C04_build_match_build_subdomain : forall m r vals dt dcaps dvs ts caps vs tts restP tcaps tvs meth ws,
  map_distinct_dom m -> In r (m_rules m) ->
  dom_built (r_defaults r) vals (r_dom r) dt dcaps dvs ->
  segs_built (r_defaults r) vals (r_segs r) ts caps vs ->
  tail_built (r_defaults r) vals (is_branch r) (r_tail r) tts restP tcaps tvs ->
  NoDup (seg_names (r_dom r) ++ flat_map seg_names (r_segs r) ++ match r_tail r with Some n => [n] | None => [] end) ->
  no_raw vals -> rmethod_ok r meth = true -> r_websocket r = ws ->
  exists path,
    build_rule r vals = BOk (dt, path)
    /\ matcher_run m (trie_of m) dt (path_part (unquote path)) meth ws = MOk rule (list (str * value)) r (dvs ++ vs ++ tvs)
    /\ build_rule r (unraw_all (dvs ++ vs ++ tvs)) = BOk (dt, path).
Proof. exact build_match_build_dom. Qed.
Print Assumptions C04_build_match_build_subdomain.

(* satisfiable: Subdomain('api', [Rule('/users/<int:id>/x-<string:n>')]) next to Rule('/all/') *)
Example C04_subdomain_example :
  map_distinct_dom ex_map5 /\ dom_built [] ex_vals (SLit API) API [] []
  /\ matcher_run ex_map5 (trie_of ex_map5) API
       (path_part (unquote ([47] ++ USERS ++ [47; 52; 50; 47; 120; 45; 37; 67; 51; 37; 65; 57; 37; 50; 48; 37; 50; 53]))) GET false
     = MOk rule (list (str * value)) ex_users_api [([105; 100], VInt 42); ([110], VStr [233; 32; 37])].
Proof. exact ex_map5_ok. Qed.
Print Assumptions C04_subdomain_example.

Theorem C04_canon_float : forall sg t,
  in_lang (LFloat sg) t = true -> ascii t = true -> canon (CFloat sg) (VFloat t) t.
Proof. exact canon_float. Qed.
Print Assumptions C04_canon_float.

(* C04_match_then_build without the float exclusion (no_raw: the values handed to the builder are ordinary values;
   a float variable then comes back as float(t) and is read through the contract as the float whose str() is t) *)
Theorem C04_match_then_build_floats : forall m r vals ts caps vs tts restP tcaps tvs meth ws,
  map_distinct m -> In r (m_rules m) ->
  segs_built (r_defaults r) vals (r_segs r) ts caps vs ->
  tail_built (r_defaults r) vals (is_branch r) (r_tail r) tts restP tcaps tvs ->
  NoDup (flat_map seg_names (r_segs r) ++ match r_tail r with Some n => [n] | None => [] end) ->
  no_raw vals -> rmethod_ok r meth = true -> r_websocket r = ws ->
  exists path,
    build_rule r vals = BOk ([], path)
    /\ matcher_run m (trie_of m) [] (path_part (unquote path)) meth ws = MOk rule (list (str * value)) r (vs ++ tvs)
    /\ build_rule r (unraw_all (vs ++ tvs)) = BOk ([], path).
Proof. exact match_then_build_floats. Qed.
Print Assumptions C04_match_then_build_floats.

(* ------------------------------------------------------------------ rule factories and query extras
   (C04/Factories.v: Submount, Subdomain, EndpointPrefix, RuleTemplate as functions rule -> rule; the harness runs the
   model's factories against werkzeug's on every map it builds through them)

   The map-level theorem without a shape requirement on the other rules: the rule that built the URL answers the
   request for it when it is the only rule of the map admitting the built path (sole_admitter; map_distinct implies it). *)
Theorem C04_build_then_match_sole : forall m r vals dt dcaps dvs ts caps vs tts restP tcaps tvs k rest meth ws,
  In r (m_rules m) ->
  dom_built (r_defaults r) vals (r_dom r) dt dcaps dvs -> r_segs r = SLit k :: rest ->
  segs_built (r_defaults r) vals (r_segs r) ts caps vs ->
  tail_built (r_defaults r) vals (is_branch r) (r_tail r) tts restP tcaps tvs ->
  sole_admitter m r (dt :: [] :: ts ++ restP) ->
  rmethod_ok r meth = true -> r_websocket r = ws ->
  exists path, build_rule r vals = BOk (dt, path)
    /\ matcher_run m (trie_of m) dt (path_part (unquote path)) meth ws = MOk rule (list (str * value)) r (dvs ++ vs ++ tvs).
Proof. exact build_then_match_sole. Qed.
Print Assumptions C04_build_then_match_sole.

(* Submount('/k/ks..', [r]): whatever r builds and matches, the submounted rule builds behind the prefix and matches *)
Theorem C04_submount_build_then_match : forall m' r vals k ks dt dcaps dvs ts caps vs tts restP tcaps tvs meth ws,
  let r' := submount (map SLit (k :: ks)) r in
  In r' (m_rules m') -> Forall good_lit (k :: ks) ->
  dom_built (r_defaults r) vals (r_dom r) dt dcaps dvs ->
  segs_built (r_defaults r) vals (r_segs r) ts caps vs ->
  tail_built (r_defaults r) vals (is_branch r) (r_tail r) tts restP tcaps tvs ->
  sole_admitter m' r' (dt :: [] :: ((k :: ks) ++ ts) ++ restP) ->
  rmethod_ok r meth = true -> r_websocket r = ws ->
  exists path, build_rule r' vals = BOk (dt, path)
    /\ matcher_run m' (trie_of m') dt (path_part (unquote path)) meth ws = MOk rule (list (str * value)) r' (dvs ++ vs ++ tvs).
Proof. exact submount_build_then_match. Qed.
Print Assumptions C04_submount_build_then_match.

(* the prefix is transparent: under Submount a rule admits prefix ++ P exactly as the inner rule admits P, so the
   sole admitter of the inner map stays the sole admitter of the submounted map *)
Theorem C04_admits_submount : forall m m' k ks r dk d e P,
  m_strict m' = m_strict m -> r_dom r = SLit dk ->
  admits m' (submount (map SLit (k :: ks)) r) (d :: e :: (k :: ks) ++ P) = admits m r (d :: e :: P).
Proof. exact admits_submount. Qed.
Print Assumptions C04_admits_submount.

Theorem C04_sole_admitter_submount : forall m k ks r dk0 d e P,
  (forall r0, In r0 (m_rules m) -> exists dk, r_dom r0 = SLit dk) -> r_dom r = SLit dk0 ->
  sole_admitter m r (d :: e :: P) ->
  (forall r1 r2, In r1 (m_rules m) -> In r2 (m_rules m) -> r_idx r1 = r_idx r2 -> r1 = r2) ->
  sole_admitter (map_rules m (map (submount (map SLit (k :: ks))) (m_rules m))) (submount (map SLit (k :: ks)) r)
    (d :: e :: (k :: ks) ++ P).
Proof. exact sole_admitter_submount. Qed.
Print Assumptions C04_sole_admitter_submount.

(* Subdomain('dk', [r]) *)
Theorem C04_subdomain_factory : forall m' r vals dk ts caps vs tts restP tcaps tvs k rest meth ws,
  let r' := with_dom (SLit dk) r in
  In r' (m_rules m') -> quote safe_literal dk = dk -> r_segs r = SLit k :: rest ->
  segs_built (r_defaults r) vals (r_segs r) ts caps vs ->
  tail_built (r_defaults r) vals (is_branch r) (r_tail r) tts restP tcaps tvs ->
  sole_admitter m' r' (dk :: [] :: ts ++ restP) ->
  rmethod_ok r meth = true -> r_websocket r = ws ->
  exists path, build_rule r' vals = BOk (dk, path)
    /\ matcher_run m' (trie_of m') dk (path_part (unquote path)) meth ws = MOk rule (list (str * value)) r' (vs ++ tvs).
Proof. exact with_dom_build_then_match. Qed.
Print Assumptions C04_subdomain_factory.

Theorem C04_admits_subdomain : forall m m' r dk P,
  m_strict m' = m_strict m -> r_dom r = SLit [] ->
  admits m' (with_dom (SLit dk) r) (dk :: P) = admits m r ([] :: P).
Proof. exact admits_with_dom. Qed.
Print Assumptions C04_admits_subdomain.

(* Subdomain('api', [Submount('/api/v1', [Rule('/users/<int:id>/x-<string:n>'), Rule('/all/')])]) *)
Example C04_factories_example :
  build_rule (with_dom (SLit API3) (submount (map SLit [API3; V1]) ex_users)) ex_vals = BOk (API3, ex_fpath)
  /\ matcher_run ex_fmap (trie_of ex_fmap) API3 (path_part (unquote ex_fpath)) GET false
     = MOk rule (list (str * value)) (with_dom (SLit API3) (submount (map SLit [API3; V1]) ex_users)) [([105; 100], VInt 42); ([110], VStr [233; 32; 37])]
  /\ Forall good_lit [API3; V1].
Proof. exact ex_factories. Qed.
Print Assumptions C04_factories_example.

(* the companion of C03_flags_inherited: None on a rule means the map's setting; an explicit value - False included - and the
   other options (websocket, alias, methods, defaults) survive every factory: a factory rewrites one attribute (Rule.empty) *)
Theorem C04_factories_keep_options : forall r,
  (forall pre, options (submount pre r) = options r)
  /\ (forall d, options (with_dom d r) = options r)
  /\ (forall f, options (with_endpoint f r) = options r)
  /\ (forall ctx r', template ctx r = Some r' -> options r' = options r)
  /\ (forall m pre, rstrict m (submount pre r) = rstrict m r /\ rmerge m (submount pre r) = rmerge m r)
  /\ (forall m d, rstrict m (with_dom d r) = rstrict m r /\ rmerge m (with_dom d r) = rmerge m r).
Proof. exact factories_keep_options. Qed.
Print Assumptions C04_factories_keep_options.

(* EndpointPrefix (an injective renaming f of endpoints): building f(e) in the prefixed map is building e in the inner map *)
Theorem C04_endpoint_prefix : forall f, (forall x y, f x = f y -> x = y) -> forall m a e vals meth fe,
  adapter_build (map_rules m (map (with_endpoint f) (m_rules m))) a (f e) vals meth fe = adapter_build m a e vals meth fe.
Proof. exact adapter_build_prefix. Qed.
Print Assumptions C04_endpoint_prefix.

Example C04_endpoint_prefix_example :
  adapter_build (map_rules ex_map4 (map (with_endpoint (N.add 7)) (m_rules ex_map4))) ex_adapter 7 ex_vals None false
  = adapter_build ex_map4 ex_adapter 0 ex_vals None false
  /\ exists u, adapter_build ex_map4 ex_adapter 0 ex_vals None false = BOk (Some u).
Proof. exact ex_prefix. Qed.
Print Assumptions C04_endpoint_prefix_example.

(* RuleTemplate: string.Template substitution of plain text, then a placeholder, then the rest (the unbraced
   placeholder form and malformed templates are outside the model: None) *)
Theorem C04_template_subst : forall ctx pre n rest,
  mem DOLLAR pre = false -> mem RBRACE n = false ->
  subst ctx (pre ++ DOLLAR :: LBRACE :: n ++ RBRACE :: rest)
  = match ctx_get n ctx with Some v => option_map (fun t => pre ++ v ++ t) (subst ctx rest) | None => None end.
Proof. exact subst_placeholder. Qed.
Print Assumptions C04_template_subst.

Example C04_template_example :
  template [([112], USERS)] ex_tmpl = Some ex_users
  /\ option_map r_segs (template [([112], API3 ++ [47] ++ V1)] ex_tmpl)
     = Some (SLit API3 :: SLit V1 :: tl (r_segs ex_users))
  /\ template [] ex_tmpl = None.
Proof. exact ex_template. Qed.
Print Assumptions C04_template_example.

(* Query extras.  build(values + extras): the built text is the path of Rule.build, then '?' and the urlencode (the C02
   model of werkzeug.urls._urlencode) of the extra items - list values one item per element, None dropped, sorted when
   Map.sort_parameters (a permutation; unchanged when off).  A server that cuts the request target at the first '?'
   recovers path and query string (given a path without '?'); the match of the path returns the values of the rule and
   parse_qsl (C02) of the query string returns the extras as text (C02_urlencoded_roundtrip). *)
Theorem C04_build_match_extras : forall s m r given extras dt dcaps dvs ts caps vs tts restP tcaps tvs k rest meth ws q,
  In r (m_rules m) ->
  dom_built (r_defaults r) given (r_dom r) dt dcaps dvs -> r_segs r = SLit k :: rest ->
  segs_built (r_defaults r) given (r_segs r) ts caps vs ->
  tail_built (r_defaults r) given (is_branch r) (r_tail r) tts restP tcaps tvs ->
  sole_admitter m r (dt :: [] :: ts ++ restP) ->
  rmethod_ok r meth = true -> r_websocket r = ws ->
  (forall k v, In (k, v) given -> In k (rule_arguments r)) ->
  (forall k x, In (k, x) extras -> has k (rule_arguments r) = false) ->
  query_of s r (singles given ++ extras) = BOk q ->
  exists path items,
    build_rule_q s r given extras = BOk (dt, with_query path q)
    /\ (mem QMARK path = false -> split_query (with_query path q) = (path, q))
    /\ matcher_run m (trie_of m) dt (path_part (unquote path)) meth ws = MOk rule (list (str * value)) r (dvs ++ vs ++ tvs)
    /\ sorted_items s (flat_map (fun kx => items_of (fst kx) (snd kx)) extras) = BOk items
    /\ Permutation (flat_map (fun kx => items_of (fst kx) (snd kx)) extras) items
    /\ (s = SortOff -> items = flat_map (fun kx => items_of (fst kx) (snd kx)) extras)
    /\ let t := map (fun kv => (fst kv, value_str (snd kv))) (present items) in
       q = C02.Model.urlencode t /\ (forallb C02.Proofs.valid_pair t = true -> C02.Model.parse_qsl q = t).
Proof. exact build_match_extras. Qed.
Print Assumptions C04_build_match_extras.

(* build('users', id=42, n='e-acute space percent', q='a b', l=[1, None, 2], z=None) *)
Example C04_extras_example :
  build_rule_q SortOff ex_users ex_vals ex_extras
  = BOk ([], [47] ++ USERS ++ [47; 52; 50; 47; 120; 45; 37; 67; 51; 37; 65; 57; 37; 50; 48; 37; 50; 53]
             ++ [63; 113; 61; 97; 43; 98; 38; 108; 61; 49; 38; 108; 61; 50])
  /\ C02.Model.parse_qsl [113; 61; 97; 43; 98; 38; 108; 61; 49; 38; 108; 61; 50]
     = [([113], [97; 32; 98]); ([108], [49]); ([108], [50])]
  /\ build_rule_q SortByKey ex_users ex_vals ex_extras
     = BOk ([], [47] ++ USERS ++ [47; 52; 50; 47; 120; 45; 37; 67; 51; 37; 65; 57; 37; 50; 48; 37; 50; 53]
                ++ [63; 108; 61; 49; 38; 108; 61; 50; 38; 113; 61; 97; 43; 98]).
Proof. exact ex_extras_build. Qed.
Print Assumptions C04_extras_example.

(* Observed, and outside the domain of C04: converter arguments in a rule string cannot be negative
   (Rule('/<int(min=-10):p>') -> ValueError "Cannot parse converter argument 'min=-'" when the map is constructed:
   _converter_args_re has no sign).  It fails at construction time, not on a request; C04 quantifies over values
   (signed ints are in its domain and are proved / exercised: C04_int_roundtrip, C04_int_example), not over the
   argument syntax of converters.  IntegerConverter(map, min=-10, signed=True) built from Python works. *)
