(* C04: executable model of URL building: converters' to_url, Rule._compile_builder / build
   (per-part quoting, defaults resolved to constants), Rule.suitable_for, build_compare_key,
   MapAdapter._partial_build / build, and urllib.parse.unquote (what a server delivers).
   Matching is C03/Model.v.  Definitions only. *)
From Coq Require Import ZArith.
From Wz Require Import lib.Bytes lib.Utf8 C03.Gen C03.Trie C03.Model.
Open Scope N_scope.

(* ------------------------------------------------------------------ urllib.parse.unquote *)
(* unquote_to_bytes on a byte string: %XX -> byte, anything else kept *)
Fixpoint unquote_bytes (s : bytes) : bytes :=
  match s with
  | [] => []
  | c :: r =>
      if c =? PERCENT then
        match r with
        | h1 :: (h2 :: r2) as r1 =>
            if is_hex h1 && is_hex h2 then (hex_val h1 * 16 + hex_val h2) :: unquote_bytes r2
            else c :: unquote_bytes r
        | _ => c :: unquote_bytes r
        end
      else c :: unquote_bytes r
  end.

(* unquote(str): without a percent sign the string is returned unchanged; otherwise every maximal
   ASCII run is percent-decoded and decoded as UTF-8 with errors="replace", other runs are kept *)
Definition flush_run (acc : str) : str := utf8_decode_replace (unquote_bytes (rev acc)).
Fixpoint unq_runs (s : str) (acc : str) : str :=
  match s with
  | [] => flush_run acc
  | c :: r => if c <? 128 then unq_runs r (c :: acc)
              else match acc with [] => c :: unq_runs r [] | _ => flush_run acc ++ c :: unq_runs r [] end
  end.
Definition unquote (s : str) : str := if mem PERCENT s then unq_runs s [] else s.

(* ------------------------------------------------------------------ to_url *)
Definition print_int (z : Z) : str :=
  match z with
  | Zneg p => MINUS :: dec_of_N (Npos p)
  | _ => dec_of_N (Z.to_N z)
  end.
(* str.zfill(width): zeros after the sign *)
Definition zfill (s : str) (width : N) : str :=
  let pad := repeat 48 (N.to_nat width - length s) in
  match s with
  | c :: r => if (c =? MINUS) || (c =? 43) then c :: pad ++ r else pad ++ s
  | [] => pad
  end.
(* str(uuid.UUID): 8-4-4-4-12 *)
Definition dashed (h : str) : str :=
  firstn 8 h ++ MINUS :: firstn 4 (skipn 8 h) ++ MINUS :: firstn 4 (skipn 12 h) ++ MINUS
  :: firstn 4 (skipn 16 h) ++ MINUS :: skipn 20 h.

(* str(value) for the value types of the model; float text stands for str(float) (Section contract in the proofs) *)
Definition value_str (v : value) : str :=
  match v with VStr s => s | VInt z => print_int z | VFloat t => t | VFloatRaw t => t | VUuid h => dashed h end.
Definition is_raw_float (v : value) : bool := match v with VFloatRaw _ => true | _ => false end.

(* converter.to_url(value); values of another type than the converter produces are outside the model
   (int("x") and friends), except for the converters that only take str(value) *)
Definition to_url (c : conv) (v : value) : bres str :=
  if is_raw_float v then BUnsupported else     (* str(float(text)) is not computed *)
  match c with
  | CStr _ _ _ | CPath => BOk (quote safe_to_url (value_str v))
  | CAny items => match v with
                  | VStr s => if has s items then BOk s else BValueError
                  | _ => BValueError
                  end
  | CInt fixed _ _ _ => match v with
                        | VInt z => BOk (if fixed =? 0 then print_int z else zfill (print_int z) fixed)
                        | _ => BUnsupported
                        end
  | CFloat _ => match v with VFloat t => BOk t | _ => BUnsupported end
  | CUuid => match v with VUuid h => BOk (dashed h) | _ => BUnsupported end
  end.

(* ------------------------------------------------------------------ Rule.build *)
Fixpoint dict_get (k : str) (d : list (str * value)) : option value :=
  match d with
  | [] => None
  | (k', v) :: d' => if list_eqb k' k then Some v else dict_get k d'
  end.
Definition dict_has (k : str) (d : list (str * value)) : bool :=
  match dict_get k d with Some _ => true | None => false end.

Definition bbind {A B} (x : bres A) (f : A -> bres B) : bres B :=
  match x with BOk a => f a | BValueError => BValueError | BUnsupported => BUnsupported end.

(* one piece of the trace: literals quoted with safe_literal, a variable through its converter;
   a variable that has a rule default is resolved to the constant to_url(default) *)
Definition build_seg (defaults vals : list (str * value)) (s : seg) : bres str :=
  match s with
  | SLit k => BOk (quote safe_literal k)
  | SDyn pre c name post =>
      match (match dict_get name defaults with Some d => Some d | None => dict_get name vals end) with
      | Some v => bbind (to_url c v) (fun u => BOk (quote safe_literal pre ++ u ++ quote safe_literal post))
      | None => BUnsupported          (* TypeError: missing argument; excluded by suitable_for *)
      end
  end.

Fixpoint build_segs (defaults vals : list (str * value)) (l : list seg) : bres (list str) :=
  match l with
  | [] => BOk []
  | s :: l' => bbind (build_seg defaults vals s) (fun u => bbind (build_segs defaults vals l') (fun us => BOk (u :: us)))
  end.

(* Rule.build(values, append_unknown=False): (domain_part, path) *)
Definition build_rule (r : rule) (vals : list (str * value)) : bres (str * str) :=
  let defs := r_defaults r in
  bbind (build_seg defs vals (r_dom r)) (fun dom =>
  bbind (build_segs defs vals (r_segs r ++ match r_tail r with Some n => [SDyn [] CPath n []] | None => [] end)) (fun items =>
    BOk (dom, SLASH :: join_slash items ++ (if is_branch r && negb (is_nil items) then [SLASH] else [])))).

(* Rule.arguments: the variable names and the keys of defaults *)
Definition rule_arguments (r : rule) : list str := map fst (rule_convs r) ++ map fst (r_defaults r).

Definition value_eqb (a b : value) : bool :=
  match a, b with
  | VStr x, VStr y => list_eqb x y
  | VInt x, VInt y => (x =? y)%Z
  | VFloat x, VFloat y => list_eqb x y     (* float equality is not modelled: text equality *)
  | VUuid x, VUuid y => list_eqb x y
  | _, _ => false
  end.

(* Rule.suitable_for(values, method) *)
Definition suitable_for (r : rule) (vals : list (str * value)) (meth : option str) : bool :=
  (match meth, rmethods r with
   | Some me, Some ms => has me ms
   | _, _ => true
   end)
  && forallb (fun k => dict_has k (r_defaults r) || dict_has k vals) (rule_arguments r)
  && forallb (fun kv => match dict_get (fst kv) vals with
                        | Some v => value_eqb (snd kv) v
                        | None => true
                        end) (r_defaults r).

(* Rule.build_compare_key *)
Definition nodup_len (l : list str) : nat := length (nodup (list_eq_dec N.eq_dec) l).
Definition build_key (r : rule) : Z * Z * Z :=
  ((if r_alias r then 1 else 0)%Z, (- Z.of_nat (nodup_len (rule_arguments r)))%Z, (- Z.of_nat (length (r_defaults r)))%Z).
Definition key_lt (a b : Z * Z * Z) : bool :=
  match a, b with
  | (a1, a2, a3), (b1, b2, b3) =>
      ((a1 <? b1) || ((a1 =? b1) && ((a2 <? b2) || ((a2 =? b2) && (a3 <? b3)))))%Z
  end.
Fixpoint insert_rule (x : rule) (l : list rule) : list rule :=
  match l with
  | [] => [x]
  | y :: l' => if key_lt (build_key y) (build_key x) then y :: insert_rule x l' else x :: l
  end.
(* Map._rules_by_endpoint[endpoint] after update(): insertion order, stably sorted by build_compare_key *)
Definition rules_for (m : rmap) (endpoint : N) : list rule :=
  fold_right insert_rule [] (filter (fun r => r_endpoint r =? endpoint) (m_rules m)).

(* MapAdapter._partial_build with an explicit method, append_unknown=False, host_matching off:
   the first suitable rule that builds *)
Fixpoint partial_build (rules : list rule) (vals : list (str * value)) (meth : option str) : bres (option (rule * str * str)) :=
  match rules with
  | [] => BOk None
  | r :: rs =>
      if suitable_for r vals meth then
        bbind (build_rule r vals) (fun dp => BOk (Some (r, fst dp, snd dp)))
      else partial_build rs vals meth
  end.

(* ... with host_matching: the first suitable rule whose built host is the bound server name, else the
   first suitable rule that builds *)
Fixpoint partial_build_hm (server : str) (rules : list rule) (vals : list (str * value)) (meth : option str)
         (first : option (rule * str * str)) : bres (option (rule * str * str)) :=
  match rules with
  | [] => BOk first
  | r :: rs =>
      if suitable_for r vals meth then
        bbind (build_rule r vals) (fun dp =>
          if list_eqb (fst dp) server then BOk (Some (r, fst dp, snd dp))
          else partial_build_hm server rs vals meth (match first with None => Some (r, fst dp, snd dp) | Some _ => first end))
      else partial_build_hm server rs vals meth first
  end.
Definition pbuild (m : rmap) (a : adapter) (rules : list rule) (vals : list (str * value)) (meth : option str)
  : bres (option (rule * str * str)) :=
  if m_host_matching m then partial_build_hm (a_server a) rules vals meth None else partial_build rules vals meth.

Definition HTTPS : str := [104; 116; 116; 112; 115].
(* MapAdapter.build(endpoint, values, method, force_external, append_unknown=False); None = BuildError *)
Definition adapter_build (m : rmap) (a : adapter) (endpoint : N) (vals : list (str * value)) (meth : option str)
           (force_external : bool) : bres (option str) :=
  bbind (match meth with
         | Some _ => pbuild m a (rules_for m endpoint) vals meth
         | None =>   (* method None: the default method first, then any *)
             bbind (pbuild m a (rules_for m endpoint) vals (Some GET)) (fun rv =>
               match rv with Some _ => BOk rv | None => pbuild m a (rules_for m endpoint) vals None end)
         end) (fun rv =>
  match rv with
  | None => BOk None
  | Some (r, dp, path) =>
      let host := get_host m a (Some dp) in
      let secure := list_eqb (a_scheme a) HTTPS || list_eqb (a_scheme a) WSS in
      let ws := r_websocket r in
      let scheme := if ws then (if secure then WSS else WS)
                    else if is_nil (a_scheme a) then [] else (if secure then HTTPS else HTTP) in
      if negb (force_external || ws)
         && (if m_host_matching m then list_eqb host (a_server a)
             else match bound_subdomain m a with Some s => list_eqb dp s | None => false end)
      then BOk (Some (rstrip (N.eqb SLASH) (script_name a) ++ SLASH :: lstrip_slash path))
      else BOk (Some ((if is_nil scheme then [] else scheme ++ [COLON]) ++ [SLASH; SLASH] ++ host
                      ++ removelast (script_name a) ++ SLASH :: lstrip_slash path))
  end).

(* ------------------------------------------------------------------ build, deliver, match *)
Definition with_subdomain (a : adapter) (sub : str) : adapter :=
  {| a_scheme := a_scheme a; a_server := a_server a; a_script := a_script a; a_subdomain := Some sub;
     a_query := a_query a |}.
Definition with_server (a : adapter) (host : str) : adapter :=
  {| a_scheme := a_scheme a; a_server := host; a_script := a_script a; a_subdomain := None; a_query := a_query a |}.

(* the request a client sends for the URL built for (endpoint, values): the host selects the
   subdomain, the server strips the script root and percent-decodes the rest *)
Definition build_then_match (h : hooks) (m : rmap) (a : adapter) (endpoint : N) (vals : list (str * value))
           (meth : str) : bres (option outcome) :=
  bbind (pbuild m a (rules_for m endpoint) vals (Some meth)) (fun rv =>
    match rv with
    | None => BOk None
    | Some (r, dp, path) =>
        BOk (Some (map_match h m (if m_host_matching m then with_server a dp else with_subdomain a dp)
                     (unquote (SLASH :: lstrip_slash path)) meth))
    end).
