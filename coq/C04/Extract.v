From Coq Require Extraction ExtrOcamlBasic.
From Wz Require Import lib.Bytes lib.Utf8 lib.ExtractBase C03.Gen C03.Trie C03.Model C04.Model C04.Factories.
Extraction Language OCaml.
Extraction "C04/model_extracted.ml" force_types map_match no_hooks to_url to_python unquote quote adapter_build build_then_match
  build_rule rules_for suitable_for in_lang lang_of
  submount with_dom with_endpoint template adapter_build_q.
