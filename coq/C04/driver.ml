(* C04 driver: one case per line (rule / map / adapter syntax as in coq/C03/driver.ml)
   tourl <conv> <value>                              -> U text | VALUEERROR | UNSUPPORTED
   rt <conv> <value>                                 -> to_url, unquote, in_lang, to_python in one line
   unq <text>                                        -> unquoted text
   build <cfg> <rules> <adapter> <ep> <vals> <meth|~> <force_external>  -> U url | NONE | VALUEERROR | UNSUPPORTED
   b2m <cfg> <rules> <adapter> <ep> <vals> <meth>   -> outcome of matching the built URL
   buildq <sort> <cfg> <rules> <adapter> <ep> <vals> <extras> <meth|~> <force_external>  -> build with query extras *)
let sp c s = String.split_on_char c s
let str s = nlist_of_csv s
let opt f s = if s = "~" then None else Some (f s)
let b s = (s = "1")
let zi s = z_of_int (int_of_string s)
let ni s = n_of_int (int_of_string s)
let lst c f s = if s = "_" then [] else List.map f (sp c s)
let conv s = match sp '.' s with
  | ["s"; e; mn; mx] -> CStr (opt ni e, ni mn, opt ni mx)
  | ["i"; fx; mn; mx; sg] -> CInt (ni fx, opt zi mn, opt zi mx, b sg)
  | ["f"; sg] -> CFloat (b sg)
  | ["a"; items] -> CAny (lst '|' str items)
  | ["u"] -> CUuid | ["p"] -> CPath
  | _ -> failwith ("conv " ^ s)
let seg s = match sp ':' s with
  | ["L"; k] -> SLit (str k)
  | ["D"; pre; c; name; post] -> SDyn (str pre, conv c, str name, str post)
  | _ -> failwith ("seg " ^ s)
let tl s = String.sub s 1 (String.length s - 1)
let value s = match s.[0] with
  | 'I' -> VInt (zi (tl s)) | 'F' -> VFloat (str (tl s)) | 'U' -> VUuid (str (tl s)) | _ -> VStr (str (tl s))
let kv s = match sp '=' s with [k; v] -> (str k, value v) | _ -> failwith ("kv " ^ s)
let rule s = match sp ';' s with
  | [idx; ep; dom; segs; tail; br; meths; st; mg; ws; al; defs] ->
      { r_idx = ni idx; r_endpoint = ni ep; r_dom = seg dom; r_segs = lst '^' seg segs; r_tail = opt str tail;
        r_branch = b br; r_methods = opt (lst '|' str) meths; r_strict_opt = opt b st; r_merge_opt = opt b mg;
        r_websocket = b ws; r_alias = b al; r_defaults = lst '|' kv defs }
  | _ -> failwith ("rule " ^ s)
(* a rule wrapped in factories: <rule>;<op>!<op>..  innermost first.
   M<seg^seg>  Submount     D<seg>  Subdomain     E<n>  EndpointPrefix (endpoint + n)     T<k=v&k=v>  RuleTemplate context *)
exception Outside
let apply_op r op =
  let arg = String.sub op 1 (String.length op - 1) in
  match op.[0] with
  | 'M' -> submount (lst '^' seg arg) r
  | 'D' -> with_dom (seg arg) r
  | 'E' -> with_endpoint (fun e -> n_of_int (int_of_n e + int_of_string arg)) r
  | 'T' -> (match template (lst '&' (fun kv -> match sp '=' kv with [k; v] -> (str k, str v) | _ -> failwith "ctx") arg) r with
            | Some r' -> r' | None -> raise Outside)
  | _ -> failwith ("op " ^ op)
let frule s =
  match sp ';' s with
  | [_; _; _; _; _; _; _; _; _; _; _; _] -> rule s
  | l when List.length l = 13 ->
      let ops = List.nth l 12 in
      let base = rule (String.concat ";" (List.filteri (fun i _ -> i < 12) l)) in
      List.fold_left apply_op base (sp '!' ops)
  | _ -> failwith ("frule " ^ s)
let xval s = match s.[0] with
  | 'N' -> XNone
  | 'L' -> XList (lst '/' (fun e -> if e = "N" then None else Some (value e)) (tl s))
  | _ -> XOne (value s)
let xkv s = match sp '=' s with [k; v] -> (str k, xval v) | _ -> failwith ("xkv " ^ s)
let sorting = function "0" -> SortOff | "1" -> SortByKey | _ -> SortNatural
let rmap cfg rules =
  { m_rules = lst '+' frule rules; m_strict = (cfg.[0] = '1'); m_merge = (cfg.[1] = '1');
    m_redirect_defaults = (cfg.[2] = '1'); m_host_matching = (cfg.[3] = '1') }
let adapter s = match sp '|' s with
  | [sch; srv; scr; sub; q] -> { a_scheme = str sch; a_server = str srv; a_script = str scr; a_subdomain = opt str sub; a_query = str q }
  | _ -> failwith ("adapter " ^ s)
let zs z = string_of_int (int_of_z z)
let show_value = function
  | VStr s -> "S" ^ csv_of_nlist s | VInt z -> "I" ^ zs z | VFloat t -> "F" ^ csv_of_nlist t | VFloatRaw t -> "F" ^ csv_of_nlist t | VUuid h -> "U" ^ csv_of_nlist h
let show_args l = if l = [] then "-" else String.concat "|" (List.map (fun (k, v) -> csv_of_nlist k ^ "=" ^ show_value v) l)
let show_outcome = function
  | Match (r, vs) -> Printf.sprintf "M %d %d %s" (int_of_n r.r_idx) (int_of_n r.r_endpoint) (show_args vs)
  | RedirectTo u -> "R " ^ csv_of_nlist u
  | NotFound -> "404"
  | MethodNotAllowed ms -> "405 " ^ String.concat "|" (List.map csv_of_nlist ms)
  | WsMismatch -> "WS"
  | Raised u -> if u then "UNSUPPORTED" else "EXN ValueError"
let bres f = function BOk x -> f x | BValueError -> "VALUEERROR" | BUnsupported -> "UNSUPPORTED"
let () = iter_lines (fun line ->
  try match fields line with
  | ["tourl"; c; v] -> bres (fun u -> "U " ^ csv_of_nlist u) (to_url (conv c) (value v))
  | ["rt"; c; v] ->
      let c = conv c in
      bres (fun u -> let d = unquote u in
             Printf.sprintf "U %s D %s L %b P %s" (csv_of_nlist u) (csv_of_nlist d) (in_lang (lang_of c) d)
               (match to_python c d with Some x -> show_value x | None -> "REJECT")) (to_url c (value v))
  | ["unq"; s] -> csv_of_nlist (unquote (str s))
  | ["build"; cfg; rules; a; ep; vals; meth; fe] ->
      bres (function Some u -> "U " ^ csv_of_nlist u | None -> "NONE")
        (adapter_build (rmap cfg rules) (adapter a) (ni ep) (lst '|' kv vals) (opt str meth) (b fe))
  | ["buildq"; srt; cfg; rules; a; ep; vals; extras; meth; fe] ->
      bres (function Some u -> "U " ^ csv_of_nlist u | None -> "NONE")
        (adapter_build_q (sorting srt) (rmap cfg rules) (adapter a) (ni ep) (lst '|' kv vals) (lst '|' xkv extras) (opt str meth) (b fe))
  | ["b2m"; cfg; rules; a; ep; vals; meth] ->
      bres (function Some o -> show_outcome o | None -> "NONE")
        (build_then_match no_hooks (rmap cfg rules) (adapter a) (ni ep) (lst '|' kv vals) (str meth))
  | _ -> "bad-command"
  with Outside -> "UNSUPPORTED")
