(* C04: map-level theorem.  The URL built for a rule from canonical values, delivered as a server
   delivers it (percent-decoded), is matched by that rule with those values, in every map whose rules
   have pairwise distinct literal first segments. *)
From Coq Require Import ZArith Lia.
From Wz Require Import lib.Bytes lib.BytesFacts lib.Utf8 lib.Utf8Facts C03.Gen C03.Trie C03.TrieFacts C03.Model C03.Proofs
  C04.Model C04.Proofs.
Open Scope N_scope.

Notation cwalk := (Trie.walk dpart pmatch).

(* ------------------------------------------------------------------ URL text and what it decodes to *)
Definition ascii (s : str) : bool := forallb (fun c => c <? 128) s.
Definition encodes (p t : str) : Prop :=
  ascii p = true /\ valid_text t = true
  /\ forall rest, unquote_bytes (p ++ rest) = utf8_encode t ++ unquote_bytes rest.

Lemma encodes_quote safe s : mem PERCENT safe = false -> valid_text s = true -> encodes (quote safe s) s.
Proof.
  intros Hs Hv. split; [apply quote_ascii; exact Hv|]. split; [exact Hv|]. intro rest.
  unfold quote. apply unquote_quote_bytes; [exact Hs|apply utf8_bytes_forall; exact Hv].
Qed.

Lemma unquote_bytes_plain_app p rest : mem PERCENT p = false -> unquote_bytes (p ++ rest) = p ++ unquote_bytes rest.
Proof.
  induction p as [|c p IH]; [reflexivity|]. rewrite mem_cons. intro H. apply orb_false_elim in H. destruct H as [Hc Hp].
  cbn [app]. rewrite unquote_bytes_literal by (intro E; subst c; rewrite N.eqb_refl in Hc; discriminate).
  rewrite (IH Hp). reflexivity.
Qed.

Lemma encodes_plain p : ascii p = true -> mem PERCENT p = false -> encodes p p.
Proof.
  intros Ha Hp. split; [exact Ha|]. split; [apply ascii_valid_text; exact Ha|]. intro rest.
  rewrite (utf8_encode_ascii p Ha). apply unquote_bytes_plain_app. exact Hp.
Qed.

Lemma encodes_app p1 t1 p2 t2 : encodes p1 t1 -> encodes p2 t2 -> encodes (p1 ++ p2) (t1 ++ t2).
Proof.
  intros (A1 & V1 & U1) (A2 & V2 & U2). split; [unfold ascii in *; rewrite forallb_app, A1, A2; reflexivity|].
  split; [unfold valid_text in *; rewrite forallb_app, V1, V2; reflexivity|].
  intro rest. rewrite <- app_assoc, U1, U2, utf8_encode_app, <- app_assoc. reflexivity.
Qed.

Lemma encodes_unquote p t : encodes p t -> unquote p = t.
Proof.
  intros (A & V & U). rewrite (unquote_ascii p A). rewrite <- (app_nil_r p), U. cbn [unquote_bytes]. rewrite app_nil_r.
  apply utf8_decode_replace_encode. exact V.
Qed.

Lemma encodes_slash : encodes [SLASH] [SLASH].
Proof. apply encodes_plain; reflexivity. Qed.

(* "/".join over pieces *)
Lemma encodes_join us ts : Forall2 encodes us ts -> encodes (join_slash us) (join_slash ts).
Proof.
  intro H. induction H as [|u t us ts Hut Hrest IH]; [apply encodes_plain; reflexivity|].
  destruct Hrest as [|u2 t2 us2 ts2 H2 Hr2].
  - cbn [join_slash]. exact Hut.
  - change (join_slash (u :: u2 :: us2)) with (u ++ SLASH :: join_slash (u2 :: us2)).
    change (join_slash (t :: t2 :: ts2)) with (t ++ SLASH :: join_slash (t2 :: ts2)).
    apply encodes_app; [exact Hut|]. apply (encodes_app [SLASH] [SLASH]); [exact encodes_slash|exact IH].
Qed.

(* ------------------------------------------------------------------ split / join *)
Lemma split_slash_nonempty s : split_slash s <> [].
Proof.
  induction s as [|c s IH]; [discriminate|]. cbn [split_slash]. destruct (c =? SLASH); [discriminate|].
  destruct (split_slash s); discriminate.
Qed.

Lemma split_no_slash s : no_slash s = true -> split_slash s = [s].
Proof.
  induction s as [|c s IH]; [reflexivity|]. unfold no_slash in *. cbn [forallb split_slash]. intro H.
  apply andb_prop in H. destruct H as [Hc Hs]. apply negb_true_iff in Hc. rewrite Hc, (IH Hs). reflexivity.
Qed.

Lemma split_app_slash a b : no_slash a = true -> split_slash (a ++ SLASH :: b) = a :: split_slash b.
Proof.
  induction a as [|c a IH]; intro H.
  - cbn [app split_slash]. rewrite N.eqb_refl. reflexivity.
  - unfold no_slash in *. cbn [forallb] in H. apply andb_prop in H. destruct H as [Hc Ha]. apply negb_true_iff in Hc.
    cbn [app split_slash]. rewrite Hc, (IH Ha). reflexivity.
Qed.

Lemma join_split s : join_slash (split_slash s) = s.
Proof.
  induction s as [|c s IH]; [reflexivity|]. cbn [split_slash]. destruct (c =? SLASH) eqn:E.
  - apply N.eqb_eq in E. subst c. pose proof (split_slash_nonempty s) as Hn.
    destruct (split_slash s) as [|h t] eqn:Es; [contradiction|].
    change (join_slash ([] :: h :: t)) with ([] ++ SLASH :: join_slash (h :: t)). rewrite IH. reflexivity.
  - pose proof (split_slash_nonempty s) as Hn. destruct (split_slash s) as [|h t] eqn:Es; [contradiction|].
    destruct t as [|h2 t2].
    + cbn [join_slash] in *. rewrite IH. reflexivity.
    + change (join_slash ((c :: h) :: h2 :: t2)) with ((c :: h) ++ SLASH :: join_slash (h2 :: t2)).
      change (join_slash (h :: h2 :: t2)) with (h ++ SLASH :: join_slash (h2 :: t2)) in IH. cbn [app]. rewrite IH. reflexivity.
Qed.

(* split of "/".join(ts ++ [last]) when the ts have no slash *)
Lemma split_join ts last :
  Forall (fun t => no_slash t = true) ts -> split_slash (join_slash (ts ++ [last])) = ts ++ split_slash last.
Proof.
  intro H. induction H as [|t ts Ht Hts IH]; [cbn [app join_slash]; reflexivity|].
  destruct ts as [|t2 ts2].
  - cbn [app]. change (join_slash [t; last]) with (t ++ SLASH :: join_slash [last]). cbn [join_slash].
    rewrite (split_app_slash _ _ Ht). reflexivity.
  - change ((t :: t2 :: ts2) ++ [last]) with (t :: (t2 :: ts2) ++ [last]).
    change (join_slash (t :: (t2 :: ts2) ++ [last])) with (t ++ SLASH :: join_slash ((t2 :: ts2) ++ [last])).
    rewrite (split_app_slash _ _ Ht), IH. reflexivity.
Qed.

Lemma split_snoc_slash s : split_slash (s ++ [SLASH]) = split_slash s ++ [[]].
Proof.
  induction s as [|c s IH]; [reflexivity|]. cbn [app split_slash]. destruct (c =? SLASH); rewrite IH; [reflexivity|].
  pose proof (split_slash_nonempty s) as Hn. destruct (split_slash s) as [|hd tl]; [contradiction|reflexivity].
Qed.

(* ------------------------------------------------------------------ matching a constructed segment *)
Lemma strip_prefix_app p s : strip_prefix p (p ++ s) = Some s.
Proof.
  unfold strip_prefix. assert (H : starts_with p (p ++ s) = true).
  { induction p as [|c p IH]; [reflexivity|]. cbn [app starts_with]. rewrite N.eqb_refl, IH. reflexivity. }
  rewrite H. f_equal. rewrite skipn_app, skipn_all, Nat.sub_diag. reflexivity.
Qed.

Lemma strip_suffix_app s p : strip_suffix p (s ++ p) = Some s.
Proof.
  unfold strip_suffix. rewrite app_length.
  replace (length s + length p - length p)%nat with (length s) by lia.
  replace (length p <=? length s + length p)%nat with true by (symmetry; apply Nat.leb_le; lia).
  rewrite skipn_app, skipn_all, Nat.sub_diag. cbn [app skipn]. rewrite list_eqb_refl. cbn [andb].
  rewrite firstn_app, firstn_all, Nat.sub_diag. cbn [firstn]. rewrite app_nil_r. reflexivity.
Qed.

Lemma pmatch_plain d tv rest :
  d_final d = false -> d_suffixed d = false -> in_lang (d_lang d) tv = true ->
  pmatch d (d_pre d ++ tv ++ d_post d) rest = Some ([tv], rest).
Proof.
  intros Hf Hs Hl. unfold pmatch. rewrite Hf, Hs, strip_prefix_app, strip_suffix_app, Hl. reflexivity.
Qed.

(* ------------------------------------------------------------------ canonical values *)
(* the value the matcher hands back for a built value: floats come back as float(text) *)
Definition reval (v : value) : value := match v with VFloat t => VFloatRaw t | _ => v end.

(* v is in the canonical domain of converter c and t is the text a server delivers for it *)
Definition canon (c : conv) (v : value) (t : str) : Prop :=
  exists u, to_url c v = BOk u /\ encodes u t /\ in_lang (lang_of c) t = true /\ to_python c t = Some (reval v).

Lemma canon_text c s :
  is_text_conv c = true -> valid_text s = true -> in_lang (lang_of c) s = true -> canon c (VStr s) s.
Proof.
  intros Hc Hv Hl. destruct safe_no_percent as (Hs & _ & _).
  destruct c; try discriminate; (eexists; split; [reflexivity|]); cbn [value_str];
    (split; [apply encodes_quote; assumption|]); (split; [exact Hl|reflexivity]).
Qed.

Lemma roundtrip_plain_canon c v u :
  to_url c v = BOk u -> ascii u = true -> mem PERCENT u = false ->
  in_lang (lang_of c) u = true -> to_python c u = Some (reval v) -> canon c v u.
Proof. intros H1 H2 H3 H4 H5. exists u. split; [exact H1|]. split; [apply encodes_plain; assumption|]. split; assumption. Qed.

(* any: an ASCII item without percent sign *)
Lemma canon_any items s :
  has s items = true -> ascii s = true -> mem PERCENT s = false -> canon (CAny items) (VStr s) s.
Proof.
  intros Hi Ha Hp. apply roundtrip_plain_canon; try assumption.
  - unfold to_url. cbn [is_raw_float]. rewrite Hi. reflexivity.
  - reflexivity.
Qed.

(* ------------------------------------------------------------------ building and matching one segment *)
Definition lit_ok (k : str) : Prop := valid_text k = true /\ no_slash k = true.

(* segment s of a rule, given the values, is built as text that decodes to t, and t is matched by the
   segment's part with the captures caps and the converted values vs *)
Inductive seg_built (defs vals : list (str * value)) : seg -> str -> list str -> list (str * value) -> Prop :=
| sb_lit k : lit_ok k -> k <> [] -> seg_built defs vals (SLit k) k [] []
| sb_dyn pre c name post v tv :
    lit_ok pre -> lit_ok post -> conv_isolating c = true ->
    dict_get name defs = None -> dict_get name vals = Some v -> canon c v tv -> no_slash tv = true ->
    seg_built defs vals (SDyn pre c name post) (pre ++ tv ++ post) [tv] [(name, reval v)].

Lemma seg_built_build defs vals s t caps vs :
  seg_built defs vals s t caps vs -> exists u, build_seg defs vals s = BOk u /\ encodes u t.
Proof.
  destruct safe_no_percent as (_ & Hs & _).
  intros [k [Hv Hn] Hne|pre c name post v tv [Hv1 Hn1] [Hv2 Hn2] Hiso Hd Hg (u & Hu & He & Hl & Hp) Hns].
  - exists (quote safe_literal k). split; [reflexivity|]. apply encodes_quote; assumption.
  - exists (quote safe_literal pre ++ u ++ quote safe_literal post). cbn [build_seg]. rewrite Hd, Hg, Hu. cbn [bbind].
    split; [reflexivity|]. apply encodes_app; [apply encodes_quote; assumption|].
    apply encodes_app; [exact He|apply encodes_quote; assumption].
Qed.

Lemma seg_built_no_slash defs vals s t caps vs : seg_built defs vals s t caps vs -> no_slash t = true.
Proof.
  intros [k [Hv Hn] Hne|pre c name post v tv [Hv1 Hn1] [Hv2 Hn2] Hiso Hd Hg Hc Hns]; [exact Hn|].
  unfold no_slash in *. rewrite !forallb_app, Hn1, Hns, Hn2. reflexivity.
Qed.

Lemma seg_built_walk defs vals s t caps vs rest_parts restP :
  seg_built defs vals s t caps vs ->
  cwalk (to_cpart (seg_part s) :: rest_parts) (t :: restP)
  = match cwalk rest_parts restP with Some (c2, lo) => Some (caps ++ c2, lo) | None => None end.
Proof.
  intros [k [Hv Hn] Hne|pre c name post v tv [Hv1 Hn1] [Hv2 Hn2] Hiso Hd Hg (u & Hu & He & Hl & Hp) Hns].
  - cbn [seg_part to_cpart Trie.walk]. rewrite list_eqb_refl. destruct (cwalk rest_parts restP) as [[c2 lo]|]; reflexivity.
  - cbn [seg_part to_cpart Trie.walk]. rewrite Hiso.
    match goal with |- context [pmatch ?d _ _] =>
      assert (Hpm := pmatch_plain d tv restP); cbn [d_pre d_post d_final d_suffixed d_lang] in Hpm;
      rewrite (Hpm eq_refl eq_refl Hl) end.
    reflexivity.
Qed.

Lemma seg_built_convert defs vals s t caps vs (cs2 : list (str * conv)) caps2 :
  seg_built defs vals s t caps vs ->
  convert_all (seg_convs s ++ cs2) (caps ++ caps2) = option_map (app vs) (convert_all cs2 caps2).
Proof.
  intros [k [Hv Hn] Hne|pre c name post v tv [Hv1 Hn1] [Hv2 Hn2] Hiso Hd Hg (u & Hu & He & Hl & Hp) Hns].
  - cbn [seg_convs app]. destruct (convert_all cs2 caps2); reflexivity.
  - cbn [seg_convs app convert_all]. rewrite Hp. destruct (convert_all cs2 caps2); reflexivity.
Qed.

(* a list of segments *)
Inductive segs_built (defs vals : list (str * value)) : list seg -> list str -> list str -> list (str * value) -> Prop :=
| sbs_nil : segs_built defs vals [] [] [] []
| sbs_cons s t caps vs l ts capsl vsl :
    seg_built defs vals s t caps vs -> segs_built defs vals l ts capsl vsl ->
    segs_built defs vals (s :: l) (t :: ts) (caps ++ capsl) (vs ++ vsl).

Lemma segs_built_build defs vals l ts caps vs :
  segs_built defs vals l ts caps vs -> exists us, build_segs defs vals l = BOk us /\ Forall2 encodes us ts.
Proof.
  intro H. induction H as [|s t c v l ts cl vl Hs Hl IH]; [exists []; split; [reflexivity|constructor]|].
  destruct (seg_built_build _ _ _ _ _ _ Hs) as (u & Hu & He). destruct IH as (us & Hus & Hes).
  exists (u :: us). cbn [build_segs]. rewrite Hu, Hus. cbn [bbind]. split; [reflexivity|constructor; assumption].
Qed.

Lemma segs_built_no_slash defs vals l ts caps vs :
  segs_built defs vals l ts caps vs -> Forall (fun t => no_slash t = true) ts.
Proof.
  intro H. induction H; constructor; [eapply seg_built_no_slash; eassumption|assumption].
Qed.

Lemma segs_built_walk defs vals l ts caps vs rest_parts restP :
  segs_built defs vals l ts caps vs ->
  cwalk (map to_cpart (map seg_part l) ++ rest_parts) (ts ++ restP)
  = match cwalk rest_parts restP with Some (c2, lo) => Some (caps ++ c2, lo) | None => None end.
Proof.
  intro H. induction H as [|s t c v l ts cl vl Hs Hl IH].
  - cbn [map app]. destruct (cwalk rest_parts restP) as [[c2 lo]|]; reflexivity.
  - cbn [map app]. rewrite (seg_built_walk _ _ _ _ _ _ _ _ Hs), IH.
    destruct (cwalk rest_parts restP) as [[c2 lo]|]; [rewrite app_assoc|]; reflexivity.
Qed.

Lemma segs_built_convert defs vals l ts caps vs (cs2 : list (str * conv)) caps2 :
  segs_built defs vals l ts caps vs ->
  convert_all (flat_map seg_convs l ++ cs2) (caps ++ caps2) = option_map (app vs) (convert_all cs2 caps2).
Proof.
  intro H. induction H as [|s t c v l ts cl vl Hs Hl IH].
  - cbn [flat_map app]. destruct (convert_all cs2 caps2); reflexivity.
  - cbn [flat_map]. rewrite <- !app_assoc. rewrite (seg_built_convert _ _ _ _ _ _ _ _ Hs), IH.
    destruct (convert_all cs2 caps2); cbn [option_map]; [rewrite app_assoc|]; reflexivity.
Qed.

(* ------------------------------------------------------------------ the trailing <path:name> *)
Lemma join_slash_snoc l : l <> [] -> join_slash (l ++ [[]]) = join_slash l ++ [SLASH].
Proof.
  induction l as [|x l IH]; [contradiction|]. intros _. destruct l as [|y l].
  - cbn [app join_slash]. reflexivity.
  - change ((x :: y :: l) ++ [[]]) with (x :: ((y :: l) ++ [[]])).
    change (join_slash (x :: (y :: l) ++ [[]])) with (x ++ SLASH :: join_slash ((y :: l) ++ [[]])).
    rewrite IH by discriminate. change (join_slash (x :: y :: l)) with (x ++ SLASH :: join_slash (y :: l)).
    rewrite <- app_assoc. reflexivity.
Qed.

Lemma ends_with_slash_snoc t : ends_with_slash (t ++ [SLASH]) = true.
Proof. unfold ends_with_slash. rewrite rev_unit. apply N.eqb_refl. Qed.

Lemma strip_suffix_nil s : strip_suffix [] s = Some s.
Proof. rewrite <- (app_nil_r s) at 1. apply strip_suffix_app. Qed.

Inductive tail_built (defs vals : list (str * value)) (branch : bool)
  : option str -> list str -> list str -> list str -> list (str * value) -> Prop :=
| tb_none : tail_built defs vals branch None [] (if branch then [[]] else []) [] []
| tb_some n tp :
    dict_get n defs = None -> dict_get n vals = Some (VStr tp) -> valid_text tp = true ->
    in_lang LPath tp = true -> ends_with_slash tp = false ->
    tail_built defs vals branch (Some n) [tp] (split_slash tp ++ (if branch then [[]] else [])) [tp] [(n, VStr tp)].

Definition tail_cparts (tail : option str) (branch : bool) : list (cpart dpart) :=
  map to_cpart (match tail with Some _ => tail_parts branch | None => if branch then [Static [] w0] else [] end).

Lemma isolating_path_false : conv_isolating CPath = false.
Proof. vm_compute. reflexivity. Qed.

Lemma tail_built_walk defs vals branch tail tts restP caps vs :
  tail_built defs vals branch tail tts restP caps vs -> cwalk (tail_cparts tail branch) restP = Some (caps, []).
Proof.
  intros [|n tp Hd Hg Hv Hl He]; unfold tail_cparts.
  - destruct branch; reflexivity.
  - pose proof (split_slash_nonempty tp) as Hn. destruct (split_slash tp) as [|p rest] eqn:Es; [contradiction|].
    assert (Hj : join_slash (p :: rest) = tp) by (rewrite <- Es; apply join_split).
    unfold tail_parts. rewrite isolating_path_false. cbn [negb]. destruct branch; cbn [map to_cpart Trie.walk app].
    + unfold pmatch. cbn [d_final d_suffixed d_pre d_lang d_post].
      change (p :: rest ++ [[]]) with ((p :: rest) ++ [[]]). rewrite join_slash_snoc by discriminate. rewrite Hj.
      unfold strip_prefix. cbn [starts_with length skipn]. rewrite ends_with_slash_snoc, removelast_app_one, Hl, He.
      cbn [negb andb Trie.walk list_eqb app]. reflexivity.
    + rewrite app_nil_r. unfold pmatch. cbn [d_final d_suffixed d_pre d_lang d_post]. rewrite Hj.
      unfold strip_prefix. cbn [starts_with length skipn]. rewrite strip_suffix_nil, Hl. cbn [Trie.walk app]. reflexivity.
Qed.

Lemma tail_built_build defs vals branch tail tts restP caps vs :
  tail_built defs vals branch tail tts restP caps vs ->
  exists us, build_segs defs vals (match tail with Some n => [SDyn [] CPath n []] | None => [] end) = BOk us
             /\ Forall2 encodes us tts.
Proof.
  destruct safe_no_percent as (Hs & Hs2 & _).
  intros [|n tp Hd Hg Hv Hl He].
  - exists []. split; [reflexivity|constructor].
  - exists [quote safe_to_url tp]. cbn [build_segs build_seg]. rewrite Hd, Hg. unfold to_url. cbn [is_raw_float value_str bbind].
    change (quote safe_literal []) with (@nil N). cbn [app]. rewrite app_nil_r. split; [reflexivity|].
    constructor; [apply encodes_quote; assumption|constructor].
Qed.

Lemma build_segs_app defs vals l1 l2 us1 us2 :
  build_segs defs vals l1 = BOk us1 -> build_segs defs vals l2 = BOk us2 -> build_segs defs vals (l1 ++ l2) = BOk (us1 ++ us2).
Proof.
  revert us1. induction l1 as [|s l1 IH]; intros us1 H1 H2.
  - cbn [build_segs] in H1. injection H1 as <-. exact H2.
  - cbn [build_segs app] in *. destruct (build_seg defs vals s) as [u| |]; cbn [bbind] in *; try discriminate.
    destruct (build_segs defs vals l1) as [us| |]; cbn [bbind] in *; try discriminate.
    injection H1 as <-. rewrite (IH us eq_refl H2). reflexivity.
Qed.

(* ------------------------------------------------------------------ one rule: build, deliver, walk *)
Definition first_lit (r : rule) : option str :=
  match r_segs r with SLit k :: _ => Some k | _ => None end.

Record built (r : rule) (vals : list (str * value)) (D : str) (P : list str) (v : list (str * value)) : Prop := {
  b_path : exists path, build_rule r vals = BOk ([], path) /\ unquote path = D;
  b_parts : [] :: split_slash (path_part D) = P;
  b_walk : exists caps, cwalk (rparts r) P = Some (caps, []) /\ rconvert r caps = Some v }.

Lemma no_slash_head_not_slash k : k <> [] -> no_slash k = true -> starts_with [SLASH] k = false.
Proof.
  destruct k as [|c k]; [contradiction|]. intros _ H. unfold no_slash in H. cbn [forallb] in H.
  apply andb_prop in H. destruct H as [Hc _]. apply negb_true_iff in Hc. cbn [starts_with]. rewrite N.eqb_sym, Hc. reflexivity.
Qed.

Lemma lstrip_no_leading s : starts_with [SLASH] s = false -> lstrip_slash s = s.
Proof.
  destruct s as [|c s]; [reflexivity|]. cbn [starts_with]. rewrite andb_true_r. intro H.
  unfold lstrip_slash. cbn [drop_while]. rewrite H. reflexivity.
Qed.

Theorem rule_build_walk r vals ts caps vs tts restP tcaps tvs k rest :
  r_dom r = SLit [] -> r_segs r = SLit k :: rest ->
  segs_built (r_defaults r) vals (r_segs r) ts caps vs ->
  tail_built (r_defaults r) vals (is_branch r) (r_tail r) tts restP tcaps tvs ->
  built r vals (SLASH :: join_slash (ts ++ tts) ++ (if is_branch r then [SLASH] else []))
        ([] :: [] :: ts ++ restP) (vs ++ tvs).
Proof.
  intros Hdom Hsegs Hsb Htb.
  destruct (segs_built_build _ _ _ _ _ _ Hsb) as (us & Hus & Hes).
  destruct (tail_built_build _ _ _ _ _ _ _ _ Htb) as (tus & Htus & Htes).
  assert (Hts : exists t1 ts1, ts = t1 :: ts1 /\ t1 = k /\ k <> [] /\ no_slash k = true).
  { rewrite Hsegs in Hsb. inversion Hsb as [|s t c v l ts' cl vl Hs Hl]; subst.
    inversion Hs as [k0 [Hv Hn] Hne|]; subst. eauto 8. }
  destruct Hts as (t1 & ts1 & -> & -> & Hkne & Hkns).
  assert (Hus1 : exists u1 us1, us = u1 :: us1) by (inversion Hes; subst; eauto).
  destruct Hus1 as (u1 & us1 & ->).
  set (sfx := if is_branch r then [SLASH] else @nil N).
  assert (Hitems : build_segs (r_defaults r) vals (r_segs r ++ match r_tail r with Some n => [SDyn [] CPath n []] | None => [] end)
                   = BOk ((u1 :: us1) ++ tus)) by (apply build_segs_app; assumption).
  assert (Henc : encodes (SLASH :: join_slash ((u1 :: us1) ++ tus) ++ sfx) (SLASH :: join_slash ((k :: ts1) ++ tts) ++ sfx)).
  { apply (encodes_app [SLASH] [SLASH]); [exact encodes_slash|]. apply encodes_app.
    - apply encodes_join. apply Forall2_app; assumption.
    - unfold sfx. destruct (is_branch r); [exact encodes_slash|apply encodes_plain; reflexivity]. }
  constructor.
  - exists (SLASH :: join_slash ((u1 :: us1) ++ tus) ++ sfx). split; [|apply encodes_unquote; exact Henc].
    unfold build_rule. rewrite Hdom. cbn [build_seg bbind]. rewrite Hitems. cbn [bbind].
    change (quote safe_literal []) with (@nil N). cbn [app is_nil negb]. rewrite andb_true_r. reflexivity.
  - (* the delivered path splits into the built texts *)
    assert (Hpp : path_part (SLASH :: join_slash ((k :: ts1) ++ tts) ++ sfx) = SLASH :: join_slash ((k :: ts1) ++ tts) ++ sfx).
    { unfold path_part. cbn [is_nil]. f_equal. unfold lstrip_slash. cbn [drop_while]. rewrite N.eqb_refl.
      apply lstrip_no_leading. cbn [app]. destruct (ts1 ++ tts) as [|t2 l2].
      - cbn [join_slash]. destruct k as [|c k']; [contradiction|]. cbn [app]. exact (no_slash_head_not_slash (c :: k') Hkne Hkns).
      - change (join_slash (k :: t2 :: l2)) with (k ++ SLASH :: join_slash (t2 :: l2)).
        destruct k as [|c k']; [contradiction|]. cbn [app]. exact (no_slash_head_not_slash (c :: k') Hkne Hkns). }
    rewrite Hpp. cbn [split_slash]. rewrite N.eqb_refl. f_equal. f_equal.
    pose proof (segs_built_no_slash _ _ _ _ _ _ Hsb) as Hns.
    inversion Htb as [Ht Hrp|n tp Hd Hg Hv Hl He Ht Hrp]; subst tts restP; unfold sfx.
    + rewrite app_nil_r. destruct (exists_last (l := k :: ts1) ltac:(discriminate)) as (l0 & lst & Hl0). rewrite Hl0 in *.
      apply Forall_app in Hns. destruct Hns as [Hns0 Hlst]. inversion Hlst as [|? ? Hlst' _]; subst.
      destruct (is_branch r).
      * rewrite split_snoc_slash, (split_join _ _ Hns0), (split_no_slash _ Hlst'). reflexivity.
      * rewrite !app_nil_r, (split_join _ _ Hns0), (split_no_slash _ Hlst'). reflexivity.
    + destruct (is_branch r).
      * rewrite split_snoc_slash, (split_join _ _ Hns), <- app_assoc. reflexivity.
      * rewrite !app_nil_r, (split_join _ _ Hns). reflexivity.
  - exists (caps ++ tcaps). split.
    + unfold rparts, rule_parts. rewrite Hdom. cbn [seg_part map to_cpart Trie.walk list_eqb]. rewrite map_app.
      fold (tail_cparts (r_tail r) (is_branch r)).
      rewrite (segs_built_walk _ _ _ _ _ _ _ _ Hsb), (tail_built_walk _ _ _ _ _ _ _ _ Htb). reflexivity.
    + unfold rconvert, rule_convs. rewrite Hdom. cbn [seg_convs app].
      rewrite (segs_built_convert _ _ _ _ _ _ _ _ Hsb).
      inversion Htb as [Ht Hrp|n tp Hd Hg Hv Hl He Ht Hrp]; subst.
      * cbn [convert_all option_map]. reflexivity.
      * cbn [convert_all to_python option_map]. reflexivity.
Qed.

(* ------------------------------------------------------------------ the other rules do not admit the path *)
(* every rule: no subdomain / host part, a non-empty literal first segment; first segments pairwise distinct *)
Definition map_distinct (m : rmap) : Prop :=
  (forall r, In r (m_rules m) -> r_dom r = SLit [] /\ exists k rest, r_segs r = SLit k :: rest /\ k <> [])
  /\ (forall r1 r2, In r1 (m_rules m) -> In r2 (m_rules m) -> first_lit r1 = first_lit r2 -> r1 = r2).

Lemma other_first_literal m r' k' rest' k Pmore :
  r_dom r' = SLit [] -> r_segs r' = SLit k' :: rest' -> k' <> [] -> k' <> k ->
  admits m r' ([] :: [] :: k :: Pmore) = ANo rres.
Proof.
  intros Hdom Hsegs Hne Hk.
  assert (Hparts : exists X, rparts r' = PStatic dpart [] :: PStatic dpart [] :: PStatic dpart k' :: X).
  { unfold rparts, rule_parts. rewrite Hdom, Hsegs. cbn [seg_part map to_cpart app]. eexists. reflexivity. }
  destruct Hparts as (X & Hp).
  assert (Hneq : list_eqb k' k = false).
  { destruct (list_eqb k' k) eqn:E; [apply list_eqb_eq in E; contradiction|reflexivity]. }
  unfold admits, Trie.admits. rewrite Hp. cbn [Trie.walk list_eqb]. rewrite Hneq.
  destruct (Trie.strip_last_empty dpart (PStatic dpart [] :: PStatic dpart [] :: PStatic dpart k' :: X)) as [cs'|] eqn:Es; [|reflexivity].
  apply (strip_last_empty_some dpart) in Es.
  assert (Hcs : exists X', cs' = PStatic dpart [] :: PStatic dpart [] :: PStatic dpart k' :: X').
  { destruct cs' as [|c1 cs1]; [discriminate|]. cbn [app] in Es. injection Es as <- Es.
    destruct cs1 as [|c2 cs2]; [discriminate|]. cbn [app] in Es. injection Es as <- Es.
    destruct cs2 as [|c3 cs3].
    - cbn [app] in Es. injection Es as Ek _. exfalso. apply Hne. exact Ek.
    - cbn [app] in Es. injection Es as <- _. eexists. reflexivity. }
  destruct Hcs as (X' & ->). cbn [Trie.walk list_eqb]. rewrite Hneq. reflexivity.
Qed.

Theorem build_then_match m r vals ts caps vs tts restP tcaps tvs meth ws :
  map_distinct m -> In r (m_rules m) ->
  segs_built (r_defaults r) vals (r_segs r) ts caps vs ->
  tail_built (r_defaults r) vals (is_branch r) (r_tail r) tts restP tcaps tvs ->
  rmethod_ok r meth = true -> r_websocket r = ws ->
  exists path, build_rule r vals = BOk ([], path)
    /\ matcher_run m (trie_of m) [] (path_part (unquote path)) meth ws = MOk rule rres r (vs ++ tvs).
Proof.
  intros [Hshape Hdist] Hin Hsb Htb Hm Hw.
  destruct (Hshape r Hin) as (Hdom & k & rest & Hsegs & Hkne).
  destruct (rule_build_walk r vals ts caps vs tts restP tcaps tvs k rest Hdom Hsegs Hsb Htb) as [(path & Hb & Hu) Hparts (wcaps & Hwalk & Hconv)].
  exists path. split; [exact Hb|]. rewrite Hu.
  set (D := SLASH :: join_slash (ts ++ tts) ++ (if is_branch r then [SLASH] else [])) in *.
  assert (Hts : exists ts1, ts = k :: ts1).
  { rewrite Hsegs in Hsb. inversion Hsb as [|s t c v l ts' cl vl Hs Hl]; subst. inversion Hs; subst. eauto. }
  destruct Hts as (ts1 & ->).
  assert (Hadm : admits m r ([] :: split_slash (path_part D)) = ADirect rres (vs ++ tvs)).
  { rewrite Hparts. unfold admits, Trie.admits, Trie.convert_adm. rewrite Hwalk, Hconv. reflexivity. }
  assert (Hother : forall r', In r' (m_rules m) -> admits m r' ([] :: split_slash (path_part D)) <> ANo rres -> r' = r).
  { intros r' Hin' Hne. apply Hdist; try assumption. destruct (Hshape r' Hin') as (Hdom' & k' & rest' & Hsegs' & Hkne').
    unfold first_lit. rewrite Hsegs, Hsegs'. f_equal.
    destruct (list_eq_dec N.eq_dec k' k) as [E|E]; [exact E|]. exfalso. apply Hne. rewrite Hparts. cbn [app].
    exact (other_first_literal m r' k' rest' k _ Hdom' Hsegs' Hkne' E). }
  assert (Hserves : serves m meth ws r ([] :: split_slash (path_part D))).
  { split; [rewrite Hadm; discriminate|split; assumption]. }
  destruct (matcher_first_pass m [] (path_part D) meth ws r Hin Hserves) as [(r1 & v1 & E)|(E & r2 & Hin2 & Ha2)].
  - rewrite E. destruct (matcher_ok_sound _ _ _ _ _ _ _ E) as (Hin1 & Ha1 & _ & _).
    assert (r1 = r) by (apply Hother; [exact Hin1|intro Hc; pose proof (eq_trans (eq_sym Hc) Ha1) as Hd; discriminate Hd]). subst r1.
    pose proof (eq_trans (eq_sym Hadm) Ha1) as Hd. injection Hd as <-. reflexivity.
  - assert (r2 = r) by (apply Hother; [exact Hin2|intro Hc; pose proof (eq_trans (eq_sym Hc) Ha2) as Hd; discriminate Hd]). subst r2.
    pose proof (eq_trans (eq_sym Hadm) Ha2) as Hd. discriminate Hd.
Qed.

(* ------------------------------------------------------------------ canonical values of the other converters *)
Definition plain_char (c : N) : bool := is_ascii_digit c || (c =? MINUS) || is_lower_hex c.
Lemma plain_chars_ok s : forallb plain_char s = true -> ascii s = true /\ mem PERCENT s = false.
Proof.
  induction s as [|c s IH]; [split; reflexivity|]. cbn [forallb]. intro H. apply andb_prop in H. destruct H as [Hc Hs].
  destruct (IH Hs) as [I1 I2]. unfold ascii in *. cbn [forallb]. rewrite I1, mem_cons, I2.
  unfold plain_char, is_ascii_digit, is_lower_hex, is_digit, MINUS, PERCENT in *. split.
  - rewrite andb_true_r. apply N.ltb_lt. lia.
  - rewrite orb_false_r. apply N.eqb_neq. lia.
Qed.

Lemma dec_plain n : forallb plain_char (dec_of_N n) = true.
Proof.
  unfold dec_of_N. eapply forallb_impl; [|apply uint_digits_ascii]. intros c Hc. unfold plain_char. rewrite Hc. reflexivity.
Qed.
Lemma print_int_plain z : forallb plain_char (print_int z) = true.
Proof. destruct z; cbn [print_int forallb]; apply dec_plain. Qed.
Lemma repeat_plain k : forallb plain_char (repeat 48 k) = true.
Proof. induction k; [reflexivity|]. cbn [repeat forallb]. rewrite IHk. reflexivity. Qed.
Lemma zfill_plain s w : forallb plain_char s = true -> forallb plain_char (zfill s w) = true.
Proof.
  intro H. unfold zfill. destruct s as [|c r].
  - apply repeat_plain.
  - cbn [forallb] in H. apply andb_prop in H. destruct H as [Hc Hr].
    destruct ((c =? MINUS) || (c =? 43)); cbn [forallb]; rewrite ?forallb_app, ?repeat_plain; cbn [forallb]; rewrite ?Hc, ?Hr; reflexivity.
Qed.

Lemma canon_int fixed mn mx sg z :
  int_domain fixed mn mx sg z = true ->
  exists t, canon (CInt fixed mn mx sg) (VInt z) t /\ no_slash t = true.
Proof.
  intro Hd. destruct (int_roundtrip _ _ _ _ _ Hd) as (u & Hu & Hl & Hp).
  assert (Hplain : forallb plain_char u = true).
  { unfold to_url in Hu. cbn [is_raw_float] in Hu. injection Hu as <-.
    destruct (fixed =? 0); [apply print_int_plain|apply zfill_plain, print_int_plain]. }
  destruct (plain_chars_ok _ Hplain) as [Ha Hnp]. rewrite (unquote_plain _ Hnp) in Hl, Hp.
  exists u. split; [apply roundtrip_plain_canon; assumption|].
  unfold no_slash. eapply forallb_impl; [|exact Hplain]. intros c Hc.
  unfold plain_char, is_ascii_digit, is_lower_hex, is_digit, MINUS, SLASH in *. apply negb_true_iff, N.eqb_neq. lia.
Qed.

Lemma canon_uuid h : uuid_hex h = true -> canon CUuid (VUuid h) (dashed h) /\ no_slash (dashed h) = true.
Proof.
  intro Hh. destruct (uuid_roundtrip _ Hh) as (u & Hu & Hl & Hp).
  unfold to_url in Hu. cbn [is_raw_float] in Hu. injection Hu as <-.
  assert (Hplain : forallb plain_char (dashed h) = true).
  { unfold uuid_hex in Hh. apply andb_prop in Hh. destruct Hh as [_ Hhex].
    assert (Hp' : forall l, forallb is_lower_hex l = true -> forallb plain_char l = true).
    { intros l. apply forallb_impl. intros c Hc. unfold plain_char. rewrite Hc. apply orb_true_r. }
    unfold dashed. repeat (rewrite forallb_app || cbn [forallb]).
    rewrite !Hp' by (repeat (apply forallb_firstn || apply forallb_skipn); exact Hhex). reflexivity. }
  destruct (plain_chars_ok _ Hplain) as [Ha Hnp]. rewrite (unquote_plain _ Hnp) in Hl, Hp.
  split; [apply roundtrip_plain_canon; try assumption; reflexivity|].
  unfold no_slash. eapply forallb_impl; [|exact Hplain]. intros c Hc.
  unfold plain_char, is_ascii_digit, is_lower_hex, is_digit, MINUS, SLASH in *. apply negb_true_iff, N.eqb_neq. lia.
Qed.

(* ------------------------------------------------------------------ an instance: Map([Rule('/users/<int:id>/x-<string:n>'), Rule('/all/')]) *)
Definition USERS : str := [117; 115; 101; 114; 115].
Definition ex_users : rule :=
  {| r_idx := 0; r_endpoint := 0; r_dom := SLit [];
     r_segs := [SLit USERS; SDyn [] (CInt 0 None None false) [105; 100] []; SDyn [120; 45] (CStr None 1 None) [110] []];
     r_tail := None; r_branch := false; r_methods := None; r_strict_opt := None; r_merge_opt := None;
     r_websocket := false; r_alias := false; r_defaults := [] |}.
Definition ex_all2 : rule :=
  {| r_idx := 1; r_endpoint := 1; r_dom := SLit []; r_segs := [SLit [97; 108; 108]]; r_tail := None; r_branch := true;
     r_methods := None; r_strict_opt := None; r_merge_opt := None; r_websocket := false; r_alias := false; r_defaults := [] |}.
Definition ex_map4 : rmap :=
  {| m_rules := [ex_users; ex_all2]; m_strict := true; m_merge := true; m_redirect_defaults := true; m_host_matching := false |}.
Definition ex_vals : list (str * value) := [([105; 100], VInt 42); ([110], VStr [233; 32; 37])].

Lemma ex_map4_distinct : map_distinct ex_map4.
Proof.
  split.
  - intros r [<-|[<-|[]]]; (split; [reflexivity|]); eexists; eexists; (split; [reflexivity|discriminate]).
  - intros r1 r2 [<-|[<-|[]]] [<-|[<-|[]]] H; try reflexivity; discriminate H.
Qed.

Lemma ex_segs_built :
  exists ts caps vs, segs_built (r_defaults ex_users) ex_vals (r_segs ex_users) ts caps vs
    /\ vs = [([105; 100], VInt 42); ([110], VStr [233; 32; 37])].
Proof.
  destruct (canon_int 0 None None false 42%Z eq_refl) as (t & Hc & Hns).
  exists [USERS; [] ++ t ++ []; [120; 45] ++ [233; 32; 37] ++ []], ([] ++ [t] ++ [[233; 32; 37]] ++ []),
         ([] ++ [([105; 100], reval (VInt 42))] ++ [([110], reval (VStr [233; 32; 37]))] ++ []).
  split; [|reflexivity].
  constructor; [constructor; [split; reflexivity|discriminate]|].
  constructor; [eapply sb_dyn; try reflexivity; try (split; reflexivity); assumption|].
  constructor; [|constructor].
  eapply sb_dyn; try reflexivity; try (split; reflexivity). apply canon_text; reflexivity.
Qed.

Lemma ex_build_match :
  build_rule ex_users ex_vals = BOk ([], [47] ++ USERS ++ [47; 52; 50; 47; 120; 45; 37; 67; 51; 37; 65; 57; 37; 50; 48; 37; 50; 53])
  /\ matcher_run ex_map4 (trie_of ex_map4) []
       (path_part (unquote ([47] ++ USERS ++ [47; 52; 50; 47; 120; 45; 37; 67; 51; 37; 65; 57; 37; 50; 48; 37; 50; 53]))) GET false
     = MOk rule rres ex_users [([105; 100], VInt 42); ([110], VStr [233; 32; 37])].
Proof. split; vm_compute; reflexivity. Qed.

(* ------------------------------------------------------------------ conversely: rebuilding from the matched values *)
Definition seg_names (s : seg) : list str := map fst (seg_convs s).
Definition not_float (v : value) : Prop := match v with VFloat _ | VFloatRaw _ => False | _ => True end.
Lemma not_float_reval v : not_float (reval v) -> reval v = v.
Proof. destruct v; cbn [reval not_float]; intro H; try reflexivity; contradiction. Qed.

Lemma dict_get_app_l k (a b : list (str * value)) v : dict_get k a = Some v -> dict_get k (a ++ b) = Some v.
Proof.
  induction a as [|[k0 v0] a IH]; cbn [dict_get app]; [discriminate|]. destruct (list_eqb k0 k); [auto|exact IH].
Qed.
Lemma dict_get_app_r k (a b : list (str * value)) : dict_get k a = None -> dict_get k (a ++ b) = dict_get k b.
Proof.
  induction a as [|[k0 v0] a IH]; cbn [dict_get app]; [reflexivity|]. destruct (list_eqb k0 k); [discriminate|exact IH].
Qed.

Lemma seg_built_keys defs vals s t caps vs : seg_built defs vals s t caps vs -> map fst vs = seg_names s.
Proof. intros [|]; reflexivity. Qed.
Lemma segs_built_keys defs vals l ts caps vs : segs_built defs vals l ts caps vs -> map fst vs = flat_map seg_names l.
Proof.
  intro H. induction H as [|s t c v l ts cl vl Hs Hl IH]; [reflexivity|].
  rewrite map_app, (seg_built_keys _ _ _ _ _ _ Hs), IH. reflexivity.
Qed.

Lemma dict_get_none_keys k (d : list (str * value)) : ~ In k (map fst d) -> dict_get k d = None.
Proof.
  induction d as [|[k0 v0] d IH]; [reflexivity|]. cbn [map fst dict_get]. intro H.
  destruct (list_eqb k0 k) eqn:E; [apply list_eqb_eq in E; subst; exfalso; apply H; left; reflexivity|].
  apply IH. intro Hin. apply H. right. exact Hin.
Qed.

Lemma nodup_app_r {A} (a b : list A) : NoDup (a ++ b) -> NoDup b.
Proof. induction a as [|x a IH]; [auto|]. cbn [app]. intro H. inversion H; subst. auto. Qed.
Lemma nodup_app_disjoint {A} (a b : list A) : NoDup (a ++ b) -> forall n, In n a -> In n b -> False.
Proof.
  induction a as [|x a IH]; [intros _ n []|]. cbn [app]. intro H. inversion H as [|? ? Hx Hnd]; subst.
  intros n [->|Hin] Hb; [apply Hx; apply in_or_app; right; exact Hb|exact (IH Hnd n Hin Hb)].
Qed.

(* the matched values bind every variable of the segments to the value it was built from *)
Lemma segs_built_rebuild defs vals l ts caps vs extra :
  segs_built defs vals l ts caps vs -> NoDup (flat_map seg_names l) ->
  Forall (fun kv => not_float (snd kv)) vs ->
  build_segs defs (vs ++ extra) l = build_segs defs vals l.
Proof.
  intro H. revert extra. induction H as [|s t c v l ts cl vl Hs Hl IH]; intros extra Hnd Hnf; [reflexivity|].
  cbn [flat_map] in Hnd. pose proof (nodup_app_r _ _ Hnd) as Hnd2.
  apply Forall_app in Hnf. destruct Hnf as [Hnf1 Hnf2].
  cbn [build_segs]. rewrite <- app_assoc.
  assert (Hseg : build_seg defs (v ++ vl ++ extra) s = build_seg defs vals s).
  { inversion Hs as [k Hk Hne|pre c0 name post v0 tv Hp1 Hp2 Hiso Hd Hg Hc Hns]; subst; [reflexivity|].
    cbn [build_seg app dict_get]. rewrite Hd, list_eqb_refl, Hg.
    inversion Hnf1 as [|? ? Hv _]; subst. cbn [snd] in Hv. rewrite (not_float_reval _ Hv). reflexivity. }
  rewrite Hseg. destruct (build_seg defs vals s) as [u| |]; cbn [bbind]; try reflexivity.
  assert (Hrest : build_segs defs (v ++ vl ++ extra) l = build_segs defs vals l).
  { (* the bindings of this segment do not shadow the later variables *)
    rewrite <- (IH extra Hnd2 Hnf2).
    assert (Hext : forall l0, (forall n, In n (flat_map seg_names l0) -> ~ In n (map fst v)) ->
                     build_segs defs (v ++ vl ++ extra) l0 = build_segs defs (vl ++ extra) l0).
    { induction l0 as [|s0 l0 IH0]; intro Hdis; [reflexivity|]. cbn [build_segs].
      assert (Hs0 : build_seg defs (v ++ vl ++ extra) s0 = build_seg defs (vl ++ extra) s0).
      { destruct s0 as [k0|pre0 c0 n0 post0]; [reflexivity|]. cbn [build_seg].
        rewrite (dict_get_app_r n0 v (vl ++ extra)); [reflexivity|]. apply dict_get_none_keys. apply Hdis. cbn [flat_map seg_names seg_convs map fst app]. left. reflexivity. }
      rewrite Hs0, IH0; [reflexivity|]. intros n Hn. apply Hdis. cbn [flat_map]. apply in_or_app. right. exact Hn. }
    apply Hext. intros n Hn Hin. rewrite (seg_built_keys _ _ _ _ _ _ Hs) in Hin.
    exact (nodup_app_disjoint _ _ Hnd n Hin Hn). }
  rewrite Hrest. reflexivity.
Qed.

Lemma build_segs_app_eq defs vals l1 l2 :
  build_segs defs vals (l1 ++ l2)
  = bbind (build_segs defs vals l1) (fun us1 => bbind (build_segs defs vals l2) (fun us2 => BOk (us1 ++ us2))).
Proof.
  induction l1 as [|s l1 IH]; cbn [app build_segs bbind].
  - destruct (build_segs defs vals l2); reflexivity.
  - destruct (build_seg defs vals s) as [u| |]; cbn [bbind]; try reflexivity. rewrite IH.
    destruct (build_segs defs vals l1) as [us1| |]; cbn [bbind]; try reflexivity.
    destruct (build_segs defs vals l2) as [us2| |]; reflexivity.
Qed.

Lemma nodup_app_l {A} (a b : list A) : NoDup (a ++ b) -> NoDup a.
Proof.
  induction a as [|x a IH]; [constructor|]. cbn [app]. intro H. inversion H as [|? ? Hx Hnd]; subst.
  constructor; [intro Hin; apply Hx; apply in_or_app; left; exact Hin|exact (IH Hnd)].
Qed.

(* the URL built from the values the matcher returned is the URL that was built (and matched) *)
Theorem rebuild_from_match r vals ts caps vs tts restP tcaps tvs :
  r_dom r = SLit [] ->
  segs_built (r_defaults r) vals (r_segs r) ts caps vs ->
  tail_built (r_defaults r) vals (is_branch r) (r_tail r) tts restP tcaps tvs ->
  NoDup (flat_map seg_names (r_segs r) ++ match r_tail r with Some n => [n] | None => [] end) ->
  Forall (fun kv => not_float (snd kv)) vs ->
  build_rule r (vs ++ tvs) = build_rule r vals.
Proof.
  intros Hdom Hsb Htb Hnd Hnf. unfold build_rule. rewrite Hdom. cbn [build_seg bbind].
  assert (Hsegs : build_segs (r_defaults r) (vs ++ tvs) (r_segs r) = build_segs (r_defaults r) vals (r_segs r)).
  { apply (segs_built_rebuild _ _ _ _ _ _ tvs Hsb); [exact (nodup_app_l _ _ Hnd)|exact Hnf]. }
  assert (Htail : build_segs (r_defaults r) (vs ++ tvs) (match r_tail r with Some n => [SDyn [] CPath n []] | None => [] end)
                  = build_segs (r_defaults r) vals (match r_tail r with Some n => [SDyn [] CPath n []] | None => [] end)).
  { inversion Htb as [Ht Hrp|n tp Hd Hg Hv Hl He Ht Hrp]; subst; [reflexivity|].
    cbn [build_segs build_seg]. rewrite Hd, Hg.
    rewrite dict_get_app_r.
    - cbn [dict_get]. rewrite list_eqb_refl. reflexivity.
    - apply dict_get_none_keys. rewrite (segs_built_keys _ _ _ _ _ _ Hsb). intro Hin.
      rewrite <- Ht in Hnd. exact (nodup_app_disjoint _ _ Hnd n Hin (or_introl eq_refl)). }
  rewrite !build_segs_app_eq, Hsegs, Htail. reflexivity.
Qed.

(* the statement of the property: in a map of distinct first literals, the URL built for r from canonical
   values is matched by r, and the URL built from what the match returned is that same URL *)
Theorem build_match_build m r vals ts caps vs tts restP tcaps tvs meth ws :
  map_distinct m -> In r (m_rules m) ->
  segs_built (r_defaults r) vals (r_segs r) ts caps vs ->
  tail_built (r_defaults r) vals (is_branch r) (r_tail r) tts restP tcaps tvs ->
  NoDup (flat_map seg_names (r_segs r) ++ match r_tail r with Some n => [n] | None => [] end) ->
  Forall (fun kv => not_float (snd kv)) vs ->
  rmethod_ok r meth = true -> r_websocket r = ws ->
  exists path,
    build_rule r vals = BOk ([], path)
    /\ matcher_run m (trie_of m) [] (path_part (unquote path)) meth ws = MOk rule rres r (vs ++ tvs)
    /\ build_rule r (vs ++ tvs) = BOk ([], path).
Proof.
  intros Hmd Hin Hsb Htb Hnd Hnf Hm Hw.
  destruct (build_then_match m r vals ts caps vs tts restP tcaps tvs meth ws Hmd Hin Hsb Htb Hm Hw) as (path & Hb & Hmatch).
  exists path. split; [exact Hb|]. split; [exact Hmatch|].
  destruct Hmd as [Hshape _]. destruct (Hshape r Hin) as (Hdom & _).
  rewrite (rebuild_from_match r vals ts caps vs tts restP tcaps tvs Hdom Hsb Htb Hnd Hnf). exact Hb.
Qed.
